from vlib.core import Check, Family
from vlib.c08 import lockgraph_step
from vlib.genidx import genidx_step   # tie A: the index / hyperslab / util-fn functions regenerated as Lean and proved equal to the hand-written model (gen_eq_*, OW/Props/GenTieIndex.lean; table TIES in vlib/genidx.py)

CHECK = Check(
    "C08",
    props_modules=["OW.Props.C08", "OW.Props.C08Seq", "OW.Props.C08Slice", "OW.Props.C08Persist"],
    pre_steps=[lockgraph_step, genidx_step],
    families=[
        Family("H5U"),   # sliceSize / makeHyperslab through io/verif_export.go, exact integer comparison
        Family("H5"),    # programs of Create / Write / WriteSlice / Load(selection) / Exists … on the real package io
    ],
    level="proof",
    trusted=[
        "libhdf5 and the gonum wrapper are MODELLED, not run: /verif/harness/hdf5stub (pure Go, written from the HDF5 "
        "reference manual and the gonum source in the module cache) stands for the library under the real package io, and "
        "the `Selection / selectHyperslab / linear / h5read / h5write` definitions of OW/Sim/H5.lean state the same "
        "semantics as the specification the theorems are about (regular hyperslab offset+k*stride+b, row-major traversal, "
        "equal element counts, selections within the extents, memory type = dataset type); the two are compared on every "
        "run through the H5 correspondence",
        "hand-written Lean model OW/Sim/H5.lean of io/hdf5.go (= io/gen-hdf5.go), io/hdf5_util.go, conv/slices.go, tied to "
        "the code by the H5U and H5 correspondences (exact comparison of every result, error class, panic class and of the "
        "final file contents read back through the library model, 8 element types, 5 source layouts)",
        "n-d array model OW/Nd (C01/C02; `unroll_spec` of OW/Props/C02.lean is used by write_load_roundtrip and "
        "writeSlice_footprint)",
        "lock discipline: harness/cmd/owlockgraph (go/parser + go/ast, conservative: unknown receiver ⇒ every method of "
        "that name, unknown call ⇒ mutating) is trusted to list every function, library call and call edge of package io — "
        "a function literal handed directly to a package function whose parameter is call-only (`lock…(); defer unlock…(); "
        "body()` helpers, any name) is a node called BY that function (it inherits the helper's lock, nothing from where it is "
        "written); any other literal (stored, handed on, started with go) and every `go f()` is an entry point without a lock; "
        "sync.RWMutex is trusted (a function that starts with lockHDF5/rLockHDF5 and defers the release holds the lock "
        "exclusively/shared during its whole body); dynamic cross-check: the library model's Hook asserts through "
        "io.VerifLockState (TryLock/TryRLock) that the lock is held at every library call of every H5 case, with "
        "concurrent callers in the thorough tier",
        "lock discipline, what the check does NOT exclude (liveness, outside the stated safety clause): lockCheck accepts a "
        "function that holds the shared lock and calls a function that takes the exclusive lock (and exclusive->exclusive, "
        "shared->shared) — with Go's non-reentrant sync.RWMutex that is a self-deadlock; witness: last example of "
        "OW/Props/C08Seq.lean (lockCheck [R shared -> W exclusive] = true). No function of the current package io nests "
        "lock-taking functions (Exists takes no lock and calls the shared-lock listers one after the other)",
        "lock discipline, scope: the graph is package io only. `hdf5.DisplayErrors(false)` in cmd/ow-sim/main.go:33 is a "
        "library call made outside package io without the package lock; it is the second statement of main(), before any "
        "goroutine is started (single-threaded at that point), and is not in the lock graph",
        "Go int as Int (no overflow), uint(x) for -2^63 <= x < 2^63; element values of the correspondence are small "
        "non-negative integers representable in all 8 element types",
    ],
    assumptions=[
        "load_selection: one selection entry per dimension, each nil or [start, stop, step] with start >= 0, step >= 1 "
        "(any stop); datasets hold as many elements as their shape says (WF; proved to be kept by EVERY outcome of every "
        "operation: write/writeSlice/create_preserves_WF, and along every sequence of calls from no file or a well-formed "
        "file: ops_preserve_WF, ops_trace — so WF is a hypothesis on the INITIAL file only)",
        "extents >= 1 for the SOURCE views of write_load_roundtrip / writeSlice_footprint (Reach => Pos: every extent of a "
        "reachable view is >= 1). Sources with a zero extent (ow-sim makes data.NewArray3DFloat64(0,0,0) for models without "
        "inputs, simulation_model_reference.go:167) are covered by separate theorems about the model: "
        "write_empty_panics (Write of NewArray(dims) with a 0 extent panics index-out-of-range at data.Get(NewIndex(0)), "
        "after the file was opened/created, before any dataset is touched), writeSlice_empty_noop (WriteSlice of any source "
        "with a 0 extent whose Unroll() returns: block contains 0 -> library selects nothing -> nil, file exactly as "
        "before). The model is tied to the Go code for these sources by the H5 correspondence: about 6% of the programs "
        "(fam_h5.go zeroOps, stats key zero_extent_source; 5 fixed corpus programs) draw a source with an extent 0 — a fresh "
        "root without elements, or a zero-wide slice of a non-empty root (unit or stepped, also at one past the end), rank "
        "1-3, one / two / all extents 0 — and use it in WriteSlice and Write against a dataset of that rank (also of another "
        "rank, with loc outside / negative / of the wrong rank); result, panic class, halting and the final file are compared "
        "exactly, and the reference oracle treats a Write that panics as having written nothing and such a WriteSlice as a "
        "no-op. Observed on both sides (not covered by a theorem): Write of a zero-wide SLICE reads Impl[Start], which "
        "usually exists, and goes on to the shape check / creates an empty dataset; Unroll() of a zero-wide view that "
        "Contiguous() accepts and that is stepped, or narrower than its root in a later dimension, evaluates Impl[s:e+1] "
        "with e+1 < s and panics inside WriteSlice, file unchanged (hypothesis `hu` of writeSlice_empty_noop excludes "
        "it). DATASET shapes with a zero extent (Create [count,0,0]) are inside create_new (0 <= x), "
        "inside load_selection, and ARE drawn by the correspondence",
        "write_load_roundtrip / writeSlice_footprint: the source view is reachable by in-bounds slicing of a root array "
        "(Reach) on a well-windowed storage (ArrOK); Write returned nil; the block lies inside the dataset (a block outside "
        "is refused by the library and WriteSlice swallows that error: outside the stated property, modelled and compared)",
        "element types float64, float32, int32, uint32, int64, uint64 (narrow = false); int / uint: known finding "
        "KF-C08-int-width (the model mirrors it, witness narrow_roundtrip_loses_elements)",
        "sliceSize is the code as repaired by /verif/fixes/h5_slicesize_ceil.diff (fix commit 6552b9c; "
        "sliceSizeFloor_drops_last is the proved counter-example for the code before the repair, replay "
        "/verif/replays/known/C08-6552b9c.json); rank-0 shapes, negative extents, compress=true and datasets "
        "above 2^40 bytes are outside the model",
    ],
    partial=[
        "ops_trace gives per-position statements (WF after every prefix, OpSpec T2-T5' for the call at every position). The "
        "composition across a history is NOW PROVED (OW/Props/C08Persist.lean, frame lemmas for EVERY outcome of every call in "
        "OW/Proofs/C08Frame.lean): stored_object_persists (an object at path r is unchanged by any sequence of Write / "
        "WriteSlice / Create / Load calls, arbitrary arguments and outcomes, none of which names r), load_across, "
        "write_then_load_across (T3 across intervening calls on other paths), writeSlice_then_load_across (T4 likewise). "
        "Whole histories with any number of writers to one path: history_last_write_wins (pre ++ Write :: post, Write returned "
        "nil, post names other paths => the final Load returns that view) and history_last_writeSlice (the last WriteSlice "
        "replaces exactly its block of what the history before it left). Several WriteSlice calls to ONE dataset, blocks "
        "overlapping in any way: writeSlices_last_block_wins (every element is that of the LAST request whose block covers its "
        "coordinate, else the original; shape and length kept, file well-formed). Write then any number of WriteSlice calls "
        "to the same path: write_then_writeSlices. Not stated as one closed form: arbitrary mixed histories on one path with "
        "calls on other paths interleaved BETWEEN the WriteSlice calls (compose stored_object_persists with the above by hand)",
        "load_selection_eq_nd_slice (Load with a selection = OW/Nd Slice(starts, counts, steps) of the loaded full array, "
        "read in row-major order) needs every extent of the dataset >= 1 and a selection that picks AT LEAST ONE index in "
        "every dimension; a selection that is empty in some dimension (stop <= start, start beyond the extent) returns an "
        "array with a zero extent — covered by load_selection in the file model's words, but not a Reach-able view of "
        "OW/Nd, so no Nd.slice statement for it",
    ],
)

META = dict(
    category="proof",
    text="Lean 4 theorems over a hand-written model of package io on an abstract HDF5 file and a specification of the "
         "library: sliceSize counts exactly the indices start+k*step < min(stop, extent) (repaired ceil version; proved "
         "counter-example for the checked-in floor version); Load with a per-dimension [start,stop,step]/nil selection "
         "returns exactly the row-major gather of the full array at those indices; Write then Load returns the shape and "
         "the row-major elements of ANY reachable source view (uses C02 unroll_spec); WriteSlice changes exactly the block "
         "loc+[0,shape) and nothing else in the file; Create on an existing dataset leaves the file unchanged and refuses "
         "a different shape; a new dataset reads as zeros; every outcome of every operation keeps the file well-formed and "
         "ONE trace theorem over lists of operations (ops_trace: WF after every prefix, the per-operation statements at every "
         "position); Load with a selection = the OW/Nd Slice of the loaded full array (load_selection_eq_nd_slice); sources "
         "with a zero extent: Write panics, WriteSlice is a no-op; a lock-discipline checker over call graphs is proved sound for all graphs and evaluated by the "
         "kernel on the call graph REGENERATED from io/*.go on every run. Model tied to the real code on every run "
         "(sliceSize/makeHyperslab enumerated; random programs of io calls over 8 element types and 5 source layouts against "
         "a pure-Go model of libhdf5, lock state asserted at every library call, concurrent callers in thorough).",
    design_ref="DESIGN.md §6 C08",
    note="libhdf5 + gonum are MODELLED by /verif/harness/hdf5stub (no libhdf5 in the sandbox) and by the hyperslab/transfer "
         "specification in OW/Sim/H5.lean; sync.RWMutex trusted; the go/ast extractor of the lock graph trusted "
         "(conservative); Lean kernel + propext/Classical.choice/Quot.sound. Known finding KF-C08-int-width (H5RefInt/"
         "H5RefUint lose half of every array, as derived from the gonum source). Defect found and repaired: sliceSize "
         "dropped the last element of a stepped selection when (stop-start) mod step != 0 (fix 6552b9c).",
    technique="Lean 4 proofs (induction over dimensions/lists, omega/linarith) + regenerated facts (go/ast call graph, "
              "kernel-evaluated checker) + differential correspondence model vs real code with a dynamic lock monitor + model regenerated from the Go source on every run by a translator (gen_eq_* theorems tie it to the hand-written model)",
)
READY = True
