import glob
import os
import re
from fractions import Fraction

from vlib.core import Check, Family
from vlib.core import REPO, LEAN
from vlib.gentie import gentie_step


def unit_constants(check, ctx):
    """Soft tie A: the constants of conv/units and conv/rough, evaluated exactly like Go constant expressions (rational
    arithmetic, rounded once to float64), next to the literals of OW/Kernels/C16/Units.lean. Recorded in the evidence;
    never fails the check by itself (a wrong constant shows up as a bit-exact correspondence mismatch / oracle failure)."""
    go = {}
    exprs = {}
    files = sorted(glob.glob(os.path.join(REPO, "conv", "units", "*.go"))) + sorted(glob.glob(os.path.join(REPO, "conv", "rough", "*.go")))
    pending = []
    for f in files:
        src = re.sub(r"//.*", "", open(f).read())
        for m in re.finditer(r"^\s*([A-Z][A-Z0-9_]*)\s*=\s*(.+?)\s*$", src, flags=re.M):
            pending.append((m.group(1), m.group(2)))
    for _ in range(4):   # constants may refer to constants of other files
        for name, expr in pending:
            if name in go:
                continue
            py = re.sub(r"(?<![\w.])(\d+\.?\d*(?:[eE][-+]?\d+)?)", r"Fraction('\1')", expr)
            try:
                go[name] = Fraction(eval(py, {"Fraction": Fraction, "__builtins__": {}}, dict(go)))
                exprs[name] = expr
            except Exception:
                pass
    lean = {}
    src = open(os.path.join(LEAN, "OW", "Kernels", "C16", "Units.lean")).read()
    for m in re.finditer(r"/-- `(?:rough\.)?([A-Z][A-Z0-9_]*) = .*?-/\s*def (\w+) .*?:= ([0-9.]+)", src, flags=re.S):
        lean[m.group(1)] = (m.group(2), m.group(3))
    table = {}
    for name, (lname, lit) in sorted(lean.items()):
        g = go.get(name)
        table[name] = {"go_expr": exprs.get(name), "go_value": float(g) if g is not None else None,
                       "lean_def": lname, "lean_literal": lit,
                       "same_float64": (g is not None and float(g) == float(Fraction(lit)))}
    ctx["info"]["unit_constants"] = table
    ctx["info"]["unit_constants_all_match"] = all(v["same_float64"] for v in table.values())
    return []

EXACT = ("ApplyScalingFactor,DeliveryRatio,DepthToRate,FixedPartition,VariablePartition,RatingCurvePartition,"
         "Input,Sum,Gate,ComputeProportion,BaseflowFilter,PartitionDemand,"
         "EmcDwc,FixedConcentration,PassLoadIfFlow,SednetDissolvedNutrientGeneration,"
         "SednetParticulateNutrientGeneration,DynamicSednetGullyAlt")
POW = "BankErosion,USLEFineSedimentGeneration,DynamicSednetGully"   # math.Pow / math.Cos

CHECK = Check(
    "C16",
    props_modules=["OW.Props.C16.Conversion", "OW.Props.C16.Partition", "OW.Props.C16.LoadGen",
                   "OW.Props.C16.Sediment", "OW.Props.C16.Usle", "OW.Props.Rounded.C16", "OW.Props.Rounded.C16Sediment"],
    extra_lake_targets=["OW.Props.C16"],
    pre_steps=[gentie_step, unit_constants],
    families=[
        Family("K", rtol=None, args=["models=" + EXACT, "prop=C16", "n=300"], label="K-exact"),
        Family("K", rtol=1e-9, atol_scale=1e-12, args=["models=" + POW, "prop=C16", "n=400"], label="K-tol"),
    ],
    level="proof",
    trusted=[
        "OW.Props.Rounded.C16: the INEQUALITY clauses are also proved over rounded arithmetic — the same kernel definitions instantiated at RNum R (OW/Proofs/Rounded.lean: every operation = exact real result followed by a rounding R.rnd that is monotone, odd, idempotent and fixes 0; literals rounded once; min/max/comparisons exact), for EVERY such R. Interpretation (not a Lean term): IEEE-754 binary64 round-to-nearest (or toward zero) on computations without overflow/NaN is one such R; math.Pow/Exp/Log are idealised as correctly rounded (only their sign / range is used). Two concrete non-identity instances (grid truncation, grid rounding away from zero) are constructed as witnesses",
        "hand-written Lean models OW/Kernels/C16/*.lean of models/conversion/*.go, models/functions/*.go (except dates.go) "
        "and models/generation/*.go, tied to the code on every run by the K correspondence: the real generated wrapper + "
        "kernel of each catalogued model run on one cell vs the compiled model, bit-exact for the 18 arithmetic-only "
        "kernels, 1e-9 relative for the 3 kernels that call math.Pow/math.Cos",
        "theorems are about exact real arithmetic (Num ℝ); IEEE rounding, overflow and NaN are covered by execution only",
        "the Lean model of util/fn Piecewise (OW/Util/Piecewise.lean, owned by C18) used by RatingCurvePartition",
        "generated wrappers hand each kernel freshly allocated zero-initialised outputs (early-return branches rely on it; "
        "the correspondence runs go through the real wrappers)",
        "oracle for the failing-input search: the identities recomputed in Go on the implementation's outputs",
        "models/functions/baseflow.go (an anchored file) has an EMPTY kernel body: baseflowFilter's loop only sets the index, both outputs "
        "(quickflow, baseflow) stay as allocated (zero). The property text states no identity for it, so there is NO theorem about "
        "BaseflowFilter; the Lean model (OW/Kernels/C16/Conversions.lean, outputs = zeros) is tied by the bit-exact K correspondence "
        "and the regenerated tie only",
    ],
    assumptions=[
        "rounded theorems (OW.Props.Rounded.C16): 0 <= fraction <= 1 and non-negative input for the partition bounds (Rep 1 only for output2 <= input and proportion <= 1); the sum identities out1+out2 = input and the exact linear forms are exact-arithmetic only; OW.Props.Rounded.C16Sediment: BankErosion / gully / USLE non-negativity with Rep 100 and, for BankErosion, the computed fine fraction soilPercentFine*0.01 <= 1 (true in binary64 for every percentage <= 100 because fl(100*fl(0.01)) = 1.0; not a consequence of monotone rounding since fl(0.01) > 0.01)",
        "input series of one call have equal length (guaranteed by the 3-d input array)",
        "time steps and areas used as divisors are positive where a theorem divides by them — INCLUDING the zero-driver theorems "
        "(bankErosion_zero_driver, bankErosion_spec, usle_zero_driver, usle_spec, gullyOrig_zero_supply, gullyDerm_zero_supply, gully_spec): "
        "the kernels compute the zero load as 0/Δt, which is NaN in float64 (Go and the compiled model) for Δt = 0; that case is stated "
        "separately over ℝ as 'a quotient with zero numerator' (bankErosion_zero_driver_dt0, usle_zero_driver_dt0). gully_delivered needs no "
        "time-step hypothesis (it relates two outputs of one evaluation)",
        "usle_fine_fraction / usle_spec: 0 <= maxConc (for maxConc < 0 the cap branch can divide by a zero current fine mass: "
        "usle_cap_divisor_pos proves the divisors positive under the hypothesis)",
        "gullyOrig_zero_supply (and its clause in gully_spec): quickflow >= 0 (math.Pow of a negative flow with a fractional power is NaN, "
        "NaN*0 is not 0); gullyDerm_zero_supply: area > 0",
        "gully models, clause 'fine + coarse material split by the model's fine fraction': proved for years <= GullyEndYear "
        "(gully_fine_fraction, gully_spec: generatedFine + generatedCoarse = G, split pf : 1-pf). For years > GullyEndYear the code multiplies "
        "only the fine part by averageGullyActivityFactor and the clause is FALSE whenever that factor != 1: proved "
        "(gully_fine_fraction_after_end_year_counterexample, fine share 3/4 for GullyPercentFine = 60), evaluated by the Go oracle under the "
        "scopes DynamicSednetGully(Alt):fine-fraction-after-end-year and recorded as known findings KF-C16-gully-activity-factor(-alt) "
        "(printed as KNOWN-FINDING on every run); what is proved there is the code's actual split G*pf*activity : G*(1-pf)",
        "rating-curve partition: statements hold whenever the kernel returns; it returns for every input inside the "
        "table range (>= 2 rows, end points included) and panics outside it / for 0- or 1-row tables",
        "non-negativity theorems: non-negative inputs and parameters (plus KLSC_Fine <= KLSC, percentages <= 100 where used)",
    ],
    partial=[
        "gully_fine_fraction / gully_spec: the fine-fraction clause is proved only for years <= GullyEndYear; after the end year it is false "
        "for the code when averageGullyActivityFactor != 1 (gully_fine_fraction_after_end_year_counterexample; known findings "
        "KF-C16-gully-activity-factor, KF-C16-gully-activity-factor-alt)",
        "BaseflowFilter (models/functions/baseflow.go): empty kernel body, no theorem (nothing is claimed about it)",
    ],
)

META = dict(
    category="proof",
    text="Lean 4 theorems over hand-written models of the 21 partition / conversion / function / generation kernels: "
         "out1+out2 = input (fixed, variable, rating-curve for every table size, demand), extraction <= demand and <= input, "
         "outflow >= 0; identity / sum / mask / linear maps with the documented unit factors (1e-3*area/dt, mg/L->kg/m3 = 1e-3) "
         "including the early-return branches; totals = sum of parts, fine/coarse split by the fine fraction, delivered = "
         "generated x delivery ratio, zero driver => zero load, non-negative drivers => non-negative loads. Models tied to the "
         "code on every run by differential execution of the real wrappers+kernels against the compiled models.",
    design_ref="DESIGN.md §6 C16",
    note="Trusted: Lean kernel + propext/Classical.choice/Quot.sound; the K correspondence generator (zero, negative demand, "
         "table end points, outside values, single-row and empty tables, NaN proportion); exact-real reading of the identities.",
    technique="Lean 4 proof (ring/linarith over the unfolded kernels, list induction for series) + differential "
              "correspondence model vs real code + Go-side identity oracles + model regenerated from the Go source on every run by a translator (gen_eq_* theorems tie it to the hand-written model) + inequality clauses re-proved for every monotone rounding (RNum)",
)
READY = True
