from vlib.core import Check, Family
from vlib.gentie import gentie_step

ARITH = ["LumpedConstituentRouting", "InstreamCoarseSediment", "InstreamParticulateNutrient",
         "StorageTrapAll", "StorageDissolvedDecay"]              # + - * / comparisons, math.Min/Max only → bit-exact
RATE = ["ConstituentDecay", "StorageParticulateTrapping"]        # math.Pow; outputs are rates, the state is a mass
FINE = ["InstreamFineSediment"]                                  # math.Pow + math.Exp; two outputs are ratios

CHECK = Check(
    "C12",
    props_modules=["OW.Props.C12", "OW.Props.Rounded.C12"],
    families=[
        Family("K", rtol=None, label="K-exact", args=["models=" + ",".join(ARITH), "prop=C12", "n=400"]),
        # Go's math.Pow and libm's pow differ in the last bits. 1e-9 relative. Absolute floor: these two kernels end a
        # step with `store = mass − released·Δt`, which is exactly 0 in ℝ when the storage is empty and round-off
        # residue (≤ a few hundred ulp of the mass) in floating point; the line shows rates (mass/Δt, Δt ≤ 86400), so
        # the residue is up to 1e-14·86400 ≈ 1e-9 of the largest rate. Floor 1e-8 × largest value on the line
        # (60 000 thorough-size cases: 6 residue mismatches at 1e-12, none from 1e-10 upwards).
        Family("K", rtol=1e-9, atol_scale=1e-8, label="K-pow-rate", args=["models=" + ",".join(RATE), "prop=C12", "n=400"]),
        # Fine sediment: 1e-9 relative, floor 1e-12 × largest value (every line carries mass-valued outputs), on the
        # well-conditioned generator (`finegen=conditioned`, see models_constituent.go: its ratio outputs
        # deposition/mass-present are residue/residue when the mass present is pure round-off; 30 000 thorough-size
        # cases without a mismatch). The unrestricted generator (zero-load spells, residue-level stores) is run below
        # against the implementation for the oracle only.
        Family("K", rtol=1e-9, atol_scale=1e-12, label="K-pow-fine",
               args=["models=" + ",".join(FINE), "prop=C12", "n=250", "finegen=conditioned"]),
        Family("K", compare=False, label="K-fine-oracle", args=["models=" + ",".join(FINE), "prop=C12", "n=300"]),
    ],
    # tie A: the loop bodies of the arithmetic-only kernels are REGENERATED from the Go source on every run (harness/cmd/owtranslate)
    # and proved equal to the hand-written model steps (OW/Props/GenTie.lean: gen_eq_*), so the theorems are re-attached to the source
    pre_steps=[gentie_step],
    level="proof",
    trusted=[
        "OW.Props.Rounded.C12: the INEQUALITY clauses are also proved over rounded arithmetic — the same kernel definitions instantiated at RNum R (OW/Proofs/Rounded.lean: every operation = exact real result followed by a rounding R.rnd that is monotone, odd, idempotent and fixes 0; literals rounded once; min/max/comparisons exact), for EVERY such R. Interpretation (not a Lean term): IEEE-754 binary64 round-to-nearest (or toward zero) on computations without overflow/NaN is one such R; math.Pow/Exp/Log are idealised as correctly rounded (only their sign / range is used). Two concrete non-identity instances (grid truncation, grid rounding away from zero) are constructed as witnesses",
        "hand-written Lean kernel models OW/Kernels/{LumpedConstituent,ConstituentDecay,InstreamCoarseSediment,"
        "InstreamFineSediment,InstreamParticulateNutrient,StorageParticulateTrapping,StorageTrapAll,"
        "StorageDissolvedDecay}.lean, each tied to the real wrapper+kernel (sim.Catalog → Run on one cell) on every run: "
        "bit-exact for the five arithmetic-only kernels, 1e-9 relative for the three that call math.Pow/math.Exp "
        "(Go's and libm's pow/exp differ by a few ulp; absolute floor 1e-8 × largest value for the two rate-valued "
        "kernels, 1e-12 × largest value for fine sediment on the well-conditioned generator)",
        "theorems are over exact real arithmetic (Num ℝ instance); IEEE rounding, overflow and NaN propagation are "
        "covered by execution (correspondence + oracle) only",
        "ghost outputs `flushed`/`bedExchange`/`decayed` are part of the model's step record, not of the code's outputs; "
        "the oracle re-derives the in-stream store from the budget and the reported outputs instead",
        "OBSERVATION (DESIGN §0.4, not an alarm): InstreamParticulateNutrient reports loadDeposited = 0 on every flushed step "
        "(working volume < 0.01: the code `continue`s before loadDeposited.Set) although the channel store has moved by the bed "
        "exchange of that step — proved (loadDeposited_unreported_on_flush_InstreamParticulateNutrient; witness: 10 kg in the water, "
        "channelDepositionFraction 0.5, no water: channel store 0 → 5 kg, loadDeposited 0). The budget theorem is over the two "
        "STORES (it uses the ghost bedExchange, equal to loadDeposited on non-flushed steps) and closes; Σ loadDeposited "
        "reconstructs the channel store over non-flushed steps only",
        "InstreamFineSediment is modelled after the repairs fixes/fine-sediment-lumped-branch-local-mass.diff and "
        "fixes/fine-sediment-floodplain-zero-excess.diff (committed to the repository as dd8662a, 91c4d57); the two "
        "minimised pre-fix failing inputs are drawn first in every run",
    ],
    assumptions=[
        "rounded theorems (OW.Props.Rounded.C12): same sign hypotheses as the real ones; Rep 2 (the literal 2.0 exact) for the half-life block; ConstituentDecay store >= 0 and StorageParticulateTrapping trapped <= incoming / outflowLoad >= 0 are FALSE under rounding (exact side conditions stated in constituentDecay_step / trapping_step; Lean witness constituentDecay_store_negative_away; float64 witnesses on the real code: ConstituentDecay inflowLoad=8.653835818026117 outflow=66.67587506863227 storage=0 dt=86400 -> final store -2.3e-10; StorageParticulateTrapping inflowLoad=8.3746908209646 full trapping -> outflowLoad -1.3e-15) — within the oracle tolerance c12Rtol; InstreamFineSediment / InstreamParticulateNutrient not restated under rounding",
        "budget theorems: no sign hypotheses; only Δt ≠ 0 where a rate is reported as mass/Δt (ConstituentDecay, "
        "InstreamFineSediment, InstreamParticulateNutrient); StorageParticulateTrapping needs Δt ≥ 0 and non-negative "
        "store/inputs (its clip at 0 is inactive exactly then); StorageDissolvedDecay needs doStorageDecay < 0.5",
        "non-negativity theorems: non-negative loads, flows, volumes, initial in-stream stores; Δt > 0; "
        "InstreamFineSediment parameters in FineRange (non-negative flows/velocities/areas/geometry, positive "
        "settling and remobilisation velocity, width, Manning n); 0 ≤ soilPercentFine ≤ 100 and concentration ≥ 0 for "
        "InstreamParticulateNutrient",
        "StorageTrapAll carries no Δt: its budget is in the units of the inflow series (stated so, not a defect); it is stated "
        "on StorageTrapAll.model.run (budget_StorageTrapAll_model: outputs and FINAL STORE read from the model's result, for every "
        "inflow-mass series including the empty one, where the repaired code and the model return the stored mass unchanged "
        "with empty outputs)",
        "equal series lengths: the other seven models' theorems quantify over the list of per-step input TUPLES; KModel.run builds "
        "that list with zip3/zip4/zip5/zipIn, which truncate to the shortest series, where the Go kernel loops to the length of its "
        "first series and panics (index out of range) on a shorter one. The theorems therefore cover exactly the calls whose input "
        "series have one common length (OW/Proofs/C12Zip.lean: zipN_faithful, zipN_columns; zip4_truncates shows the truncation) "
        "and say nothing about unequal lengths; the generated wrapper never makes such a call (the series of a cell are rows of "
        "one [cell,input,time] array) and the K family generates equal lengths only",
        "budget_InstreamFineSediment proves non-zero exactly the three divisors its identity cancels (Δt by hypothesis; totalVolume "
        "and the lumped working volume by their branch conditions). The divisors inside floodPlainDepositionEmperical (outflow, Qf) "
        "and inChannelStorage (v·width^0.4·n^0.6) are NOT used by it: both functions are opaque values in the proof, so the identity "
        "also holds at ℝ for fineSedSettVelocity/fineSedReMobVelocity/linkWidth/manningsN = 0 (x/0 = 0 at ℝ, ±Inf/NaN in float64). "
        "outflow and Qf are positive on the dividing branch by the code's own conditions (divisors_branch_InstreamFineSediment); the "
        "transport-capacity divisor is positive only under the PARAMETER hypothesis FineRange (divisors_pos_InstreamFineSediment), "
        "which nonneg_InstreamFineSediment assumes",
    ],
    partial=[],
)

META = dict(
    category="proof",
    text="Lean 4 theorems over line-by-line kernel models (generic in the number type, proved at ℝ): for each of the "
         "eight models budget_M (initial store + Σ mass in = final store + Σ downstream·Δt + deposited/trapped/decayed/"
         "floodplain + flushed, for every input list hence every prefix, with flushed ≠ 0 only below the volume "
         "threshold), nonneg_M, remob_le_store and the channel-store capacity for fine sediment; the divisors each "
         "budget identity cancels are proved non-zero from a hypothesis or the branch condition (for fine sediment the "
         "transport-capacity divisor is positive only under the parameter range FineRange, see assumptions); "
         "StorageTrapAll is stated on model.run with the final store read from the model (empty series included); "
         "concrete fine-sediment runs reach fine:remob and fine:flood; input series of one common length (assumption); "
         "one-step lemma lifted through the scan loop by induction. The models are tied to the real code on "
         "every run by differential execution (bit-exact / 1e-9), and the budget itself is evaluated on the "
         "implementation's outputs as the failing-input search.",
    design_ref="DESIGN.md §6 C12",
    note="Trusted: Lean kernel + propext/Classical.choice/Quot.sound; the hand-written models (validated by "
         "correspondence on generated series with wet, near-empty and empty spells reaching every branch tag); real "
         "arithmetic instead of IEEE; the two fine-sediment repairs are modelled as applied.",
    technique="Lean 4 proof (one-step algebraic identity + induction through scan; generalize/linear_combination) "
              "+ differential correspondence + budget oracle on implementation outputs + model regenerated from the Go source on every run by a translator (gen_eq_* theorems tie it to the hand-written model) + inequality clauses re-proved for every monotone rounding (RNum)",
)
READY = True
