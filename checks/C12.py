from vlib.core import Check, Family

ARITH = ["LumpedConstituentRouting", "InstreamCoarseSediment", "InstreamParticulateNutrient",
         "StorageTrapAll", "StorageDissolvedDecay"]              # + - * / comparisons, math.Min/Max only → bit-exact
TRANSC = ["ConstituentDecay", "InstreamFineSediment", "StorageParticulateTrapping"]   # math.Pow / math.Exp → 1e-9

CHECK = Check(
    "C12",
    props_modules=["OW.Props.C12"],
    families=[
        Family("K", rtol=None, label="K-exact", args=["models=" + ",".join(ARITH), "prop=C12", "n=200"]),
        Family("K", rtol=1e-9, atol_scale=1e-12, label="K-pow", args=["models=" + ",".join(TRANSC), "prop=C12", "n=250"]),
    ],
    level="proof",
    trusted=[
        "hand-written Lean kernel models OW/Kernels/{LumpedConstituent,ConstituentDecay,InstreamCoarseSediment,"
        "InstreamFineSediment,InstreamParticulateNutrient,StorageParticulateTrapping,StorageTrapAll,"
        "StorageDissolvedDecay}.lean, each tied to the real wrapper+kernel (sim.Catalog → Run on one cell) on every run: "
        "bit-exact for the five arithmetic-only kernels, 1e-9 relative (1e-12 × largest value absolute) for the three "
        "that call math.Pow/math.Exp (Go's and libm's pow/exp differ by a few ulp)",
        "theorems are over exact real arithmetic (Num ℝ instance); IEEE rounding, overflow and NaN propagation are "
        "covered by execution (correspondence + oracle) only",
        "ghost outputs `flushed`/`bedExchange`/`decayed` are part of the model's step record, not of the code's outputs; "
        "the oracle re-derives the in-stream store from the budget and the reported outputs instead",
        "InstreamFineSediment is modelled AFTER fixes/fine-sediment-lumped-branch-local-mass.diff and "
        "fixes/fine-sediment-floodplain-zero-excess.diff",
    ],
    assumptions=[
        "budget theorems: no sign hypotheses; only Δt ≠ 0 where a rate is reported as mass/Δt (ConstituentDecay, "
        "InstreamFineSediment, InstreamParticulateNutrient); StorageParticulateTrapping needs Δt ≥ 0 and non-negative "
        "store/inputs (its clip at 0 is inactive exactly then); StorageDissolvedDecay needs doStorageDecay < 0.5",
        "non-negativity theorems: non-negative loads, flows, volumes, initial in-stream stores; Δt > 0; "
        "InstreamFineSediment parameters in FineRange (non-negative flows/velocities/areas/geometry, positive "
        "settling and remobilisation velocity, width, Manning n); 0 ≤ soilPercentFine ≤ 100 and concentration ≥ 0 for "
        "InstreamParticulateNutrient",
        "StorageTrapAll carries no Δt: its budget is in the units of the inflow series (stated so, not a defect)",
    ],
    partial=[],
)

META = dict(
    category="proof",
    text="Lean 4 theorems over line-by-line kernel models (generic in the number type, proved at ℝ): for each of the "
         "eight models budget_M (initial store + Σ mass in = final store + Σ downstream·Δt + deposited/trapped/decayed/"
         "floodplain + flushed, for every input list hence every prefix, with flushed ≠ 0 only below the volume "
         "threshold), nonneg_M, remob_le_store and the channel-store capacity for fine sediment, divisors proved "
         "non-zero; one-step lemma lifted through the scan loop by induction. The models are tied to the real code on "
         "every run by differential execution (bit-exact / 1e-9), and the budget itself is evaluated on the "
         "implementation's outputs as the failing-input search.",
    design_ref="DESIGN.md §6 C12",
    note="Trusted: Lean kernel + propext/Classical.choice/Quot.sound; the hand-written models (validated by "
         "correspondence on generated series with wet, near-empty and empty spells reaching every branch tag); real "
         "arithmetic instead of IEEE; the two fine-sediment repairs are modelled as applied.",
    technique="Lean 4 proof (one-step algebraic identity + induction through scan; generalize/linear_combination) "
              "+ differential correspondence + budget oracle on implementation outputs",
)
