from vlib.core import Check, Family
from vlib.gentie import gentie_step_all   # gen_eq_GR4J (listed under C10) ties the GR4J model these theorems are about

CHECK = Check(
    "C15",
    props_modules=["OW.Props.C15"],
    families=[
        # Go gr4j vs its Lean kernel model (ties the model the theorems are about to the code)
        Family("K", rtol=1e-9, atol_scale=1e-12, args=["models=GR4J", "prop=C15", "n=600"], label="K-GR4J"),
        # Go gr4j vs the independent specification (Perrin et al. 2003) executed at Float
        Family("KSPEC", rtol=1e-9, atol_scale=1e-12, args=["variant=spec", "n=600"], label="KSPEC-safeguarded"),
        # equations exactly as printed (no cap on the tanh argument): the code caps it at 13 and tanh 13 = 1 - 1.02e-11,
        # so on days with |P-E| > 13 x1 the two differ by up to ~1e-11 of the store size: absolute tolerance 1e-10 x scale
        Family("KSPEC", rtol=1e-9, atol_scale=1e-10, args=["variant=published", "n=150"], label="KSPEC-published"),
    ],
    pre_steps=[gentie_step_all],
    level="proof",
    trusted=[
        "hand-written Lean kernel model OW/Kernels/GR4J.lean of models/rr/gr4j.go (gr4j, initGR4J, extract/pack), tied to "
        "the code on every run by the K correspondence (real GR4J wrapper+kernel through sim.Catalog vs the compiled "
        "model; tolerance 1e-9 relative + 1e-12 x line scale because Go's math.Pow/Tanh and libm differ by <= 3 ulp)",
        "OW/Spec/GR4J.lean is my transcription of Perrin, Michel & Andreassian (2003) eqs. 1-22 (S-curves with exponent "
        "5/2, UH ordinates as S-curve differences, production store with tanh, percolation (4/9)^4, 90/10 split, "
        "exchange x2(R/x3)^3.5, routing store, direct branch); the unit-hydrograph memory is carried as pending "
        "deliveries, proved (spec_uh_is_convolution) to be the discrete convolution with the published ordinates; "
        "tanh argument capped at 13 as in the reference implementations "
        "(`safeguarded`), proved equal to the equations as printed whenever |P-E| <= 13 x1",
        "theorems are over exact real arithmetic (Real.rpow, Real.tanh); floating-point round-off is covered by "
        "execution only: the KSPEC families run the specification at Float against the real Go code",
        "conditioning filter of the generators (harness models_rr.go): cases are compared only where the implementation "
        "itself is insensitive (<= 1e-10) to a 1e-13 perturbation of its inputs (with a routing store of a few mm and "
        "a strongly negative x2 the daily recurrence is chaotic and amplifies libm-level differences to 1e-5 and "
        "more; such series are shortened until well conditioned; exact-arithmetic theorems are unaffected)",
        "oracle for the failing-input search: an independent Go implementation of the published equations in "
        "convolution form (harness oracle_C15.go)",
    ],
    assumptions=[
        "x4 > 0 (documented range [0.5,4]); unit-hydrograph state vectors of the lengths chosen by initGR4J "
        "(n1 = ceil(x4), n2 = ceil(2 x4)); any x1, x2, x3, any rainfall/PET series, any S, R, UH store contents",
        "gr4j_code_eq_published additionally |P-E| <= 13 x1 on every day and x1 > 0",
    ],
)

META = dict(
    category="proof",
    text="Lean 4 theorems: the code's SH1/SH2 ordinates equal the published S-curves at integer times for every "
         "x4 > 0 and every index (Nat.ceil reasoning over the reals), the ordinate vectors lose nothing, and a run of "
         "the kernel model equals a run of the independent specification (same runoff, Qr, Qd, S, R and "
         "unit-hydrograph stores) for all parameters, series and initial stores; the kernel model is tied to the Go "
         "code by differential execution, and the specification itself is executed at Float against the Go code.",
    design_ref="DESIGN.md §6 C15",
    note="Trusted: Lean kernel + propext/Classical.choice/Quot.sound; the transcription of the paper; the "
         "correspondence generators (x4 dense in [0.5,4] + all integers/half-integers and their float neighbours, so "
         "every UH length 1..4/1..8); exact reals stand in for float64.",
    technique="Lean 4 proof (case analysis on the S-curve branches, rpow lemmas, list extensionality for the UH "
              "stores, induction over the series) + differential correspondence model vs code and spec vs code",
)
READY = True
