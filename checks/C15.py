from vlib.core import Check, Family
from vlib.gentie import gentie_step_all   # gen_eq_GR4J (listed under C10) ties the GR4J model these theorems are about

CHECK = Check(
    "C15",
    props_modules=["OW.Props.C15"],
    families=[
        # Go gr4j vs its Lean kernel model (ties the model the theorems are about to the code)
        Family("K", rtol=1e-9, atol_scale=1e-12, args=["models=GR4J", "prop=C15", "n=600"], label="K-GR4J"),
        # Go gr4j vs the independent specification (Perrin et al. 2003) executed at Float
        Family("KSPEC", rtol=1e-9, atol_scale=1e-12, args=["variant=spec", "n=600"], label="KSPEC-safeguarded"),
        # equations exactly as printed (no cap on the tanh argument): the code caps it at 13 and tanh 13 = 1 - 1.02e-11,
        # so on days with |P-E| > 13 x1 the two differ by up to ~1e-11 of the store size: absolute tolerance 1e-10 x scale
        Family("KSPEC", rtol=1e-9, atol_scale=1e-10, args=["variant=published", "n=150"], label="KSPEC-published"),
    ],
    pre_steps=[gentie_step_all],
    level="proof",
    trusted=[
        "hand-written Lean kernel model OW/Kernels/GR4J.lean of models/rr/gr4j.go (gr4j, initGR4J, extract/pack), tied to "
        "the code on every run by the K correspondence (real GR4J wrapper+kernel through sim.Catalog vs the compiled "
        "model; tolerance 1e-9 relative + 1e-12 x line scale because Go's math.Pow/Tanh and libm differ by <= 3 ulp)",
        "OW/Spec/GR4J.lean is my transcription of Perrin, Michel & Andreassian (2003) eqs. 1-22 (S-curves with exponent "
        "5/2, UH ordinates as S-curve differences, production store with tanh, percolation (4/9)^4, 90/10 split, "
        "exchange x2(R/x3)^3.5, routing store, direct branch); the unit-hydrograph memory is carried as pending "
        "deliveries, proved (spec_uh_is_convolution) to be the discrete convolution with the published ordinates; "
        "tanh argument capped at 13 as in the reference implementations "
        "(`safeguarded`), proved equal to the equations as printed whenever |P-E| <= 13 x1; "
        "spec_run_closed_form composes the convolution into Spec.run: daily (Q, Qr, Qd) = routing recurrence "
        "(eqs. 18-22) driven by Q9(t) = pend9[t] + sum_i UH1(t-i+1) 0.9 Pr(i), Q1(t) likewise, Pr from the "
        "production recurrence (eqs. 1-8) alone",
        "adapter: model.run / model.init (extractGR4JStates, packGR4JStates, row offsets, int/float64 round-trip of "
        "n1, n2) are INSIDE the theorems: model_run_eq_packed_run, model_run_from_init, model_run_chain, and "
        "model_eq_spec_model (the code's KModel and the specification's KModel return the same outputs and state row)",
        "theorems are over exact real arithmetic (Real.rpow, Real.tanh); floating-point round-off is covered by "
        "execution only: the KSPEC families run the specification at Float against the real Go code",
        "conditioning filter of the generators (harness models_rr.go): cases are compared only where the implementation "
        "itself is insensitive (<= 1e-10) to a 1e-13 perturbation of its inputs (with a routing store of a few mm and "
        "a strongly negative x2 the daily recurrence is chaotic and amplifies libm-level differences to 1e-5 and "
        "more; such series are shortened until well conditioned; exact-arithmetic theorems are unaffected)",
        "oracle for the failing-input search: an independent Go implementation of the published equations in "
        "convolution form (harness oracle_C15.go)",
    ],
    assumptions=[
        "all theorems are over exact real arithmetic (alpha := R), NOT generic in Num alpha",
        "x1 > 0, x3 > 0, x4 > 0 (documented ranges [1,1500], [1,500], [0.5,4]) in every run theorem "
        "(gr4j_code_eq_spec, gr4j_code_eq_spec_from_init, gr4j_code_eq_published, gr4j_code_closed_form, "
        "model_eq_spec_model). x1 > 0 and x3 > 0 were ADDED after the independent audit: the proofs do not use them "
        "(both sides are the same real expressions for any x1, x3), but outside them the real expressions are not what "
        "Go computes: x/0 is 0 at R and Inf/NaN in Go; (R/x3)^3.5 with a negative base is 0 at R (Real.rpow) and NaN "
        "in Go. exchange_base_nonneg proves that with x3 > 0 and an initial routing store R >= 0 the base R/x3 is "
        ">= 0 on every day of every run (an initial R < 0 is not excluded by the run theorems; the code clips it on "
        "the first day but takes the power before)",
        "unit-hydrograph state vectors of the lengths chosen by initGR4J (n1 = ceil(x4), n2 = ceil(2 x4)); any x2, any "
        "rainfall/PET series, any S, R, UH store contents",
        "model_run_eq_packed_run / model_run_chain: the state row is pack(st, n1, n2) with n1, n2 >= 1 and stores of "
        "exactly these lengths (a row with n1 = 0 or shorter than 4+n1+n2 is proved to be the index panic: "
        "model_run_rejects_malformed_row); int(float64(n)) = n is exact at R, exact at float64 for n < 2^53 "
        "(execution); equal lengths of the rain and PET series (List.zip truncates where Go would index out of range)",
        "gr4j_code_eq_published additionally |P-E| <= 13 x1 on every day (see partial)",
        "spec_run_closed_form: pending vectors of the lengths ceil(x4), ceil(2 x4); x4 > 0; either tanh argument",
    ],
    partial=[
        "gr4j_code_eq_published: 'code = equations exactly as printed' holds only on series with |P-E| <= 13 x1 on "
        "every day. The code (like airGR) caps the argument of tanh at 13, the published equations do not; on a day "
        "with |P-E| > 13 x1 the two differ in Ps / Es by at most x1 (1 - tanh 13) for a store 0 <= S <= x1 "
        "(cap_day_gap, proved; 1 - tanh 13 = 2/(e^26+1) = 1.02e-11 is a hand calculation) and by more than 0 "
        "(cap_hypothesis_needed, proved: the hypothesis cannot be dropped). No bound "
        "on the propagated difference of a whole run is proved; it is measured by the KSPEC-published family "
        "(absolute tolerance 1e-10 x scale). The unconditional theorem is gr4j_code_eq_spec (specification with the "
        "same safeguard)",
    ],
)

META = dict(
    category="proof",
    text="Lean 4 theorems over exact real arithmetic: the code's SH1/SH2 ordinates equal the published S-curves at "
         "integer times for every x4 > 0 and every index (Nat.ceil reasoning over the reals), the ordinate vectors "
         "lose nothing, and a run of the kernel model equals a run of the independent specification with the tanh "
         "argument capped at 13 (same runoff, Qr, Qd, S, R and unit-hydrograph stores) for all x1, x3, x4 > 0, "
         "series and initial stores; the same at the level of the adapter (model.init / model.run on packed state "
         "rows: offsets, length cells, panics on malformed rows; the code's and the specification's KModel return "
         "the same outputs and state row); the specification run in closed form (routing recurrence driven by the "
         "convolutions of 0.9 Pr / 0.1 Pr with the published ordinates). PARTIAL: equality with the equations exactly "
         "as printed (no cap) only when |P-E| <= 13 x1 on every day (difference <= 1.02e-11 x1 per day otherwise, "
         "proved non-zero). The kernel model is tied to the Go code by differential execution, and the "
         "specification itself is executed at Float against the Go code.",
    design_ref="DESIGN.md §6 C15",
    note="Trusted: Lean kernel + propext/Classical.choice/Quot.sound; the transcription of the paper; the "
         "correspondence generators (x4 dense in [0.5,4] + all integers/half-integers and their float neighbours, so "
         "every UH length 1..4/1..8); exact reals stand in for float64.",
    technique="Lean 4 proof (case analysis on the S-curve branches, rpow lemmas, list extensionality for the UH "
              "stores, induction over the series) + differential correspondence model vs code and spec vs code",
)
READY = True
