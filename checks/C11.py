from vlib.core import Check, Family
from vlib.gentie import gentie_step

CHECK = Check(
    "C11",
    props_modules=["OW.Props.C11", "OW.Props.Rounded.C11"],
    families=[
        # Muskingum and Lag use + - * / and list shuffling only: bit-exact
        Family("K", rtol=None, args=["models=Lag,Muskingum", "prop=C11", "n=600"], label="K-exact"),
        # StorageRouting calls math.Pow (Go's own algorithm vs libm pow behind Lean's Float.pow, ≤ 2 ulp apart) inside a
        # root finder that exits on thresholds: a last-bit difference in one residual changes which trial point is
        # accepted, so two correct executions may return different index flows inside the solver's tolerance band
        # (|residual| < 1e-3 m³). rtol = 1e-6 with an absolute floor of 1e-9 × the largest value of the run covers that band
        # for the generated magnitudes and is still 10⁶ times tighter than any of the defects this check has found
        # (which change storages by whole cubic metres). Runs with RoutingPower = 1 involve no pow at all.
        Family("K", rtol=1e-6, atol_scale=1e-9, args=["models=StorageRouting", "prop=C11", "n=1500"], label="K-storage-routing"),
    ],
    # tie A: the loop bodies of the arithmetic-only kernels are REGENERATED from the Go source on every run (harness/cmd/owtranslate)
    # and proved equal to the hand-written model steps (OW/Props/GenTie.lean: gen_eq_*), so the theorems are re-attached to the source
    pre_steps=[gentie_step],
    level="proof",
    trusted=[
        "OW.Props.Rounded.C11: the INEQUALITY clauses are also proved over rounded arithmetic — the same kernel definitions instantiated at RNum R (OW/Proofs/Rounded.lean: every operation = exact real result followed by a rounding R.rnd that is monotone, odd, idempotent and fixes 0; literals rounded once; min/max/comparisons exact), for EVERY such R. Interpretation (not a Lean term): IEEE-754 binary64 round-to-nearest (or toward zero) on computations without overflow/NaN is one such R; math.Pow/Exp/Log are idealised as correctly rounded (only their sign / range is used). Two concrete non-identity instances (grid truncation, grid rounding away from zero) are constructed as witnesses",
        "hand-written Lean models OW/Kernels/{Muskingum,Lag,StorageRouting}.lean (StorageRouting through OW/Util/FindRoot.lean) of "
        "models/routing/{muskingum,lag,storage_routing}.go, tied to the code on every run: one real Run call through sim.Catalog per "
        "case vs the compiled model; every exit of calcOutflow carries a branch tag and the generator must reach all seven",
        "theorems are over exact real arithmetic; pow enters only through `0 ≤ x^y` facts and the C18 theorems about FindRoot",
        "oracle tolerances: water balance within massBalanceLimit (1e-3 m³, the residual the solver accepts) + 1e-9 relative rounding; "
        "S = k·Q^m + dead within massBalanceLimit as a volume or as the flow increment massBalanceLimit/Δt; Muskingum budget 1e-9 × largest term",
    ],
    assumptions=[
        "rounded theorems (OW.Props.Rounded.C11): outflow >= 0 needs only dt > 0 (dt = 0 is excluded: RNum division is total, x/0 = 0, whereas the Go code divides by zero "
        "and panics on the NaN); storage >= 0 is proved for the zero-bias set-up (|bias| < 0.001, k >= 0, dead storage >= 0), dt > 0",
        "StorageRouting: Δt > 0, previous storage ≥ 0, inflow, lateral ≥ 0, dead storage ≥ 0, k ≥ 0, bias < 0.999 (theorems state per exit "
        "path what they need); sq_calcOutflow / sq_calcOutflow_converged: zero bias, m ≤ 1, Δt > 0 (sq_calcOutflow_bias: any bias < 0.999, relation S = sIndex(q) with the index-flow definition q = bias·(inflow+lateral) + (1−bias)·outflow); sq_full_drain: previous storage ≥ 0, lateral ≥ 0, bias < 0.999, Δt > 0",
        "Muskingum: 2K(1−X)+Δt ≠ 0 (weights defined); steady/budget need nothing else; the stable region is only needed for non-negativity, "
        "which the property does not claim. Event volume: event_volume (exact equality) needs the run to END IN THE STATE IT STARTED FROM, which only steady runs do; "
        "for an event proper — start at rest, any series, then n+1 dry steps — event_volume_remainder gives the exact undelivered volume (K(1−X) − Δt/2)·a3^n·O1 and "
        "event_volume_limit its convergence to 0 (hypotheses K(1−X) > 0, Δt > 0, which every point of the stable region with Δt > 0 satisfies: |a3| < 1)",
        "Lag: buffer at least as long as int(timeLag) ≥ 0 — a hypothesis of lag_spec_outflow / lag_run_spec (stated with [i]?, no default value stands in for a missing cell); "
        "a shorter state row makes the Go code index out of range — modelled as an error (lag_run_short)",
    ],
    partial=[
        "storage-discharge relation, restriction by exit: for the record that calcOutflow RETURNS, S = k·q^m + dead (zero bias, m ≤ 1; S = sIndex(q) for any bias) and "
        "|q − outflow|·Δt ≤ |residual| are proved ONLY on the four exits that report the index storage (balanced-at-minqi, prev-qi, mid-qi, root: sq_calcOutflow, "
        "sq_calcOutflow_bias), with |residual| ≤ massBalanceLimit on balanced-at-minqi, < massBalanceLimit on prev-qi / mid-qi and on root ONLY IF FindRoot returned through "
        "its tolerance test (sq_calcOutflow_converged takes that as a hypothesis; it can fail: next entry), and within massBalanceLimit on full-drain-at-maxqi "
        "(sq_full_drain: outflow > 0, storage 0, S(maxQI) < massBalanceLimit). On the two zero-outflow exits the code reports the water-balance storage and NO "
        "storage-discharge relation is claimed: on zero-at-minqi it is false (sq_zero_at_minqi: the reported storage lies at least massBalanceLimit BELOW the index "
        "storage S(minQI) — a reach filling up below its dead / index storage releases nothing); zero-maxqi-le-minqi cannot be taken in exact arithmetic "
        "(zero_maxqi_unreachable; reached by the generator only through rounding at 1e14 m³)",
        "root_converges_partial: on the root-finder exit |residual| < massBalanceLimit is proved when interval halving alone "
        "suffices within the 20 iterations (residual non-decreasing and L-Lipschitz with L·(maxQI−minQI)/2^20 < 1e-3). The statement "
        "WITHOUT that hypothesis is FALSE for the code: root_not_converged_counterexample / run_not_converged_counterexample (bias 0, "
        "k = 1e6, m = 0.05, 1000 m³, no inflow: all 20 iterations stall, the step empties the reach, residual 1000 m³; proved in exact "
        "arithmetic through the certificate OW.Proofs.FindRoot.stalled_findRoot, and reproduced bit for bit on the real code by the "
        "corpus cases of harness/cmd/owharness/corpus_C11.go — known finding KF-C11-StorageRouting-unconverged-small-power; on the real "
        "code unconverged steps appear for m ≲ 0.15, none was found for m ≥ 0.2)",
        "what IS proved for every parameter set and input on that exit: root_exit_unconditional (returned index flow in [minQI, maxQI], "
        "delta is its residual, bracket sign invariant kept by every trial kind, no convergence-in-x exit, tolerance exit ⇒ |residual| < "
        "massBalanceLimit, fuel exit ⇒ final bracket ≤ (maxQI−minQI)/2^20 wide and |residual| ≤ the residual at both of its ends) and, for "
        "zero bias, root_residual_le_ends_zero_bias (|residual| < massBalanceLimit or ≤ the residual at the better end of the initial bracket; "
        "tight: attained by the counter-example). calcOutflow_balance/run_balance state the balance on that exit as 0 ≤ err ≤ max 0 residual, "
        "< massBalanceLimit when FindRoot returned through its tolerance test; the oracle checks the unconditional statement on every "
        "generated step (generator: m ∈ [0.3, 1] ∪ {1±ε} ∪ (1.001, 1.6))",
    ],
)

META = dict(
    category="proof",
    text="Lean 4 theorems over line-by-line models of the three routing kernels: Muskingum weights sum to one, steady flow passes, "
         "exact discrete volume budget for every series (lateral included), the exact undelivered volume after an event and n dry steps and its geometric decay to zero (event volume); Lag = inflow delayed by "
         "int(timeLag) steps with the carried-over buffer, any lag and length, final buffer = last lag elements of buffer ++ inflow "
         "(proved through the in-place loops of the code); StorageRouting: per exit path of calcOutflow the water balance "
         "(exact or within the accepted residual; run_balance carries err ≤ max 0 δ on every root step), outflow ≥ 0, storage ≥ 0, and for the record calcOutflow returns "
         "S = k·q^m + dead with |q − outflow|·Δt within the residual on the four exits reporting the index storage (root via the C18 "
         "FindRoot theorems, tolerance only when it converged) and within tolerance on the full-drain exit; what the 20-iteration root search guarantees unconditionally, and a proved counter-example (m = 0.05) to "
         "\"20 iterations always reach the tolerance\", confirmed on the real code (known finding). Models tied to the code by differential execution on every run.",
    design_ref="DESIGN.md §6 C11",
    note="Repairs modelled: Muskingum carries inflow+lateral, Lag buffer handling, StorageRouting initial storage (already in /repo); "
         "zero-outflow exits report the balance storage, full-drain exit drains the lateral, convergenceLimit = 0 (fixes/storage_routing_*.diff).",
    technique="Lean 4 proof (induction over the series through scan; list induction for the lag loops; case analysis per solver exit) + "
              "differential correspondence + property oracles (budget, non-negativity, storage-discharge relation) + model regenerated from the Go source on every run by a translator (gen_eq_* theorems tie it to the hand-written model) + inequality clauses re-proved for every monotone rounding (RNum)",
)
READY = True
