from vlib.core import Check, Family
from vlib.gentie import gentie_step

CHECK = Check(
    "C10",
    props_modules=["OW.Props.C10", "OW.Props.C10Sacramento", "OW.Props.Rounded.C10"],
    families=[
        # arithmetic only (one multiplication): bit-exact
        Family("K", rtol=None, args=["models=RunoffCoefficient", "prop=C10", "n=300"], label="K-exact"),
        # pow / tanh / exp kernels: Go math vs libm differ by <= 3 ulp
        Family("K", rtol=1e-9, atol_scale=1e-12, args=["models=GR4J,Simhyd,Surm,Sacramento", "prop=C10", "n=500"],
               label="K-transcendental"),
        # Sacramento in its numerically ill-conditioned wet regime (tiny supplemental store, ~50 increments/day):
        # property oracle only, no 1e-9 comparison (see harness models_rr.go sacParamsWet)
        Family("KORACLE", compare=False, args=["models=Sacramento", "variant=wet", "prop=C10", "n=300"],
               label="KORACLE-sacramento-wet"),
        # GR4J with a routing store of a few mm and a strongly negative exchange coefficient (chaotic recurrence)
        Family("KORACLE", compare=False, args=["models=GR4J", "variant=stiff", "prop=C10", "n=300"],
               label="KORACLE-gr4j-stiff"),
    ],
    # tie A: the loop bodies of the arithmetic-only kernels are REGENERATED from the Go source on every run (harness/cmd/owtranslate)
    # and proved equal to the hand-written model steps (OW/Props/GenTie.lean: gen_eq_*), so the theorems are re-attached to the source
    pre_steps=[gentie_step],
    level="proof",
    trusted=[
        "OW.Props.Rounded.C10: the INEQUALITY clauses are also proved over rounded arithmetic — the same kernel definitions instantiated at RNum R (OW/Proofs/Rounded.lean: every operation = exact real result followed by a rounding R.rnd that is monotone, odd, idempotent and fixes 0; literals rounded once; min/max/comparisons exact), for EVERY such R. Interpretation (not a Lean term): IEEE-754 binary64 round-to-nearest (or toward zero) on computations without overflow/NaN is one such R; math.Pow/Exp/Log are idealised as correctly rounded (only their sign / range is used). Two concrete non-identity instances (grid truncation, grid rounding away from zero) are constructed as witnesses",
        "hand-written Lean kernel models OW/Kernels/{Coeff,GR4J,Simhyd,Surm,Sacramento}.lean of models/rr/*.go, tied to the "
        "code on every run by the K correspondence (real wrapper+kernel through sim.Catalog vs the compiled model; "
        "RunoffCoefficient bit-exact, the others 1e-9 relative + 1e-12 x line scale because Go's math.Pow/Tanh/Exp "
        "and libm differ by <= 3 ulp)",
        "theorems are over exact real arithmetic: 'every output is finite' is proved as 'no division by zero and "
        "no invalid pow argument'; floating-point overflow/round-off is covered by execution and the oracle only",
        "transcendental functions enter through 0 <= tanh w <= min(w,1) for w >= 0 (proved from Mathlib's "
        "sinh/cosh), exp > 0, and monotonicity / range lemmas of Real.rpow",
        "conditioning filter of the correspondence generators (harness models_rr.go): a drawn case is compared at 1e-9 "
        "only if the implementation itself moves by <= 1e-10 relative under a 1e-13 relative perturbation of its "
        "inputs; numerically chaotic corners (GR4J: strongly negative x2 with x3 of a few mm; Sacramento: supplemental store "
        "of 5-7 mm in very wet spells) are run oracle-only (family KORACLE)",
        "oracle for the failing-input search (harness oracle_C10.go): finiteness, non-negativity, store bounds, "
        "components, prefix and end-of-run budgets on the implementation's outputs, tolerance 1e-9 x scale",
    ],
    assumptions=[
        "rounded theorems (OW.Props.Rounded.C10): SURM lower bound 0 <= soil store needs EtOk (computed 10*s/smax <= s; false at smax = 10 exactly in binary64: real code returns store -8.9e-16 for smax=10, sms=7.657254516291418, PET=100); the upper bounds and runoff/quickflow/baseflow >= 0 need no such hypothesis; Simhyd needs Rep 1 and SimhydDivOk (computed sms/smsc <= 1 implies sms <= smsc: true for exact arithmetic, rounding away from zero and binary64 round-to-nearest, false for truncation); GR4J/Sacramento not restated under rounding",
        "RunoffCoefficient: 0 <= coeff <= 1",
        "Surm: fractions bfac, dseep, fimp, rfac in [0,1], coeff, fcFrac, thres >= 0, smax >= 10 mm (for smax < 10 "
        "the ET term min(10 sms/smax, pet) exceeds the store: reported as an observation)",
        "Simhyd: coefficients in [0,1], thresholds/capacities >= 0, soil moisture store capacity > 0",
        "GR4J: x1, x3, x4 > 0 (RR.GR4J.ParamsOk); state within RR.GR4J.Inv (0 <= S <= x1, 0 <= R <= x3, unit-hydrograph "
        "stores >= 0 and of lengths ceil(x4) / ceil(2 x4) — the lengths model.run reads from the state row written by "
        "InitialiseStates: gr4j_model_run_init, gr4j_model_run_chain); x2 <= 0 for 'no water created' "
        "(gr4j_budget, gr4j_no_water_created); x2 = 0 and PET = 0 for the closed balance. For x2 > 0 (documented range "
        "up to 5) 'never create water' is FALSE for GR4J — the published model imports groundwater through the exchange "
        "term ech = x2 (R/x3)^3.5 (gr4j_positive_x2_creates_water: +2 ech on every dry day with R > 0; "
        "gr4j_positive_x2_counterexample: 5 mm of runoff from 1 mm held and no rain at x2 = 5, x3 = 1); what is proved for "
        "EVERY x2 is the budget with the import on the right-hand side: sum runoff + held <= sum rain + held_0 + "
        "sum 2 max(0, ech_t) (gr4j_budget_exchange, gr4j_no_water_created_exchange; exact for x2 >= 0 and PET = 0: "
        "gr4j_closed_balance_exchange), and the invariant / non-negativity (gr4j_invariant, any x2)",
        "Sacramento (OW.Props.C10Sacramento; RR.Sac.ParamsOk, OW/Proofs/SacramentoInvInc.lean:60): uztwm, uzfwm, lzfsm, "
        "lzfpm > 0; 5 <= lztwm (mm; cannot be dropped: sacramento_small_lztwm_counterexample, lztwm = 0.1 inside the "
        "OW-SPEC range [0,300]); lzpk, lzsk, uzk, pfree, rserv in [0,1]; pctim, adimp >= 0 with pctim + adimp <= 1; "
        "side, ssout, sarva, zperc >= 0; uh1..uh5 >= 0 with positive sum; NO condition on rexp",
        "Sacramento inputs (InOk): rain >= 0 and 0 <= PET <= uztwm + lztwm for the invariant, e1..e4 >= 0 and the budget; "
        "for e5 >= 0 and reported actual ET >= 0 additionally PET * uzfwm <= lztwm * (uztwm + uzfwm) (InOkPet; implied by "
        "PET <= lztwm; cannot be dropped: sacramento_negative_aet_counterexample, known finding "
        "KF-C10-Sacramento-negative-aet)",
        "Sacramento initial state: the model's own (all stores empty) or any state row within RowInv: every store in "
        "[0, capacity], plus RowInv.u: uzfwc * uztwm <= uztwc * uzfwm (the free store is relatively no fuller than the "
        "tension store; part of the invariant SacInv that every step keeps) and RowInv.a1: adimc - uztwc <= 5/4 lztwm; "
        "the unit-hydrograph buffer of a call starts empty (the code's local `qq`; water still in it at the end of a call "
        "is dropped, known finding KF-C06-Sacramento-uh-buffer)",
        "Sacramento store bound proved for the additional impervious store: adimc <= uztwm + 5/4 lztwm "
        "(sacramento_store_bounds); the nominal capacity adimc <= uztwm + lztwm only for lztwm >= 10 "
        "(sacramento_adimc_capacity) — for 5 <= lztwm < 10 the CODE exceeds it (uztwm 1, lztwm 5, uzk 1, rain "
        "[3.5, 0, 4.9] from empty: 7.175 > 6), recorded as an observation",
        "rainfall, PET >= 0; initial state = the model's own or any state within the invariant",
    ],
    partial=[
        "GR4J 'never create water' for x2 > 0: false for the code and for the published model (water imported by the "
        "exchange term); replaced by gr4j_budget_exchange / gr4j_no_water_created_exchange (import on the right-hand "
        "side) with gr4j_positive_x2_creates_water and gr4j_positive_x2_counterexample as the proved refutation",
        "Sacramento outside ParamsOk / InOk (lztwm < 5 mm, PET > uztwm + lztwm, state rows violating RowInv.u / RowInv.a1): "
        "no theorem — two proved counter-examples show the statement is false there; generated cases in that region are "
        "covered by the implementation oracle only",
        "GR4J and Sacramento are not restated under rounding (OW.Props.Rounded.C10 covers RunoffCoefficient, Surm, Simhyd)",
    ],
)

META = dict(
    category="proof",
    text="Lean 4 theorems over hand-written kernel models: per model a one-step theorem (state invariant kept, outputs "
         "non-negative, components add up, one-step water budget) lifted to every run and every prefix by induction "
         "over the series; GR4J unit-hydrograph ordinates non-negative and summing to one for every x4 > 0, GR4J "
         "closed balance for x2 = 0 and zero PET; the models are tied to the Go code by differential execution on "
         "generated parameter sets over the documented ranges and long series with dry spells and extreme storms.",
    design_ref="DESIGN.md §6 C10",
    note="Trusted: Lean kernel + propext/Classical.choice/Quot.sound; hand-written models + correspondence "
         "generators; exact reals stand in for float64.",
    technique="Lean 4 proof (named intermediates + one ring identity + linarith per step; induction over scan) + "
              "differential correspondence model vs real code + budget oracle on the implementation + model regenerated from the Go source on every run by a translator (gen_eq_* theorems tie it to the hand-written model) + inequality clauses re-proved for every monotone rounding (RNum)",
)
READY = True
