from vlib.core import Check, Family
from vlib.gentie import gentie_step

CHECK = Check(
    "C10",
    props_modules=["OW.Props.C10", "OW.Props.C10Sacramento", "OW.Props.Rounded.C10"],
    families=[
        # arithmetic only (one multiplication): bit-exact
        Family("K", rtol=None, args=["models=RunoffCoefficient", "prop=C10", "n=300"], label="K-exact"),
        # pow / tanh / exp kernels: Go math vs libm differ by <= 3 ulp
        Family("K", rtol=1e-9, atol_scale=1e-12, args=["models=GR4J,Simhyd,Surm,Sacramento", "prop=C10", "n=500"],
               label="K-transcendental"),
        # Sacramento in its numerically ill-conditioned wet regime (tiny supplemental store, ~50 increments/day):
        # property oracle only, no 1e-9 comparison (see harness models_rr.go sacParamsWet)
        Family("KORACLE", compare=False, args=["models=Sacramento", "variant=wet", "prop=C10", "n=300"],
               label="KORACLE-sacramento-wet"),
        # GR4J with a routing store of a few mm and a strongly negative exchange coefficient (chaotic recurrence)
        Family("KORACLE", compare=False, args=["models=GR4J", "variant=stiff", "prop=C10", "n=300"],
               label="KORACLE-gr4j-stiff"),
    ],
    # tie A: the loop bodies of the arithmetic-only kernels are REGENERATED from the Go source on every run (harness/cmd/owtranslate)
    # and proved equal to the hand-written model steps (OW/Props/GenTie.lean: gen_eq_*), so the theorems are re-attached to the source
    pre_steps=[gentie_step],
    level="proof",
    trusted=[
        "OW.Props.Rounded.C10: the INEQUALITY clauses are also proved over rounded arithmetic — the same kernel definitions instantiated at RNum R (OW/Proofs/Rounded.lean: every operation = exact real result followed by a rounding R.rnd that is monotone, odd, idempotent and fixes 0; literals rounded once; min/max/comparisons exact), for EVERY such R. Interpretation (not a Lean term): IEEE-754 binary64 round-to-nearest (or toward zero) on computations without overflow/NaN is one such R; math.Pow/Exp/Log are idealised as correctly rounded (only their sign / range is used). Two concrete non-identity instances (grid truncation, grid rounding away from zero) are constructed as witnesses",
        "hand-written Lean kernel models OW/Kernels/{Coeff,GR4J,Simhyd,Surm,Sacramento}.lean of models/rr/*.go, tied to the "
        "code on every run by the K correspondence (real wrapper+kernel through sim.Catalog vs the compiled model; "
        "RunoffCoefficient bit-exact, the others 1e-9 relative + 1e-12 x line scale because Go's math.Pow/Tanh/Exp "
        "and libm differ by <= 3 ulp)",
        "theorems are over exact real arithmetic: 'every output is finite' is proved as 'no division by zero and "
        "no invalid pow argument'; floating-point overflow/round-off is covered by execution and the oracle only",
        "transcendental functions enter through 0 <= tanh w <= min(w,1) for w >= 0 (proved from Mathlib's "
        "sinh/cosh), exp > 0, and monotonicity / range lemmas of Real.rpow",
        "conditioning filter of the correspondence generators (harness models_rr.go): a drawn case is compared at 1e-9 "
        "only if the implementation itself moves by <= 1e-10 relative under a 1e-13 relative perturbation of its "
        "inputs; numerically chaotic corners (GR4J: strongly negative x2 with x3 of a few mm; Sacramento: supplemental store "
        "of 5-7 mm in very wet spells) are run oracle-only (family KORACLE)",
        "oracle for the failing-input search (harness oracle_C10.go): finiteness, non-negativity, store bounds, "
        "components, prefix and end-of-run budgets on the implementation's outputs, tolerance 1e-9 x scale",
    ],
    assumptions=[
        "rounded theorems (OW.Props.Rounded.C10): SURM lower bound 0 <= soil store needs EtOk (computed 10*s/smax <= s; false at smax = 10 exactly in binary64: real code returns store -8.9e-16 for smax=10, sms=7.657254516291418, PET=100); the upper bounds and runoff/quickflow/baseflow >= 0 need no such hypothesis; Simhyd needs Rep 1 and SimhydDivOk (computed sms/smsc <= 1 implies sms <= smsc: true for exact arithmetic, rounding away from zero and binary64 round-to-nearest, false for truncation); GR4J/Sacramento not restated under rounding",
        "RunoffCoefficient: 0 <= coeff <= 1",
        "Surm: fractions bfac, dseep, fimp, rfac in [0,1], coeff, fcFrac, thres >= 0, smax >= 10 mm (for smax < 10 "
        "the ET term min(10 sms/smax, pet) exceeds the store: reported as an observation)",
        "Simhyd: coefficients in [0,1], thresholds/capacities >= 0, soil moisture store capacity > 0",
        "GR4J: x1, x3, x4 > 0; unit-hydrograph vectors of the lengths chosen by initGR4J; x2 <= 0 for the budget "
        "(a positive exchange coefficient imports groundwater by design); x2 = 0 and PET = 0 for the closed balance",
        "Sacramento (partial): sarva >= 0, PET >= 0 for the channel stage; uh1..uh5 >= 0 with positive sum",
        "rainfall, PET >= 0; initial state = the model's own or any state within the invariant",
    ],
    partial=[
        "sacramento_bounds_partial: only the channel stage (runoff, baseflow, e4 >= 0) is proved; the store bounds, "
        "non-negativity of surfaceRunoff / imperviousRunoff / e1,e2,e3,e5 and the water budget "
        "(sacramento_invariant, sacramento_no_water_created, stated in full in OW/Props/C10.lean) need an invariant "
        "through the drainage-and-percolation loop (15 coupled updates x ninc passes x 2 per day) and are covered "
        "by the implementation oracle only",
    ],
)

META = dict(
    category="proof",
    text="Lean 4 theorems over hand-written kernel models: per model a one-step theorem (state invariant kept, outputs "
         "non-negative, components add up, one-step water budget) lifted to every run and every prefix by induction "
         "over the series; GR4J unit-hydrograph ordinates non-negative and summing to one for every x4 > 0, GR4J "
         "closed balance for x2 = 0 and zero PET; the models are tied to the Go code by differential execution on "
         "generated parameter sets over the documented ranges and long series with dry spells and extreme storms.",
    design_ref="DESIGN.md §6 C10",
    note="Trusted: Lean kernel + propext/Classical.choice/Quot.sound; hand-written models + correspondence "
         "generators; exact reals stand in for float64.",
    technique="Lean 4 proof (named intermediates + one ring identity + linarith per step; induction over scan) + "
              "differential correspondence model vs real code + budget oracle on the implementation + model regenerated from the Go source on every run by a translator (gen_eq_* theorems tie it to the hand-written model) + inequality clauses re-proved for every monotone rounding (RNum)",
)
READY = True
