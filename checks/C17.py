import hashlib
import os
import shutil

from vlib.core import Check, Family, Lock, REPO, BUILD, HARNESS, GOENV, run


def build_ow_single(check, ctx):
    """Builds the REAL cmd/ow-single of the tree under test (from the harness module, so that the replace directive
    selects /repo or the OW_REPO scratch copy) and hands its path to the JSON family (`owsingle=<path>`): a sample of the
    generated requests is piped through the binary — exit status 0, stdout = exactly one JSON document, the same one
    RunSingleModelJSON(…, true) writes in process."""
    hdir = HARNESS
    if os.path.realpath(REPO) != "/repo":
        hdir = os.path.join(BUILD, "harness-" + hashlib.sha1(os.path.realpath(REPO).encode()).hexdigest()[:10])
    out = os.path.join(ctx["workdir"], "ow-single")
    with Lock("gobuild-owsingle-" + os.path.basename(hdir)):
        r = run(["go", "build", "-o", out, "github.com/flowmatters/openwater-core/cmd/ow-single"], cwd=hdir, env=GOENV)
    if r.returncode != 0:
        # the tree's ow-single does not build: the runner cannot answer anything
        ctx["info"]["ow_single_build"] = "FAILED: " + (r.stderr or "")[-800:]
        return [{"kind": "proof-obligation", "name": "cmd/ow-single builds", "detail": (r.stderr or "")[-800:]}]
    ctx["info"]["ow_single_build"] = "ok"
    for fam in check.families:
        if fam.name == "JSON":
            fam.args = [a for a in fam.args if not a.startswith("owsingle=")] + ["owsingle=" + out]
    return []


CHECK = Check(
    "C17",
    props_modules=["OW.Props.C17"],
    families=[Family("JSA"), Family("JSON")],
    level="proof",
    pre_steps=[build_ow_single],
    trusted=[
        "hand-written Lean models OW/Sim/Json.lean of io/json/json.go (JsonSafeValue, JsonSafeArray on the n-d array model "
        "OW/Nd) and of sim/single.go (Initialise, RunSingleModelJSON, encodeResults), tied to the code on every run: JSA = "
        "the real JsonSafeArray on every shape of rank 1-3 with extents ≤ 4, sliced/stepped views, every shift dimension; "
        "JSON = request byte strings through the real RunSingleModelJSON in a child process for all catalogued models "
        "(what is written, whether the call returns, panics or the process dies), responses compared structurally and "
        "bit-exactly; a sample also through the real ow-single binary (exit status, stdout)",
        "encoding/json is trusted: the request a byte string decodes to (or the decoder's error text) is obtained from "
        "Go's own decoder on mirror types with the same names (harness/simmirror), and the response bytes are read back "
        "with Go's decoder; 'all byte strings' is therefore SAMPLED for the decoder part and PROVED for the decision logic "
        "after decoding (respond is total over ParsedRequest ⊕ DecodeError)",
        "the model kernel is abstract in the theorems (a table `Kernel`: what ApplyParameters+InitialiseStates(1) and a "
        "one-cell Run do); the harness fills it by a direct one-cell run through the Go API for the parameter column / "
        "input block the PROPERTY prescribes, so respond_eq_direct is about the glue and does not depend on kernel models",
        "fmt's %f (defaults in log lines) is modelled exactly (round-half-even on the exact binary value) in the driver; "
        "in the theorems it is an uninterpreted function of the number class JNum",
        "a panic inside a goroutine started by Run kills the process without running deferred calls (Go semantics), "
        "a panic in the calling goroutine runs the deferred encodeResults first",
    ],
    assumptions=[
        "respond_eq_direct / respond_total: the direct run does not itself panic (Kernel.init ok, Kernel.run ok) and "
        "returns one row per described output with one value per time step; output / state names of the description are distinct",
        "nesting_spec: the view's stride list is as long as its extents and every in-bounds element is readable "
        "(both hold for Reach views on a storage that covers them)",
    ],
)

META = dict(
    category="proof",
    text="Lean 4 theorems over a hand-written model of the JSON runner: nesting_spec (JsonSafeArray of any view and valid "
         "shift dimension is the dims-shaped nesting of the elements from that dimension on, non-finite values as the "
         "strings NaN/+Inf/-Inf), respond_eq_direct (outputs and final states of the response are those of the direct "
         "one-cell run with named parameters / defaults and supplied / zero inputs), warnings_complete (one log line per "
         "missing parameter and input, in description order), respond_total (every request — decoded or a decoder error "
         "— yields exactly one document and returns unless the model's own code panics). The model is tied to the real "
         "RunSingleModelJSON / JsonSafeArray / ow-single on every run by differential execution in child processes.",
    design_ref="DESIGN.md §6 C17",
    note="encoding/json trusted; 'all byte strings' sampled for the decoder part (malformed, truncated, corrupted, junk, "
         "duplicate members, huge numbers) and proved for the decision logic after decoding. The model mirrors "
         "sim/single.go as repaired by fixes/single_json_validate.diff. Known findings: a panic in a model's own Run "
         "goroutine (defaults outside the kernel's domain, zero-length series) kills the process (JSON:kernel-panic); "
         "models with table dimensions cannot be run through the request format (JSON:dimensions).",
    technique="Lean 4 proof (structural induction over dimensions / description lists) + differential correspondence "
              "model vs real code in child processes + oracle on the implementation (direct run through the Go API)",
)
