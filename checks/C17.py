import os
import shutil

from vlib.core import Check, Family, Internal, Lock, REPO, HARNESS, GOENV, run


def build_ow_single(check, ctx):
    """Builds the REAL cmd/ow-single of the tree under test (from a harness module whose replace directive selects
    /repo or the OW_REPO scratch copy) and hands its path to the JSON family (`owsingle=<path>`): a sample of the
    generated requests is piped through the binary — exit status 0, stdout = exactly one JSON document, the same one
    RunSingleModelJSON(…, true) writes in process."""
    out = os.path.join(ctx["workdir"], "ow-single")
    try:
        hdir = HARNESS
        if os.path.realpath(REPO) != "/repo":
            # a private copy of the harness module (the shared build/harness-<tag> copies may be removed by other runs)
            hdir = os.path.join(ctx["workdir"], "harness-owsingle")
            shutil.rmtree(hdir, ignore_errors=True)
            shutil.copytree(HARNESS, hdir)
            gm = open(os.path.join(hdir, "go.mod")).read().replace("=> /repo", "=> " + os.path.realpath(REPO))
            open(os.path.join(hdir, "go.mod"), "w").write(gm)
            shutil.copyfile(os.path.join(REPO, "go.sum"), os.path.join(hdir, "go.sum"))
        with Lock("gobuild-owsingle"):
            r = run(["go", "build", "-o", out, "github.com/flowmatters/openwater-core/cmd/ow-single"], cwd=hdir, env=GOENV)
    except OSError as e:
        raise Internal("could not set up the ow-single build: %s" % e)
    if r.returncode != 0:
        # the tree's ow-single does not build: the runner cannot answer anything
        ctx["info"]["ow_single_build"] = "FAILED: " + (r.stderr or "")[-800:]
        return [{"kind": "proof-obligation", "name": "cmd/ow-single builds", "detail": (r.stderr or "")[-800:]}]
    ctx["info"]["ow_single_build"] = "ok"
    for fam in check.families:
        if fam.name == "JSON":
            fam.args = [a for a in fam.args if not a.startswith("owsingle=")] + ["owsingle=" + out]
    return []


CHECK = Check(
    "C17",
    props_modules=["OW.Props.C17"],
    families=[Family("JSA"), Family("JSON")],
    level="proof",
    pre_steps=[build_ow_single],
    trusted=[
        "hand-written Lean models OW/Sim/Json.lean of io/json/json.go (JsonSafeValue, JsonSafeArray on the n-d array model "
        "OW/Nd) and of sim/single.go (Initialise, RunSingleModelJSON, encodeResults), tied to the code on every run: JSA = "
        "the real JsonSafeArray on every shape of rank 1-3 with extents ≤ 4, sliced/stepped views, every shift dimension; "
        "JSON = request byte strings through the real RunSingleModelJSON in a child process for all catalogued models "
        "(what is written, whether the call returns, panics or the process dies), responses compared structurally and "
        "bit-exactly; a sample also through the real ow-single binary (exit status, stdout)",
        "encoding/json is trusted: the request a byte string decodes to (or the decoder's error text) is obtained from "
        "Go's own decoder on mirror types with the same names (harness/simmirror), and the response bytes are read back "
        "with Go's decoder; 'all byte strings' is therefore SAMPLED for the decoder part and PROVED for the decision logic "
        "after decoding (respond is total over ParsedRequest ⊕ DecodeError)",
        "the model kernel is abstract in the theorems (a table `Kernel`: what ApplyParameters+InitialiseStates(1) and a "
        "one-cell Run do); the harness fills it by a direct one-cell run through the Go API for the parameter column / "
        "input block the PROPERTY prescribes, so respond_eq_direct is about the glue and does not depend on kernel models",
        "fmt's %f (defaults in log lines) is modelled exactly (round-half-even on the exact binary value) in the driver; "
        "in the theorems it is an uninterpreted function of the number class JNum",
        "a panic inside a goroutine started by Run kills the process without running deferred calls (Go semantics), "
        "a panic in the calling goroutine runs the deferred encodeResults first",
    ],
    assumptions=[
        "respond_eq_direct: the request names a catalogued model, supplies at least one described input, all supplied "
        "series have one length T; the direct run (Kernel.init / Kernel.run on the prescribed parameter column and input "
        "block) does not panic and returns one row of T values per described output; output names and state names of the "
        "description are distinct (true of the whole catalogue; checked by C09's catalogue tie)",
        "respond_total_request (the totality statement, PER REQUEST): KernelOKOn — the named model's InitialiseStates and Run do not "
        "panic on the parameter column (named value, default otherwise) and the input block (supplied series, T zeros otherwise) that "
        "THIS request leads to, and Run fills one row of T values per described output (initialise_ok_shape: whenever Initialise "
        "succeeds, params.length = number of described parameters, inputs.length = number of described inputs, all rows of one length T); "
        "everything else (any decoded request or decoder error, any lengths incl. 0, any state-row width) is covered. "
        "respond_total_shaped asks it of every well-shaped call, respond_total (the former statement, now a corollary) of EVERY "
        "parameter column and input block — which says nothing for a model one of whose columns panics (GR4J x4 = 0)",
        "nesting_spec: the view is reachable (root array with extents ≥ 1 or any chain of in-bounds, possibly stepped "
        "slices: every extent of every view ≥ 1) and lies in a storage window that covers its root shape (ArrOK); any shift dimension "
        "inside the rank. NOT covered by nesting_spec: RESHAPED views (MustReshape / Reshape of a view) and views with a zero extent; "
        "the reshapes that encodeResults itself performs (outputs 1×nOut×T → nOut×T, rows → [T], states 1×W → [W], incl. nOut, T, W = 0) "
        "are covered separately by encode_spec; the JSA family feeds reshaped views to the real code and the compiled model",
        "'equal to the direct run' (respond_eq_direct) holds by the SHAPE of respond: the model's outputs are K.run on the prescribed "
        "column/block, where K is the abstract kernel table; that K.run IS the real one-cell Run is not a theorem — it is the JSON "
        "family of the harness (the table is filled by a direct one-cell run through the Go API and the real runner's response is "
        "compared with it)",
    ],
    partial=[
        "totality 'for every byte string … does not crash' is FALSE for the code on requests whose direct run itself panics in the kernel "
        "goroutine: known finding KF-C17-kernel-panic (scope JSON:kernel-panic; GR4J with default x4 = 0, DateGenerator with default "
        "month 0, zero-length series for InstreamDissolvedNutrientDecay / StorageTrapAll) — respond_total_request carries KernelOKOn, "
        "kernel_crash_states describes exactly what is written in those cases",
        "models with table parameters cannot be run at all: known finding KF-C17-dimensions (scope JSON:dimensions; every request naming "
        "RatingCurvePartition or Storage dies in the kernel goroutine)",
    ],
)

META = dict(
    category="proof",
    text="Lean 4 theorems over a hand-written model of the JSON runner (as repaired): nesting_spec — JsonSafeArray of "
         "any reachable view and valid shift dimension is the dims-shaped nesting of its elements from that dimension "
         "on, non-finite values as the strings NaN/+Inf/-Inf (jsonSafeValue_spec); warnings_complete — named value or "
         "default, supplied series or zeros, exactly one log line per defaulted parameter and zero-filled input in "
         "description order; encode_spec — encodeResults' reshapes / row slices / JsonSafeArray calls on the n-d array "
         "model yield the object-or-array document for every nOut, T, W (0 included); respond_eq_direct — the response "
         "= outputs and all final states of the direct one-cell run, bit for bit; respond_total_request — every decoded request "
         "or decoder error yields exactly one document and returns unless the model's own code panics ON THAT REQUEST "
         "(parameter column and input block fixed by initialise_ok_shape); "
         "problem_reports / input_problems_reported / kernel_crash_states describe every other ending. The model is "
         "tied to the real RunSingleModelJSON / JsonSafeArray / ow-single on every run by differential execution in "
         "child processes, and an independent oracle compares with a direct run through the Go API.",
    design_ref="DESIGN.md §6 C17",
    note="encoding/json trusted; 'all byte strings' sampled for the decoder part (malformed, truncated, corrupted, junk, "
         "duplicate members, huge numbers, several documents) and proved for the decision logic after decoding. The "
         "model mirrors sim/single.go as repaired by fixes/single_json_validate.diff (no inputs / unequal lengths → "
         "error instead of nil dereference / slice panic / silent zero padding; split states only when the state row "
         "is as wide as the name list, else the full array). Known findings: a panic in a model's own Run goroutine "
         "(defaults outside the kernel's domain, zero-length series) kills the process (JSON:kernel-panic); models with "
         "table dimensions cannot be run through the request format (JSON:dimensions).",
    technique="Lean 4 proof (structural induction over dimensions / description lists; closed forms of reshape, "
              "unroll, slice on root arrays) + differential correspondence model vs real code in child processes + "
              "oracle on the implementation (direct run through the Go API) + the real ow-single binary on a sample",
)
READY = True
