from vlib.core import Check, Family
from vlib.c03 import build_cabi
from vlib.genidx import genidx_step   # tie A: the index / hyperslab / util-fn functions regenerated as Lean and proved equal to the hand-written model (gen_eq_*, OW/Props/GenTieIndex.lean; table TIES in vlib/genidx.py)
from checks.models import ALL_MODELS, TOL_BY_MODEL, EXTRA_ARGS

CHECK = Check(
    "C03",
    props_modules=["OW.Props.C03", "OW.Props.C03Bulk", "OW.Props.C03Full"],
    pre_steps=[build_cabi, genidx_step],
    families=[Family("NDPAIR"), Family("ND", args=["prop=C03"], label="ND-c"),
              Family("CABI", rtol=1e-9, atol_scale=1e-12, tol_by_model=TOL_BY_MODEL, args=["models=" + ",".join(ALL_MODELS), "n=10"] + EXTRA_ARGS)],
    level="proof",
    trusted=[
        "hand-written Lean model of the C back-end (data/cdata/arrays_c.go) inside OW/Nd/Array.lean (isC = true paths: unchecked pointer "
        "indexing limited to the caller's buffer, no fast paths, copying Unroll, aliasing contiguous Reshape), tied to the code by NDPAIR "
        "(same program on Go-backed and C-backed roots, both runs compared with the model; canary guard zones around every C buffer "
        "checked after every operation) and ND programs on C roots",
        "memory safety of the real process: theorem c_inbounds on the model + canaries on the sampled runs; Go unsafe.Pointer semantics trusted",
        "C entry point: libopenwater.so built from the current tree and called from a C program (harness/cabi/driver.c) with guard zones around "
        "all four caller buffers, for every catalogued model; results compared bit for bit with the Go-API run of the same case and with the "
        "wrapper model (family CABI)",
    ],
    assumptions=["views reachable by in-bounds slicing of roots with extents >= 1; operations in the domain of the reference semantics",
                 "two-array operations (applySlice, copyFrom, zipWithInto) between DIFFERENT storages on both sides (overlap = known finding KF-C03-overlap)"],
    partial=[],   # observational_equivalence (C03Full) supersedes the _partial versions of C03Bulk: no excluded case is left
)

META = dict(
    category="proof",
    text="Lean 4 theorems: a Go-backed and a C-backed array with the same shape and contents stay related (same metadata, same element "
         "values) under every operation of the model and return equal observations (c_go_bisim), and every address a C-backed reachable "
         "view reads or writes lies inside the caller's buffer (c_inbounds). Model tied to the code by lock-step runs of the same "
         "operation sequence on both back-ends with guard zones, and by the C ABI runs of all catalogued models.",
    design_ref="DESIGN.md §6 C03",
    note="Trusted: Lean kernel + 3 standard axioms; Go unsafe pointer semantics; canaries detect only writes near the buffer. Known finding: "
         "overlapping bulk copies differ between back-ends (scope NDPAIR:overlap).",
    technique="Lean 4 proof (bisimulation over the operation set, address bounds) + lock-step differential runs Go-backed vs C-backed + model regenerated from the Go source on every run by a translator (gen_eq_* theorems tie it to the hand-written model)",
)
READY = True
