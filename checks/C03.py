from vlib.core import Check, Family
from vlib.c03 import build_cabi
from vlib.genidx import genidx_step   # tie A: the index / hyperslab / util-fn functions regenerated as Lean and proved equal to the hand-written model (gen_eq_*, OW/Props/GenTieIndex.lean; table TIES in vlib/genidx.py)
from checks.models import ALL_MODELS, TOL_BY_MODEL, EXTRA_ARGS

CHECK = Check(
    "C03",
    props_modules=["OW.Props.C03", "OW.Props.C03Bulk", "OW.Props.C03Full", "OW.Props.C03Entry", "OW.Props.C03EntryNd"],
    pre_steps=[build_cabi, genidx_step],
    families=[Family("NDPAIR"), Family("ND", args=["prop=C03"], label="ND-c"),
              Family("CABI", rtol=1e-9, atol_scale=1e-12, tol_by_model=TOL_BY_MODEL, args=["models=" + ",".join(ALL_MODELS), "n=10"] + EXTRA_ARGS)],
    level="proof",
    trusted=[
        "hand-written Lean model of the C back-end (data/cdata/arrays_c.go) inside OW/Nd/Array.lean (isC = true paths: unchecked pointer "
        "indexing limited to the caller's buffer, no fast paths, copying Unroll, aliasing contiguous Reshape), tied to the code by NDPAIR "
        "(same program on Go-backed and C-backed roots, both runs compared with the model; canary guard zones around every C buffer "
        "checked after every operation) and ND programs on C roots",
        "memory safety of the real process: theorems c_inbounds_get / c_inbounds_set / c_never_oob / c_never_oob_off on the model (in-range requests) + canaries on the sampled runs; Go unsafe.Pointer semantics trusted",
        "hand-written Lean model OW/Sim/CEntry.lean of libopenwater/single.go (62 lines: catalogue lookup, wrapping of the four caller buffers, "
        "InitialiseStates when initStates, Run = Sim.run, CopyFrom back when the states pointer is non-NULL), tied to the code by the CABI family below",
        "C entry point: libopenwater.so built from the current tree and called from a C program (harness/cabi/driver.c) with guard zones around "
        "all four caller buffers, for every catalogued model; results compared bit for bit with the Go-API run of the same case and with the "
        "wrapper model (family CABI)",
    ],
    assumptions=["views reachable by in-bounds slicing of roots with extents >= 1 (Reach: steps >= 1, non-empty value lists `vals != []` in Apply) ; "
                 "operations in the domain of the reference semantics: every request in bounds (ProgOK'). OUT of range the two back-ends are NOT "
                 "equivalent: the Go back-end panics (slice index check), the C back-end indexes *[1<<30]T unchecked and reads / writes the caller's memory "
                 "silently (c_never_oob* state the in-range side only; canaries see the sampled runs)",
                 "buffer-size obligations of the caller: ShapesOK (every buffer holds at least the product of its shape, extents >= 1) / ArrOK "
                 "(window inside the storage); the C side cannot check them",
                 "the operation set of the bisimulation is Op = slice, get, set, apply, applySlice, copyFrom, unroll, contiguous, extremum (Maximum/Minimum), "
                 "zipWithInto (Scale/AddTo/ApplyFunc1), reshape, reshapeFast. NOT in it: the rank-specialised accessors Get1/Set1/Apply1/Get2/Get3/Set2/Set3 "
                 "(hand-written per rank in the template; modelled, in the ND / NDPAIR correspondence, not in Op), MustReshape (= reshape + panic on error; "
                 "rel_mustReshape is proved separately, not part of a program), NewArray / the root constructors (world_of_roots gives the initial relation)",
                 "two-array operations (applySlice, copyFrom, zipWithInto) between DIFFERENT storages on both sides (overlap = known finding KF-C03-overlap)",
                 "centry_eq_goapi: every caller buffer holds exactly the product of its extents (BufsOK); a NULL states pointer only with initStates or an "
                 "empty states array (NullOK; otherwise the model gives the nil panic); with initStates and a states pointer, nStates = the width of the "
                 "library-initialised states (fixed for all catalogued kernels but those whose state width depends on a parameter: centry_eq_goapi_fixed_width); "
                 "non-negative extents (C ints modelled as Nat)",
                 "one element type on both sides: for the int / uint instantiations the C side holds 32-bit elements, so the statements hold for values within "
                 "32 bits (otherwise KF-C03-c-int-width, scope NDPAIR:c-int-width / ND:c-int-width; OW/Nd/CInt.lean narrow32_id_*)"],
    partial=["clause 3 (DESIGN C03-T3 cabi_eq_goapi): PROVED AT THE LIST LEVEL as centry_eq_goapi (OW/Props/C03Entry.lean) over the model "
             "OW/Sim/CEntry.lean of libopenwater/single.go (flat caller buffers with their ten extents, the initStates flag, the NULL states pointer; "
             "catalogue miss = nil-func panic before any buffer is wrapped): for every catalogue, kernel, spec, extents and flags, with buffers sized by "
             "their extents, the outputs buffer and (pointer non-NULL) the states buffer after the call are the row-major flattening of what Sim.run "
             "returns on the wrapped arrays (from InitialiseStates(nCells) when initStates), parameters / inputs unchanged, same panic class, no store "
             "outside the states buffer. BOTH SIDES SHARE THE KERNEL RUN Sim.run BY CONSTRUCTION (single.go calls the model's own Run): what is proved "
             "is the glue — buffer <-> array (flat*_unflat*, unflat*_flat*), shape preservation of Run (run_shape), the initStates path and its "
             "unchecked row-by-row copy-back (copyBack_exact / copyBack_narrow / copyBack_wide_oob), the frame (centry_frame), errors "
             "(centry_unknown_model, centry_error, centry_ok_iff). Hypothesis of the initStates case: nStates = the width of the states the library "
             "initialises (a narrower caller buffer is silently overrun — copyBack_wide_oob; the caller's obligation, as the buffer sizes)",
             "clause 3, VIEW LEVEL: only PART is proved (OW/Props/C03EntryNd.lean): RootOnC / rootOnC_fromC (a caller buffer wrapped by fromC is a C-backed "
             "root) and c_cell_views_states / c_cell_views_outputs / c_cell_views_inputs (the template's per-cell state, output and input views on C-backed "
             "roots are the caller's own pointer from position i*nS / (i*nO+o)*T' / ((i%nIn)*nI+k)*T — the input chain through the offset root its first "
             "reshape returns; Get1 / Set1 through them are Get / Set of the root at [i,s] / [i,o,t] / [i%nIn,k,t], inside the buffer). NOT "
             "proved: the parameter views on C roots, and the composition into the "
             "goroutine / Run on C-backed roots — C04Nd.runNd_refines (view level = list level) is stated for Go-backed roots (RootOn, isC = false), and the "
             "initStates case mixes Go-backed states with C-backed inputs / outputs. So the step 'Run on C-backed roots = Sim.run on the row-major lists' "
             "rests on runNd_refines (Go-backed) + observational_equivalence over Op (the wrapper's Get1 / Set1 / Apply1 are outside Op) + the CABI "
             "correspondence (sampled: every catalogued model, libopenwater.so called from a C program with guard zones, compared bit for bit with the "
             "Go-API run and with the wrapper model)",
             "observational_equivalence (C03Full) supersedes the _partial versions of C03Bulk for programs over Op: no excluded case is left THERE"],
)

META = dict(
    category="proof",
    text="Lean 4 theorems: a Go-backed and a C-backed array with the same shape and contents stay related (same metadata, same element "
         "values) under every operation of the operation set Op and return equal observations (rel_slice / rel_get / rel_set / rel_apply / "
         "rel_applySlice / rel_copyFrom / rel_unroll / rel_extremum / rel_zipWithInto / rel_reshape*, whole programs: observational_equivalence, "
         "observational_equivalence_roots), and every address a C-backed reachable view reads or writes for an in-range request lies inside the "
         "caller's buffer (c_inbounds_get, c_inbounds_set, c_never_oob, c_never_oob_off). Clause 3 (RunSingleModel through the C entry point = Go API) "
         "is a theorem at the list level (centry_eq_goapi over the model OW/Sim/CEntry.lean of libopenwater/single.go: outputs / states buffers after the call = "
         "row-major flattening of the Go-API result, also when the library initialises the states; parameters / inputs untouched; same panics; the kernel run is "
         "shared by both sides by construction, the theorem is about the glue) and, at the view level, for the per-cell state / output views on C-backed roots "
         "(c_cell_views_states / _outputs / _inputs); the whole Run on C-backed roots is not composed (declared) and rests on the CABI correspondence (sampled). Model tied to the code by lock-step "
         "runs of the same operation sequence on both back-ends with guard zones, and by the C ABI runs of all catalogued models.",
    design_ref="DESIGN.md §6 C03",
    note="Trusted: Lean kernel + 3 standard axioms; Go unsafe pointer semantics; canaries detect only writes near the buffer. Known findings: "
         "overlapping bulk copies differ between back-ends (scope NDPAIR:overlap); C-backed int / uint arrays hold 32-bit elements (NDPAIR:c-int-width).",
    technique="Lean 4 proof (bisimulation over the operation set, address bounds) + lock-step differential runs Go-backed vs C-backed + index algebra (Index, SliceInto, Contiguous, integer helpers) regenerated from the Go source on every run by a translator (gen_eq_* theorems tie it to the hand-written model); heap-level operations and the C-specific code hand-written, tied by correspondence",
)
READY = True
