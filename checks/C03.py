from vlib.core import Check, Family
from vlib.c03 import build_cabi
from vlib.genidx import genidx_step   # tie A: the index / hyperslab / util-fn functions regenerated as Lean and proved equal to the hand-written model (gen_eq_*, OW/Props/GenTieIndex.lean; table TIES in vlib/genidx.py)
from checks.models import ALL_MODELS, TOL_BY_MODEL, EXTRA_ARGS

CHECK = Check(
    "C03",
    props_modules=["OW.Props.C03", "OW.Props.C03Bulk", "OW.Props.C03Full"],
    pre_steps=[build_cabi, genidx_step],
    families=[Family("NDPAIR"), Family("ND", args=["prop=C03"], label="ND-c"),
              Family("CABI", rtol=1e-9, atol_scale=1e-12, tol_by_model=TOL_BY_MODEL, args=["models=" + ",".join(ALL_MODELS), "n=10"] + EXTRA_ARGS)],
    level="proof",
    trusted=[
        "hand-written Lean model of the C back-end (data/cdata/arrays_c.go) inside OW/Nd/Array.lean (isC = true paths: unchecked pointer "
        "indexing limited to the caller's buffer, no fast paths, copying Unroll, aliasing contiguous Reshape), tied to the code by NDPAIR "
        "(same program on Go-backed and C-backed roots, both runs compared with the model; canary guard zones around every C buffer "
        "checked after every operation) and ND programs on C roots",
        "memory safety of the real process: theorems c_inbounds_get / c_inbounds_set / c_never_oob / c_never_oob_off on the model (in-range requests) + canaries on the sampled runs; Go unsafe.Pointer semantics trusted",
        "C entry point: libopenwater.so built from the current tree and called from a C program (harness/cabi/driver.c) with guard zones around "
        "all four caller buffers, for every catalogued model; results compared bit for bit with the Go-API run of the same case and with the "
        "wrapper model (family CABI)",
    ],
    assumptions=["views reachable by in-bounds slicing of roots with extents >= 1 (Reach: steps >= 1, non-empty value lists `vals != []` in Apply) ; "
                 "operations in the domain of the reference semantics: every request in bounds (ProgOK'). OUT of range the two back-ends are NOT "
                 "equivalent: the Go back-end panics (slice index check), the C back-end indexes *[1<<30]T unchecked and reads / writes the caller's memory "
                 "silently (c_never_oob* state the in-range side only; canaries see the sampled runs)",
                 "buffer-size obligations of the caller: ShapesOK (every buffer holds at least the product of its shape, extents >= 1) / ArrOK "
                 "(window inside the storage); the C side cannot check them",
                 "the operation set of the bisimulation is Op = slice, get, set, apply, applySlice, copyFrom, unroll, contiguous, extremum (Maximum/Minimum), "
                 "zipWithInto (Scale/AddTo/ApplyFunc1), reshape, reshapeFast. NOT in it: the rank-specialised accessors Get1/Set1/Apply1/Get2/Get3/Set2/Set3 "
                 "(hand-written per rank in the template; modelled, in the ND / NDPAIR correspondence, not in Op), MustReshape (= reshape + panic on error; "
                 "rel_mustReshape is proved separately, not part of a program), NewArray / the root constructors (world_of_roots gives the initial relation)",
                 "two-array operations (applySlice, copyFrom, zipWithInto) between DIFFERENT storages on both sides (overlap = known finding KF-C03-overlap)",
                 "one element type on both sides: for the int / uint instantiations the C side holds 32-bit elements, so the statements hold for values within "
                 "32 bits (otherwise KF-C03-c-int-width, scope NDPAIR:c-int-width / ND:c-int-width; OW/Nd/CInt.lean narrow32_id_*)"],
    partial=["cabi_eq_goapi (DESIGN C03-T3, clause 3 of the property: RunSingleModel through the C entry point = the Go-API run): NO THEOREM. "
             "libopenwater/single.go (wrapping the caller buffers as C-backed arrays of shape [nCells,nStates] etc., the `states != nil` guard, "
             "InitialiseStates + CopyFrom when initStates) is not modelled; the view-level wrapper theorems (C04Nd RootOn) are stated for Go-backed roots "
             "(isC = false). The C entry point is tied by the CABI correspondence only (sampled: every catalogued model, libopenwater.so called from a C "
             "program with guard zones, compared bit for bit with the Go-API run and with the wrapper model)",
             "observational_equivalence (C03Full) supersedes the _partial versions of C03Bulk for programs over Op: no excluded case is left THERE"],
)

META = dict(
    category="proof",
    text="Lean 4 theorems: a Go-backed and a C-backed array with the same shape and contents stay related (same metadata, same element "
         "values) under every operation of the operation set Op and return equal observations (rel_slice / rel_get / rel_set / rel_apply / "
         "rel_applySlice / rel_copyFrom / rel_unroll / rel_extremum / rel_zipWithInto / rel_reshape*, whole programs: observational_equivalence, "
         "observational_equivalence_roots), and every address a C-backed reachable view reads or writes for an in-range request lies inside the "
         "caller's buffer (c_inbounds_get, c_inbounds_set, c_never_oob, c_never_oob_off). Clause 3 (RunSingleModel through the C entry point = Go API) "
         "has NO theorem: libopenwater/single.go is not modelled; it is decided by the CABI correspondence (sampled). Model tied to the code by lock-step "
         "runs of the same operation sequence on both back-ends with guard zones, and by the C ABI runs of all catalogued models.",
    design_ref="DESIGN.md §6 C03",
    note="Trusted: Lean kernel + 3 standard axioms; Go unsafe pointer semantics; canaries detect only writes near the buffer. Known findings: "
         "overlapping bulk copies differ between back-ends (scope NDPAIR:overlap); C-backed int / uint arrays hold 32-bit elements (NDPAIR:c-int-width).",
    technique="Lean 4 proof (bisimulation over the operation set, address bounds) + lock-step differential runs Go-backed vs C-backed + index algebra (Index, SliceInto, Contiguous, integer helpers) regenerated from the Go source on every run by a translator (gen_eq_* theorems tie it to the hand-written model); heap-level operations and the C-specific code hand-written, tied by correspondence",
)
READY = True
