from vlib.core import Check, Family
from checks.models import ALL_MODELS, TOL_BY_MODEL, EXTRA_ARGS
from vlib.purity import purity_step, PURITY_RULES
from vlib.gentie import gentie_step_all   # the causality theorems quantify over ALL kernel models: every regenerated tie is an obligation here

CHECK = Check(
    "C14",
    props_modules=["OW.Props.C14", "OW.Props.C14Prefix"],
    families=[Family("KHIST", rtol=1e-9, atol_scale=1e-12, tol_by_model=TOL_BY_MODEL, args=["models=" + ",".join(ALL_MODELS), "n=24"] + EXTRA_ARGS)],
    # regenerated structural fact: no function reachable from a kernel assigns a package-level variable or calls a method of one
    # (cache objects, sync.Map, pools) — "no information survives in package-level variables" decided on the source, not only on sampled histories
    pre_steps=[purity_step(PURITY_RULES, "C14"), gentie_step_all],
    level="proof",
    trusted=[
        "the Lean kernel models are total functions of (parameters, states, inputs): purity is by construction there, so the property "
        "is decided against the CODE by the KHIST correspondence: histories of real runs in one process (same object again, fresh "
        "object, other models and other parameters in between, inputs truncated at t, later inputs changed) where EVERY run is "
        "compared with the history-free model — any hidden carry-over or look-ahead makes some run disagree",
        "oracle on the implementation: runs with identical calls are bit-identical; runs whose inputs agree up to t agree on outputs up to t",
    ],
    assumptions=["all input series of a call have the same length"],
    partial=[
        "causal_<M> : Causal M.model (both the whole-period run and the truncated run succeed ⇒ equal outputs on the prefix) and the STRONG "
        "form causalStrong_<M> (OW/Props/C14Prefix.lean: the whole-period run succeeds ⇒ the truncated run succeeds too and agrees on the "
        "prefix; a Go panic of the truncated run is a panic of the whole run) are proved for ALL 41 catalogue models over any arithmetic "
        "(causal_catalogue, causalStrong_catalogue): 34 whose only failure is a shape mismatch, GR4J / Lag (panics depend on parameters and "
        "state row only), DateGenerator, RatingCurvePartition, StorageRouting (the loop stops / the loop state stays an error at the first "
        "panicking timestep), Storage (OW/Proofs/StoragePrefix.lean: the look-up of the final volume in the level/area tables cannot panic at "
        "a truncation point). One restriction INSIDE the statement: InstreamDissolvedNutrientDecay needs a truncation point ≥ 1 — a run over "
        "ZERO timesteps panics in reachVolume.Get([0]) although every longer run succeeds (prefix_zero_InstreamDissolvedNutrientDecay; "
        "all other 40 models: causalStrong_catalogue_zero)",
        "hotstart_catalogue: hot-start continuity for 36 models at R; exceptions (hotStartExceptions): DateGenerator (no state, restarts at the parameter date: hotstart_DateGenerator_counterexample), InstreamDissolvedNutrientDecay, InstreamFineSediment, Sacramento, StorageRouting (see C06)",
    ],
)

META = dict(
    category="proof",
    text="Lean 4 theorems: `causal_<M> : Causal M.model` for all 41 catalogue models, proved directly over any arithmetic (outputs up to t "
         "are unchanged when the inputs after t are truncated or changed — also for the models where hot-start continuity fails), for "
         "all parameters/series/truncation points; and `causalStrong_<M>` for all 41: a successful whole-period run implies that every "
         "truncated run succeeds (no panic) and agrees on the prefix (InstreamDissolvedNutrientDecay: truncation points ≥ 1); purity holds by construction in the model (total functions of parameters, states, inputs) "
         "and is tied to the code by history correspondence: every Run of a history of real runs equals the history-free model's result.",
    design_ref="DESIGN.md §6 C14",
    note="Trusted: Lean kernel + 3 standard axioms; history generator (<= 12 runs over <= 4 objects per history); package-level state "
         "in the Go runtime or in cgo is outside the model.",
    technique="Lean 4 proof (causality from scan structure) + history differential correspondence against a history-free model + regenerated structural facts as proof obligations with a race-detector probe for a witness",
)
READY = True
