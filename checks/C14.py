from vlib.core import Check, Family
from checks.models import ALL_MODELS, TOL_BY_MODEL, EXTRA_ARGS
from vlib.purity import purity_step, PURITY_RULES
from vlib.gentie import gentie_step_all   # the causality theorems quantify over ALL kernel models: every regenerated tie is an obligation here

CHECK = Check(
    "C14",
    props_modules=["OW.Props.C14", "OW.Props.C14Prefix", "OW.Props.C14Wrapper"],
    families=[Family("KHIST", rtol=1e-9, atol_scale=1e-12, tol_by_model=TOL_BY_MODEL, args=["models=" + ",".join(ALL_MODELS), "n=24"] + EXTRA_ARGS)],
    # regenerated structural fact: no function reachable from a kernel assigns a package-level variable or calls a method of one
    # (cache objects, sync.Map, pools) — "no information survives in package-level variables" decided on the source, not only on sampled histories
    pre_steps=[purity_step(PURITY_RULES, "C14"), gentie_step_all],
    level="proof",
    trusted=[
        "PURITY IS NOT PROVED: the Lean kernel models are total functions of (parameters, states, inputs), so purity is by construction "
        "there and the Lean theorem run_deterministic is congruence of equality (subst; rfl) — trivial, no content about the code. The "
        "purity half of the property is DECIDED against the CODE by (a) the structural purity rule regenerated from the Go source "
        "(pre-step purity_step: no function reachable from a kernel assigns a package-level variable or calls a method of one) and "
        "(b) the KHIST correspondence: histories of real runs in one process (same object again, fresh "
        "object, other models and other parameters in between, inputs truncated at t, later inputs changed) where EVERY run is "
        "compared with the history-free model — any hidden carry-over or look-ahead makes some run disagree",
        "oracle on the implementation: runs with identical calls are bit-identical; runs whose inputs agree up to t agree on outputs up to t",
    ],
    assumptions=["all input series of a call have the same length",
                 "wrapper-level theorems (OW/Props/C14Wrapper.lean): the truncated call has the same parameter array, state argument and number "
                 "of cells, its input array is the first n1 timesteps of every series of every block (same number of blocks and series), and "
                 "the two output arrays agree on the first n1 timesteps BEFORE the calls (structure Truncates: e.g. the same array, the array "
                 "cut to n1 timesteps, or two zero-filled arrays); wrapper_causal additionally assumes that both wrapper runs succeed, "
                 "wrapper_causalStrong only the whole-period one"],
    partial=[
        "run_deterministic (purity) is a congruence lemma, not a proof of purity of the code: purity is decided by KHIST + the structural "
        "purity rule (see trusted)",
        "wrapper level: wrapper_causal / wrapper_causalStrong / wrapper_causal_change (+ _catalogue instances for all 41 models) lift "
        "per-call causality through C04.runCells_spec to the N-cell run of the LIST-LEVEL wrapper semantics OW.Sim.run (every output row "
        "of every cell agrees on the first n1 timesteps; strong form: the truncated wrapper run succeeds when the whole-period run does, "
        "n1 >= 1 because of InstreamDissolvedNutrientDecay, all n1 for the other 40). NOT done: composing this with the strided-view "
        "refinement C04Nd.runNd_refines (the result is about lists of rows, not about the Nd arrays' storage), and final STATES of the "
        "truncated run are not related to anything (that is hot-start continuity, C06)",
        "causal_<M> : Causal M.model (both the whole-period run and the truncated run succeed ⇒ equal outputs on the prefix) and the STRONG "
        "form causalStrong_<M> (OW/Props/C14Prefix.lean: the whole-period run succeeds ⇒ the truncated run succeeds too and agrees on the "
        "prefix; a Go panic of the truncated run is a panic of the whole run) are proved for ALL 41 catalogue models over any arithmetic "
        "(causal_catalogue, causalStrong_catalogue): 34 whose only failure is a shape mismatch, GR4J / Lag (panics depend on parameters and "
        "state row only), DateGenerator, RatingCurvePartition, StorageRouting (the loop stops / the loop state stays an error at the first "
        "panicking timestep), Storage (OW/Proofs/StoragePrefix.lean: the look-up of the final volume in the level/area tables cannot panic at "
        "a truncation point). One restriction INSIDE the statement: InstreamDissolvedNutrientDecay needs a truncation point ≥ 1 — a run over "
        "ZERO timesteps panics in reachVolume.Get([0]) although every longer run succeeds (prefix_zero_InstreamDissolvedNutrientDecay; "
        "all other 40 models: causalStrong_catalogue_zero)",
        "hotstart_catalogue: hot-start continuity for 36 models at R; exceptions (hotStartExceptions): DateGenerator (no state, restarts at the parameter date: hotstart_DateGenerator_counterexample), InstreamDissolvedNutrientDecay, InstreamFineSediment, Sacramento, StorageRouting (see C06)",
    ],
)

META = dict(
    category="proof",
    text="Lean 4 theorems: `causal_<M> : Causal M.model` for all 41 catalogue models, proved directly over any arithmetic (outputs up to t "
         "are unchanged when the inputs after t are truncated or changed — also for the models where hot-start continuity fails), for "
         "all parameters/series/truncation points; and `causalStrong_<M>` for all 41: a successful whole-period run implies that every "
         "truncated run succeeds (no panic) and agrees on the prefix (InstreamDissolvedNutrientDecay: truncation points ≥ 1); lifted to the "
         "N-cell wrapper run through C04.runCells_spec (`wrapper_causal`, `wrapper_causalStrong`, `wrapper_causal_change`, "
         "`wrapper_causal_catalogue`: every output row of every cell agrees on the first n1 timesteps, any layout / number of cells / "
         "cyclic reuse of parameter sets and input blocks / hot start). PURITY IS NOT PROVED: in the model it holds by construction "
         "(total functions of parameters, states, inputs; `run_deterministic` is congruence, trivial) and it is DECIDED against the code by "
         "the KHIST history correspondence (every Run of a history of real runs equals the history-free model's result; identical calls "
         "bit-identical) together with the structural purity rule regenerated from the Go source (no function reachable from a kernel "
         "writes a package-level variable or calls a method of one).",
    design_ref="DESIGN.md §6 C14",
    note="Trusted: Lean kernel + 3 standard axioms; history generator (<= 12 runs over <= 4 objects per history); package-level state "
         "in the Go runtime or in cgo is outside the model.",
    technique="Lean 4 proof (causality from scan structure, lifted to the N-cell wrapper run through C04.runCells_spec) + history differential correspondence against a history-free model + regenerated structural facts as proof obligations with a race-detector probe for a witness",
)
READY = True
