# Catalogue models grouped by the tolerance class of their kernel model (see DESIGN.md §4 "Canonical output").
# EXACT: kernels using only + - * / comparisons sqrt floor/ceil; TOL: kernels using pow/exp/log/tanh/cos.
ALL_MODELS = []   # filled below; checks/C04, C05, C06, C14 iterate over it
