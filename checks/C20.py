from vlib.core import Check, Family
from vlib.gentie import gentie_step

# Comparison tolerance for ALL four outputs (vaporPressure, dewPoint, wetBulb, deltaT): rtol 1e-9, atol 1e-12 × the largest
# magnitude on the line. Go's math.Pow/Log10/Log and the C libm behind Lean's Float agree to a few ulp (observed: ≤ 4e-13
# relative on the outputs), so 1e-9 leaves three orders of margin for the smooth part of the computation.
# The wet-bulb outputs are NOT a smooth function of the inputs: the bisection takes decisions `(h − fmid) > 0` and
# `|dx| < 1e-4` on computed values, and the loop stops as soon as |dx| < 1e-4 (after ≤ 20 of the 40 iterations), so a decision
# flipped by a 1-ulp libm difference changes wetBulb/deltaT by up to the last bracket width, ≤ 1e-4 °C — far above any
# tolerance that would still be a meaningful comparison. Instead of loosening the tolerance, the generator (models_climate.go)
# rejects samples that come within 1e-12 (relative; 1000× the libm disagreement) of such a decision boundary (≈ 3e-7 of the
# samples; counted in the evidence histogram as `C20:near-tie-rejected-by-generator`); for every emitted sample both sides
# take the same branches and the wet-bulb outputs then differ only by the smooth libm error.
CHECK = Check(
    "C20",
    props_modules=["OW.Props.C20"],
    families=[Family("K", rtol=1e-9, atol_scale=1e-12, args=["models=ClimateVariables", "prop=C20", "n=400"], label="K-climate")],
    pre_steps=[gentie_step],   # tie A: climate_variables.go regenerated as Lean and proved equal to the hand-written model (gen_eq_ClimateVariables)
    level="proof",
    trusted=[
        "hand-written Lean model OW/Kernels/Climate.lean of models/climate/climate_variables.go (Goff-Gratch, Magnus dew point, "
        "barometric pressure, humidity ratio, enthalpy, 40-step wet-bulb bisection with its early exit), tied to the code by the "
        "K correspondence on every run (real ClimateVariables wrapper+kernel via sim.Catalog vs compiled model, rtol 1e-9)",
        "theorems are about exact real arithmetic (ℝ instance of Num: rpow, logb 10, log); IEEE rounding, overflow and NaN are "
        "covered by execution only (correspondence + oracle: finiteness, strict monotonicity on dense float grids)",
        "oracle for the failing-input search: the property's predicates on the implementation's outputs (vp>0, vp strictly "
        "increasing along ascending temperature grids incl. across 0 °C, min(dew,dry) ≤ wet ≤ max(dew,dry), deltaT == dry−wet "
        "bit for bit, dew point increasing along ascending humidity grids, finiteness)",
    ],
    assumptions=[
        "vp_pos, wetbulb_between, deltaT_def: no hypotheses (any temperature, humidity, elevation; wetbulb_between for ANY "
        "enthalpy/pressure/vapour-pressure functions)",
        "vp_strictMono_ice: −273.16 < T1 < T2 ≤ 0; vp_strictMono_water: 0 < T1 < T2 ≤ 100",
        "dewpoint_mono_humidity: 0 < RH1 < RH2 and ln(ea2/0.6108) < 17.27 (the Magnus denominator stays positive; true for "
        "every ea < 1.9e7 kPa, i.e. for every meteorological input)",
    ],
    partial=[
        "NOT PROVED: vapour pressure monotone ACROSS the freezing point (vp_ice(0) < vp_water(0+) has a margin of 5e-5 in log10 "
        "and needs verified interval arithmetic on transcendental constants) — checked on dense float grids by the oracle only",
        "NOT PROVED: convergence of the bisection to the enthalpy match (only the bracket invariant is proved)",
        "NOT PROVED: finiteness of the IEEE results (ℝ has no non-finite values) — checked by the oracle on the real code",
        "RECORDED, not raised: for RH = 100 % and T ≳ 31 °C the Magnus dew point exceeds the dry bulb by ≤ 0.006 °C, so "
        "deltaT is slightly negative; `between` holds in the order-free sense that is proved",
    ],
)

META = dict(
    category="proof",
    text="Lean 4 theorems over a hand-written model of climate_variables.go at exact real arithmetic: vapour pressure positive "
         "(both Goff-Gratch branches), strictly increasing on each branch, wet bulb between dew point and dry bulb for ANY "
         "searched function (bracket invariant of the bisection, by induction on the iteration count), deltaT = dry − wet, dew "
         "point increasing in humidity; kernel-checked. The model is tied to the code on every run by comparing the real "
         "ClimateVariables run with the compiled model (rtol 1e-9), and the property's predicates are evaluated on the real "
         "outputs over grids and random samples of T∈[-40,55], RH∈(0,100], elevation∈[0,10000].",
    design_ref="DESIGN.md §6 C20",
    note="Trusted: Lean kernel + propext/Classical.choice/Quot.sound; hand-written model tied by correspondence; theorems at ℝ. "
         "Not proved: monotonicity across 0 °C, bisection convergence, IEEE finiteness (all three sampled by the oracle).",
    technique="Lean 4 proof (induction on bisection steps; rpow/log monotonicity) + differential correspondence model vs real code",
)
READY = True
