from vlib.core import Check, Family
from vlib.gentie import gentie_step

# Comparison tolerance for ALL four outputs (vaporPressure, dewPoint, wetBulb, deltaT): rtol 1e-9, atol 1e-12 × the largest
# magnitude on the line. Go's math.Pow/Log10/Log and the C libm behind Lean's Float agree to a few ulp (observed: ≤ 4e-13
# relative on the outputs), so 1e-9 leaves three orders of margin for the smooth part of the computation.
# The wet-bulb outputs are NOT a smooth function of the inputs: the bisection takes decisions `(h − fmid) > 0` and
# `|dx| < 1e-4` on computed values, and the loop stops as soon as |dx| < 1e-4 (after ≤ 20 of the 40 iterations), so a decision
# flipped by a 1-ulp libm difference changes wetBulb/deltaT by up to the last bracket width, ≤ 1e-4 °C — far above any
# tolerance that would still be a meaningful comparison. Instead of loosening the tolerance, the generator (models_climate.go)
# rejects samples that come within 1e-12 (relative; 1000× the libm disagreement) of such a decision boundary (≈ 3e-7 of the
# samples; counted in the evidence histogram as `C20:near-tie-rejected-by-generator`); for every emitted sample both sides
# take the same branches and the wet-bulb outputs then differ only by the smooth libm error.
CHECK = Check(
    "C20",
    props_modules=["OW.Props.C20", "OW.Props.Rounded.C20"],
    families=[Family("K", rtol=1e-9, atol_scale=1e-12, args=["models=ClimateVariables", "prop=C20", "n=1500"], label="K-climate")],
    pre_steps=[gentie_step],   # tie A: climate_variables.go regenerated as Lean and proved equal to the hand-written model (gen_eq_ClimateVariables)
    level="proof",
    trusted=[
        "OW.Props.Rounded.C20: the INEQUALITY clauses are also proved over rounded arithmetic — the same kernel definitions instantiated at RNum R (OW/Proofs/Rounded.lean: every operation = exact real result followed by a rounding R.rnd that is monotone, odd, idempotent and fixes 0; literals rounded once; min/max/comparisons exact), for EVERY such R. Interpretation (not a Lean term): IEEE-754 binary64 round-to-nearest (or toward zero) on computations without overflow/NaN is one such R; math.Pow/Exp/Log are idealised as correctly rounded (only their sign / range is used). Two concrete non-identity instances (grid truncation, grid rounding away from zero) are constructed as witnesses",
        "hand-written Lean model OW/Kernels/Climate.lean of models/climate/climate_variables.go (Goff-Gratch, Magnus dew point, "
        "barometric pressure, humidity ratio, enthalpy, 40-step wet-bulb bisection with its early exit), tied to the code by the "
        "K correspondence on every run (real ClimateVariables wrapper+kernel via sim.Catalog vs compiled model, rtol 1e-9)",
        "theorems are about exact real arithmetic (ℝ instance of Num: rpow, logb 10, log); IEEE rounding, overflow and NaN are "
        "covered by execution only (correspondence + oracle: finiteness, strict monotonicity on dense float grids)",
        "oracle for the failing-input search: the property's predicates on the implementation's outputs (vp>0, vp strictly "
        "increasing along ascending temperature grids incl. across 0 °C, min(dew,dry) ≤ wet ≤ max(dew,dry), deltaT == dry−wet "
        "bit for bit, dew point increasing along ascending humidity grids, finiteness)",
    ],
    assumptions=[
        "rounded theorems (OW.Props.Rounded.C20): only the dew-point side of wetbulb_between survives an arbitrary monotone rounding (bisect_overshoots_away2 is a legitimate rounding on which the bisection leaves its bracket); wet <= dry stays an exact-arithmetic theorem + oracle",
        "vp_pos, wetbulb_between, deltaT_def: no hypotheses (any temperature, humidity, elevation; wetbulb_between for ANY "
        "enthalpy/pressure/vapour-pressure functions)",
        "vp_strictMono (= vp_strictMono_ice + vp_strictMono_across + vp_strictMono_water): −273.16 < T1 < T2 ≤ 100, including "
        "T1 ≤ 0 < T2 (vp_jump_at_zero: the branches do not meet, the water-branch limit at 0⁺ is 1.08e-4 relative ABOVE the ice "
        "value at 0 — proved by rational enclosures of the transcendental terms, OW/Proofs/ClimateFreezing.lean; the real code "
        "returns 0.6107161725 at T=0 and 0.6107821758457587 at T=5e-324)",
        "bisect_bracket_invariant: the level is bracketed on entry (f rtb < h ≤ f (rtb+dx)); ANY f, any sign of dx, no continuity",
        "bisect_converges / wetbulb_converges: additionally f continuous on the initial bracket (Mathlib IVT); "
        "wetbulb_converges_water / _ice discharge continuity for the real satEnthalpy when dew point and dry bulb are on the same "
        "side of 0 °C and pa ≠ vp on the bracket; satEnthalpy_strictMono_water: 0 < x1 < x2 ≤ 100 and vp(x2) < pa (crossing unique)",
        "dewpoint_mono_humidity: 0 < RH1 < RH2 and ln(ea2/0.6108) < 17.27 (the Magnus denominator stays positive); "
        "dewpoint_mono_humidity_range DISCHARGES that hypothesis on the meteorological range: −273.16 < T ≤ 100, 0 < RH1 < RH2 ≤ 100 "
        "(magnus_denominator_pos: ea ≤ vp(100 °C) = 101.325 kPa, 101.325/0.6108 < 2^17 ≤ e^17.27)",
        "sample_enthalpy_le_sat (upper half of the bracketing hypothesis of wetbulb_converges*, now derived): RH ≤ 100, vp(T) < pa, "
        "1.84 T + 2501 > 0; sample_wetbulb_converges_water applies it to the kernel's own sample — the LOWER half "
        "(satEnthalpy(dew) < hE) stays a hypothesis",
        "no_zero_divisor (the ℝ content of 'all outputs are finite'): T ∈ [−40, 55], RH ∈ (0, 100], elevation ∈ [0, 10000] ⇒ T + 273.16 > 0, "
        "the base of the barometric power > 0, 22.4 ≤ pa ≤ 101.3 kPa, pa − vp(x) > 0 for every x ∈ (−273.16, 55] (vp(55) ≤ 18.04 by "
        "rational enclosures, OW/Proofs/ClimateRange.lean), ea > 0, 17.27 − ln(ea/0.6108) > 0. Not covered: bisection midpoints above the "
        "dry bulb (only when dew > dry, known finding) and IEEE overflow/underflow",
        "run_eq_map_sample / run_spec: none (every elevation and series; the run is the per-day computation, no state between days)",
        "dew point ≤ dry bulb is NOT assumed anywhere. dewPoint_le_dryBulb_iff (RH > 0, T > −237.3, positive Magnus denominator): "
        "dew ≤ dry ⇔ GoffGratch(T)·RH/100 ≤ Magnus(T); dewPoint_le_dryBulb_of_magnus: GoffGratch(T) ≤ Magnus(T) ⇒ dew ≤ dry for "
        "all 0 < RH ≤ 100 (instance proved at T = 0); dewPoint_exceeds_dryBulb_example: 40 < dewPoint 40 100 (proved; real code: "
        "40.00548757635144)",
    ],
    partial=[
        "wet-bulb convergence is per side of 0 °C: the searched function jumps at 0 °C (vp_jump_at_zero), so when the bracket "
        "[dew, dry] straddles 0 °C only bisect_bracket_invariant (sign change located within 1e-4 °C, no continuity) applies; "
        "that the enthalpy level is bracketed on entry (satEnthalpy(dew) < hE ≤ satEnthalpy(dry)) is a hypothesis, not derived "
        "from the humidity (it mixes Magnus and Goff-Gratch)",
        "NOT PROVED: finiteness of the IEEE results (ℝ has no non-finite values) — its ℝ content (no division by zero, no log / "
        "fractional power of a non-positive number on the property's range) is no_zero_divisor; overflow/underflow is checked by the "
        "oracle on the real code",
        "the ORDERED reading 'dew point ≤ wet bulb ≤ dry bulb' of the between-clause is FALSE for the code: for RH = 100 % and "
        "T ≳ 31 °C the Magnus dew point exceeds the dry bulb by ≤ 0.006 °C, the wet bulb is then not below the dry bulb and deltaT ≤ 0 "
        "(dewPoint_exceeds_dryBulb_example, ordered_reading_counterexample at 40 °C / 100 %; real code: dew 40.00548757635144). Known "
        "finding KF-C20-dewpoint-above-drybulb (oracle scope ClimateVariables:dewpoint-above-drybulb, slack 1e-9·max(|dry|,1) so that "
        "dew = dry up to rounding does not fire), printed as KNOWN-FINDING on every run. What is PROVED is the order-free reading "
        "min(dew,dry) ≤ wet ≤ max(dew,dry) (wetbulb_between), which is also what the text 'lies between' says literally",
    ],
)

META = dict(
    category="proof",
    text="Lean 4 theorems over a hand-written model of climate_variables.go at exact real arithmetic: vapour pressure positive "
         "(both Goff-Gratch branches), strictly increasing on (−273.16, 100] INCLUDING across 0 °C (verified rational enclosures of "
         "the transcendental constants; the branches leave an upward jump at 0 °C), wet bulb between dew point and dry bulb for ANY "
         "searched function (bracket invariant of the bisection, by induction on the iteration count), convergence of the bisection "
         "to a level crossing within 1e-4 °C (sign invariant for any f; intermediate value theorem for continuous f, continuity "
         "discharged for the real enthalpy function on each side of 0 °C), deltaT = dry − wet, dew point increasing in humidity, "
         "dew ≤ dry characterised exactly (Goff-Gratch·RH ≤ Magnus) with a proved counter-example at 40 °C / 100 % (known finding KF-C20-dewpoint-above-drybulb: the ordered reading dew ≤ wet ≤ dry fails there), dew point increasing in humidity on the whole meteorological range, every divisor positive on the property's range (no_zero_divisor, the ℝ content of finiteness), run = map sample; kernel-checked. The model is tied to the code on every run by comparing the real "
         "ClimateVariables run with the compiled model (rtol 1e-9), and the property's predicates are evaluated on the real "
         "outputs over grids and random samples of T∈[-40,55], RH∈(0,100], elevation∈[0,10000].",
    design_ref="DESIGN.md §6 C20",
    note="Trusted: Lean kernel + propext/Classical.choice/Quot.sound; hand-written model tied by correspondence; theorems at ℝ. "
         "Not proved: IEEE finiteness (sampled by the oracle); bisection convergence across a bracket that straddles 0 °C holds only as the "
         "sign-change statement (the searched function jumps there).",
    technique="Lean 4 proof (induction on bisection steps; rpow/log monotonicity; rational enclosures by exact integer powers; IVT) + differential correspondence model vs real code + model regenerated from the Go source on every run by a translator (gen_eq_* theorems tie it to the hand-written model) + inequality clauses re-proved for every monotone rounding (RNum)",
)
READY = True
