from vlib.core import Check, Family
from vlib.gentie import gentie_step

CHECK = Check(
    "C19",
    props_modules=["OW.Props.C19", "OW.Props.C19Model"],
    families=[Family("DATE")],
    # tie A: dates.go (dateGenerator, _dayOfYear, daysInMonth, leapYear, DAYS_IN_MONTH) is REGENERATED as Lean on every run
    # (harness/cmd/owtranslate) and proved equal to OW/Util/Dates.lean (OW/Props/GenTieDates.lean: gen_eq_DateGenerator)
    pre_steps=[gentie_step],
    level="proof",
    trusted=[
        "hand-written Lean model OW/Util/Dates.lean of models/functions/dates.go, tied to the code by the DATE "
        "correspondence (real DateGenerator wrapper+kernel via sim.Catalog vs compiled model, exact integer comparison)",
        "Go int modelled as Int (no overflow); float64<->int conversions of day/month/year exact below 2^53",
        "oracle for the failing-input search: Go's time package as an independent Gregorian calendar",
    ],
    assumptions=[
        "start date valid (1<=month<=12, 1<=day<=length of month); any integer year; any run length",
        "model level (model_spec, model_spec_real: the four float output series of DateGenerator.model.run are rows.map ofInt of the "
        "rows of generator_spec): the parameters day, month, year are INTEGER-VALUED. The kernel applies int() to them: a non-integer "
        "parameter is truncated toward zero first (28.9 -> 28; modelled, Num.toInt), int(NaN) and int(+-Inf) are implementation-defined "
        "in Go and outside every statement; model_spec needs int(float(n)) = n, proved at R (toInt_ofInt_real) and true of float64 for "
        "|n| < 2^53",
    ],
)

META = dict(
    category="proof",
    text="Lean 4 theorems over a hand-written model of dates.go (generator_spec: the k-th emitted row is the unique "
         "valid Gregorian date with ordinal start+k, for every valid start, integer year and run length; leap rule, "
         "month lengths, day-of-year; ordinal injective on valid dates; model_spec / model_spec_real: for integer-valued parameters the four "
         "float output series of the catalogue model are those rows converted back), kernel-checked; the model is tied to the "
         "code on every run by exact comparison of the real DateGenerator (wrapper+kernel) with the compiled model.",
    design_ref="DESIGN.md §6 C19",
    note="Trusted: Lean kernel + propext/Classical.choice/Quot.sound; the correspondence generator (4k starts quick, "
         "all 146 097 starts of a 400-year cycle thorough); Go int as Int; float<->int exact below 2^53.",
    technique="Lean 4 proof (induction over run length, omega) + differential correspondence model vs real code + model regenerated from the Go source on every run by a translator (gen_eq_* theorems tie it to the hand-written model)",
)
READY = True
