from vlib.core import Check
from vlib.c09 import regen_step, catalog_step

CHECK = Check(
    "C09",
    props_modules=["OW.Props.C09"],
    families=[],
    level="translation_validation",
    pre_steps=[regen_step, catalog_step],
    trusted=[
        "the generators themselves (genny at the version pinned in go.mod, built from the module cache; ow-specgen built "
        "from the tree's own pre/ow-specgen): the check shows the checked-in files ARE their output, not that the "
        "generators are right — that is what C01–C04 establish for the templates",
        "the independent OW-SPEC reader harness/cmd/owextract (go/scanner for comments, own indentation reader; tab = two "
        "columns as in the project) as the statement of what a spec block declares",
        "the harness tool `owharness catalog` (reads sim.Catalog and Description() of the real code by reflection)",
        "Lean side (catalogue part only): OW/Gen/Catalog.lean is regenerated every run from the same two JSON dumps; "
        "`checkCatalog specs descs = true` is evaluated by the Lean kernel (`decide +kernel`, axioms: propext) and "
        "OW.Spec.Catalog.checkCatalog_sound turns it into `∀ s ∈ specs, ∃ d ∈ descs, Agrees s d`; spec ranges with an open end "
        "are exempt there (known findings catalog:<Model>.<param>:half-open-range, reported by the oracle channel)",
        "the JSON→Lean RENDERER vlib/c09.py (lean_catalog_source / _lmodel / _lpar / _lstr, written out by "
        "write_lean_catalog): it turns the two JSON dumps (owextract's spec dump; `owharness catalog`) into the Lean terms "
        "`specs` / `descs` of OW/Gen/Catalog.lean — string escaping, field order (name, type, pkg, params, inputs, states, "
        "outputs), float64 values as bit patterns, spec `pkg` = module path + directory. The Lean theorems speak about these "
        "rendered terms; that they denote the dumps is trusted (the same dumps are compared field by field in Python by "
        "catalog_step, independently of the renderer, and the data counts are restated in the generated file)",
        "backward direction (OW.Props.C09.catalogue_only_specs, catalogue_names_eq_spec_names): every key of sim.Catalog is "
        "the name of a spec block — evaluated by the kernel (`decide +kernel`) on the same regenerated data",
        "free text (description, units) of parameters is not compared; a missing default means 0, a missing range [0,0]",
    ],
    assumptions=[
        "a finite fact about the present working tree, re-established on every run (no theorem; nothing cached)",
        "go toolchain and module cache available offline; //go:generate commands are `go`, ow-specgen or a module in go.mod",
    ],
    explanation="Every //go:generate directive found in the sources and ow-specgen on every file mentioning OW-SPEC are "
                "re-run in a scratch copy; each produced file is compared byte for byte with the checked-in one; "
                "candidates nobody produces and spec blocks without wrapper are reported. The OW-SPEC blocks, read by an "
                "independent extractor, are compared field by field with the real catalogue's Description()s.",
)

META = dict(
    category="translation_validation",
    text="Every run re-derives all generated files from the current templates and specs (directives parsed from the "
         "source, generators built from the tree and go.mod) in a scratch copy and compares them byte for byte with the "
         "checked-in ones (6 genny instantiations, 41 wrappers today), reports generated-looking files nothing "
         "produces and specs without wrapper, and compares an independent reading of every OW-SPEC block with the "
         "real sim.Catalog / Description() (registration under the spec's name, type, package, parameter order, "
         "defaults, ranges, dimensions, inputs, states, outputs in spec order) — in Python field by field, and once "
         "more by the Lean kernel on the regenerated data (OW.Props.C09.catalogue_lists_every_spec; backward: "
         "catalogue_only_specs — no catalogue key without a spec).",
    design_ref="DESIGN.md §6 C09",
    note="Finite statement about the present tree: exhaustive over all generated files and all spec blocks, no theorem. "
         "A byte difference is itself the failing input; the replay file carries the unified diff. Known finding: the "
         "spec syntax `[0,]` (open upper bound; Sacramento.ssout, USLEFineSedimentGeneration.area) is not understood by "
         "ow-specgen (Description text `[0`, range [0,0]).",
    technique="regeneration + byte comparison (translation validation of the generator runs); independent spec "
              "extractor vs reflective dump of the real catalogue, compared in Python and by kernel evaluation in Lean 4",
)
READY = True
