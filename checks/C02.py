from vlib.core import Check, Family
from vlib.genidx import genidx_step   # tie A: the index / hyperslab / util-fn functions regenerated as Lean and proved equal to the hand-written model (gen_eq_*, OW/Props/GenTieIndex.lean; table TIES in vlib/genidx.py)

CHECK = Check(
    "C02",
    props_modules=["OW.Props.C02"],
    pre_steps=[genidx_step],
    families=[Family("ND", args=["prop=C02"]), Family("NI")],
    level="proof",
    trusted=[
        "hand-written Lean model OW/Nd/{Ints,View,Array}.lean (Contiguous, Unroll, Reshape/MustReshape/ReshapeFast, Apply, ApplySlice, "
        "CopyFrom, Maximum/Minimum, arrayops Scale/AddTo/ApplyFunc1, Offsets/IDivMod/Increment/Product/Multiply/Argmax/Maximum), "
        "tied to the code by the ND correspondence (state-level, incl. alias-vs-copy of Unroll/Reshape observed through the Impl "
        "window) and the NI correspondence (integer helpers on every list of length <= 3/4 over [-2,4])",
        "oracle: reference semantics written from the property (row-major visit; contiguous = adjacent in storage; alias iff contiguous Go-backed)",
        "C09 for the 8 element-type instantiations",
    ],
    assumptions=["views reachable by in-bounds slicing/reshaping of roots with extents >= 1; two-array operations between different storages "
                 "for the paths-agree theorems (overlap excluded there, see known finding)"],
)

META = dict(
    category="proof",
    text="Lean 4 theorems: integer helpers equal their arithmetic definitions (mixed-radix bijection ravel/unravel, Increment = successor, "
         "Argmax least maximal index, ...), contiguous_iff (Contiguous() true exactly when element k sits at start+k), unroll_spec "
         "(row-major visit; alias iff contiguous Go-backed), reshape_spec (size-mismatch / not-contiguous errors exactly; element order; "
         "aliasing), bulk operations = fold of the single-element operation for every contiguity combination. Model tied to the code "
         "by exact correspondence on op programs and exhaustive helper inputs.",
    design_ref="DESIGN.md §6 C02",
    note="Trusted: Lean kernel + 3 standard axioms; correspondence generators; Int for Go int. Known finding: bulk copies whose source and "
         "destination overlap in one storage (memmove fast path vs element-wise path) — scope ND:overlap.",
    technique="Lean 4 proof (mixed radix, contiguity invariant, list folds) + differential correspondence model vs real code + model regenerated from the Go source on every run by a translator (gen_eq_* theorems tie it to the hand-written model)",
)
READY = True
