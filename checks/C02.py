from vlib.core import Check, Family
from vlib.genidx import genidx_step   # tie A: the index / hyperslab / util-fn functions regenerated as Lean and proved equal to the hand-written model (gen_eq_*, OW/Props/GenTieIndex.lean; table TIES in vlib/genidx.py)

CHECK = Check(
    "C02",
    props_modules=["OW.Props.C02"],
    pre_steps=[genidx_step],
    families=[Family("ND", args=["prop=C02"]), Family("NI")],
    level="proof",
    trusted=[
        "hand-written Lean model OW/Nd/{Ints,View,Array}.lean (Contiguous, Unroll, Reshape/MustReshape/ReshapeFast, Apply, ApplySlice, "
        "CopyFrom, Maximum/Minimum, arrayops Scale/AddTo/ApplyFunc1, Offsets/IDivMod/Increment/Product/Multiply/Argmax/Maximum), "
        "tied to the code by the ND correspondence (state-level, incl. alias-vs-copy of Unroll/Reshape observed through the Impl "
        "window) and the NI correspondence (integer helpers on every list of length <= 3/4 over [-2,4])",
        "oracle: reference semantics written from the property (row-major visit; contiguous = adjacent in storage; alias iff contiguous Go-backed)",
        "C09 for the 8 element-type instantiations",
    ],
    assumptions=["views reachable by in-bounds slicing/reshaping of roots with extents >= 1 (Reach; SliceOK hides: steps >= 1, and for Apply a NON-EMPTY value "
                 "list `vals != []` with the last written index in bounds); window conditions ArrOK (the Impl window lies inside its storage)",
                 "zipWithInto_spec (arrayops Scale / AddTo / ApplyFunc1): source and destination of IDENTICAL shapes (hdims). Off it the contiguous fast path pairs "
                 "flat positions and the general path pairs multi-indices: zipWithInto_shape_mismatch_paths_differ (2x3 source into a contiguous 2x2 destination "
                 "gives [0,1,2,3], into the same destination as a gapped view [0,1,3,4]); every caller in the repository passes equal shapes",
                 "reshape_spec, success clause: new shape non-empty with extents >= 1 (`s != [] -> Pos s`); Reshape([]) of a one-element view PANICS in Offsets "
                 "(reshape_nil), non-positive extents are outside the theorem",
                 "integer helpers are specified on their in-range arguments only: idivmod_rowmajor for 0 <= k < prod dims, idivmod_wraps for k >= 0, "
                 "increment_rowmajor for in-bounds indices, dims with extents >= 1; for negative k Go's truncated / and % give mixed-sign digits (example in "
                 "OW.Props.C02.Ex), not specified further",
                 "two-array operations (applySlice_paths_agree, copyFrom_spec, zipWithInto_spec) are stated for source and destination in DIFFERENT STORAGES "
                 "(`dest.sid != source.sid`). This also excludes DISJOINT views of ONE storage (e.g. two rows of one array), for which the statements are true "
                 "of the code but not proved here (a restatement with disjoint address sets is not done); overlapping views are the known finding KF-C02-overlap",
                 "C-backed int / uint arrays: values within 32 bits (otherwise KF-C02-c-int-width, scope ND:c-int-width: every write narrows; OW/Nd/CInt.lean)"],
    partial=["two-array theorems for disjoint views of one storage: not proved (see assumptions); covered by the ND correspondence and the reference-semantics oracle"],
)

META = dict(
    category="proof",
    text="Lean 4 theorems: integer helpers equal their arithmetic definitions (mixed-radix bijection ravel/unravel, Increment = successor, "
         "Argmax least maximal index, ...), contiguous_iff (Contiguous() true exactly when element k sits at start+k), unroll_spec "
         "(row-major visit; alias iff contiguous Go-backed), reshape_spec (size-mismatch / not-contiguous errors exactly; element order; "
         "aliasing), bulk operations = fold of the single-element operation for every contiguity combination. Model tied to the code "
         "by exact correspondence on op programs and exhaustive helper inputs.",
    design_ref="DESIGN.md §6 C02",
    note="Trusted: Lean kernel + 3 standard axioms; correspondence generators; Int for Go int. Known finding: bulk copies whose source and "
         "destination overlap in one storage (memmove fast path vs element-wise path) — scope ND:overlap; C-backed int / uint arrays hold 32-bit "
         "elements — scope ND:c-int-width.",
    technique="Lean 4 proof (mixed radix, contiguity invariant, list folds) + differential correspondence model vs real code + index algebra (Index, SliceInto, Contiguous, integer helpers) regenerated from the Go source on every run by a translator (gen_eq_* theorems tie it to the hand-written model); heap-level operations and the C-specific code hand-written, tied by correspondence",
)
READY = True
