from vlib.core import Check, Family
from vlib.c05 import facts_step, race_step

# every catalogued model whose kernel model exists in OW/Kernels (kept in step with OW/Kernels/Registry.lean)
from checks.models import ALL_MODELS, TOL_BY_MODEL, EXTRA_ARGS

# Models whose WRAPPER-LEVEL correspondence (family W: Lean wrapper + kernel model vs real vectorised Run) currently disagrees
# for reasons that have nothing to do with scheduling: the same cases disagree identically in C04 and at every GOMAXPROCS
# (InstreamFineSediment: NaN / bank-erosion branch; Storage: per-set table lengths). They stay covered here by family WP
# (real code at GOMAXPROCS 1/2/4/16 vs itself and vs single-cell runs, no kernel model needed) and by the race tier.
# Remove an entry as soon as C04 is green for it.
W_MODEL_MISMATCH = []   # C04 is green for all 41 models
W_MODELS = [m for m in ALL_MODELS if m not in W_MODEL_MISMATCH]

_W = ["models=" + ",".join(W_MODELS), "n=12"] + EXTRA_ARGS


def _w(p):
    # same family name and seed => the same cases at every GOMAXPROCS; each run is compared with the (sequential) Lean model,
    # so all four are bit-identical to the model and hence to each other
    return Family("W", rtol=1e-9, atol_scale=1e-12, tol_by_model=TOL_BY_MODEL, args=_W + ["gomaxprocs=%d" % p], label="W-p%d" % p)


# Note: a Go panic in any cell's goroutine kills the process, so a panicking run has no result. When SEVERAL cells of one case
# panic for different reasons (e.g. RatingCurvePartition: `panic("nan")` in one cell, index out of range in another), which
# panic is reported is schedule-dependent (observed at gomaxprocs=4/16); vlib.core.compare_streams therefore compares only the
# fact that both sides panic, not the class.

CHECK = Check(
    "C05",
    props_modules=["OW.Props.C05", "OW.Props.C05Facts", "OW.Props.C05Addr"],
    families=[_w(1), _w(2), _w(4), _w(16),
              # every model with a case generator (no kernel model needed): each case at GOMAXPROCS 1, 2, 4, 16 in one worker
              Family("WP", args=["n=24"], compare=False)],
    level="proof",
    pre_steps=[facts_step, race_step],
    trusted=[
        "Go memory model (TRUSTED, not proved): a data-race-free Go program is sequentially consistent, i.e. behaves like some "
        "interleaving of atomic steps of its goroutines; the `go` statement happens-before the start of the goroutine it launches (so every "
        "goroutine sees the preamble's index vectors and the caller's arrays as initialised); a channel receive happens after the matching send; "
        "the Go scheduler eventually runs every runnable goroutine. The theorems are about the FOOTPRINTS of the model, not about the compiled program",
        "the footprints themselves: cell i's step (OW.Sim.cellStep, the C04 wrapper semantics) reads parameters, inputs, its own state "
        "row and output rows and writes only its own state row and output rows — a property of the list-level model OW/Sim/Wrapper.lean; "
        "tied to the source on every run by (A) the regenerated structural facts: harness/cmd/owrunfacts (go/parser + go/ast, general "
        "scope/alias rules, no fingerprints) over all 41 generated Run methods, 12 synthetic expansions of the template and "
        "cmd/ow-sim/running.go, checked by the Lean kernel (current_run_facts_ok) — the extractor accepts the counted done-channel join "
        "and the sync.WaitGroup join (Add of the launch count before the launches, one Done() at the end of every path, Wait() after the "
        "loop), one goroutine per cell and a bounded worker pool (a channel filled with exactly 0..N-1 and closed before the first worker "
        "starts, workers ranging over it), and re-establishes the footprint rules wherever the per-cell body lives: inline closure, a named "
        "method it calls, per-cell view helpers in another package of the module (the callee's body is walked with its parameters bound to "
        "the arguments); anything else is an `unsupported` site, i.e. a broken obligation —, and (B) real vectorised runs at GOMAXPROCS 1/2/4/16 "
        "compared with the sequential model (bit-exact up to the kernels' 1e-9 pow/exp tolerance) plus the in-worker single-cell oracle",
        "owrunfacts' knowledge of the data package API: Set/Set1/Set2/Set3/Apply/Apply1/ApplySlice/CopyFrom write the receiver's "
        "storage, Slice aliases it at the given location, Reshape/MustReshape/ReshapeFast/Unroll may alias, NewIndex returns a fresh "
        "vector, Shape aliases the dimension vector, other methods only read (the array semantics is C01/C02's subject); writes that a "
        "kernel makes THROUGH a view it was handed (e.g. into an input view) are outside the closure-level facts — covered by C04's "
        "frame oracle (inputs/parameters unchanged) and the race detector only",
        "memory is modelled at row granularity in OW.Props.C05 (address = state row i / output rows of cell i; element-level frames are C04's "
        "cellStep_frame) and at storage-position granularity in OW.Props.C05Addr (address = (storage id, position) of the OW/Nd heap; the step is the "
        "view-level model cellStepNd, whose agreement with the real template is C04's correspondence, not re-checked here)",
        "the ow-sim writer protocol (written exactly once, purge only after written and links applied) is C07's subject; here only the "
        "goroutine-per-model launch/join skeleton of runGeneration is covered (facts + join_complete); per-model footprints (each "
        "model type owns its generation object) are not proved here",
        "thorough tier: `go build -race` of the harness, family W for all models under GOMAXPROCS 4 and 16 with GORACE=halt_on_error=1 — "
        "sampling evidence for the footprints, never counted as proof",
    ],
    assumptions=[
        "T2/T3: tasks pairwise disjoint (no task writes what another reads or writes) — for cells this is proved (cells_disjoint), "
        "for arbitrary tasks it is the hypothesis",
        "T3: the vectorised run succeeds (`runCells … = .ok`); a Go panic in any goroutine kills the process (no result to compare)",
        "ROW WIDTH: every cell's state vector fits its row of the states array (`r.states.length <= st.length` for every cell). The list-level "
        "model truncates there (`overwrite`), so cells_any_interleaving / refined_cells_any_interleaving are TRUE of the model without it, but the "
        "code is not the model there: ApplySlice copies past the row into the NEXT cell's row, the footprints overlap and the states become "
        "schedule-dependent — reachable from the repository's own InitialiseStates, which sizes the array from cell 0 (known findings "
        "KF-C05-GR4J-InitialiseStates-row-width / KF-C05-Lag-InitialiseStates-row-width, scope race:<M>:InitialiseStates-row-width), not a caller error",
        "STORAGE DISJOINTNESS (the hypotheses of C04Nd.views_disjoint / write_invisible_to_other_cells): the states, outputs, parameters and inputs "
        "arrays live in pairwise different storages (states != outputs, states/outputs != parameters/inputs; parameters and inputs may share one), "
        "non-negative Impl offsets, extents >= 1 (Cfg.OK / Cfg.Sep of OW/Proofs/C05Addr.lean). The addresses `st i`, `out i` of OW/Sim/CellTasks.lean are "
        "ASSERTED to be distinct memory for distinct i; that they are distinct STORAGE POSITIONS is DERIVED under these hypotheses "
        "(C05Addr.cells_write_sets_disjoint, from C04Nd.views_disjoint) and composed with the interleaving theorem over addresses (storage id, position) "
        "(C05Addr.cells_any_interleaving_addr); together with ROW WIDTH (Cfg.OK.fits: the kernel's state vector fits the cell's row, its series the "
        "output rows) they are hypotheses of every theorem of OW.Props.C05Addr",
        "T4: unbuffered channel, every goroutine sends exactly once after finishing, the parent receives exactly N times; "
        "T4' (wg_join_complete): Add(N) before the launches, every goroutine calls Done() exactly once after finishing, Wait() returns "
        "only at counter 0 (sync.WaitGroup trusted) — established for the source by the facts: sendOk/launchOk/recvOk",
        "worker pool (workers_disjoint, pool_cells_any_interleaving): every cell index 0..N-1 is received by exactly one worker, once "
        "(the channel is filled with exactly these and closed; each value sent on a channel is received once — Go channel semantics, "
        "TRUSTED; established for the source by the facts: coverOk)",
    ],
    partial=[
        "partial by nature: schedule independence is proved for the MODEL's footprints; DRF ⇒ sequential consistency, channel "
        "happens-before and the scheduler are trusted (Go memory model)",
        "granularity / footprints: in OW/Sim/CellTasks.lean each cell is ONE atomic step with the asserted footprint [st i, out i]; "
        "refined_cells_any_interleaving removes the atomicity at row level (ANY splitting of a cell's goroutine into steps with footprints inside its own "
        "rows whose sequential effect is cellStepM). NOW PROVED (OW.Props.C05Addr, specs with scalar parameters only = the scope of "
        "C04Nd.wrapperNd_refines): the footprint is DERIVED at address level (storage id, position) for the goroutine body of the view-level model "
        "OW.Sim.WrapperNd.cellStepNd — cell_step_footprint (writes inside row i of states + rows (i,.,.) of outputs = C04Nd.WriteFoot, the positions "
        "cell_views_states/_outputs show the views to alias; reads inside that + the parameters/inputs windows, which the step leaves unchanged: "
        "cell_step_leaves_readonly), cells_write_sets_disjoint (from C04Nd.views_disjoint), and composed with disjoint_interleaving over these addresses: "
        "cells_any_interleaving_addr / cells_schedule_independent_addr (every interleaving / permutation of the N per-cell steps ends in the heap of the "
        "sequential runNd), cells_any_interleaving_addr_runCells (which denotes runCells' result, via runNd_refines), addr_footprint_refines_rows (the map "
        "address -> st i / out i sends the derived footprints into the asserted ones). REMAINS: (a) at address level the cell is still ONE atomic step "
        "(the element-by-element Get1/Set1 splitting of cellStepNd into steps with per-element footprints is not modelled; at row level "
        "refined_cells_any_interleaving covers any splitting); (b) wrappers with table parameters (C04NdTables) and the packed-state write-back "
        "(ApplySlice: GR4J, Lag) have no address-level step — for them the footprint stays the asserted row-level one + run facts + GOMAXPROCS sweep; "
        "(c) C-backed roots (isC) are outside RootOn; the worker-pool form is pool_cells_any_interleaving_addr",
        "per-model-goroutine footprints of ow-sim's runGeneration (each model type owns its generation object): NOT proved here — only the launch/join "
        "skeleton (facts + join_complete / wg_join_complete)",
        "writer goroutine vs main loop of ow-sim (which generation objects the writer reads while the main loop runs later generations): not in this "
        "module; C07's writer_no_conflict covers the protocol model, the gaps between that model and the code (purge, link application) are C07's partial list",
        "DESIGN C05-T3 (writer/main transition system at generation-object granularity) is not in this module: it is "
        "OW.Props.C07.writer_no_conflict, part of the C07 writer-protocol model",
    ],
)

META = dict(
    category="proof",
    text="Lean 4 theorems (core Lean, no axioms beyond propext/Quot.sound): steps_commute (non-conflicting footprints commute); "
         "disjoint_interleaving (+_view, same_view_in_all_interleavings): for pairwise disjoint tasks EVERY interleaving ends in the memory "
         "of the sequential run and every step sees the values its own task produced; cells_disjoint / cells_schedule_independent / "
         "cells_any_interleaving: on the C04 wrapper semantics the per-cell steps are pairwise disjoint, so every permutation and every "
         "interleaving of the cells yields exactly `runCells` (the sequential cell-by-cell result); refined_cells_any_interleaving: the same "
         "when a cell's goroutine is split into ANY number of steps whose footprints stay inside its own rows (no atomicity of the cell step); workers_disjoint / "
         "pool_cells_any_interleaving: the same for every bounded worker pool over the cells (a task is a worker, its footprint the union of "
         "its cells' rows); OW.Props.C05Addr: the same at ADDRESS level — cell_step_footprint / cells_write_sets_disjoint / "
         "cells_any_interleaving_addr: the footprint of the view-level per-cell step (storage id, position) is derived from the views' storage positions "
         "(C04Nd) and every interleaving ends in the heap of the sequential runNd; join_complete (+ deadlock freedom, termination in exactly 2N steps) for the doneChan pattern and "
         "wg_join_complete for the sync.WaitGroup pattern, for every N. The footprints are tied to the source by regenerated "
         "go/ast facts checked in Lean (current_run_facts_ok) and by vectorised runs at GOMAXPROCS 1/2/4/16 against the model.",
    design_ref="DESIGN.md §6 C05",
    note="PARTIAL BY NATURE: the theorems are about the footprints of the model. That data-race-free Go programs are sequentially "
         "consistent, that a channel receive happens-after the matching send, and the Go scheduler are TRUSTED (Go memory model), not "
         "proved. -race runs (thorough tier) and the GOMAXPROCS sweep are sampling evidence for the footprints, never a proof. The ow-sim "
         "writer protocol is covered by C07, not here.",
    technique="Lean 4 proof (induction on interleavings with adjacent-transposition commutation; transition-system invariant + measure "
              "for the join) + regenerated go/ast facts checked by `decide` + differential runs at several GOMAXPROCS + race detector",
)
READY = True
