from vlib.core import Check, Family
from vlib.gentie import gentie_step_all   # hot-start theorems are about the hand-written kernel models: every regenerated tie is an obligation here
from checks.models import STATEFUL_MODELS, TOL_BY_MODEL, EXTRA_ARGS

CHECK = Check(
    "C06",
    props_modules=["OW.Props.C06", "OW.Props.C06Laws"],
    families=[Family("KSPLIT", rtol=1e-9, atol_scale=1e-12, tol_by_model=TOL_BY_MODEL, args=["models=" + ",".join(STATEFUL_MODELS), "n=80"] + EXTRA_ARGS)],
    pre_steps=[gentie_step_all],
    level="proof",
    trusted=[
        "hand-written Lean kernel models OW/Kernels/* (state = exactly what the Go kernel loads from / stores to the state row, incl. "
        "the custom extract/pack functions of GR4J and Lag), tied to the code on every run by the KSPLIT correspondence: the real "
        "wrapper+kernel run once on the whole period and consecutively on its segments with the returned states carried forward, "
        "both compared with the model",
        "oracle on the implementation: one-call vs split-call outputs and final states bit-identical (StorageRouting: within 1e-6 "
        "relative, its root finder's starting point is not part of the state and the property allows the solver tolerance)",
    ],
    assumptions=["all input series of a call have the same length (true of the real input arrays)"],
    partial=[
        "hotstart_Sacramento_partial: HotStart is false (hotstart_Sacramento_counterexample, KF-C06-Sacramento-uh-buffer: the unit-hydrograph buffer qq is a local re-created at each call); proved at R only for uh2..uh5 = 0, uh1 != 0, 1+side != 0",
        "hotstart_InstreamDissolvedNutrientDecay_partial: HotStart is false with decay enabled (hotstart_InstreamDissolvedNutrientDecay_counterexample, KF-C06-InstreamDissolvedNutrientDecay-prevVolume); proved for doDecay < 0.5 (any arithmetic)",
        "hotstart_StorageRouting_partial: HotStart is false bit-exactly (hotstart_StorageRouting_counterexample: the root-finder seed qi is a local; the difference is within the 1e-3 mass-balance tolerance the property allows; an empty second part also zeroes the two dead state columns); proved exactly when the carried qi equals a fresh call's seed 0.0 and the second part has >= 1 step; exact split law storageRouting_split",
        "hotstart_InstreamFineSediment_partial: HotStart is false for a negative carried channel store (re-read as a fraction of the maximum storage at every call; hotstart_InstreamFineSediment_counterexample needs maximum storage < 0, i.e. unphysical parameters); proved for every split with a non-negative carried store, and unconditionally at R for maximum storage >= 0 (hotstart_InstreamFineSediment_real)",
        "GR4J: holds for EVERY arithmetic with the law class IntRoundTripLaw (int(float(n)) = n; hotstart_GR4J_lawful, instance at R), and per "
        "call under the BOUNDED law hotstart_GR4J_bounded (round trip only for n <= length of the state row: the two store sizes n1, n2; "
        "IEEE doubles satisfy it up to 2^53). Not provable for Lean's Float itself (opaque operations): there the law is an explicit hypothesis",
        "StorageTrapAll: holds for every arithmetic with the law class AddZeroLaw (y + 0.0 = y; hotstart_StorageTrapAll_lawful, instance at R), "
        "and with NO law at all up to that one operation: hotstart_StorageTrapAll_upto_add_zero (any Num, hence Float): the one-call outputs are "
        "element-wise the split-run outputs or those before '+ 0.0' (IEEE: differs only in the sign of a zero)",
    ],
)

META = dict(
    category="proof",
    text="Lean 4 theorems `hotstart_<M> : HotStart M.model` for the stateful kernel models (11 of 17 over ANY arithmetic, hence also the Float "
         "instance; GR4J and StorageTrapAll for every arithmetic satisfying one explicit law class — IntRoundTripLaw, bounded by the state-row length, resp. AddZeroLaw — with instances at R; StorageTrapAll also law-free up to '+ 0.0'): running a period in one call equals running its parts "
         "consecutively from the carried-forward final states (outputs concatenate, final states agree), for every split point, parameter set "
         "and series; for the four models where it is false (Sacramento, InstreamDissolvedNutrientDecay, StorageRouting bit-exactly, "
         "InstreamFineSediment with a negative carried store) a proved counter-example and a `_partial` theorem under the hypothesis that "
         "removes the leak. The models are tied to the real wrappers+kernels by split-run correspondence; the oracle compares one-call and "
         "split-call results of the real code.",
    design_ref="DESIGN.md §6 C06",
    note="Trusted: Lean kernel + 3 standard axioms; kernel models hand-written (correspondence-checked). Known findings: Sacramento "
         "unit-hydrograph buffer and InstreamDissolvedNutrientDecay prevVolume are not part of the state vector.",
    technique="Lean 4 proof (scan over a concatenation) + split-run differential correspondence",
)
READY = True
