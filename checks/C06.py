from vlib.core import Check, Family
from vlib.gentie import gentie_step_all   # hot-start theorems are about the hand-written kernel models: every regenerated tie is an obligation here
from checks.models import STATEFUL_MODELS, TOL_BY_MODEL, EXTRA_ARGS

CHECK = Check(
    "C06",
    props_modules=["OW.Props.C06", "OW.Props.C06Laws", "OW.Props.C06N", "OW.Props.C06Tol"],
    families=[Family("KSPLIT", rtol=1e-9, atol_scale=1e-12, tol_by_model=TOL_BY_MODEL, args=["models=" + ",".join(STATEFUL_MODELS), "n=80"] + EXTRA_ARGS)],
    pre_steps=[gentie_step_all],
    level="proof",
    trusted=[
        "hand-written Lean kernel models OW/Kernels/* (state = exactly what the Go kernel loads from / stores to the state row, incl. "
        "the custom extract/pack functions of GR4J and Lag), tied to the code on every run by the KSPLIT correspondence: the real "
        "wrapper+kernel run once on the whole period and consecutively on its segments with the returned states carried forward, "
        "both compared with the model",
        "oracle on the implementation: one-call vs split-call outputs and final states bit-identical. StorageRouting (its root "
        "finder's starting point is not part of the state): |difference| <= 1e-6 x max(1, largest output/state magnitude) OR "
        "<= 5e-3 absolute (harness/cmd/owharness/fam_ksplit.go). The property's clause 'within the solver's own mass-balance "
        "tolerance' is ORACLE-ONLY for whole runs: no theorem bounds the difference between the split run and the one-call run "
        "beyond the first timestep after a cut",
    ],
    assumptions=[
        "all input series of a call have the same length (true of the real input arrays)",
        "every call of the split run succeeds (hypothesis of HotStart / HotStartN). InstreamDissolvedNutrientDecay reads "
        "prevVolume := reachVolume.Get([0]) before its loop and before the doDecay test, so a call over ZERO timesteps panics "
        "(index out of range; model: .error, theorem instreamDissolvedNutrient_empty_part_errors): for that model a split with an "
        "empty part is outside the statement (all other stateful models accept an empty part)",
        "N-way splits (HotStartN, OW/Props/C06N.lean): a non-empty list of blocks, the same number of series in every block, all "
        "series of a block equally long (BlocksOk); for the HotStartWhen models the side condition is a hypothesis at EVERY cut "
        "(CutsOk) - needed once when it only constrains the parameter column (DecayDisabled, SacramentoNoSpread, "
        "FineSedimentMaxStorageNonneg). StorageRouting has no N-way instance",
        "storageRouting_split_tol_step_partial: bias < 0.999, duration > 0, SIndex non-decreasing in the index flow (hypothesis, "
        "not derived from the parameter ranges), and a call that exits through the root finder ends within massBalanceLimit",
    ],
    partial=[
        "hotstart_Sacramento_partial: HotStart is false (hotstart_Sacramento_counterexample, KF-C06-Sacramento-uh-buffer: the unit-hydrograph buffer qq is a local re-created at each call); proved at R only for uh2..uh5 = 0, uh1 != 0, 1+side != 0",
        "hotstart_InstreamDissolvedNutrientDecay_partial: HotStart is false with decay enabled (hotstart_InstreamDissolvedNutrientDecay_counterexample, KF-C06-InstreamDissolvedNutrientDecay-prevVolume); proved for doDecay < 0.5 (any arithmetic)",
        "hotstart_StorageRouting_partial: HotStart is false bit-exactly (hotstart_StorageRouting_counterexample: the root-finder seed qi is a local; in that example the two storages differ by 0.00025 m3; an empty second part also zeroes the two dead state columns); proved exactly when the carried qi equals a fresh call's seed 0.0 and the second part has >= 1 step; exact split law storageRouting_split",
        "storageRouting_split_tol_step_partial (OW/Props/C06Tol.lean): the tolerance clause is proved for the FIRST timestep after a cut only (same storage and inputs, different seeds, both solves within massBalanceLimit => storages differ by < 2*massBalanceLimit = 2e-3 m3, outflows by < 2*massBalanceLimit/duration). Missing for the full statement storageRouting_split_tol: propagation through the later timesteps (non-expansiveness of a routing step in the carried storage, error growing with the number of steps) and monotonicity of SIndex from the parameter ranges; for whole runs the clause is checked by the KSPLIT oracle only",
        "hotstart_InstreamFineSediment_partial: HotStart is false for a negative carried channel store (re-read as a fraction of the maximum storage at every call; hotstart_InstreamFineSediment_counterexample needs maximum storage < 0, i.e. unphysical parameters); proved for every split with a non-negative carried store, and unconditionally at R for maximum storage >= 0 (hotstart_InstreamFineSediment_real)",
        "GR4J: holds for EVERY arithmetic with the law class IntRoundTripLaw (int(float(n)) = n; hotstart_GR4J_lawful, instance at R), and per "
        "call under the BOUNDED law hotstart_GR4J_bounded (round trip only for n <= length of the state row: the two store sizes n1, n2; "
        "IEEE doubles satisfy it up to 2^53). Not provable for Lean's Float itself (opaque operations): there the law is an explicit hypothesis",
        "StorageTrapAll: holds for every arithmetic with the law class AddZeroLaw (y + 0.0 = y; hotstart_StorageTrapAll_lawful, instance at R), "
        "and with NO law at all up to that one operation: hotstart_StorageTrapAll_upto_add_zero (any Num, hence Float): the one-call outputs are "
        "element-wise the split-run outputs or those before '+ 0.0' (IEEE: differs only in the sign of a zero)",
    ],
)

META = dict(
    category="proof",
    text="Lean 4 theorems `hotstart_<M> : HotStart M.model` for the stateful kernel models (11 of 17 over ANY arithmetic, hence also the Float "
         "instance; GR4J and StorageTrapAll for every arithmetic satisfying one explicit law class — IntRoundTripLaw, bounded by the state-row length, resp. AddZeroLaw — with instances at R; StorageTrapAll also law-free up to '+ 0.0'): running a period in one call equals running its parts "
         "consecutively from the carried-forward final states (outputs concatenate, final states agree), for every split point, parameter set "
         "and series; for the four models where it is false (Sacramento, InstreamDissolvedNutrientDecay, StorageRouting bit-exactly, "
         "InstreamFineSediment with a negative carried store) a proved counter-example and a `_partial` theorem under the hypothesis that "
         "removes the leak. The models are tied to the real wrappers+kernels by split-run correspondence; the oracle compares one-call and "
         "split-call results of the real code. Any number of cuts: `HotStartN` (fold over a list of blocks) derived once from `HotStart` "
         "by induction, `HotStartWhenN` with the side condition at every cut (OW/Props/C06N.lean). StorageRouting's tolerance clause: "
         "first timestep after a cut proved (`storageRouting_split_tol_step_partial`), whole runs oracle-only.",
    design_ref="DESIGN.md §6 C06",
    note="Trusted: Lean kernel + 3 standard axioms; kernel models hand-written (correspondence-checked). Known findings: Sacramento "
         "unit-hydrograph buffer and InstreamDissolvedNutrientDecay prevVolume are not part of the state vector. "
         "InstreamDissolvedNutrientDecay panics on a call over zero timesteps (an empty part of a split is outside the statement).",
    technique="Lean 4 proof (scan over a concatenation) + split-run differential correspondence",
)
READY = True
