from vlib.core import Check, Family
from checks.models import STATEFUL_MODELS, TOL_BY_MODEL, EXTRA_ARGS

CHECK = Check(
    "C06",
    props_modules=["OW.Props.C06"],
    families=[Family("KSPLIT", rtol=1e-9, atol_scale=1e-12, tol_by_model=TOL_BY_MODEL, args=["models=" + ",".join(STATEFUL_MODELS), "n=40"] + EXTRA_ARGS)],
    level="proof",
    trusted=[
        "hand-written Lean kernel models OW/Kernels/* (state = exactly what the Go kernel loads from / stores to the state row, incl. "
        "the custom extract/pack functions of GR4J and Lag), tied to the code on every run by the KSPLIT correspondence: the real "
        "wrapper+kernel run once on the whole period and consecutively on its segments with the returned states carried forward, "
        "both compared with the model",
        "oracle on the implementation: one-call vs split-call outputs and final states bit-identical (StorageRouting: within 1e-6 "
        "relative, its root finder's starting point is not part of the state and the property allows the solver tolerance)",
    ],
    assumptions=["all input series of a call have the same length (true of the real input arrays)"],
    partial=[
        "hotstart_Sacramento_partial: HotStart is false (hotstart_Sacramento_counterexample, KF-C06-Sacramento-uh-buffer: the unit-hydrograph buffer qq is a local re-created at each call); proved at R only for uh2..uh5 = 0, uh1 != 0, 1+side != 0",
        "hotstart_InstreamDissolvedNutrientDecay_partial: HotStart is false with decay enabled (hotstart_InstreamDissolvedNutrientDecay_counterexample, KF-C06-InstreamDissolvedNutrientDecay-prevVolume); proved for doDecay < 0.5 (any arithmetic)",
        "hotstart_StorageRouting_partial: HotStart is false bit-exactly (hotstart_StorageRouting_counterexample: the root-finder seed qi is a local; the difference is within the 1e-3 mass-balance tolerance the property allows; an empty second part also zeroes the two dead state columns); proved exactly when the carried qi equals a fresh call's seed 0.0 and the second part has >= 1 step; exact split law storageRouting_split",
        "hotstart_InstreamFineSediment_partial: HotStart is false for a negative carried channel store (re-read as a fraction of the maximum storage at every call; hotstart_InstreamFineSediment_counterexample needs maximum storage < 0, i.e. unphysical parameters); proved for every split with a non-negative carried store, and unconditionally at R for maximum storage >= 0 (hotstart_InstreamFineSediment_real)",
        "hotstart_GR4J: needs IntRoundTrip (int(float(n)) = n for the store sizes n1, n2); instantiated at R (hotstart_GR4J_real)",
        "hotstart_StorageTrapAll_of_add_zero: needs y + 0.0 = y (false in IEEE only for y = -0.0); instantiated at R (hotstart_StorageTrapAll_real)",
    ],
)

META = dict(
    category="proof",
    text="Lean 4 theorems `hotstart_<M> : HotStart M.model` for the stateful kernel models (11 of 17 over ANY arithmetic, hence also the Float "
         "instance; GR4J and StorageTrapAll given one arithmetic law, instantiated at R): running a period in one call equals running its parts "
         "consecutively from the carried-forward final states (outputs concatenate, final states agree), for every split point, parameter set "
         "and series; for the four models where it is false (Sacramento, InstreamDissolvedNutrientDecay, StorageRouting bit-exactly, "
         "InstreamFineSediment with a negative carried store) a proved counter-example and a `_partial` theorem under the hypothesis that "
         "removes the leak. The models are tied to the real wrappers+kernels by split-run correspondence; the oracle compares one-call and "
         "split-call results of the real code.",
    design_ref="DESIGN.md §6 C06",
    note="Trusted: Lean kernel + 3 standard axioms; kernel models hand-written (correspondence-checked). Known findings: Sacramento "
         "unit-hydrograph buffer and InstreamDissolvedNutrientDecay prevVolume are not part of the state vector.",
    technique="Lean 4 proof (scan over a concatenation) + split-run differential correspondence",
)
READY = True
