from vlib.core import Check, Family
from checks.models import STATEFUL_MODELS, TOL_BY_MODEL, EXTRA_ARGS

CHECK = Check(
    "C06",
    props_modules=["OW.Props.C06"],
    families=[Family("KSPLIT", rtol=1e-9, atol_scale=1e-12, tol_by_model=TOL_BY_MODEL, args=["models=" + ",".join(STATEFUL_MODELS), "n=40"] + EXTRA_ARGS)],
    level="proof",
    trusted=[
        "hand-written Lean kernel models OW/Kernels/* (state = exactly what the Go kernel loads from / stores to the state row, incl. "
        "the custom extract/pack functions of GR4J and Lag), tied to the code on every run by the KSPLIT correspondence: the real "
        "wrapper+kernel run once on the whole period and consecutively on its segments with the returned states carried forward, "
        "both compared with the model",
        "oracle on the implementation: one-call vs split-call outputs and final states bit-identical (StorageRouting: within 1e-6 "
        "relative, its root finder's starting point is not part of the state and the property allows the solver tolerance)",
    ],
    assumptions=["all input series of a call have the same length (true of the real input arrays)"],
)

META = dict(
    category="proof",
    text="Lean 4 theorems `HotStart M.model` for the stateful kernel models: running a period in one call equals running its parts "
         "consecutively from the carried-forward final states (outputs concatenate, final states agree) — exact, for every split "
         "point, parameter set and series, over any arithmetic (so also the Float instance). The models are tied to the real "
         "wrappers+kernels by split-run correspondence; the oracle compares one-call and split-call results of the real code.",
    design_ref="DESIGN.md §6 C06",
    note="Trusted: Lean kernel + 3 standard axioms; kernel models hand-written (correspondence-checked). Known findings: Sacramento "
         "unit-hydrograph buffer and InstreamDissolvedNutrientDecay prevVolume are not part of the state vector.",
    technique="Lean 4 proof (scan over a concatenation) + split-run differential correspondence",
)
READY = True
