from vlib.core import Check, Family
from vlib.gentie import gentie_step

CHECK = Check(
    "C13",
    props_modules=["OW.Props.C13", "OW.Props.Rounded.C13"],
    # arithmetic only (+ - * / comparisons, math.Min/Max/Abs) → bit-exact correspondence
    families=[Family("K", rtol=None, args=["models=Storage", "prop=C13", "n=600"], label="K-storage"),
              # "per-cell table lengths": several cells with tables of different length in one vectorised Run, each cell
              # re-run alone inside the worker (family W's single-cell oracle) and compared with the wrapper model
              Family("W", rtol=None, args=["models=Storage", "n=40"], label="W-storage-per-cell-tables")],
    # tie A: storage.go (storageWaterBalance with its function literals, the two sub-step loops, the statements after the loop) is
    # REGENERATED as Lean on every run (harness/cmd/owtranslate) and proved equal to OW/Kernels/Storage.lean
    # (OW/Props/GenTieStorage.lean: gen_eq_Storage; fn.Piecewise and checkStorageConfiguration stay abstract arguments)
    pre_steps=[gentie_step],
    level="proof",
    trusted=[
        "OW.Props.Rounded.C13: the INEQUALITY clauses are also proved over rounded arithmetic — the same kernel definitions instantiated at RNum R (OW/Proofs/Rounded.lean: every operation = exact real result followed by a rounding R.rnd that is monotone, odd, idempotent and fixes 0; literals rounded once; min/max/comparisons exact), for EVERY such R. Interpretation (not a Lean term): IEEE-754 binary64 round-to-nearest (or toward zero) on computations without overflow/NaN is one such R; math.Pow/Exp/Log are idealised as correctly rounded (only their sign / range is used). Two concrete non-identity instances (grid truncation, grid rounding away from zero) are constructed as witnesses",
        "hand-written Lean model OW/Kernels/Storage.lean of models/storage/storage.go (cappedPiecewise, releaseRate, "
        "releaseRatesCloseEnough, the adaptive sub-step controller as two fuelled recursions, spill, "
        "checkStorageConfiguration's early return, the wrapper's per-cell table slicing), as repaired by "
        "fixes/storage_rain_evap_accounting.diff; tied to the code by BIT-EXACT comparison of the real Storage run "
        "(wrapper+kernel via sim.Catalog) with the compiled model on every generated case, panics included",
        "OW/Util/Piecewise.lean (model of util/fn/piecewise.go, property C18) is used as is; the C13 theorems treat the "
        "interpolated values as opaque (they hold for any table evaluation)",
        "theorems are about exact real arithmetic; float round-off of the budget is covered by the oracle "
        "(balance closes to 1e-9 of the largest term on every generated case)",
        "oracle for the failing-input search: the property's predicates on the implementation's outputs (balance with the "
        "REPORTED rainfall/evaporation volumes, V ≥ 0, final level/area = own table interpolation at the final volume, outflow "
        "within the release-rule envelope over the volumes reachable in the step, no spill when full supply is unreachable)",
    ],
    assumptions=[
        "rounded theorems (OW.Props.Rounded.C13): initial volume >= 0 and full-supply volume >= 0; statements are about runs that return",
        "ALL theorems except run_ok_of*/draw_down_panics/terminates* are CONDITIONAL on `run … = .ok r`: a Go panic is .error and is "
        "reproduced as such by the correspondence. In particular 'V >= 0' holds for runs that return BECAUSE the code does not return "
        "otherwise: when a trial volume is negative at the 6 s floor of the sub-step the code ends the process "
        "(panic(\"testVol < 0.0 and subtimestep <= MIN_TIMESTEP_SECONDS…\"), storage.go) instead of limiting the release or the "
        "evaporation to the water present. This happens INSIDE the property's quantifier (monotone tables, drawing down to empty): "
        "proved in general by draw_down_panics (net rate inflow − release(V) + netFlux·area(V) negative and draining V within "
        "min(Δt, 6 s)) with two examples — flat maximum release 5/5 m³/s, 3 m³ left, demand 1; area 100 m² at the empty storage, "
        "PET 5 mm, empty reservoir. C13's statement does not speak about crashes (C17's does); recorded as an observation in "
        "DESIGN §0.4",
        "WHEN a run returns is proved: run_ok_of — well-formed tables (Total; total_of_wellFormed: >= 2 knots, curve ends = first/last "
        "volume, value tables at least as long as the volume table; no ordering needed), full-supply volume >= 0, V0 >= 0, "
        "0 < Δt <= 6k, Δt <= 6·2^n, fuel > k / > n, and every timestep's inputs Safe (at every volume v >= 0 both 'trial volume "
        "negative' tests pass for every sub-step of at most 6 s and every value of the area table). Two instances on tables and "
        "inputs alone: run_ok_of_release_limited (release(u) >= 0 and release(u)·6 s <= max(u,0) at every volume — e.g. a maximum-"
        "release curve vanishing at the empty storage at least as fast as V/6 s — and inflow + netFlux·a >= 0 for every area value a: "
        "rain >= evaporation or enough inflow) and run_ok_of_net_gain (inflow − q + netFlux·a >= 0 for all release values q and "
        "area values a). Net evaporation from a positive area during draw-down is covered only through the abstract condition Safe",
        "storage_balance, trace_tie, reported_outflow_*: Δt > 0; sub_steps_sum: Δt ≥ 0; volume_nonneg: initial volume ≥ 0 and "
        "full-supply volume ≥ 0",
        "release_between: stated for whatever the two release curves evaluate to at the two volumes of the sub-step, "
        "assuming min ≤ max at those volumes (the release rule clamps the demand only if the curves are ordered). The second "
        "volume is the TRIAL volume (start volume advanced with the release of the start volume, SubStepOK.trialVol_eq), in general "
        "not a volume the reservoir holds",
        "reported_outflow_between: Total tables, minimum-release curve >= m and maximum-release curve <= M wherever evaluated, "
        "curves ordered, spill capacity minRelease[last] >= 0; reported_outflow_eq_demand: demand between the two curves wherever "
        "evaluated and no sub-step spills",
        "terminates: Δt ≤ 6·k and Δt ≤ 6·2^n with fuel > k (outer) and > n (inner); terminates_driver_fuel: Δt ≤ 86400 with "
        "the driver's fuel (400000 / 4000); terminates_exists: any Δt",
    ],
    partial=[
        "final_level_area states level/area = cappedPiecewise(final volume, table); that cappedPiecewise is the linear "
        "interpolant between the bracketing knots is property C18 (Piecewise), not re-proved here",
        "the outflow bounds of the ORACLE are an envelope over the volumes reachable in a timestep (the outputs do not "
        "expose sub-steps); the exact per-sub-step statements are the theorems release_between / spill_only_above_full over the "
        "model's ghost trace, tied to the reported series by trace_tie (chained volumes V → V', Σ sub = Δt, "
        "outflow·Δt = Σ(avgOutflow·sub + excess)) and summarised on the reported outflow by reported_outflow_between / "
        "reported_outflow_eq_demand",
        "per-cell table lengths: no C13-specific theorem; the C13 theorems are about one cell's tables after slicing. That the "
        "wrapper hands each cell ITS OWN rows (r < the cell's own value of the dimension parameter, column i % nSets) is proved "
        "for every well-formed spec - Storage's included - under C04 (OW.Props.C04NdTables: cellParams_tables, "
        "param_decoding_tables, runNd_refines_tables) and exercised here by family W (several cells with tables of different "
        "length in one vectorised Run, each compared bit for bit with its single-cell run and with the wrapper model)",
        "no-panic (run_ok_of): the table-level instances cover draw-down by RELEASE (run_ok_of_release_limited) and filling "
        "(run_ok_of_net_gain); draw-down by net EVAPORATION from a positive area has no table-level instance (the area is evaluated "
        "at the mid-volume of the trial, a bound needs monotone area tables = C18 interpolation facts) — only the abstract Safe",
    ],
)

META = dict(
    category="proof",
    text="Lean 4 theorems over a hand-written model of storage.go at exact real arithmetic, for every table, input series, "
         "initial volume and sub-step history of runs that return: accepted sub-steps sum to Δt; V'−V = (inflow−outflow)·Δt + "
         "(rainfallVolume−evaporationVolume)·Δt with the four REPORTED series; volumes never negative; final level/area are the "
         "table values at the final volume; every accepted average release lies between the release curves at the sub-step's "
         "two volumes and equals the demand when it lies between them; spill only above the full-supply volume and never below "
         "it; the ghost trace of sub-steps is tied to the reported series (chained volumes, outflow·Δt = Σ(avgOutflow·sub + excess)) with "
         "corollaries on the reported outflow; termination (enough fuel always exists because of the 6 s floor; the driver's fuel "
         "suffices for Δt ≤ 86400); and WHEN a run returns at all (run_ok_of: well-formed tables + 6 s safety of the inputs) — the "
         "code panics instead of limiting the loss when a reservoir is drawn down to empty (draw_down_panics, observation). "
         "The model is tied to the code on every run by bit-exact comparison of the real Storage run with the compiled model "
         "(monotone tables of 2..8 knots, filling to spill, drawing down to empty, zero/large demand, rain/PET, malformed "
         "configurations, panics), and the property's predicates are evaluated on the real outputs.",
    design_ref="DESIGN.md §6 C13",
    note="Trusted: Lean kernel + propext/Classical.choice/Quot.sound; hand-written model tied by bit-exact correspondence; "
         "theorems at ℝ. The model is of the code after fixes/storage_rain_evap_accounting.diff (defect D10: rainfall/evaporation "
         "volumes accumulated on rejected trial sub-steps only, and in mm·m² instead of m³).",
    technique="Lean 4 proof (loop invariants through fuelled recursion, induction on fuel and on the series) + bit-exact "
              "differential correspondence model vs real code + budget oracle + model regenerated from the Go source on every run by a translator (gen_eq_* theorems tie it to the hand-written model) + inequality clauses re-proved for every monotone rounding (RNum)",
)
READY = True
