from vlib.core import Check, Family
from vlib.genidx import genidx_step   # tie A: the index / hyperslab / util-fn functions regenerated as Lean and proved equal to the hand-written model (gen_eq_*, OW/Props/GenTieIndex.lean; table TIES in vlib/genidx.py)

CHECK = Check(
    "C01",
    props_modules=["OW.Props.C01", "OW.Props.C01Bulk"],
    pre_steps=[genidx_step],
    families=[Family("ND", args=["prop=C01"])],
    level="proof",
    trusted=[
        "hand-written Lean model OW/Nd/{Ints,View,Array}.lean of data/arrays.go, arrays_go.go, cdata/arrays_c.go, sliceops.go "
        "(both back-ends), tied to the code on every run by the ND correspondence: programs of array operations run on "
        "the real packages, every view's metadata (OriginalDims, Dims, Start, Offset, Step, OffsetStep) and Impl window "
        "read by reflection, all results and the final contents of every storage compared exactly with the compiled model",
        "C09 (generated instantiations are the template's expansion) lets the template-level model stand for all 8 element types; "
        "every tier runs all 8 element types on both back-ends; the one place where an instantiation differs from the template - the C back-end of int / uint "
        "holds C.int / C.uint, 32 bit - is modelled separately (OW/Nd/CInt.lean, applied by the ND driver) and recorded as KF-C01-c-int-width",
        "oracle for the failing-input search: reference semantics written from the property (view = table of root positions)",
        "Go int modelled as Int; Go slice/unsafe pointer semantics trusted",
    ],
    assumptions=["views reachable from roots with extents >= 1 by in-bounds slices with steps >= 1 (Reach); bulk copies between "
                 "different storages (overlapping source/destination excluded in the footprint theorems, stated there)",
                 "window conditions ArrOK h a on every array (Impl window inside its storage, base >= 0; for C: product of dims <= 1<<30) - established by the "
                 "constructors under their side conditions (constructors_ok: non-empty shape, extents >= 1, the given storage holds prod dims elements), preserved by "
                 "every operation (window_conditions_preserved)",
                 "shape hypotheses of the two-array footprint theorems: copyFrom_footprint needs `hshape : src.v.dims = a.v.dims` (CopyFrom of a differently shaped "
                 "array is outside the theorem); applySlice_footprint needs the in-bounds request SliceOK a.dims loc src.dims step",
                 "a C-backed reshape result has Start != 0 (root view from Start) and is therefore NOT a `Reach` view: the C01 theorems do not apply to it directly "
                 "(C03Full: ReachOff / OffOK / offset_transfer carry them over)",
                 "C-backed int / uint arrays: values within 32 bits (otherwise KF-C01-c-int-width, scope ND:c-int-width: a written value is not the value read back; "
                 "OW/Nd/CInt.lean narrow32_id_signed / _unsigned)"],
    partial=["interleaved_writes_visible_partial (OW/Props/C01.lean; histories of `Set` only, WriteOp = one Set request) is kept and is now a special case "
             "(sets_history_is_bulk_history) of interleaved_bulk_writes_visible (OW/Props/C01Bulk.lean): after ANY history of Set | Apply | ApplySlice | CopyFrom requests "
             "(WOp, runOps = the model's own operations folded), a Get through any reachable view returns the value of the LAST request that addressed the storage cell "
             "(readBackOps; a copied value = what the source read at that moment, by the same rule), else the initial content. Single writes: apply_visible, "
             "applySlice_visible, copyFrom_visible (footprint + get_reads_cell), op_visible (one request of any kind). NOT proved: two-array requests (ApplySlice / "
             "CopyFrom) whose source and destination are views of the SAME storage - overlapping or not - are outside every theorem (hypothesis `hdisj : src.sid != a.sid` "
             "of applySlice_footprint / copyFrom_footprint, carried into WOp.OK; overlapping: the Go memmove fast path and the element loop differ, example in C01.lean; "
             "disjoint views of one storage: true but not proved); CopyFrom between differently shaped arrays; Apply with step <= 0",
             "rank-specialised accessors: set1_footprint, apply1_footprint, apply1_eq_apply, rank1_requests_are_requests (OW/Props/C01Bulk.lean) cover Set1 / Apply1 on 1-D "
             "views, also inside histories; Get1 on views of rank > 1 and Get2/3, Set2/3 (not in the Lean model) have no theorem - ND correspondence only "
             "(set1 / apply1 / get2 / set3 ops; Set1 on flat views also OW/Proofs/WrapperNd.lean flat_set1)"],
)

META = dict(
    category="proof",
    text="Lean 4 theorems over the n-d array model: slice_index/chain_index (element i of slice(loc,dims,step) is element "
         "loc+i*step of the parent, any rank, any nesting depth, any steps), index in-bounds/injective, exact write "
         "footprints of Set/Apply/ApplySlice/CopyFrom (and Set1/Apply1) on both back-ends, visibility of each of them through every overlapping view and after "
         "every history interleaving the four kinds of write (two-array writes between different storages); "
         "kernel-checked for all shapes/chains/element types. Model tied to the code by exact state-level correspondence "
         "on exhaustive small-scope slice chains + random op programs + a malformed stream.",
    design_ref="DESIGN.md §6 C01",
    note="Trusted: Lean kernel + propext/Classical.choice/Quot.sound; the correspondence generator and comparison; Int for Go int; "
         "reflection-based reading of view metadata. Sampled side: rank<=3 (4 sampled), extent<=4, step<=3, depth<=3, <=30 ops/program.",
    technique="Lean 4 proof (stride algebra by induction over rank and slice chains) + differential correspondence model vs real code + index algebra (Index, SliceInto, Contiguous, integer helpers) regenerated from the Go source on every run by a translator (gen_eq_* theorems tie it to the hand-written model); heap-level operations and the C-specific code hand-written, tied by correspondence",
)
READY = True
