from vlib.core import Check, Family
from vlib.genidx import genidx_step   # tie A: the index / hyperslab / util-fn functions regenerated as Lean and proved equal to the hand-written model (gen_eq_*, OW/Props/GenTieIndex.lean; table TIES in vlib/genidx.py)

CHECK = Check(
    "C01",
    props_modules=["OW.Props.C01"],
    pre_steps=[genidx_step],
    families=[Family("ND", args=["prop=C01"])],
    level="proof",
    trusted=[
        "hand-written Lean model OW/Nd/{Ints,View,Array}.lean of data/arrays.go, arrays_go.go, cdata/arrays_c.go, sliceops.go "
        "(both back-ends), tied to the code on every run by the ND correspondence: programs of array operations run on "
        "the real packages, every view's metadata (OriginalDims, Dims, Start, Offset, Step, OffsetStep) and Impl window "
        "read by reflection, all results and the final contents of every storage compared exactly with the compiled model",
        "C09 (generated instantiations are the template's expansion) lets the template-level model stand for all 8 element types; "
        "quick runs float64, thorough all 8 types",
        "oracle for the failing-input search: reference semantics written from the property (view = table of root positions)",
        "Go int modelled as Int; Go slice/unsafe pointer semantics trusted",
    ],
    assumptions=["views reachable from roots with extents >= 1 by in-bounds slices with steps >= 1 (Reach); bulk copies between "
                 "different storages (overlapping source/destination excluded in the footprint theorems, stated there)"],
)

META = dict(
    category="proof",
    text="Lean 4 theorems over the n-d array model: slice_index/chain_index (element i of slice(loc,dims,step) is element "
         "loc+i*step of the parent, any rank, any nesting depth, any steps), index in-bounds/injective, exact write "
         "footprints of Set/Apply/ApplySlice/CopyFrom on both back-ends, visibility through every overlapping view; "
         "kernel-checked for all shapes/chains/element types. Model tied to the code by exact state-level correspondence "
         "on exhaustive small-scope slice chains + random op programs + a malformed stream.",
    design_ref="DESIGN.md §6 C01",
    note="Trusted: Lean kernel + propext/Classical.choice/Quot.sound; the correspondence generator and comparison; Int for Go int; "
         "reflection-based reading of view metadata. Sampled side: rank<=3 (4 sampled), extent<=4, step<=3, depth<=3, <=30 ops/program.",
    technique="Lean 4 proof (stride algebra by induction over rank and slice chains) + differential correspondence model vs real code + model regenerated from the Go source on every run by a translator (gen_eq_* theorems tie it to the hand-written model)",
)
READY = True
