from vlib.core import Check, Family
from vlib.c07 import build_owsim_step

CHECK = Check(
    "C07",
    props_modules=["OW.Props.C07"],
    pre_steps=[build_owsim_step],
    families=[
        # the REAL ow-sim binary (tag verif, built from the tree under test against the HDF5 stub) on generated graphs;
        # output datasets compared bit for bit with `owsim` executed by the compiled Lean driver (which also reports
        # whether `refSem` and the latest-writer schedule agree on that line)
        # bit-exact kernels + the pow-using Gully pair (name-containing model names); in about a third of the graphs a
        # DIMENSIONED model (RatingCurvePartition: every node its own table length, the file's parameter table padded to
        # the model-wide maximum, most generations below that maximum) — only bit-exact kernels in those graphs
        Family("SIM", rtol=1e-9, atol_scale=1e-12, args=["n=300", "par=8"]),
        # hook traces of those executions (+ mutants + random walks) through the Go acceptor and through
        # OW.Sim.Writer.step in the Lean driver
        Family("SIMTRACE", rtol=None, args=["walks=150"]),
    ],
    level="proof",
    trusted=[
        "libhdf5 is MODELLED: gonum.org/v1/hdf5 is replaced by the pure-Go stub /verif/harness/hdf5stub (no libhdf5 in "
        "this environment); ow-sim is built from the harness module against it and reads/writes stub-format files",
        "hand-written Lean models OW/Sim/Graph.lean (GetGeneration/Run/link loop/WriteData/PurgeGeneration of cmd/ow-sim) "
        "and OW/Sim/Writer.lean (main loop + writer goroutines + unbuffered writingDone rendezvous), tied to the code on "
        "every run: output datasets of the real binary = owsim (bit-exact) and every hook trace is a complete run of "
        "Writer.step (trace validation, Go and Lean acceptors agree)",
        "scheduling is SAMPLED (GOMAXPROCS 1/2/4/8/default, jitter at the hook points under tag verif only); the "
        "protocol invariants are proved on the model for every schedule and every number of generations",
        "Go memory model (channel send happens-before the matching receive), Go scheduler fairness for termination",
        "kernels enter the theorems as an arbitrary function; per-cell independence of a vectorised Run is C04; the "
        "kernels used for correspondence are the bit-exact ones (+ - * / and comparisons only)",
        "table-valued (dimensioned) parameters: the model graph gives every node its own PACKED parameter column "
        "([nPts, inputAmount[nPts], proportion[nPts]]); that ow-sim recovers exactly this column from the parameter table "
        "of the file (padded to the model-wide maximum of each dimension: initDimensions over the whole table, "
        "ApplyParameters, per-cell slicing by the cell's own nPts) is tied by correspondence only, on graphs with "
        "RatingCurvePartition nodes of different table lengths spread over several generations (the wrapper's layout "
        "itself is C04 / OW/Sim/WrapperNdTables.lean)",
        "hook trace order: verifTrace appends under a mutex; send events are logged before the blocking send, receive "
        "events after the receive",
    ],
    assumptions=[
        "ValidGraph (OW/Sim/Graph.lean; decided by the driver on every generated graph, `invalid-graph` otherwise): ≥1 "
        "generation; every model has one cumulative non-decreasing batch count per generation; links sorted by source "
        "generation; destination generation > source generation; indices in range (destVar < nInputs); the global node "
        "columns of a link agree with generation start + node-within-generation; AND what the Go code needs beyond that "
        "(where the list-based model would silently read []): model names pairwise different (Go keys `models` by name — "
        "two entries with one name would share one *modelGeneration between two goroutines); srcVar of every link < "
        "nOutputs of its source model (number of output variables of the model type, Description().Outputs; Go: index "
        "out of range in Outputs.Slice); ShapeOk: parameters has one column and states one row per node, a stored inputs "
        "dataset is [N, nInputs, T]",
        "nOutputs is not on the SIM protocol line: the driver takes it from the kernel model (number of output series of "
        "the first node that runs without error, probeNOutputs in OW/Driver/Sim.lean); the generator draws srcVar below "
        "len(Description().Outputs) of the real model",
        "WriteData of a generation that never ran (possible only outside the writer protocol) dereferences the nil Outputs "
        "in Go: modelled as rows carrying the panic class `nil` (crashRow), not as a silent skip; under every "
        "protocol-respecting schedule the branch is dead (writeData_final)",
        "atomic `write g`: justified by the footprint theorems run_footprint / links_footprint (the main loop, while "
        "generation g is written, touches only generation objects of generations > g) + writer_no_conflict + C05 T1; the "
        "interleaving of the writer's individual reads with the main loop is not itself part of the transition system",
        "an output file is given and written by the process itself (the -outputs split-writer sub-process, -writer mode "
        "and separate -parameters/-initial-states/-input-timeseries/-final-states files are outside the model)",
        "all stored input series have the same length T; a kernel that panics kills the process (out of scope: the "
        "generated rating tables cover every inflow that reaches their node, no NaN gaps in graphs with such a node)",
    ],
)

META = dict(
    category="proof",
    text="Lean 4 theorems (kernel-checked, no sorry, axioms ⊆ propext/Classical.choice/Quot.sound) over hand-written "
         "models of cmd/ow-sim: (T1) for every valid graph, every kernel function and EVERY schedule of writer actions "
         "that respects the protocol, the implementation-shaped semantics (lazy generations, nextLink cursor with "
         "linkGen>i→break, AddTo, rows at generationLocation, purge) equals the sequential reference semantics; (T2) "
         "the writer protocol as a transition system for every number of generations: written generations form a prefix, "
         "each written exactly once, purge only after written ∧ links applied ∧ no longer used by the main loop, exactly "
         "one token, no stuck state, termination reachable from every reachable state, and every run projects to a "
         "schedule accepted by T1; (T3) batch row ranges partition [0,total). Tied to the code on every run: the real "
         "ow-sim binary on generated DAGs (empty batches, fan-in, fan-out, no stored inputs, output selections, "
         "GOMAXPROCS and jitter varied) vs the compiled model, and hook-trace validation against the transition system.",
    design_ref="DESIGN.md §6 C07",
    note="libhdf5 modelled by the stub; scheduling sampled, invariants proved on the model and tied by trace validation; "
         "hooks: cmd/ow-sim/verif_trace_{on,off}.go + 9 one-line calls in main.go (tag verif).",
    technique="Lean 4 proof (invariant induction over schedules / transitions) + differential correspondence of the real "
              "binary vs the compiled model + runtime trace validation",
)
READY = True
