from vlib.core import Check, Family
from vlib.purity import purity_step, PURITY_RULES   # FindRoot / Piecewise keep nothing in package-level variables (nested or concurrent solves)
from vlib.genidx import genidx_step   # tie A: the index / hyperslab / util-fn functions regenerated as Lean and proved equal to the hand-written model (gen_eq_*, OW/Props/GenTieIndex.lean; table TIES in vlib/genidx.py)

CHECK = Check(
    "C18",
    props_modules=["OW.Props.C18"],
    pre_steps=[genidx_step, purity_step(PURITY_RULES, "C18")],
    families=[
        # arithmetic and comparisons only on both sides (the test functions come from an expression language evaluated
        # identically in Go and Lean): bit-exact
        Family("FR", rtol=None),
        Family("PW", rtol=None),
    ],
    level="proof",
    trusted=[
        "hand-written Lean models OW/Util/FindRoot.lean and OW/Util/Piecewise.lean of util/fn/root.go and util/fn/piecewise.go "
        "(after the repairs fixes/findroot_secant_clamp.diff and fixes/piecewise_knot.diff), tied to the code on every run by "
        "bit-exact comparison of results AND of every point at which the real FindRoot evaluated its callbacks "
        "(the harness wraps fn / fn_dx and logs the arguments; the model carries the same list as a ghost)",
        "theorems are over exact real arithmetic (Num ℝ); IEEE rounding is covered by execution only: the oracle evaluates "
        "the statement in floating point on the real code (exactness at knots, betweenness, evaluation points inside the interval)",
        "test-function evaluator OW/Util/ExprFn.lean = exprEval in harness/cmd/owharness/fam_fn.go (same token stream)",
    ],
    assumptions=[
        "FindRoot theorems: minX ≤ maxX, f minX ≤ 0 ≤ f maxX, tolerance > 0, initialX ∈ [minX, maxX] (only needed for maxIterations = 0); "
        "evals_in_interval/better_end/tolerance additionally: f non-decreasing on [minX, maxX]; tolerance clause: f L-Lipschitz there and "
        "convergenceLimit ≤ 0 (the exit on convergence in x is a separate stopping rule that may return above the tolerance)",
        "better_end is `|delta| ≤ better end ∨ |delta| < tolerance`: a trial accepted because it is within the tolerance may be worse than a "
        "bracket end that was already within it (proved counter-example to the unconditional form; 5 % of generated monotone cases)",
        "Piecewise theorems: table strictly increasing, length ≥ 2, ys at least as long as xs",
    ],
    partial=[],
)

META = dict(
    category="proof",
    text="Lean 4 theorems over line-by-line models of FindRoot (fuelled loop; arbitrary f : ℝ → ℝ and optional derivative) and "
         "Piecewise (tables as lists): bracket invariant, result in interval, returned delta is f(x), every evaluation point in the "
         "interval, width halves each iteration, |delta| ≤ L·width₀/2ⁿ hence below tolerance once the budget suffices, better end; "
         "for non-monotone f with a sign change: result in interval and delta = f(x); Piecewise exact at knots, linear interpolant "
         "between neighbouring table values, error outside the table and when every comparison is false (NaN). The models are tied to "
         "the code on every run by bit-exact differential execution including the logged evaluation points.",
    design_ref="DESIGN.md §6 C18",
    note="Known finding KF-C18-zero-iterations (maxIterations=0 returns the initial guess). Repaired in /repo: secant trial clamped "
         "into the bracket (rounding could put it one ulp outside and it could be returned), Piecewise exact at the right knot and "
         "never past the neighbouring table value.",
    technique="Lean 4 proof (induction over iterations/fuel and over the trial list; list induction for the table) + differential "
              "correspondence model vs real code with logged callbacks + property oracle in floating point + model regenerated from the Go source on every run by a translator (gen_eq_* theorems tie it to the hand-written model) + regenerated structural facts as proof obligations with a race-detector probe for a witness",
)
READY = True
