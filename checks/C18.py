from vlib.core import Check, Family
from vlib.purity import purity_step, PURITY_RULES   # FindRoot / Piecewise keep nothing in package-level variables (nested or concurrent solves)
from vlib.genidx import genidx_step   # tie A: the index / hyperslab / util-fn functions regenerated as Lean and proved equal to the hand-written model (gen_eq_*, OW/Props/GenTieIndex.lean; table TIES in vlib/genidx.py)

CHECK = Check(
    "C18",
    props_modules=["OW.Props.C18"],
    pre_steps=[genidx_step, purity_step(PURITY_RULES, "C18")],
    families=[
        # arithmetic and comparisons only on both sides (the test functions come from an expression language evaluated
        # identically in Go and Lean): bit-exact
        Family("FR", rtol=None),
        Family("PW", rtol=None),
    ],
    level="proof",
    trusted=[
        "hand-written Lean models OW/Util/FindRoot.lean and OW/Util/Piecewise.lean of util/fn/root.go and util/fn/piecewise.go "
        "(after the repairs fixes/findroot_secant_clamp.diff and fixes/piecewise_knot.diff), tied to the code on every run by "
        "bit-exact comparison of results AND of every point at which the real FindRoot evaluated its callbacks "
        "(the harness wraps fn / fn_dx and logs the arguments; the model carries the same list as a ghost)",
        "theorems are over exact real arithmetic (Num ℝ); IEEE rounding is covered by execution only: the oracle evaluates "
        "the statement in floating point on the real code (exactness at knots, betweenness, evaluation points inside the interval)",
        "test-function evaluator OW/Util/ExprFn.lean = exprEval in harness/cmd/owharness/fam_fn.go (same token stream)",
    ],
    assumptions=[
        "FindRoot theorems: minX ≤ maxX, f minX ≤ 0 ≤ f maxX. NO hypothesis on initialX for bracket_inv_any_guess, result_delta_is_value, "
        "width_halves, delta_le_final_ends, no_conv_exit, tol_exit, delta_bound, tolerance_reached, better_end_any_guess, "
        "better_end_unless_tol_exit, and for result_in_interval_n1 (maxIterations ≥ 1). initialX ∈ [minX, maxX] is needed (i) by "
        "result_in_interval for maxIterations = 0 (the result is the guess), and (ii) by evals_in_interval / evals_in_interval_mono for EVERY "
        "iteration count, because fn(initialX) is the first call the code makes (result_in_interval / bracket_inv / better_end keep a form with "
        "the guess in the interval for their users in OW.Props.C11)",
        "'never evaluated outside the interval' is stated under the property's monotone premise: evals_in_interval_mono (f non-decreasing on "
        "[minX, maxX], tolerance > 0), which also proves that every secant point that is evaluated is a genuine quotient "
        "(secant_nondegenerate_of_monotone = secant_genuine lifted to the whole loop). The non-monotone form evals_in_interval takes the explicit "
        "non-degeneracy hypothesis SecantNondeg (maxDelta ≠ minDelta at every iteration whose halving trial does not return): without it ℝ "
        "evaluates the secant (…)·0/0 to 0 while the code evaluates f(NaN) and continues on a different path (secant_degenerate_example: "
        "f x = 2x − x² on [0,2]); the FR correspondence compares such runs bit for bit at Float (NaN in the evaluation log on both sides)",
        "better_end / tolerance clauses additionally: f non-decreasing on [minX, maxX], maxIterations ≥ 1; tolerance clause: f L-Lipschitz there and "
        "convergenceLimit ≤ 0 (the exit on convergence in x is a separate stopping rule that may return above the tolerance)",
        "Piecewise theorems: table strictly increasing, length ≥ 2, ys at least as long as xs",
    ],
    partial=[
        "better_end (better_end_any_guess): the property's clause 'no larger in magnitude than at the better end of the initial bracket' is proved "
        "only as the DISJUNCTION `|delta| ≤ better end ∨ |delta| < tolerance` (and without disjunction for runs that do not leave through the "
        "tolerance test: better_end_unless_tol_exit). The unconditional clause is FALSE for the code: better_end_counterexample (f x = x on "
        "[−1e-6, 9e-4], tolerance 1e-3: returns 4.495e-4, the lower end has 1e-6). It fails only when the returned value is within the tolerance; "
        "recorded as known finding KF-C18-better-end-within-tolerance (oracle scope FindRoot:better-end-within-tolerance, about 5 % of the "
        "generated monotone cases), printed as KNOWN-FINDING on every run",
        "maxIterations = 0: better end not guaranteed (zero_iterations_counterexample; known finding KF-C18-zero-iterations)",
    ],
)

META = dict(
    category="proof",
    text="Lean 4 theorems over line-by-line models of FindRoot (fuelled loop; arbitrary f : ℝ → ℝ and optional derivative) and "
         "Piecewise (tables as lists): bracket invariant, result in interval, returned delta is f(x), every evaluation point in the "
         "interval, width halves each iteration, |delta| ≤ L·width₀/2ⁿ hence below tolerance once the budget suffices, better end; "
         "for non-monotone f with a sign change: result in interval and delta = f(x); Piecewise exact at knots, linear interpolant "
         "between neighbouring table values, error outside the table and when every comparison is false (NaN). The models are tied to "
         "the code on every run by bit-exact differential execution including the logged evaluation points.",
    design_ref="DESIGN.md §6 C18",
    note="Known findings KF-C18-zero-iterations (maxIterations=0 returns the initial guess) and KF-C18-better-end-within-tolerance (a trial accepted within the tolerance may be worse than a bracket end that was already within it). Repaired in /repo: secant trial clamped "
         "into the bracket (rounding could put it one ulp outside and it could be returned), Piecewise exact at the right knot and "
         "never past the neighbouring table value.",
    technique="Lean 4 proof (induction over iterations/fuel and over the trial list; list induction for the table) + differential "
              "correspondence model vs real code with logged callbacks + property oracle in floating point + model regenerated from the Go source on every run by a translator (gen_eq_* theorems tie it to the hand-written model) + regenerated structural facts as proof obligations with a race-detector probe for a witness",
)
READY = True
