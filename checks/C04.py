from vlib.core import Check, Family

# every catalogued model whose kernel model exists in OW/Kernels (kept in step with OW/Kernels/Registry.lean)
from checks.models import ALL_MODELS, TOL_BY_MODEL, EXTRA_ARGS
from vlib.purity import purity_step, CELL_RULES

CHECK = Check(
    "C04",
    props_modules=["OW.Props.C04", "OW.Props.C04Nd", "OW.Props.C04NdTables"],
    families=[Family("W", rtol=1e-9, atol_scale=1e-12, tol_by_model=TOL_BY_MODEL, args=["models=" + ",".join(ALL_MODELS), "n=30"] + EXTRA_ARGS)],
    # regenerated structural facts of every generated Run closure (the C05 extractor): a kernel that shares anything between cells
    # (package-level scratch buffers, caches, shared location vectors, an unjoined goroutine) breaks "N cells = N single-cell runs"
    # only under particular sizes and schedules; the structural rule reports it on every run
    pre_steps=[purity_step(CELL_RULES, "C04")],
    level="proof",
    trusted=[
        "hand-written list-level Lean semantics OW/Sim/Wrapper.lean of the wrapper template pre/ow-specgen/generated_struct.got "
        "(FindDimensions/ApplyParameters layout with paramIdx/paramSize, i % nSets, i % numInputSequences, per-cell table length, "
        "InitialiseStates sized from cell 0, writes confined to the run region), generic in the kernel; tied to the code on every run "
        "by the W correspondence: real N-cell Run of every catalogued model (Go- and C-backed arrays, fewer/coprime parameter sets "
        "and input blocks, oversized sentinel-filled outputs) vs model, complete output and state arrays compared",
        "inside the worker, on the real code: every cell re-run ALONE and compared bit for bit; inputs/parameters/sentinels checked unchanged",
        "C09: the 41 wrappers are the template's expansion; C01/C02: the view algebra the template relies on",
        "kernel models (OW/Kernels/*) are parameters of these theorems; their own correspondence is checked by the kernel-level properties",
    ],
    assumptions=["C04Nd (view-level refinement): root arrays with extents >= 1 in different storages, T <= T' (output array at least as long as the "
                 "series), kernel results fit the arrays (at most nO series of at most T values, at most nS states); wrapperNd_refines / runNd_refines "
                 "cover scalar-parameter specs (table parameters: view-level fact param_decoding_table only)",
                 "the states array is at least as wide as every cell's state vector (a narrower array makes the code copy past the row; caller error)",
                 "table-valued parameters have at most one dimension (true of all 41 specs)"],
    partial=["single_cell_eq for table-valued parameters: the layout lemma is proved for all-scalar specs (layout_scalar, cellParams_scalar); "
             "for tables the per-cell decoding is covered by the correspondence and by the in-worker single-cell oracle only"],
)

META = dict(
    category="proof",
    text="Lean 4 theorems (a) over the template's VIEW construction on the verified n-d array model (OW/Sim/WrapperNd.lean; C04Nd: the state, "
         "input and output views of cell i alias exactly rows i / block i % nIn of the caller's arrays, also for oversized output arrays; "
         "parameter decoding incl. the rank-1 slice of table parameters; write footprints of different cells disjoint; every reshape the "
         "template performs is on a contiguous view; one cell step and the whole sequential Run REFINE the list-level semantics) and "
         "(b) over the list-level wrapper semantics, for every kernel, layout, cell count, set/block count: runCells_spec (the N-cell run is "
         "exactly cellStep on each cell's own state row and output rows; rows of cells that do not run untouched), cellStep_frame (lengths "
         "kept, timesteps/state columns beyond what the kernel returns untouched), cellStep_input_block (block i % nBlocks), "
         "layout_scalar/cellParams_scalar (parameter j of cell i is parameters[j][i % nSets]). The semantics is tied to the real "
         "generated wrappers by exact correspondence on vectorised runs of all catalogued models, with an in-process oracle that "
         "re-runs each cell alone.",
    design_ref="DESIGN.md §6 C04",
    note="Trusted: Lean kernel + 3 standard axioms; the list-level wrapper semantics is hand-written (the Nd-level view algebra of the "
         "template is covered by C01/C02, not re-proved here); Go goroutine scheduling irrelevant to this property (see C05).",
    technique="Lean 4 proof (induction over cells) + differential correspondence of vectorised runs + single-cell re-run oracle + regenerated structural facts as proof obligations with a race-detector probe for a witness",
)
READY = True
