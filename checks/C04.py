from vlib.core import Check, Family

# every catalogued model whose kernel model exists in OW/Kernels (kept in step with OW/Kernels/Registry.lean)
from checks.models import ALL_MODELS, TOL_BY_MODEL, EXTRA_ARGS
from vlib.purity import purity_step, CELL_RULES

CHECK = Check(
    "C04",
    props_modules=["OW.Props.C04", "OW.Props.C04Nd", "OW.Props.C04NdTables", "OW.Props.C04Init", "OW.Props.C04InitRows"],
    families=[Family("W", rtol=1e-9, atol_scale=1e-12, tol_by_model=TOL_BY_MODEL, args=["models=" + ",".join(ALL_MODELS), "n=30"] + EXTRA_ARGS)],
    # regenerated structural facts of every generated Run closure (the C05 extractor): a kernel that shares anything between cells
    # (package-level scratch buffers, caches, shared location vectors, an unjoined goroutine) breaks "N cells = N single-cell runs"
    # only under particular sizes and schedules; the structural rule reports it on every run
    pre_steps=[purity_step(CELL_RULES, "C04")],
    level="proof",
    trusted=[
        "hand-written list-level Lean semantics OW/Sim/Wrapper.lean of the wrapper template pre/ow-specgen/generated_struct.got "
        "(FindDimensions/ApplyParameters layout with paramIdx/paramSize, i % nSets, i % numInputSequences, per-cell table length, "
        "InitialiseStates sized from cell 0, writes confined to the run region), generic in the kernel; tied to the code on every run "
        "by the W correspondence: real N-cell Run of every catalogued model (Go- and C-backed arrays, fewer/coprime parameter sets "
        "and input blocks, oversized sentinel-filled outputs) vs model, complete output and state arrays compared",
        "inside the worker, on the real code: every cell re-run ALONE and compared bit for bit; inputs/parameters/sentinels checked unchanged",
        "C09: the 41 wrappers are the template's expansion; C01/C02: the view algebra the template relies on",
        "kernel models (OW/Kernels/*) are parameters of these theorems; their own correspondence is checked by the kernel-level properties",
    ],
    assumptions=["C04Nd (view-level refinement): root arrays with extents >= 1 in different storages, T <= T' (output array at least as long as the "
                 "series), and the kernel-fit hypothesis hK: WHEN CALLED ON ARGUMENTS OF THE SHAPE THE WRAPPER PASSES (nI input series of exactly T values, a state "
                 "row of exactly nS values) the kernel returns at most nO series of at most T values and at most nS states (met by registry kernels: "
                 "C04Nd.ExRefine.muskingum_fits / coeff_fits; the unrestricted form is met by no real kernel: unrestricted_fit_is_unsatisfiable); "
                 "wrapperNd_refines / runNd_refines cover scalar-parameter specs, wrapperNd_refines_tables / runNd_refines_tables specs with 1-D tables",
                 "single_cell_eq: the states are given (x.states = some ..; the InitialiseStates path is not part of it), the parameter array has at least n rows "
                 "(fewer: FindDimensions panics), all n parameters scalar (for tables: single_cell_eq_of_column, which takes a one-cell parameter array "
                 "decoding to the same column as a hypothesis)",
                 "list-level layout (OW/Sim/Wrapper.lean layout): a dimension parameter's maximum is >= 0 (the model clamps with toNat; Go's paramIdx += paramSize "
                 "would move backwards) and no Maximum() over an EMPTY slice is taken, i.e. nSets >= 1 and every table has maxLen >= 1 (the model returns 0 "
                 "there; Go's Maximum() reads element [0,..] of the empty view unchecked: a neighbouring value, or an index panic at the end of the array) - both "
                 "hold under the hypotheses of the view-level theorems (RootOn extents >= 1; 1 <= sz in C04NdTables) and in every W case",
                 "no input block (inputs.length = 0): cellStep fails with Go's integer divide by zero (cellStep_no_blocks); the theorems about a successful "
                 "step derive inputs.length != 0 (cellStep_frame, cellStep_ok_blocks), so i % nBlocks is always a block index there",
                 "the states array is at least as wide as every cell's state vector (a narrower array makes the code copy past the row; "
                 "KF-C05-*-InitialiseStates-row-width)",
                 "table-valued parameters have at most one dimension (true of all 41 specs)"],
    partial=["single_cell_eq for table-valued parameters: proved in the conditional form single_cell_eq_of_column (any spec; the one-cell parameter array "
             "that decodes to the cell's column is a hypothesis); the construction of that array is proved for all-scalar specs only (oneSet, cellParams_oneSet); "
             "for tables the per-cell decoding is covered by cellParams_tables / param_decoding_tables, by the correspondence and by the in-worker single-cell oracle",
             "x.states = none (the wrapper calls InitialiseStates(nCells) itself): NOW PROVED (OW/Props/C04Init.lean) run_nil_states (Run without a state "
             "array = Run on the array InitialiseStates(nCells) builds, same result / error class), run_nil_states_error, single_cell_eq_init (every "
             "cell equals the single-cell Run started from ITS row of that array). That this row equals what InitialiseStates(1) builds for the cell "
             "alone is PROVED for models whose initial rows all have one width (OW/Props/C04InitRows.lean: fill_content, initStates_uniform, "
             "initStates_uniform_row — the array is exactly the list of km.init(column i); single_cell_eq_init_uniform — cell i of the nil-states run = the single-cell Run from km.init(column i)); it is not true when the width depends on a parameter "
             "(rows are sized from cell 0: KF-C05-GR4J/Lag-InitialiseStates-row-width)"],
)

META = dict(
    category="proof",
    text="Lean 4 theorems (a) over the template's VIEW construction on the verified n-d array model (OW/Sim/WrapperNd.lean; C04Nd: the state, "
         "input and output views of cell i alias exactly rows i / block i % nIn of the caller's arrays, also for oversized output arrays; "
         "parameter decoding incl. the rank-1 slice of table parameters; write footprints of different cells disjoint; every reshape the "
         "template performs is on a contiguous view; one cell step and the whole sequential Run REFINE the list-level semantics) and "
         "(b) over the list-level wrapper semantics, for every kernel, layout, cell count, set/block count: runCells_spec (the N-cell run is "
         "exactly cellStep on each cell's own state row and output rows; rows of cells that do not run untouched), single_cell_eq (cell i's "
         "rows in the N-cell Sim.run = Sim.run with ONE cell on its own parameter column as a one-set array, its own input block, its own state "
         "row and output rows; scalar-parameter specs; any spec given the one-cell parameter array: single_cell_eq_of_column), cellStep_frame "
         "(a successful step IS km.run on the cell's column / block / state row: lengths kept, timesteps/state columns beyond what the kernel "
         "returns untouched, the rest are the kernel's values), cellStep_input_block (block i % nBlocks), cellStep_no_blocks, "
         "layout_scalar/cellParams_scalar (parameter j of cell i is parameters[j][i % nSets]). The semantics is tied to the real "
         "generated wrappers by exact correspondence on vectorised runs of all catalogued models, with an in-process oracle that "
         "re-runs each cell alone.",
    design_ref="DESIGN.md §6 C04",
    note="Trusted: Lean kernel + 3 standard axioms; the list-level wrapper semantics is hand-written (the Nd-level view algebra of the "
         "template is covered by C01/C02, not re-proved here); Go goroutine scheduling irrelevant to this property (see C05).",
    technique="Lean 4 proof (induction over cells) + differential correspondence of vectorised runs + single-cell re-run oracle + regenerated structural facts as proof obligations with a race-detector probe for a witness",
)
READY = True
