module owverif

go 1.23

require github.com/flowmatters/openwater-core v0.0.0

require github.com/joelrahman/genny v0.0.0-20190825034740-e87a679b6495 // indirect

replace github.com/flowmatters/openwater-core => /repo

replace gonum.org/v1/hdf5 => ./hdf5stub
