module owverif

go 1.23

require (
	github.com/flowmatters/openwater-core v0.0.0
	gonum.org/v1/hdf5 v0.0.0-20210714002203-8c5d23bc6946
)

require github.com/joelrahman/genny v0.0.0-20190825034740-e87a679b6495 // indirect

replace github.com/flowmatters/openwater-core => /repo

replace gonum.org/v1/hdf5 => ./hdf5stub
