// owrunfacts extracts, from the CURRENT source of an openwater-core working tree, the structural facts that the
// concurrency property C05 relies on, using go/parser + go/ast only (no type checker, nothing from the tree is
// imported or compiled):
//
//	owrunfacts [-json out.json] [-lean out.lean] [repo root]        (root: argument, else $OW_REPO, else /repo)
//
// For every `go func(...){...}(...)` statement of the tree (test files excluded) it reports where it is. Those in
// models/*/generated_*.go (the goroutine-per-cell `Run` methods), in cmd/ow-sim/running.go (goroutine per model type)
// and in the 12 expansions of the wrapper template pre/ow-specgen/generated_struct.got (every meaningful combination of
// extract-states / outputs-as-params / table parameters / no states, expanded here with text/template on synthetic
// specs) are analysed as *sites*:
//
//   - which identifiers are declared INSIDE the closure, which are captured from the enclosing function, which are
//     package level;
//   - every statement in the closure that touches something shared — a captured variable, a package-level variable, a
//     local that aliases one of those, or a view obtained from one with Slice — as an Event:
//     assignment / element assignment / ++ -- / & / method call (with the method name and the class of its location
//     argument) / bare use as a call argument (with callee and position) / channel send / receive;
//   - the launch/join skeleton: loop variables, closure parameters and call arguments, whether the closure uses a
//     loop variable, and the JOIN in one of two forms — `chan`: the send(s) on the done channel (exactly one on every
//     path, last action, no return before it), how many goroutines are launched (loop bound, or a counter incremented
//     once next to the go statement; not assigned from the launch loop on) and the later loop that receives exactly that
//     many times; `waitgroup`: a sync.WaitGroup declared in the enclosing function, Add(n) with n the launch count as a
//     statement before the launch loop (or Add(1) next to each go statement, before it), exactly one Done() in the
//     closure as the last action of every path (or deferred as its first statement), exactly one Wait() as a later
//     statement of the list the launch loop is in with nothing in between that could leave the function, no other use;
//   - the CELL COVERAGE in one of two forms — `direct`: the launch loop variable is passed to the closure as its cell
//     parameter; `pool`: the closure ranges at its top level over a channel of cell indices that the enclosing function
//     made with the capacity of the fill bound B, filled with exactly 0..B-1 by one counted loop whose body is that
//     single send, closed before the launch loop (or: that loop and the close are the whole body of a dedicated goroutine
//     started before the launch loop — any capacity then; such a filler is not a site of its own) and used for nothing
//     else; the range variable is then the cell index
//     and the range body (no break/continue/return/goto) the per-cell body; the worker count must be at least 1 whenever
//     B is (runtime.GOMAXPROCS(0) / NumCPU() / a positive literal, at most clamped by `if W > B { W = B }`). Index
//     vectors declared per worker are fine as long as they are pinned to the cell at the top level of the range body;
//   - FOLLOWED CALLS: a method of the module called in the closure (m.runCell(i, …), views.Cell(i), cell.States() —
//     the receiver's type is resolved syntactically from declarations, composite literals, result types and struct
//     fields), and a plain function that is handed something shared or a task-local struct, is not judged by the call
//     alone: its body is walked as part of the task in a callee FRAME whose parameters are bound to what the call
//     passes (the cell index, a shared array, a goroutine-local vector with its pins, a task-local struct with
//     per-field knowledge, a view with its provenance); its events are events of the site, its return statements give
//     the provenance / vector / struct of the call's value. Recursion and nesting deeper than 6 are `unsupported`.
//     Statements after a possible early return do not count as executed on every path (their pins do not count).
//   - for the plain functions (kernels, extract/pack helpers, and what they call inside the repository) reachable from
//     the closure: every assignment / ++ / copy / mutating method call whose target is not a local of that function
//     (a package-level scratch buffer).
//
// Classification is by GENERAL rules on syntax and scopes, never by names of variables or by position in the file:
// renaming or reordering statements does not change the facts. The rules themselves (what counts as a shared write,
// which uses of a shared vector are read-only, …) are evaluated by OW/Sim/RunFactsCheck.lean on the emitted data;
// this program additionally lists the violations it sees (field "violations") so that the check can name them.
//
// Provenance of values: fresh | viewOwn (a Slice of a whole shared array at a location pinned to the task's own cell) |
// viewShared | whole (a shared object itself: a captured non-scalar, a field path of one, a parameter bound to one — for an
// array, the whole array with the cell coordinate first) | alias (anything else that aliases something shared: reshaped or
// unrolled arrays, dimension vectors, results of unknown methods). A mutating call is the task's own only through a viewOwn
// or on a captured / whole array at an own location.
//
// NOT covered (as before): what a kernel writes through a view it is handed (a viewShared passed to a kernel that writes it)
// — that is C04's frame oracle and the race detector.
//
// Knowledge about the data package that is used (and is therefore TRUSTED here, see C01/C02 for the array model):
// Set/Set1/Set2/Set3/Apply/Apply1/ApplySlice/CopyFrom write to the receiver's storage; Slice returns a view that
// aliases the receiver at the given location; Reshape/MustReshape/ReshapeFast/Unroll may alias the receiver;
// NewIndex returns a fresh slice; Shape returns an alias of the receiver's dimension vector; every other method
// only reads. Apply temporarily modifies its `loc` argument (so `loc` vectors must be goroutine-local).
package main

import (
	"bytes"
	"encoding/json"
	"flag"
	"fmt"
	"go/ast"
	"go/parser"
	"go/printer"
	"go/token"
	"os"
	"path/filepath"
	"sort"
	"strconv"
	"strings"
	"text/template"
)

// ---------------------------------------------------------------------------------------------------------------
// facts

type Event struct {
	Line     int    `json:"line"`
	Var      string `json:"var"`      // the shared thing touched (printed receiver / target expression)
	Root     string `json:"root"`     // captured | global | alias | viewOwn | viewShared
	Scalar   bool   `json:"scalar"`   // the root variable is syntactically a scalar (declared with a basic type / from a literal)
	Access   string `json:"access"`   // assign | elemAssign | addr | call | arg | send | recv
	Method   string `json:"method"`   // call: the method; arg: the callee
	Loc      string `json:"loc"`      // call: class of the location argument: ownLit ownVec modLit modVec sharedVec localOther other none
	ArgPos   int    `json:"arg_pos"`  // arg: position of the argument
	IsMethod bool   `json:"is_method"` // arg: the callee is a method (x.M(...)) rather than a function
	Text     string `json:"text"`     // the statement / expression, for the report only
}

type CalleeWrite struct {
	Func string `json:"func"`
	Var  string `json:"var"`
	Pos  string `json:"pos"`
	Text string `json:"text"`
}

type Site struct {
	File string `json:"file"`
	Func string `json:"func"`
	Kind string `json:"kind"` // cells | models | template
	Line int    `json:"line"`

	LoopVars       []string `json:"loop_vars"`
	ClosureParams  []string `json:"closure_params"`
	CallArgs       []string `json:"call_args"`
	CellParam      string   `json:"cell_param"` // the closure parameter that receives a loop variable
	CapturesLoopVar bool    `json:"captures_loop_var"`
	LoopBodyVarsCaptured []string `json:"loop_body_vars_captured"`
	DeclaredInside []string `json:"declared_inside"`
	Captured       []string `json:"captured"`
	Globals        []string `json:"globals"`
	Unsupported    []string `json:"unsupported"` // constructs inside the closure the analysis does not follow (go, defer, func literal, goto, select, labels)
	Events         []Event  `json:"events"`

	Cover    string   `json:"cover"`    // how the cell indices reach the per-cell body: direct (launch loop variable passed to the closure) | pool (range over a channel of cell indices)
	Followed []string `json:"followed"` // functions / methods of the module whose bodies were walked as part of the task

	// worker pool (cover = pool): the channel of cell indices
	PoolChan            string `json:"pool_chan"`
	PoolChanMake        string `json:"pool_chan_make"`  // buffered | unbuffered | unknown
	PoolCap             string `json:"pool_cap"`        // capacity expression of the make
	PoolFillBound       string `json:"pool_fill_bound"` // B of the fill loop `for j := 0; j < B; j++ { cells <- j }`
	PoolFillOk          bool   `json:"pool_fill_ok"`    // exactly one such loop, before the launch loop, its body that single send
	PoolFiller          bool   `json:"pool_filler"`     // the fill loop and the close are the whole body of a dedicated goroutine started before the launch loop (capacity then irrelevant)
	PoolCapMatches      bool   `json:"pool_cap_matches"`
	PoolClosed          bool   `json:"pool_closed"` // close(cells) between the fill loop and the launch loop
	PoolRangeClean      bool   `json:"pool_range_clean"` // `for i := range cells` at the top level of the worker, no break / continue / return / goto in its body, i not assigned
	PoolOtherChanUses   int    `json:"pool_other_chan_uses"`
	PoolBoundReassigned bool   `json:"pool_bound_reassigned"`
	PoolWorkersPositive bool   `json:"pool_workers_positive"` // the worker count is at least 1 whenever the fill bound is (recognised definition)

	Join             string `json:"join"` // chan | waitgroup | none
	DoneDeferred     bool   `json:"done_deferred"` // waitgroup: `defer wg.Done()` is the first statement of the closure
	AddForm          string `json:"add_form"`      // waitgroup: before (one Add(n) before the launch loop) | perLaunch (Add(1) next to the go statement) | ""
	Chan             string `json:"chan"`          // the join object: the done channel / the WaitGroup
	ChanMake         string `json:"chan_make"` // unbuffered | buffered | unknown | waitgroup
	Sends            int    `json:"sends"`
	SendTail         bool   `json:"send_tail"` // every path through the closure performs exactly one send on the channel, as its last action
	RecvsInClosure   int    `json:"recvs_in_closure"`
	ReturnsInClosure int    `json:"returns_in_closure"`

	LaunchForm      string `json:"launch_form"` // counted | counter | other
	LaunchCount     string `json:"launch_count"`
	GoTopLevelOnce  bool   `json:"go_top_level_once"`
	LaunchLoopClean bool   `json:"launch_loop_clean"` // no break/continue/goto/return that could make launches and count disagree
	RecvLoopFound   bool   `json:"recv_loop_found"`
	RecvBound       string `json:"recv_bound"`
	SameBound       bool   `json:"same_bound"`
	RecvPerIter     int    `json:"recv_per_iter"`
	RecvLoopClean   bool   `json:"recv_loop_clean"`
	CountReassigned bool   `json:"count_reassigned"` // the count expression's variables are assigned elsewhere in the function
	OtherChanUses   int    `json:"other_chan_uses"`

	Callees      []string      `json:"callees"`
	CalleesFound int           `json:"callees_scanned"`
	CalleeWrites []CalleeWrite `json:"callee_writes"`
}

type GoStmtRef struct {
	File string `json:"file"`
	Func string `json:"func"`
	Line int    `json:"line"`
	Site bool   `json:"site"`
}

type Violation struct {
	File   string `json:"file"`
	Rule   string `json:"rule"`
	Detail string `json:"detail"`
}

type Facts struct {
	Root          string         `json:"root"`
	CellDims      map[string]int `json:"cell_dims"` // sim.DIM?_CELL constants
	Sites         []Site         `json:"sites"`
	GoStmts       []GoStmtRef    `json:"go_stmts"`
	WrapperFiles  int            `json:"wrapper_files"` // models/*/generated_*.go with a Run method
	WrapperSites  int            `json:"wrapper_sites"`
	TemplateSites int            `json:"template_sites"`
	TemplateVariants int         `json:"template_variants"`
	InitPerCell   []string       `json:"init_per_cell"` // models whose InitialiseStates fills the array cell by cell (row width taken from the first cell)
	Errors        []string       `json:"errors"`
	Violations    []Violation    `json:"violations"`
}

var mutating = map[string]bool{"Set": true, "Set1": true, "Set2": true, "Set3": true, "Apply": true, "Apply1": true,
	"ApplySlice": true, "CopyFrom": true}
var aliasing = map[string]bool{"Reshape": true, "MustReshape": true, "ReshapeFast": true, "Unroll": true}
var locFirst = map[string]bool{"Slice": true, "Set": true, "Get": true, "Apply": true, "ApplySlice": true, "Index": true, "SliceInto": true,
	"Set1": true, "Set2": true, "Set3": true, "Apply1": true}
var builtins = map[string]bool{"len": true, "cap": true, "make": true, "new": true, "append": true, "copy": true, "panic": true,
	"print": true, "println": true, "delete": true, "recover": true, "min": true, "max": true, "close": true, "complex": true, "real": true, "imag": true,
	"int": true, "int8": true, "int16": true, "int32": true, "int64": true, "uint": true, "uint8": true, "uint16": true, "uint32": true,
	"uint64": true, "float32": true, "float64": true, "string": true, "bool": true, "byte": true, "rune": true, "uintptr": true}
var basicTypes = map[string]bool{"int": true, "int8": true, "int16": true, "int32": true, "int64": true, "uint": true, "uint8": true,
	"uint16": true, "uint32": true, "uint64": true, "float32": true, "float64": true, "string": true, "bool": true, "byte": true, "rune": true}

// ---------------------------------------------------------------------------------------------------------------

var fset = token.NewFileSet()

func show(n ast.Node) string {
	var b bytes.Buffer
	printer.Fprint(&b, fset, n)
	s := strings.Join(strings.Fields(b.String()), " ")
	if len(s) > 160 {
		s = s[:160] + "…"
	}
	return s
}

func line(n ast.Node) int { return fset.Position(n.Pos()).Line }

func within(p token.Pos, n ast.Node) bool { return p >= n.Pos() && p < n.End() }

// rootIdent: the identifier at the bottom of x.f / x[i] / x[a:b] / *x / (x) / x.(T)
func rootIdent(e ast.Expr) *ast.Ident {
	for {
		switch v := e.(type) {
		case *ast.Ident:
			return v
		case *ast.SelectorExpr:
			e = v.X
		case *ast.IndexExpr:
			e = v.X
		case *ast.SliceExpr:
			e = v.X
		case *ast.StarExpr:
			e = v.X
		case *ast.ParenExpr:
			e = v.X
		case *ast.TypeAssertExpr:
			e = v.X
		default:
			return nil
		}
	}
}

// ---------------------------------------------------------------------------------------------------------------
// closure analysis

type prov int

const (
	pFresh prov = iota
	pViewOwn
	pViewShared
	pWhole // a shared object itself (a captured non-scalar variable, a field path of one, a parameter bound to one): for an array, the whole array with the cell coordinate first
	pAlias // anything else that aliases something shared (reshaped / unrolled arrays, dimension vectors, results of unknown methods)
)

func worse(a, b prov) prov {
	if a != b && a != pFresh && b != pFresh && (a == pWhole || b == pWhole) {
		return pAlias // the whole array on one path, something else on another
	}
	if b > a {
		return b
	}
	return a
}

type vecInfo struct {
	fresh     bool // defined from NewIndex / composite literal / make
	pin       string // "", own, mod, other
	pinPos    token.Pos
	reassigned bool
}

// binding: what a parameter (or the receiver) of a FOLLOWED callee stands for — the class of the argument at the call
type binding struct {
	class  string // captured | global | local
	scalar bool
}

// frame: the function body being walked. The top frame is the goroutine closure (variables of the enclosing function are
// `captured`); a callee frame is the body of a function or method of the module that the closure calls with something
// shared — its parameters are bound to the classes of the arguments, everything declared inside it is local to the call.
type frame struct {
	scope   ast.Node // the function literal / the callee's declaration
	outer   ast.Node // top frame: the enclosing function declaration; callee frames: nil
	imports map[string]string
	dir     string // directory of the package the code belongs to
	bind    map[*ast.Object]*binding
	top     bool
	decl    *ast.FuncDecl // callee frames
	ret     *absVal       // callee frames: what the return statements hand back (worst case over all of them)
	nret    int
}

// absVal: what is known about a value — provenance of the array / vector it denotes, the goroutine-local position vector or
// struct it is, whether it is the cell index
type absVal struct {
	p       prov
	vec     *vecInfo
	sv      *structVal
	cell    bool
	cellMod bool
	typ     *typeRef
}

// structVal: a struct value created inside the task (composite literal / var / new): per-field knowledge. A struct that is
// shared between the goroutines is not represented (its provenance is `alias`: every field of it is shared).
type structVal struct {
	fields map[string]*absVal
}

// typeRef: a named type of the module, resolved syntactically
type typeRef struct {
	dir  string
	name string
}

type analyser struct {
	root    string // repository root
	file    *ast.File
	imports map[string]string // local name -> import path (of the frame being walked)
	fn      *ast.FuncDecl
	lit     *ast.FuncLit
	fr      *frame
	stack   []*ast.FuncDecl // callees being followed (recursion guard)
	site    *Site
	cellObjs    map[*ast.Object]bool // the cell index: the closure parameter that receives the launch loop variable, or the range variable over the cell channel of a worker pool; and parameters of followed callees bound to it
	cellModObjs map[*ast.Object]bool // parameters of followed callees bound to `cell % n`
	structs map[*ast.Object]*structVal
	types   map[*ast.Object]*typeRef
	retOf   map[*ast.CallExpr]*absVal // followed calls: what they return
	followed map[*ast.CallExpr]bool
	extraCallees []calleeItem // callees of followed functions, with the package they are to be looked up in
	joinObj *ast.Object // the sync.WaitGroup of the join, when the closure has no done channel
	loopObjs  map[*ast.Object]bool
	bodyObjs  map[*ast.Object]bool
	chanObj   *ast.Object
	curTop    bool // the statement being walked is executed on every path of the per-cell body
	deferredDone *ast.DeferStmt
	poolRange *ast.RangeStmt
	prov    map[*ast.Object]prov
	vec     map[*ast.Object]*vecInfo
	declared map[string]bool
	captured map[string]bool
	globals  map[string]bool
	callees  map[string]bool
	cellDims map[string]int
}

// class of an identifier seen inside the closure
func (a *analyser) classify(id *ast.Ident) string {
	if id.Name == "_" {
		return "blank"
	}
	o := id.Obj
	if o == nil {
		if _, ok := a.imports[id.Name]; ok {
			return "pkg"
		}
		if builtins[id.Name] || id.Name == "nil" || id.Name == "true" || id.Name == "false" || id.Name == "iota" {
			return "universe"
		}
		return "global" // package-level identifier declared in another file of the package
	}
	switch o.Kind {
	case ast.Var:
		if b := a.fr.bind[o]; b != nil {
			return b.class
		}
		if within(o.Pos(), a.fr.scope) {
			return "local"
		}
		if a.fr.outer != nil && within(o.Pos(), a.fr.outer) {
			return "captured"
		}
		return "global"
	case ast.Fun, ast.Typ, ast.Con, ast.Pkg:
		return "static"
	}
	return "static"
}

// is the captured variable syntactically a scalar?
func (a *analyser) scalar(o *ast.Object) bool {
	if o == nil {
		return false
	}
	if b := a.fr.bind[o]; b != nil {
		return b.scalar
	}
	switch d := o.Decl.(type) {
	case *ast.Field:
		if t, ok := d.Type.(*ast.Ident); ok {
			return basicTypes[t.Name]
		}
	case *ast.ValueSpec:
		if t, ok := d.Type.(*ast.Ident); ok && basicTypes[t.Name] {
			return true
		}
		for i, n := range d.Names {
			if n.Obj == o && i < len(d.Values) {
				return scalarExpr(d.Values[i])
			}
		}
	case *ast.AssignStmt:
		if len(d.Lhs) == len(d.Rhs) {
			for i, l := range d.Lhs {
				if id, ok := l.(*ast.Ident); ok && id.Obj == o {
					return scalarExpr(d.Rhs[i])
				}
			}
		}
	}
	return false
}

func scalarExpr(e ast.Expr) bool {
	switch v := e.(type) {
	case *ast.BasicLit:
		return true
	case *ast.BinaryExpr:
		return scalarExpr(v.X) && scalarExpr(v.Y)
	case *ast.ParenExpr:
		return scalarExpr(v.X)
	case *ast.CallExpr:
		if id, ok := v.Fun.(*ast.Ident); ok && basicTypes[id.Name] {
			return true
		}
		if s, ok := v.Fun.(*ast.SelectorExpr); ok && (strings.HasPrefix(s.Sel.Name, "Len") || strings.HasPrefix(s.Sel.Name, "Get") || s.Sel.Name == "NDims") {
			return true
		}
	case *ast.IndexExpr:
		// element of an int vector such as inputDims[sim.DIMI_TIMESTEP]
		return true
	}
	return false
}

func (a *analyser) ev(n ast.Node, v string, root string, scalar bool, access, method, loc string, pos int, isMethod bool) {
	a.site.Events = append(a.site.Events, Event{Line: line(n), Var: v, Root: root, Scalar: scalar, Access: access, Method: method,
		Loc: loc, ArgPos: pos, IsMethod: isMethod, Text: show(n)})
}

func provName(p prov) string {
	switch p {
	case pViewOwn:
		return "viewOwn"
	case pViewShared:
		return "viewShared"
	case pAlias:
		return "alias"
	case pWhole:
		return "whole"
	}
	return "fresh"
}

// sharedRoot: is the expression rooted in something shared? returns (root class, printed name, scalar)
func (a *analyser) sharedRoot(e ast.Expr) (string, string, bool, *ast.Ident) {
	id := rootIdent(e)
	if id == nil {
		return "", "", false, nil
	}
	switch a.classify(id) {
	case "captured":
		a.noteCaptured(id.Name)
		return "captured", show(e), a.scalar(id.Obj), id
	case "global":
		a.globals[id.Name] = true
		return "global", show(e), false, id
	case "local":
		if p := a.prov[id.Obj]; p != pFresh {
			return provName(p), show(e), false, id
		}
		if a.structs[id.Obj] != nil {
			// a path through a task-local struct: shared as soon as a field on the way holds something shared
			if p := a.provOf(e); p != pFresh {
				return provName(p), show(e), false, id
			}
		}
	}
	return "", "", false, id
}

// container: the object a write to `lhs` modifies — x for x.f / x[i] / x[a:b] / *x
func container(lhs ast.Expr) ast.Expr {
	switch v := lhs.(type) {
	case *ast.SelectorExpr:
		return v.X
	case *ast.IndexExpr:
		return v.X
	case *ast.SliceExpr:
		return v.X
	case *ast.StarExpr:
		return v.X
	case *ast.ParenExpr:
		return container(v.X)
	}
	return nil
}

// isNewOf: new(T) — returns T
func isNewOf(e ast.Expr) ast.Expr {
	if c, ok := e.(*ast.CallExpr); ok {
		if id, ok := c.Fun.(*ast.Ident); ok && id.Name == "new" && id.Obj == nil && len(c.Args) == 1 {
			return c.Args[0]
		}
	}
	return nil
}

func isStructLit(e ast.Expr) bool {
	if u, ok := e.(*ast.UnaryExpr); ok && u.Op == token.AND {
		e = u.X
	}
	cl, ok := e.(*ast.CompositeLit)
	if !ok {
		return false
	}
	switch cl.Type.(type) {
	case *ast.Ident, *ast.SelectorExpr:
	default:
		return false
	}
	for _, x := range cl.Elts {
		kv, ok := x.(*ast.KeyValueExpr)
		if !ok {
			return false
		}
		if _, ok := kv.Key.(*ast.Ident); !ok {
			return false
		}
	}
	return true
}

// newStruct: the task-local struct created by T{f: v, …} / &T{…}
func (a *analyser) newStruct(e ast.Expr) *structVal {
	if u, ok := e.(*ast.UnaryExpr); ok && u.Op == token.AND {
		e = u.X
	}
	sv := &structVal{fields: map[string]*absVal{}}
	for _, x := range e.(*ast.CompositeLit).Elts {
		kv := x.(*ast.KeyValueExpr)
		sv.fields[kv.Key.(*ast.Ident).Name] = a.absOf(kv.Value)
	}
	return sv
}

func (a *analyser) isCellParam(e ast.Expr) bool {
	switch v := e.(type) {
	case *ast.Ident:
		return v.Obj != nil && a.cellObjs[v.Obj]
	case *ast.ParenExpr:
		return a.isCellParam(v.X)
	case *ast.SelectorExpr:
		if f := a.fieldOf(v); f != nil {
			return f.cell
		}
	}
	return false
}

func (a *analyser) isCellParamMod(e ast.Expr) bool {
	switch v := e.(type) {
	case *ast.BinaryExpr:
		return v.Op == token.REM && a.isCellParam(v.X)
	case *ast.Ident:
		return v.Obj != nil && a.cellModObjs[v.Obj]
	case *ast.ParenExpr:
		return a.isCellParamMod(v.X)
	case *ast.SelectorExpr:
		if f := a.fieldOf(v); f != nil {
			return f.cellMod
		}
	}
	return false
}

// structOf: the task-local struct an expression denotes (x, &x, *x, (x), x.f where f holds one), nil if none
func (a *analyser) structOf(e ast.Expr) *structVal {
	switch v := e.(type) {
	case *ast.Ident:
		if v.Obj != nil {
			return a.structs[v.Obj]
		}
	case *ast.ParenExpr:
		return a.structOf(v.X)
	case *ast.StarExpr:
		return a.structOf(v.X)
	case *ast.UnaryExpr:
		if v.Op == token.AND {
			return a.structOf(v.X)
		}
	case *ast.SelectorExpr:
		if f := a.fieldOf(v); f != nil {
			return f.sv
		}
	case *ast.CallExpr:
		if r := a.retOf[v]; r != nil {
			return r.sv
		}
	}
	return nil
}

// fieldOf: x.f where x denotes a task-local struct: what is known about the field (a field never assigned holds its zero value)
func (a *analyser) fieldOf(s *ast.SelectorExpr) *absVal {
	sv := a.structOf(s.X)
	if sv == nil {
		return nil
	}
	f := sv.fields[s.Sel.Name]
	if f == nil {
		f = &absVal{}
		sv.fields[s.Sel.Name] = f
	}
	return f
}

// absOf: what is known about the value of an expression
func (a *analyser) absOf(e ast.Expr) *absVal {
	v := &absVal{p: a.provOf(e), cell: a.isCellParam(e), cellMod: a.isCellParamMod(e), sv: a.structOf(e), typ: a.typeOf(e)}
	switch x := e.(type) {
	case *ast.Ident:
		if x.Obj != nil && a.classify(x) == "local" {
			v.vec = a.vec[x.Obj]
		}
	case *ast.SelectorExpr:
		if f := a.fieldOf(x); f != nil {
			v.vec = f.vec
		}
	case *ast.CallExpr:
		if r := a.retOf[x]; r != nil {
			v.vec = r.vec
		} else if freshVector(e) {
			v.vec = &vecInfo{fresh: true}
		}
	case *ast.CompositeLit:
		if freshVector(e) {
			v.vec = a.freshVec(e)
		}
	case *ast.ParenExpr:
		return a.absOf(x.X)
	}
	return v
}

// freshVec: the vector info of a NewIndex / make / composite-literal right-hand side
func (a *analyser) freshVec(rhs ast.Expr) *vecInfo {
	vi := &vecInfo{fresh: true}
	if cl, ok := rhs.(*ast.CompositeLit); ok && len(cl.Elts) > 0 {
		switch {
		case a.isCellParam(cl.Elts[0]):
			vi.pin, vi.pinPos = "own", rhs.Pos()
		case a.isCellParamMod(cl.Elts[0]):
			vi.pin, vi.pinPos = "mod", rhs.Pos()
		default:
			vi.pin, vi.pinPos = "other", rhs.Pos()
		}
	}
	return vi
}

// is the key expression of v[key] the cell coordinate? (1 yes, 0 no, -1 unknown)
func (a *analyser) cellKey(e ast.Expr) int {
	switch v := e.(type) {
	case *ast.BasicLit:
		if v.Kind == token.INT {
			if n, err := strconv.Atoi(v.Value); err == nil {
				if n == 0 {
					return 1
				}
				return 0
			}
		}
	case *ast.SelectorExpr:
		if x, ok := v.X.(*ast.Ident); ok && a.classify(x) == "pkg" {
			if val, ok := a.cellDims[v.Sel.Name]; ok {
				_ = val
				return 1
			}
			if strings.HasPrefix(v.Sel.Name, "DIM") {
				return 0 // another DIM constant of package sim (values checked globally: the CELL constants are 0, the others are not)
			}
		}
	case *ast.Ident:
		// the same constants, unqualified, inside package sim itself (per-cell view helpers that live there)
		if v.Obj != nil && v.Obj.Kind != ast.Con {
			return -1
		}
		if a.fr != nil && a.fr.dir == filepath.Join(a.root, "sim") {
			if _, ok := a.cellDims[v.Name]; ok {
				return 1
			}
			if strings.HasPrefix(v.Name, "DIM") {
				return 0
			}
		}
	}
	return -1
}

func (a *analyser) locClass(e ast.Expr, at token.Pos) string {
	switch v := e.(type) {
	case *ast.CompositeLit:
		if len(v.Elts) == 0 {
			return "other"
		}
		if a.isCellParam(v.Elts[0]) {
			return "ownLit"
		}
		if a.isCellParamMod(v.Elts[0]) {
			return "modLit"
		}
		return "other"
	case *ast.Ident:
		if a.isCellParam(v) {
			return "ownLit" // Set1(i, …), Set2(i, k, …): first coordinate is the goroutine's own cell
		}
		switch a.classify(v) {
		case "captured", "global":
			return "sharedVec"
		case "local":
			if a.cellModObjs[v.Obj] {
				return "modLit"
			}
			return vecClass(a.vec[v.Obj])
		}
	case *ast.SelectorExpr:
		// a field of a task-local struct that holds a goroutine-local position vector
		if f := a.fieldOf(v); f != nil {
			if f.cell {
				return "ownLit"
			}
			if f.cellMod {
				return "modLit"
			}
			if f.p == pFresh {
				return vecClass(f.vec)
			}
			return "sharedVec"
		}
		if a.provOf(v) != pFresh {
			return "sharedVec"
		}
	case *ast.BinaryExpr:
		if a.isCellParamMod(v) {
			return "modLit"
		}
	}
	return "other"
}

// the pins are recorded as the statements are walked, in execution order (also across followed calls): a pin that is
// recorded was made before the use being classified
func vecClass(vi *vecInfo) string {
	if vi == nil || !vi.fresh || vi.reassigned {
		return "localOther"
	}
	if vi.pin == "own" {
		return "ownVec"
	}
	if vi.pin == "mod" {
		return "modVec"
	}
	return "localOther"
}

// provenance of the value of an expression
func (a *analyser) provOf(e ast.Expr) prov {
	switch v := e.(type) {
	case nil:
		return pFresh
	case *ast.Ident:
		switch a.classify(v) {
		case "captured":
			if a.scalar(v.Obj) {
				return pFresh
			}
			return pWhole
		case "global":
			return pAlias
		case "local":
			return a.prov[v.Obj]
		}
		return pFresh
	case *ast.ParenExpr:
		return a.provOf(v.X)
	case *ast.StarExpr:
		return a.provOf(v.X)
	case *ast.TypeAssertExpr:
		return a.provOf(v.X)
	case *ast.SelectorExpr:
		if x, ok := v.X.(*ast.Ident); ok && a.classify(x) == "pkg" {
			return pFresh // pkg.Const / pkg.Var read
		}
		if f := a.fieldOf(v); f != nil {
			return f.p
		}
		return a.provOf(v.X)
	case *ast.IndexExpr:
		p := a.provOf(v.X)
		if p == pAlias || p == pWhole {
			return pFresh // an element read out of a shared vector is a copy of a scalar (vectors of vectors do not occur: conservative enough, writes through it would need [] again)
		}
		return p
	case *ast.SliceExpr:
		if p := a.provOf(v.X); p == pWhole {
			return pAlias
		} else {
			return p
		}
	case *ast.UnaryExpr:
		if v.Op == token.AND {
			if p := a.provOf(v.X); p != pFresh {
				return p
			}
			if id := rootIdent(v.X); id != nil {
				c := a.classify(id)
				if c == "captured" || c == "global" {
					return pAlias
				}
			}
		}
		return pFresh
	case *ast.CompositeLit:
		if isStructLit(v) {
			// a struct holding something shared in a field is not itself shared; its fields are tracked when it is bound to a variable
			return pFresh
		}
		// any other literal that holds something shared aliases it
		for _, x := range v.Elts {
			if kv, ok := x.(*ast.KeyValueExpr); ok {
				x = kv.Value
			}
			if a.provOf(x) != pFresh {
				return pAlias
			}
		}
		return pFresh
	case *ast.BasicLit, *ast.BinaryExpr, *ast.FuncLit:
		return pFresh
	case *ast.CallExpr:
		if r := a.retOf[v]; r != nil {
			return r.p // a followed call: what its return statements hand back
		}
		if s, ok := v.Fun.(*ast.SelectorExpr); ok {
			if x, ok := s.X.(*ast.Ident); ok && a.classify(x) == "pkg" {
				return a.worstArg(v)
			}
			recv := a.provOf(s.X)
			// the receiver itself when it is a captured non-scalar (provOf gives alias) or a field of one
			m := s.Sel.Name
			switch {
			case m == "Slice":
				if recv == pFresh {
					return pFresh
				}
				if recv == pViewOwn {
					return pViewOwn
				}
				if recv == pWhole && len(v.Args) > 0 {
					lc := a.locClass(v.Args[0], v.Pos())
					if lc == "ownLit" || lc == "ownVec" {
						return pViewOwn
					}
				}
				return pViewShared
			case aliasing[m]:
				if recv == pWhole {
					return pAlias // a reshaped / unrolled whole array: the cell coordinate is no longer the first one
				}
				return recv
			case m == "NewIndex":
				return pFresh
			case strings.HasPrefix(m, "Get") || strings.HasPrefix(m, "Len") || m == "NDims" || m == "Index" || m == "Contiguous" || m == "Maximum" || m == "Minimum":
				return pFresh
			default:
				if recv == pFresh {
					return a.worstArg(v)
				}
				return pAlias // e.g. Shape(): aliases the receiver's dimension vector
			}
		}
		if id, ok := v.Fun.(*ast.Ident); ok {
			if basicTypes[id.Name] || id.Name == "len" || id.Name == "cap" || id.Name == "make" || id.Name == "new" {
				return pFresh
			}
			if id.Name == "append" && len(v.Args) > 0 {
				return a.provOf(v.Args[0])
			}
		}
		return a.worstArg(v)
	}
	return pFresh
}

func (a *analyser) worstArg(c *ast.CallExpr) prov {
	p := pFresh
	for _, x := range c.Args {
		p = worse(p, a.provOf(x))
	}
	return p
}

// ---------------------------------------------------------------------------------------------------------------
// following calls into functions and methods of the module (named per-cell methods, per-cell view helpers)

type calleeItem struct {
	dir, name string
}

func (a *analyser) moduleDir(importPath string) (string, bool) {
	if importPath == modulePath {
		return a.root, true
	}
	if strings.HasPrefix(importPath, modulePath+"/") {
		return filepath.Join(a.root, strings.TrimPrefix(importPath, modulePath+"/")), true
	}
	return "", false
}

// typeOfTypeExpr: the named module type a type expression denotes (through pointers), nil for anything else
func (a *analyser) typeOfTypeExpr(e ast.Expr, dir string, imports map[string]string) *typeRef {
	switch t := e.(type) {
	case *ast.StarExpr:
		return a.typeOfTypeExpr(t.X, dir, imports)
	case *ast.ParenExpr:
		return a.typeOfTypeExpr(t.X, dir, imports)
	case *ast.Ident:
		if basicTypes[t.Name] || t.Name == "error" || t.Name == "any" {
			return nil
		}
		if _, ok := loadPkg(dir).types[t.Name]; ok {
			return &typeRef{dir, t.Name}
		}
	case *ast.SelectorExpr:
		if x, ok := t.X.(*ast.Ident); ok {
			if p, ok := imports[x.Name]; ok {
				if d, ok := a.moduleDir(p); ok {
					if _, ok := loadPkg(d).types[t.Sel.Name]; ok {
						return &typeRef{d, t.Sel.Name}
					}
				}
			}
		}
	}
	return nil
}

func (a *analyser) isStructType(t *typeRef) bool {
	ts := loadPkg(t.dir).types[t.name]
	if ts == nil {
		return false
	}
	_, ok := ts.Type.(*ast.StructType)
	return ok
}

// typeOf: the named module type of an expression, as far as the syntax tells (declarations, composite literals, result
// types of resolved callees, struct fields); nil = unknown
func (a *analyser) typeOf(e ast.Expr) *typeRef {
	return a.typeOfDepth(e, 0)
}

func (a *analyser) typeOfDepth(e ast.Expr, depth int) *typeRef {
	if depth > 8 || a.fr == nil {
		return nil
	}
	dir, imports := a.fr.dir, a.fr.imports
	switch v := e.(type) {
	case *ast.ParenExpr:
		return a.typeOfDepth(v.X, depth+1)
	case *ast.StarExpr:
		return a.typeOfDepth(v.X, depth+1)
	case *ast.UnaryExpr:
		if v.Op == token.AND {
			return a.typeOfDepth(v.X, depth+1)
		}
	case *ast.CompositeLit:
		if v.Type != nil {
			return a.typeOfTypeExpr(v.Type, dir, imports)
		}
	case *ast.Ident:
		if v.Obj == nil {
			return nil
		}
		if t := a.types[v.Obj]; t != nil {
			return t
		}
		switch d := v.Obj.Decl.(type) {
		case *ast.Field:
			return a.typeOfTypeExpr(d.Type, dir, imports)
		case *ast.ValueSpec:
			if d.Type != nil {
				return a.typeOfTypeExpr(d.Type, dir, imports)
			}
			for i, n := range d.Names {
				if n.Obj == v.Obj && i < len(d.Values) && len(d.Values) == len(d.Names) {
					return a.typeOfDepth(d.Values[i], depth+1)
				}
			}
		case *ast.AssignStmt:
			if d.Tok == token.DEFINE && len(d.Lhs) == len(d.Rhs) {
				for i, l := range d.Lhs {
					if id, ok := l.(*ast.Ident); ok && id.Obj == v.Obj {
						return a.typeOfDepth(d.Rhs[i], depth+1)
					}
				}
			}
		}
	case *ast.SelectorExpr:
		if x, ok := v.X.(*ast.Ident); ok && a.classify(x) == "pkg" {
			return nil
		}
		if t := a.typeOfDepth(v.X, depth+1); t != nil {
			p := loadPkg(t.dir)
			if ts := p.types[t.name]; ts != nil {
				if st, ok := ts.Type.(*ast.StructType); ok {
					for _, f := range st.Fields.List {
						for _, n := range f.Names {
							if n.Name == v.Sel.Name {
								return a.typeOfTypeExpr(f.Type, t.dir, importsOf(p.typeFile[t.name]))
							}
						}
					}
				}
			}
		}
	case *ast.CallExpr:
		if id, ok := v.Fun.(*ast.Ident); ok && id.Name == "new" && id.Obj == nil && len(v.Args) == 1 {
			return a.typeOfTypeExpr(v.Args[0], dir, imports)
		}
		if decl, ddir, file, _ := a.resolveCallee(v, depth+1); decl != nil && decl.Type.Results != nil && len(decl.Type.Results.List) > 0 {
			return a.typeOfTypeExpr(decl.Type.Results.List[0].Type, ddir, importsOf(file))
		}
	}
	return nil
}

// resolveCallee: the declaration in the module that a call reaches — f(…), pkg.F(…), x.M(…) with x of a known module type
func (a *analyser) resolveCallee(c *ast.CallExpr, depth int) (*ast.FuncDecl, string, *ast.File, ast.Expr) {
	switch f := c.Fun.(type) {
	case *ast.Ident:
		cl := a.classify(f)
		if (cl == "static" || cl == "global") && !builtins[f.Name] {
			p := loadPkg(a.fr.dir)
			if d := p.funcs[f.Name]; d != nil {
				return d, a.fr.dir, p.fileOf[d], nil
			}
		}
	case *ast.SelectorExpr:
		if x, ok := f.X.(*ast.Ident); ok && a.classify(x) == "pkg" {
			if ip, ok := a.fr.imports[x.Name]; ok {
				if d, ok := a.moduleDir(ip); ok {
					p := loadPkg(d)
					if fd := p.funcs[f.Sel.Name]; fd != nil {
						return fd, d, p.fileOf[fd], nil
					}
				}
			}
			return nil, "", nil, nil
		}
		if t := a.typeOfDepth(f.X, depth+1); t != nil {
			p := loadPkg(t.dir)
			if fd := p.methods[t.name+"."+f.Sel.Name]; fd != nil {
				return fd, t.dir, p.fileOf[fd], f.X
			}
		}
	}
	return nil, "", nil, nil
}

func bareArg(x ast.Expr) ast.Expr {
	if u, ok := x.(*ast.UnaryExpr); ok && u.Op == token.AND {
		x = u.X
	}
	if s, ok := x.(*ast.SliceExpr); ok {
		x = s.X
	}
	if p, ok := x.(*ast.ParenExpr); ok {
		x = p.X
	}
	return x
}

// wantFollow: a function or method of the module is followed when it is handed — as an argument or as its receiver —
// something shared (a captured or package-level non-scalar other than the join object, anything that aliases one) or a
// task-local struct: what the closure-level rules cannot judge from the call alone. Kernels called with goroutine-local
// views and scalars, and methods of goroutine-local objects, are not followed (callee scan only).
func (a *analyser) wantFollow(c *ast.CallExpr, recv ast.Expr) bool {
	if recv != nil && (a.structOf(recv) != nil || a.provOf(recv) != pFresh) {
		return true
	}
	for _, x := range c.Args {
		if a.structOf(x) != nil {
			return true
		}
		if id, ok := bareArg(x).(*ast.Ident); ok && id.Obj != nil {
			cl := a.classify(id)
			if (cl == "captured" || cl == "global") && !a.scalar(id.Obj) && !a.isJoinObj(id.Obj) {
				return true
			}
		}
	}
	return false
}

func (a *analyser) isJoinObj(o *ast.Object) bool {
	return o != nil && (o == a.chanObj || o == a.joinObj)
}

const maxFollowDepth = 6

// follow walks the body of the callee as part of the task, with its parameters bound to what the call passes.
func (a *analyser) follow(c *ast.CallExpr, decl *ast.FuncDecl, dir string, file *ast.File, recv ast.Expr, top bool) {
	name := funcName(decl)
	for _, d := range a.stack {
		if d == decl {
			a.site.Unsupported = append(a.site.Unsupported, fmt.Sprintf("recursive call of %s at line %d", name, line(c)))
			a.retOf[c] = &absVal{p: pAlias}
			return
		}
	}
	if len(a.stack) >= maxFollowDepth {
		a.site.Unsupported = append(a.site.Unsupported, fmt.Sprintf("call of %s at line %d nested deeper than %d followed calls", name, line(c), maxFollowDepth))
		a.retOf[c] = &absVal{p: pAlias}
		return
	}
	a.followed[c] = true
	a.site.Followed = appendUnique(a.site.Followed, name)
	fr := &frame{scope: decl, imports: importsOf(file), dir: dir, bind: map[*ast.Object]*binding{}, decl: decl}

	// the arguments, evaluated in the caller's frame
	type bound struct {
		obj *ast.Object
		b   *binding
		v   *absVal
	}
	var bs []bound
	bindOne := func(p *ast.Ident, arg ast.Expr, typ ast.Expr) {
		if p == nil || p.Obj == nil || p.Name == "_" {
			return
		}
		v := a.absOf(arg)
		b := &binding{class: "local"}
		if id, ok := bareArg(arg).(*ast.Ident); ok && id.Obj != nil {
			switch cl := a.classify(id); cl {
			case "captured", "global":
				if a.scalar(id.Obj) {
					if _, isAddr := arg.(*ast.UnaryExpr); isAddr {
						v.p = pAlias
					}
				} else {
					b.class = cl
				}
			}
		}
		if t, ok := typ.(*ast.Ident); ok && basicTypes[t.Name] {
			b.scalar = true
			if b.class != "local" {
				b.class = "local" // a copy of a scalar
				v.p = pFresh
			}
		}
		bs = append(bs, bound{p.Obj, b, v})
	}
	if recv != nil && decl.Recv != nil && len(decl.Recv.List) == 1 && len(decl.Recv.List[0].Names) == 1 {
		bindOne(decl.Recv.List[0].Names[0], recv, decl.Recv.List[0].Type)
	}
	i := 0
	if decl.Type.Params != nil {
		for _, f := range decl.Type.Params.List {
			_, variadic := f.Type.(*ast.Ellipsis)
			for _, n := range f.Names {
				switch {
				case variadic:
					// the remaining arguments as one fresh slice of copies (scalars) — anything shared among them makes it an alias
					v := &absVal{}
					for _, x := range c.Args[min(i, len(c.Args)):] {
						v.p = worse(v.p, a.provOf(x))
					}
					if v.p != pFresh {
						v.p = pAlias
					}
					if n.Obj != nil && n.Name != "_" {
						bs = append(bs, bound{n.Obj, &binding{class: "local"}, v})
					}
					i = len(c.Args)
				case i < len(c.Args):
					bindOne(n, c.Args[i], f.Type)
					i++
				}
			}
			if len(f.Names) == 0 {
				i++
			}
		}
	}

	// a fresh activation: forget what an earlier call of the same function left about its locals
	ast.Inspect(decl, func(x ast.Node) bool {
		if id, ok := x.(*ast.Ident); ok && id.Obj != nil && id.Obj.Pos() == id.Pos() {
			delete(a.prov, id.Obj)
			delete(a.vec, id.Obj)
			delete(a.structs, id.Obj)
			delete(a.types, id.Obj)
			delete(a.cellObjs, id.Obj)
			delete(a.cellModObjs, id.Obj)
		}
		return true
	})
	for _, b := range bs {
		fr.bind[b.obj] = b.b
		if b.b.class == "local" {
			a.prov[b.obj] = b.v.p
			if b.v.vec != nil {
				a.vec[b.obj] = b.v.vec
			} else {
				a.vec[b.obj] = &vecInfo{}
			}
			if b.v.sv != nil {
				a.structs[b.obj] = b.v.sv
			}
		}
		if b.v.cell {
			a.cellObjs[b.obj] = true
		}
		if b.v.cellMod {
			a.cellModObjs[b.obj] = true
		}
		if b.v.typ != nil {
			a.types[b.obj] = b.v.typ
		}
	}

	savedFr, savedImports, savedTop := a.fr, a.imports, a.curTop
	a.fr, a.imports = fr, fr.imports
	a.stack = append(a.stack, decl)
	if decl.Body != nil {
		a.stmts(decl.Body.List, top)
	} else {
		a.site.Unsupported = append(a.site.Unsupported, fmt.Sprintf("%s has no Go body (line %d)", name, line(c)))
	}
	a.stack = a.stack[:len(a.stack)-1]
	a.fr, a.imports, a.curTop = savedFr, savedImports, savedTop
	if fr.ret == nil {
		fr.ret = &absVal{}
	}
	if fr.ret.typ == nil && decl.Type.Results != nil && len(decl.Type.Results.List) > 0 {
		fr.ret.typ = a.typeOfTypeExpr(decl.Type.Results.List[0].Type, dir, fr.imports)
	}
	a.retOf[c] = fr.ret
}

// returned: a return statement of a followed callee
func (a *analyser) returned(v *ast.ReturnStmt) {
	fr := a.fr
	results := v.Results
	if len(results) == 0 && fr.decl != nil && fr.decl.Type.Results != nil {
		for _, f := range fr.decl.Type.Results.List {
			for _, n := range f.Names {
				results = append(results, n)
			}
		}
	}
	r := &absVal{}
	if len(results) == 1 {
		r = a.absOf(results[0])
		if isStructLit(results[0]) {
			r.sv = a.newStruct(results[0])
		}
	} else {
		for _, x := range results {
			r.p = worse(r.p, a.provOf(x))
		}
	}
	fr.nret++
	if fr.ret == nil {
		fr.ret = r
		return
	}
	o := fr.ret
	o.p = worse(o.p, r.p)
	if o.vec != r.vec {
		o.vec = nil
	}
	if o.sv != r.sv {
		o.sv = nil
		if r.sv != nil || fr.nret > 1 {
			// different structs on different paths: nothing is known about the fields; what they may hold is the worst seen
			o.p = worse(o.p, pAlias)
		}
	}
	o.cell = o.cell && r.cell
	o.cellMod = o.cellMod && r.cellMod
}

func containsReturn(n ast.Node) bool {
	found := false
	ast.Inspect(n, func(x ast.Node) bool {
		switch x.(type) {
		case *ast.FuncLit:
			return false
		case *ast.ReturnStmt:
			found = true
		}
		return !found
	})
	return found
}

func freshVector(e ast.Expr) bool {
	switch v := e.(type) {
	case *ast.CompositeLit:
		return true
	case *ast.CallExpr:
		if s, ok := v.Fun.(*ast.SelectorExpr); ok && s.Sel.Name == "NewIndex" {
			return true
		}
		if id, ok := v.Fun.(*ast.Ident); ok && id.Name == "make" {
			return true
		}
	}
	return false
}

func (a *analyser) define(id *ast.Ident, rhs ast.Expr, multi bool, p prov) {
	if id.Name == "_" || id.Obj == nil {
		return
	}
	if a.fr.top {
		a.declared[id.Name] = true
	}
	if old, ok := a.prov[id.Obj]; ok {
		p = worse(p, old)
	}
	a.prov[id.Obj] = p
	if vi, ok := a.vec[id.Obj]; ok {
		vi.reassigned = true
		return
	}
	vi := &vecInfo{}
	if !multi && rhs != nil {
		if t := a.typeOf(rhs); t != nil {
			a.types[id.Obj] = t
		}
		switch {
		case isStructLit(rhs):
			a.structs[id.Obj] = a.newStruct(rhs)
		case isNewOf(rhs) != nil && a.typeOf(rhs) != nil && a.isStructType(a.typeOf(rhs)):
			a.structs[id.Obj] = &structVal{fields: map[string]*absVal{}} // new(T): the zero value of a struct type of the module
		case a.structOf(rhs) != nil:
			a.structs[id.Obj] = a.structOf(rhs) // same struct (a pointer to it, or a copy whose slice fields share their storage)
		case freshVector(rhs):
			vi = a.freshVec(rhs)
		default:
			if r := a.absOf(rhs); r.vec != nil && r.p == pFresh {
				vi = r.vec // the goroutine-local vector a followed call or a struct field hands back
			}
		}
		if rhs != nil && a.isCellParam(rhs) && a.fr != nil && !a.fr.top {
			a.cellObjs[id.Obj] = true
		}
	} else if rhs == nil {
		if vs, ok := id.Obj.Decl.(*ast.ValueSpec); ok && vs.Type != nil {
			// var c T: the zero value of a struct type of the module is a task-local struct
			if t := a.typeOfTypeExpr(vs.Type, a.fr.dir, a.fr.imports); t != nil && a.isStructType(t) {
				a.types[id.Obj] = t
				a.structs[id.Obj] = &structVal{fields: map[string]*absVal{}}
			}
		}
	}
	a.vec[id.Obj] = vi
}

// assignment target
func (a *analyser) target(lhs ast.Expr, stmt ast.Node, rhs ast.Expr, topLevel bool) {
	if id, ok := lhs.(*ast.Ident); ok {
		switch a.classify(id) {
		case "captured":
			a.noteCaptured(id.Name)
			a.ev(stmt, id.Name, "captured", a.scalar(id.Obj), "assign", "", "none", 0, false)
		case "global":
			a.globals[id.Name] = true
			a.ev(stmt, id.Name, "global", false, "assign", "", "none", 0, false)
		case "local":
			p := pFresh
			if rhs != nil {
				p = a.provOf(rhs)
			}
			a.prov[id.Obj] = worse(a.prov[id.Obj], p)
			if vi := a.vec[id.Obj]; vi != nil {
				vi.reassigned = true
			}
		}
		return
	}
	// element / field / pointer target
	root, name, sc, id := a.sharedRoot(lhs)
	if root != "" {
		a.ev(stmt, name, root, sc, "elemAssign", "", "none", 0, false)
	} else if id != nil && a.classify(id) == "local" {
		// something shared stored into a goroutine-local container that is not tracked field by field (x.f = shared with x of
		// unknown type, xs[k] = shared): the container aliases it from now on
		if rhs != nil && a.provOf(rhs) != pFresh && id.Obj != nil {
			tracked := false
			if sel, ok := lhs.(*ast.SelectorExpr); ok && a.structOf(sel.X) != nil {
				tracked = true
			}
			if !tracked {
				a.prov[id.Obj] = worse(a.prov[id.Obj], pAlias)
			}
		}
		// a field of a task-local struct: c.f = rhs
		if sel, ok := lhs.(*ast.SelectorExpr); ok {
			if sv := a.structOf(sel.X); sv != nil {
				var nv *absVal
				if rhs != nil {
					nv = a.absOf(rhs)
					if isStructLit(rhs) {
						nv.sv = a.newStruct(rhs)
					}
				} else {
					nv = &absVal{}
				}
				if old := sv.fields[sel.Sel.Name]; old != nil {
					nv.p = worse(nv.p, old.p)
					if old.vec != nil && old.vec != nv.vec {
						old.vec.reassigned = true
						if nv.vec != nil {
							nv.vec.reassigned = true
						}
					}
				}
				sv.fields[sel.Sel.Name] = nv
			}
		}
		// pinning of a goroutine-local position vector: v[key] = rhs (v a local, or a field of a task-local struct)
		if ix, ok := lhs.(*ast.IndexExpr); ok {
			var vi *vecInfo
			switch base := ix.X.(type) {
			case *ast.Ident:
				if base.Obj != nil {
					vi = a.vec[base.Obj]
				}
			case *ast.SelectorExpr:
				if f := a.fieldOf(base); f != nil {
					vi = f.vec
				}
			}
			{
				if vi != nil {
					switch a.cellKey(ix.Index) {
					case 1:
						np := "other"
						if topLevel && rhs != nil && a.isCellParam(rhs) {
							np = "own"
						} else if topLevel && rhs != nil && a.isCellParamMod(rhs) {
							np = "mod"
						}
						if vi.pin == "" || vi.pin == np {
							if vi.pin == "" {
								vi.pinPos = lhs.Pos()
							}
							vi.pin = np
						} else {
							vi.pin = "other"
						}
					case -1:
						vi.pin = "other" // unknown coordinate may be the cell coordinate
						vi.pinPos = lhs.Pos()
					}
				}
			}
		}
	}
	a.expr(lhs, true)
}

// expression walk: emits events for shared things used other than by plain reading
func (a *analyser) expr(e ast.Expr, isTarget bool) {
	switch v := e.(type) {
	case nil:
	case *ast.Ident:
		switch a.classify(v) {
		case "captured":
			a.noteCaptured(v.Name)
			if a.loopObjs[v.Obj] {
				a.site.CapturesLoopVar = true
			}
			if a.bodyObjs[v.Obj] {
				a.site.LoopBodyVarsCaptured = appendUnique(a.site.LoopBodyVarsCaptured, v.Name)
			}
		case "global":
			a.globals[v.Name] = true
		}
	case *ast.ParenExpr:
		a.expr(v.X, isTarget)
	case *ast.StarExpr:
		a.expr(v.X, isTarget)
	case *ast.SelectorExpr:
		a.expr(v.X, isTarget)
	case *ast.TypeAssertExpr:
		a.expr(v.X, false)
	case *ast.IndexExpr:
		a.expr(v.X, isTarget)
		a.expr(v.Index, false)
	case *ast.SliceExpr:
		a.expr(v.X, isTarget)
		a.expr(v.Low, false)
		a.expr(v.High, false)
		a.expr(v.Max, false)
	case *ast.BinaryExpr:
		a.expr(v.X, false)
		a.expr(v.Y, false)
	case *ast.KeyValueExpr:
		if _, ok := v.Key.(*ast.Ident); !ok {
			a.expr(v.Key, false)
		}
		a.expr(v.Value, false)
	case *ast.CompositeLit:
		for _, x := range v.Elts {
			a.expr(x, false)
		}
	case *ast.UnaryExpr:
		if v.Op == token.AND {
			if root, name, sc, _ := a.sharedRoot(v.X); root != "" {
				a.ev(v, name, root, sc, "addr", "", "none", 0, false)
			}
		}
		if v.Op == token.ARROW {
			if root, name, sc, _ := a.sharedRoot(v.X); root != "" {
				a.site.RecvsInClosure++
				a.ev(v, name, root, sc, "recv", "", "none", 0, false)
			}
		}
		a.expr(v.X, false)
	case *ast.FuncLit:
		a.site.Unsupported = append(a.site.Unsupported, fmt.Sprintf("func literal at line %d", line(v)))
	case *ast.CallExpr:
		a.call(v)
	}
}

func appendUnique(l []string, s string) []string {
	for _, x := range l {
		if x == s {
			return l
		}
	}
	return append(l, s)
}

func (a *analyser) noteCaptured(name string) {
	if a.fr.top {
		a.captured[name] = true
	}
}

// noteCallee: a function the task calls without being followed — scanned for writes to package-level state
func (a *analyser) noteCallee(name string) {
	if a.fr.top {
		a.callees[name] = true
		return
	}
	dir := a.fr.dir
	if i := strings.Index(name, "."); i >= 0 {
		d, ok := a.moduleDir(a.fr.imports[name[:i]])
		if !ok {
			return
		}
		dir, name = d, name[i+1:]
	}
	a.extraCallees = append(a.extraCallees, calleeItem{dir, name})
}

func (a *analyser) call(c *ast.CallExpr) {
	callee := ""
	isMethod := false
	decl, ddir, dfile, drecv := a.resolveCallee(c, 0)
	doFollow := decl != nil && a.wantFollow(c, drecv)
	top := a.curTop
	if doFollow {
		// the followed function is also scanned like every other callee (methods called on package-level variables)
		a.extraCallees = append(a.extraCallees, calleeItem{ddir, funcName(decl)})
	}
	switch f := c.Fun.(type) {
	case *ast.SelectorExpr:
		if x, ok := f.X.(*ast.Ident); ok && a.classify(x) == "pkg" {
			callee = x.Name + "." + f.Sel.Name
			if !doFollow {
				a.noteCallee(callee)
			}
		} else {
			isMethod = true
			callee = f.Sel.Name
			// method call on something shared?
			root, name, sc, _ := a.sharedRoot(f.X)
			if root == "" {
				// receiver may be a call chain rooted in something shared: states.Slice(..).MustReshape(..)
				if p := a.provOf(f.X); p != pFresh {
					root, name = provName(p), show(f.X)
				}
			}
			if root != "" {
				loc := "none"
				if locFirst[callee] && len(c.Args) > 0 {
					loc = a.locClass(c.Args[0], c.Pos())
				}
				a.ev(c, name, root, sc, "call", callee, loc, 0, true)
			}
			a.expr(f.X, false)
		}
	case *ast.Ident:
		callee = f.Name
		switch a.classify(f) {
		case "static", "global":
			if !builtins[f.Name] && !doFollow {
				a.noteCallee(f.Name)
			}
		case "captured", "local":
			a.site.Unsupported = append(a.site.Unsupported, fmt.Sprintf("call through function value %s at line %d", f.Name, line(c)))
		}
		if f.Name == "copy" && len(c.Args) == 2 {
			if root, name, sc, _ := a.sharedRoot(c.Args[0]); root != "" {
				a.ev(c, name, root, sc, "elemAssign", "copy", "none", 0, false)
			}
		}
	default:
		a.expr(c.Fun, false)
	}
	for i, x := range c.Args {
		bare := x
		if u, ok := bare.(*ast.UnaryExpr); ok && u.Op == token.AND {
			bare = u.X
		}
		if s, ok := bare.(*ast.SliceExpr); ok {
			bare = s.X
		}
		if id, ok := bare.(*ast.Ident); ok {
			cl := a.classify(id)
			if (cl == "captured" || cl == "global") && !doFollow {
				if !(callee == "len" || callee == "cap" || basicTypes[callee]) {
					root := cl
					a.ev(c, id.Name, root, cl == "captured" && a.scalar(id.Obj), "arg", callee, "none", i, isMethod)
				}
			}
		}
		a.expr(x, false)
	}
	if doFollow {
		// the arguments are bound to the callee's parameters and its body is walked as part of this task
		a.follow(c, decl, ddir, dfile, drecv, top)
	}
}

// sendTail: does every path through the statement list end with exactly one send on the channel, with no other
// send before it?  returns (ok, number of send statements seen)
func (a *analyser) sendsIn(n ast.Node) int {
	c := 0
	if n == nil {
		return 0
	}
	ast.Inspect(n, func(x ast.Node) bool {
		if s, ok := x.(*ast.SendStmt); ok && a.chanObj != nil {
			if id := rootIdent(s.Chan); id != nil && id.Obj == a.chanObj {
				c++
			}
		}
		if call, ok := x.(*ast.CallExpr); ok && a.wgCall(call) == "Done" {
			c++
		}
		return true
	})
	return c
}

func (a *analyser) isSend(s ast.Stmt) bool {
	if es, ok := s.(*ast.ExprStmt); ok {
		if call, ok := es.X.(*ast.CallExpr); ok && a.wgCall(call) == "Done" {
			return true
		}
		return false
	}
	x, ok := s.(*ast.SendStmt)
	if !ok || a.chanObj == nil {
		return false
	}
	id, ok := x.Chan.(*ast.Ident)
	return ok && id.Obj == a.chanObj
}

// wgCall: wg.Add / wg.Done / wg.Wait on the join WaitGroup ("" otherwise)
func (a *analyser) wgCall(c *ast.CallExpr) string {
	if a.joinObj == nil {
		return ""
	}
	s, ok := c.Fun.(*ast.SelectorExpr)
	if !ok {
		return ""
	}
	id, ok := s.X.(*ast.Ident)
	if !ok || id.Obj != a.joinObj {
		return ""
	}
	switch s.Sel.Name {
	case "Add":
		if len(c.Args) == 1 {
			return "Add"
		}
	case "Done", "Wait":
		if len(c.Args) == 0 {
			return s.Sel.Name
		}
	}
	return ""
}

// isWaitGroupDecl: the object is a local declared as a sync.WaitGroup value (var wg sync.WaitGroup / wg := sync.WaitGroup{} / &… / new)
func (a *analyser) isWaitGroupDecl(o *ast.Object) bool {
	isWG := func(e ast.Expr) bool {
		s, ok := e.(*ast.SelectorExpr)
		if !ok || s.Sel.Name != "WaitGroup" {
			return false
		}
		x, ok := s.X.(*ast.Ident)
		return ok && a.imports[x.Name] == "sync"
	}
	var rhs ast.Expr
	switch d := o.Decl.(type) {
	case *ast.ValueSpec:
		if d.Type != nil {
			return isWG(d.Type) && len(d.Values) == 0
		}
		for i, n := range d.Names {
			if n.Obj == o && i < len(d.Values) {
				rhs = d.Values[i]
			}
		}
	case *ast.AssignStmt:
		if d.Tok == token.DEFINE && len(d.Lhs) == len(d.Rhs) {
			for i, l := range d.Lhs {
				if id, ok := l.(*ast.Ident); ok && id.Obj == o {
					rhs = d.Rhs[i]
				}
			}
		}
	}
	if u, ok := rhs.(*ast.UnaryExpr); ok && u.Op == token.AND {
		rhs = u.X
	}
	if cl, ok := rhs.(*ast.CompositeLit); ok {
		return isWG(cl.Type) && len(cl.Elts) == 0
	}
	if c, ok := rhs.(*ast.CallExpr); ok {
		if id, ok := c.Fun.(*ast.Ident); ok && id.Name == "new" && len(c.Args) == 1 {
			return isWG(c.Args[0])
		}
	}
	return false
}

func (a *analyser) tailOK(list []ast.Stmt) bool {
	if len(list) == 0 {
		return false
	}
	for _, s := range list[:len(list)-1] {
		if a.sendsIn(s) > 0 {
			return false
		}
	}
	last := list[len(list)-1]
	switch v := last.(type) {
	case *ast.SendStmt:
		return a.isSend(v) && a.sendsIn(v.Value) == 0
	case *ast.ExprStmt:
		return a.isSend(v)
	case *ast.BlockStmt:
		return a.tailOK(v.List)
	case *ast.IfStmt:
		if v.Init != nil && a.sendsIn(v.Init) > 0 {
			return false
		}
		if v.Else == nil {
			return false
		}
		if !a.tailOK(v.Body.List) {
			return false
		}
		switch e := v.Else.(type) {
		case *ast.BlockStmt:
			return a.tailOK(e.List)
		case *ast.IfStmt:
			return a.tailOK([]ast.Stmt{e})
		}
	}
	return false
}

func (a *analyser) stmts(list []ast.Stmt, top bool) {
	for i, s := range list {
		a.stmt(s, top)
		if top && i < len(list)-1 && containsReturn(s) {
			top = false // what follows a possible early return is not executed on every path
		}
	}
}

func (a *analyser) stmt(s ast.Stmt, top bool) {
	a.curTop = top
	switch v := s.(type) {
	case nil:
	case *ast.AssignStmt:
		multi := len(v.Lhs) != len(v.Rhs)
		for _, r := range v.Rhs {
			a.expr(r, false)
		}
		for i, l := range v.Lhs {
			var rhs ast.Expr
			if !multi {
				rhs = v.Rhs[i]
			} else if len(v.Rhs) == 1 {
				rhs = v.Rhs[0]
			}
			if v.Tok == token.DEFINE {
				if id, ok := l.(*ast.Ident); ok {
					if id.Obj != nil && id.Obj.Pos() == id.Pos() {
						p := pFresh
						if rhs != nil {
							p = a.provOf(rhs)
						}
						a.define(id, rhs, multi, p)
						continue
					}
				}
			}
			a.target(l, v, rhs, top)
		}
	case *ast.IncDecStmt:
		a.target(v.X, v, nil, top)
	case *ast.DeclStmt:
		if g, ok := v.Decl.(*ast.GenDecl); ok {
			for _, sp := range g.Specs {
				if vs, ok := sp.(*ast.ValueSpec); ok {
					for _, x := range vs.Values {
						a.expr(x, false)
					}
					for i, n := range vs.Names {
						var rhs ast.Expr
						if i < len(vs.Values) {
							rhs = vs.Values[i]
						}
						p := pFresh
						if rhs != nil {
							p = a.provOf(rhs)
						}
						a.define(n, rhs, len(vs.Values) != len(vs.Names), p)
					}
				}
			}
		}
	case *ast.ExprStmt:
		a.expr(v.X, false)
	case *ast.SendStmt:
		if root, name, sc, id := a.sharedRoot(v.Chan); root != "" {
			a.ev(v, name, root, sc, "send", "", "none", 0, false)
			if id != nil && a.chanObj != nil && id.Obj == a.chanObj {
				a.site.Sends++
			}
		}
		a.expr(v.Chan, false)
		a.expr(v.Value, false)
	case *ast.ReturnStmt:
		if a.fr.top {
			a.site.ReturnsInClosure++
		}
		for _, r := range v.Results {
			a.expr(r, false)
		}
		if !a.fr.top {
			a.returned(v)
		}
	case *ast.DeferStmt:
		if a.fr.top && v == a.deferredDone {
			// `defer wg.Done()` as the first statement of the closure: the join signal of every path
			a.ev(v, show(v.Call.Fun.(*ast.SelectorExpr).X), "captured", false, "call", "Done", "none", 0, true)
		} else {
			a.site.Unsupported = append(a.site.Unsupported, fmt.Sprintf("%T at line %d", s, line(s)))
		}
	case *ast.BlockStmt:
		a.stmts(v.List, top)
	case *ast.IfStmt:
		a.stmt(v.Init, false)
		a.expr(v.Cond, false)
		a.stmts(v.Body.List, false)
		a.stmt(v.Else, false)
	case *ast.ForStmt:
		a.stmt(v.Init, false)
		a.expr(v.Cond, false)
		a.stmt(v.Post, false)
		a.stmts(v.Body.List, false)
	case *ast.RangeStmt:
		a.expr(v.X, false)
		if a.fr.top && v == a.poolRange {
			// worker pool: the range variable over the cell channel is the cell index; the loop body is the per-cell body
			if id, ok := v.Key.(*ast.Ident); ok && id.Obj != nil {
				a.declared[id.Name] = true
				a.prov[id.Obj] = pFresh
				a.vec[id.Obj] = &vecInfo{}
			}
			a.stmts(v.Body.List, true)
			return
		}
		if v.Tok == token.DEFINE {
			for _, k := range []ast.Expr{v.Key, v.Value} {
				if id, ok := k.(*ast.Ident); ok {
					a.define(id, nil, true, a.provOf(v.X))
				}
			}
		} else {
			if v.Key != nil {
				a.target(v.Key, v, nil, false)
			}
			if v.Value != nil {
				a.target(v.Value, v, nil, false)
			}
		}
		a.stmts(v.Body.List, false)
	case *ast.SwitchStmt:
		a.stmt(v.Init, false)
		a.expr(v.Tag, false)
		for _, c := range v.Body.List {
			cc := c.(*ast.CaseClause)
			for _, x := range cc.List {
				a.expr(x, false)
			}
			a.stmts(cc.Body, false)
		}
	case *ast.BranchStmt:
		if v.Tok == token.GOTO || v.Label != nil {
			a.site.Unsupported = append(a.site.Unsupported, fmt.Sprintf("%s at line %d", show(v), line(v)))
		}
	case *ast.EmptyStmt:
	default:
		// go, defer, select, type switch, labels: not followed
		a.site.Unsupported = append(a.site.Unsupported, fmt.Sprintf("%T at line %d", s, line(s)))
	}
}

// ---------------------------------------------------------------------------------------------------------------
// launch / join skeleton

type loopCtx struct {
	loop   ast.Stmt       // *ast.ForStmt or *ast.RangeStmt
	body   *ast.BlockStmt
	parent []ast.Stmt     // the statement list containing the loop
	index  int
}

// find the innermost loop containing the go statement and the statement list that loop sits in
func findLoop(fn *ast.FuncDecl, g *ast.GoStmt) *loopCtx {
	var best *loopCtx
	var walk func(list []ast.Stmt)
	visitBody := func(n ast.Node) {
		ast.Inspect(n, func(x ast.Node) bool {
			if b, ok := x.(*ast.BlockStmt); ok {
				walk(b.List)
				return false
			}
			if c, ok := x.(*ast.CaseClause); ok {
				walk(c.Body)
				return false
			}
			if _, ok := x.(*ast.FuncLit); ok {
				return false
			}
			return true
		})
	}
	walk = func(list []ast.Stmt) {
		for i, s := range list {
			if !within(g.Pos(), s) {
				continue
			}
			switch v := s.(type) {
			case *ast.ForStmt:
				best = &loopCtx{loop: v, body: v.Body, parent: list, index: i}
				walk(v.Body.List)
			case *ast.RangeStmt:
				best = &loopCtx{loop: v, body: v.Body, parent: list, index: i}
				walk(v.Body.List)
			case *ast.GoStmt:
			default:
				visitBody(s)
			}
		}
	}
	walk(fn.Body.List)
	return best
}

// does n contain a break/continue/goto/return outside function literals and outside nested loops' own break/continue?
func hasEscape(n ast.Node, countBreakContinue bool) bool {
	found := false
	var visit func(n ast.Node, inner bool)
	visit = func(n ast.Node, inner bool) {
		ast.Inspect(n, func(x ast.Node) bool {
			if found || x == nil {
				return false
			}
			switch v := x.(type) {
			case *ast.FuncLit:
				return false
			case *ast.ReturnStmt:
				found = true
			case *ast.BranchStmt:
				if v.Tok == token.GOTO || v.Label != nil {
					found = true
				} else if (v.Tok == token.BREAK || v.Tok == token.CONTINUE) && !inner && countBreakContinue {
					found = true
				}
			case *ast.ForStmt:
				if x != n {
					visit(v.Body, true)
					return false
				}
			case *ast.RangeStmt:
				if x != n {
					visit(v.Body, true)
					return false
				}
			case *ast.SwitchStmt:
				if x != n {
					// break inside switch leaves the switch, continue still hits the loop: treat both conservatively
				}
			}
			return true
		})
	}
	visit(n, false)
	return found
}

// counted loop `for v := 0; v < B; v++`: returns v's object and B
func countedLoop(s ast.Stmt) (*ast.Object, ast.Expr) {
	f, ok := s.(*ast.ForStmt)
	if !ok || f.Init == nil || f.Cond == nil || f.Post == nil {
		return nil, nil
	}
	in, ok := f.Init.(*ast.AssignStmt)
	if !ok || in.Tok != token.DEFINE || len(in.Lhs) != 1 || len(in.Rhs) != 1 {
		return nil, nil
	}
	v, ok := in.Lhs[0].(*ast.Ident)
	if !ok || v.Obj == nil {
		return nil, nil
	}
	if l, ok := in.Rhs[0].(*ast.BasicLit); !ok || l.Value != "0" {
		return nil, nil
	}
	c, ok := f.Cond.(*ast.BinaryExpr)
	if !ok || c.Op != token.LSS {
		return nil, nil
	}
	if x, ok := c.X.(*ast.Ident); !ok || x.Obj != v.Obj {
		return nil, nil
	}
	p, ok := f.Post.(*ast.IncDecStmt)
	if !ok || p.Tok != token.INC {
		return nil, nil
	}
	if x, ok := p.X.(*ast.Ident); !ok || x.Obj != v.Obj {
		return nil, nil
	}
	return v.Obj, c.Y
}

// number of assignments (=, op=, ++, --, :=redefinition, & taken) to the object in n, outside its declaration
func assignmentsTo(n ast.Node, o *ast.Object) int {
	c := 0
	ast.Inspect(n, func(x ast.Node) bool {
		switch v := x.(type) {
		case *ast.AssignStmt:
			for _, l := range v.Lhs {
				if id := rootIdent(l); id != nil && id.Obj == o && !(v.Tok == token.DEFINE && id.Pos() == o.Pos()) {
					c++
				}
			}
		case *ast.IncDecStmt:
			if id := rootIdent(v.X); id != nil && id.Obj == o {
				c++
			}
		case *ast.UnaryExpr:
			if v.Op == token.AND {
				if id := rootIdent(v.X); id != nil && id.Obj == o {
					c++
				}
			}
		case *ast.RangeStmt:
			for _, k := range []ast.Expr{v.Key, v.Value} {
				if k != nil && v.Tok == token.ASSIGN {
					if id := rootIdent(k); id != nil && id.Obj == o {
						c++
					}
				}
			}
		}
		return true
	})
	return c
}

func identsOf(e ast.Expr) []*ast.Ident {
	var out []*ast.Ident
	ast.Inspect(e, func(x ast.Node) bool {
		if s, ok := x.(*ast.SelectorExpr); ok {
			out = append(out, identsOf(s.X)...)
			return false
		}
		if id, ok := x.(*ast.Ident); ok && id.Obj != nil && id.Obj.Kind == ast.Var {
			out = append(out, id)
		}
		return true
	})
	return out
}

func (a *analyser) skeleton(g *ast.GoStmt) {
	s := a.site
	lc := findLoop(a.fn, g)
	s.LaunchForm = "other"
	if lc == nil {
		return
	}
	// go statement exactly once, at the top level of the loop body
	nGo, top := 0, false
	ast.Inspect(lc.body, func(x ast.Node) bool {
		if _, ok := x.(*ast.GoStmt); ok {
			nGo++
		}
		return true
	})
	goIdx := -1
	for i, st := range lc.body.List {
		if st == ast.Stmt(g) {
			top, goIdx = true, i
		}
	}
	s.GoTopLevelOnce = nGo == 1 && top

	var countObj *ast.Object
	expected := 0 // assignments to the count variable that are part of the pattern
	// the window in which the launch count must not change: from the launch loop (or the WaitGroup's Add(n) before it) to the
	// end of the function — what is assigned BEFORE that point only determines the value the count has when it is first read
	window := lc.loop.Pos()
	var addBefore *ast.CallExpr
	if a.joinObj != nil {
		for _, st := range lc.parent[:lc.index] {
			if es, ok := st.(*ast.ExprStmt); ok {
				if c, ok := es.X.(*ast.CallExpr); ok && a.wgCall(c) == "Add" {
					addBefore = c
					window = st.Pos()
				}
			}
		}
	}
	counted := false
	if v, b := countedLoop(lc.loop); v != nil {
		counted = true
		s.LaunchForm = "counted"
		s.LaunchCount = show(b)
		s.LaunchLoopClean = !hasEscape(lc.body, true) && assignmentsTo(lc.body, v) == 0
		if id, ok := b.(*ast.Ident); ok {
			countObj = id.Obj
		}
		for _, id := range identsOf(b) {
			if assignmentsFrom(a.fn.Body, id.Obj, window) > 0 {
				s.CountReassigned = true
			}
		}
	} else if top {
		// counter form: `c++` at the top level of the loop body, straight-line code between it and the go statement
		for i, st := range lc.body.List {
			inc, ok := st.(*ast.IncDecStmt)
			if !ok || inc.Tok != token.INC {
				continue
			}
			id, ok := inc.X.(*ast.Ident)
			if !ok || id.Obj == nil || !within(id.Obj.Pos(), a.fn) || within(id.Obj.Pos(), lc.loop) {
				continue
			}
			// declared `c := 0` (or var c = 0 / var c int) before the loop
			if !zeroDecl(id.Obj) {
				continue
			}
			lo, hi := i, goIdx
			if lo > hi {
				lo, hi = hi, lo
			}
			clean := true
			for _, mid := range lc.body.List[lo+1 : hi] {
				if hasEscape(mid, true) {
					clean = false
				}
			}
			s.LaunchForm = "counter"
			s.LaunchCount = id.Name
			s.LaunchLoopClean = clean
			countObj = id.Obj
			expected = 1
			break
		}
	}
	if countObj != nil && !counted && assignmentsTo(a.fn.Body, countObj) != expected {
		s.CountReassigned = true
	}

	if a.joinObj != nil {
		a.wgSkeleton(lc, goIdx, addBefore, countObj)
		return
	}
	if a.chanObj == nil {
		return // neither a done channel nor a WaitGroup: no join to describe
	}

	// the receive loop: a later sibling of the launch loop
	for _, st := range lc.parent[lc.index+1:] {
		v, b := countedLoop(st)
		if v == nil {
			continue
		}
		f := st.(*ast.ForStmt)
		n := 0
		ast.Inspect(f.Body, func(x ast.Node) bool {
			if u, ok := x.(*ast.UnaryExpr); ok && u.Op == token.ARROW {
				if id := rootIdent(u.X); id != nil && id.Obj == a.chanObj {
					n++
				}
			}
			return true
		})
		if n == 0 {
			continue
		}
		s.RecvLoopFound = true
		s.RecvBound = show(b)
		s.SameBound = s.RecvBound == s.LaunchCount
		if id, ok := b.(*ast.Ident); ok && countObj != nil && id.Obj != countObj {
			s.SameBound = false
		}
		// receives at the top level of the loop body
		topRecv := 0
		for _, bs := range f.Body.List {
			switch w := bs.(type) {
			case *ast.ExprStmt:
				if u, ok := w.X.(*ast.UnaryExpr); ok && u.Op == token.ARROW {
					if id := rootIdent(u.X); id != nil && id.Obj == a.chanObj {
						topRecv++
					}
				}
			case *ast.AssignStmt:
				if len(w.Rhs) == 1 {
					if u, ok := w.Rhs[0].(*ast.UnaryExpr); ok && u.Op == token.ARROW {
						if id := rootIdent(u.X); id != nil && id.Obj == a.chanObj {
							topRecv++
						}
					}
				}
			}
		}
		s.RecvPerIter = n
		s.RecvLoopClean = topRecv == n && !hasEscape(f.Body, true) && assignmentsTo(f.Body, v) == 0 && a.sendsIn(f.Body) == 0
		break
	}

	// other uses of the channel in the function
	uses := 0
	ast.Inspect(a.fn.Body, func(x ast.Node) bool {
		if id, ok := x.(*ast.Ident); ok && id.Obj == a.chanObj && id.Pos() != a.chanObj.Pos() {
			uses++
		}
		return true
	})
	s.OtherChanUses = uses - s.Sends - s.RecvPerIter
	if !s.RecvLoopFound {
		s.OtherChanUses = uses - s.Sends
	}
}

// assignmentsFrom: assignments to the object at or after `from` in source order, plus — wherever they are — those made inside
// function literals (which run at a time the position does not tell) and every place its address is taken
func assignmentsFrom(n ast.Node, o *ast.Object, from token.Pos) int {
	c := 0
	var visit func(n ast.Node, inLit bool)
	visit = func(n ast.Node, inLit bool) {
		ast.Inspect(n, func(x ast.Node) bool {
			if x == nil {
				return false
			}
			late := inLit || x.Pos() >= from
			switch v := x.(type) {
			case *ast.FuncLit:
				if !inLit {
					visit(v.Body, true)
					return false
				}
			case *ast.AssignStmt:
				for _, l := range v.Lhs {
					if id := rootIdent(l); id != nil && id.Obj == o && !(v.Tok == token.DEFINE && id.Pos() == o.Pos()) && late {
						c++
					}
				}
			case *ast.IncDecStmt:
				if id := rootIdent(v.X); id != nil && id.Obj == o && late {
					c++
				}
			case *ast.UnaryExpr:
				if v.Op == token.AND {
					if id := rootIdent(v.X); id != nil && id.Obj == o {
						c++
					}
				}
			case *ast.RangeStmt:
				for _, k := range []ast.Expr{v.Key, v.Value} {
					if k != nil && v.Tok == token.ASSIGN {
						if id := rootIdent(k); id != nil && id.Obj == o && late {
							c++
						}
					}
				}
			}
			return true
		})
	}
	visit(n, false)
	return c
}

// wgSkeleton: the sync.WaitGroup join — Add(n) with n the launch count before the launch loop (or Add(1) next to each go
// statement), Wait() after the loop in the same statement list, the WaitGroup used for nothing else.
func (a *analyser) wgSkeleton(lc *loopCtx, goIdx int, addBefore *ast.CallExpr, countObj *ast.Object) {
	s := a.site
	var adds, waits, dones []*ast.CallExpr
	known := map[*ast.Ident]bool{}
	ast.Inspect(a.fn.Body, func(x ast.Node) bool {
		if c, ok := x.(*ast.CallExpr); ok {
			if k := a.wgCall(c); k != "" {
				known[c.Fun.(*ast.SelectorExpr).X.(*ast.Ident)] = true
				switch k {
				case "Add":
					adds = append(adds, c)
				case "Wait":
					waits = append(waits, c)
				case "Done":
					dones = append(dones, c)
				}
			}
		}
		return true
	})
	uses := 0
	ast.Inspect(a.fn.Body, func(x ast.Node) bool {
		if id, ok := x.(*ast.Ident); ok && id.Obj == a.joinObj && id.Pos() != a.joinObj.Pos() && !known[id] {
			uses++
		}
		return true
	})
	donesOutside := 0
	for _, d := range dones {
		if !within(d.Pos(), a.lit) {
			donesOutside++
		}
	}
	s.OtherChanUses = uses + donesOutside + max(len(adds)-1, 0) + max(len(waits)-1, 0)
	// Add
	if len(adds) == 1 {
		add := adds[0]
		switch {
		case add == addBefore:
			s.AddForm = "before"
			s.RecvBound = show(add.Args[0])
			s.SameBound = s.LaunchForm == "counted" && s.RecvBound == s.LaunchCount
			if id, ok := add.Args[0].(*ast.Ident); ok && countObj != nil && id.Obj != countObj {
				s.SameBound = false
			}
		case goIdx >= 0:
			// Add(1) at the top level of the launch loop body, before the go statement, straight-line code in between
			for i, st := range lc.body.List[:goIdx] {
				if es, ok := st.(*ast.ExprStmt); ok && es.X == ast.Expr(add) {
					if lit, ok := add.Args[0].(*ast.BasicLit); ok && lit.Value == "1" {
						clean := true
						for _, mid := range lc.body.List[i+1 : goIdx] {
							if hasEscape(mid, true) {
								clean = false
							}
						}
						s.AddForm = "perLaunch"
						s.RecvBound = "1 per launch"
						s.SameBound = clean && s.GoTopLevelOnce
					}
				}
			}
		}
	}
	// Wait: a later sibling of the launch loop, nothing in between that could leave the function
	if len(waits) == 1 {
		for i, st := range lc.parent[lc.index+1:] {
			if es, ok := st.(*ast.ExprStmt); ok && es.X == ast.Expr(waits[0]) {
				s.RecvLoopFound = true
				s.RecvPerIter = 1
				s.RecvLoopClean = true
				for _, mid := range lc.parent[lc.index+1 : lc.index+1+i] {
					if hasEscape(mid, true) {
						s.RecvLoopClean = false
					}
				}
			}
		}
	}
}

// poolSkeleton: the channel of cell indices of a worker pool — made with the capacity of the fill bound, filled by one counted
// loop with exactly 0..B-1, closed before the first worker starts, used for nothing else; at least one worker whenever B >= 1.
func (a *analyser) poolSkeleton(g *ast.GoStmt) {
	s := a.site
	lc := findLoop(a.fn, g)
	r := a.poolRange
	if lc == nil || r == nil {
		return
	}
	cc := r.X.(*ast.Ident).Obj
	s.PoolChanMake = chanMake(cc)
	if mk := makeCall(cc); mk != nil && len(mk.Args) == 2 {
		s.PoolCap = show(mk.Args[1])
	}
	fillIdx := -1
	fills := 0
	var bound ast.Expr
	for i, st := range lc.parent[:lc.index] {
		v, b := countedLoop(st)
		if v == nil {
			continue
		}
		f := st.(*ast.ForStmt)
		if len(f.Body.List) != 1 {
			continue
		}
		sd, ok := f.Body.List[0].(*ast.SendStmt)
		if !ok {
			continue
		}
		ch, ok1 := sd.Chan.(*ast.Ident)
		val, ok2 := sd.Value.(*ast.Ident)
		if ok1 && ok2 && ch.Obj == cc && val.Obj == v {
			fills++
			fillIdx, bound = i, b
		}
	}
	// or: a dedicated goroutine `go func() { for j := 0; j < B; j++ { cells <- j }; close(cells) }()` started before the launch loop
	fillerClosed := false
	for i, st := range lc.parent[:lc.index] {
		if g, ok := st.(*ast.GoStmt); ok {
			if ch, b := fillerOf(g); ch != nil && ch == cc {
				fills++
				fillIdx, bound = i, b
				s.PoolFiller = true
				fillerClosed = true
			}
		}
	}
	sendsOnCC := 0
	ast.Inspect(a.fn.Body, func(x ast.Node) bool {
		if sd, ok := x.(*ast.SendStmt); ok {
			if id := rootIdent(sd.Chan); id != nil && id.Obj == cc {
				sendsOnCC++
			}
		}
		return true
	})
	if fills == 1 && sendsOnCC == 1 {
		s.PoolFillOk = true
		s.PoolFillBound = show(bound)
		s.PoolCapMatches = s.PoolCap != "" && s.PoolCap == s.PoolFillBound
		if s.PoolFiller {
			s.PoolCapMatches = true // the filler blocks in its own goroutine: any capacity will do
		}
		for _, id := range identsOf(bound) {
			if assignmentsFrom(a.fn.Body, id.Obj, cc.Pos()) > 0 {
				s.PoolBoundReassigned = true
			}
		}
		closes := 0
		for _, st := range lc.parent[fillIdx+1 : lc.index] {
			if es, ok := st.(*ast.ExprStmt); ok {
				if c, ok := es.X.(*ast.CallExpr); ok {
					if f, ok := c.Fun.(*ast.Ident); ok && f.Name == "close" && f.Obj == nil && len(c.Args) == 1 {
						if id, ok := c.Args[0].(*ast.Ident); ok && id.Obj == cc {
							closes++
						}
					}
				}
			}
		}
		s.PoolClosed = closes == 1
		if s.PoolFiller {
			s.PoolClosed = fillerClosed && closes == 0
		}
	}
	uses := 0
	ast.Inspect(a.fn.Body, func(x ast.Node) bool {
		if id, ok := x.(*ast.Ident); ok && id.Obj == cc && id.Pos() != cc.Pos() {
			uses++
		}
		return true
	})
	s.PoolOtherChanUses = uses - 3 // the fill send, the close, the range
	if s.PoolOtherChanUses < 0 {
		s.PoolOtherChanUses = -s.PoolOtherChanUses
	}
	key := r.Key.(*ast.Ident)
	s.PoolRangeClean = !hasEscape(r.Body, true) && assignmentsTo(r.Body, key.Obj) == 0
	// at least one worker whenever there is at least one cell index
	s.PoolWorkersPositive = false
	if v, w := countedLoop(lc.loop); v != nil && s.PoolFillOk {
		switch x := w.(type) {
		case *ast.BasicLit:
			if n, err := strconv.Atoi(x.Value); err == nil && n >= 1 {
				s.PoolWorkersPositive = true
			}
		case *ast.Ident:
			if show(w) == s.PoolFillBound && x.Obj != nil && len(identsOf(bound)) == 1 && identsOf(bound)[0].Obj == x.Obj {
				s.PoolWorkersPositive = true // one worker per cell index
			} else if x.Obj != nil && positiveDecl(x.Obj, a.imports) {
				// W := runtime.GOMAXPROCS(0) | runtime.NumCPU() | a positive literal, afterwards only clamped: if W > B { W = B }
				clamps := 0
				for _, st := range lc.parent[:lc.index] {
					if isClamp(st, x.Obj, s.PoolFillBound) {
						clamps++
					}
				}
				s.PoolWorkersPositive = assignmentsTo(a.fn.Body, x.Obj) == clamps
			}
		}
	}
}

// fillerOf: `go func() { for j := 0; j < B; j++ { ch <- j }; close(ch) }()` — a goroutine that does nothing but fill a captured
// channel with exactly 0..B-1 and close it. Returns the channel and B (nil when the statement is anything else).
func fillerOf(g *ast.GoStmt) (*ast.Object, ast.Expr) {
	lit, ok := g.Call.Fun.(*ast.FuncLit)
	if !ok || len(g.Call.Args) != 0 || lit.Type.Params == nil || len(lit.Type.Params.List) != 0 || len(lit.Body.List) != 2 {
		return nil, nil
	}
	v, b := countedLoop(lit.Body.List[0])
	if v == nil {
		return nil, nil
	}
	f := lit.Body.List[0].(*ast.ForStmt)
	if len(f.Body.List) != 1 {
		return nil, nil
	}
	sd, ok := f.Body.List[0].(*ast.SendStmt)
	if !ok {
		return nil, nil
	}
	ch, ok1 := sd.Chan.(*ast.Ident)
	val, ok2 := sd.Value.(*ast.Ident)
	if !ok1 || !ok2 || ch.Obj == nil || val.Obj != v || within(ch.Obj.Pos(), lit) {
		return nil, nil
	}
	es, ok := lit.Body.List[1].(*ast.ExprStmt)
	if !ok {
		return nil, nil
	}
	c, ok := es.X.(*ast.CallExpr)
	if !ok || len(c.Args) != 1 {
		return nil, nil
	}
	if fn, ok := c.Fun.(*ast.Ident); !ok || fn.Name != "close" || fn.Obj != nil {
		return nil, nil
	}
	if id, ok := c.Args[0].(*ast.Ident); !ok || id.Obj != ch.Obj {
		return nil, nil
	}
	// the bound must not mention the loop variable or anything declared in the goroutine
	for _, id := range identsOf(b) {
		if id.Obj != nil && within(id.Obj.Pos(), lit) {
			return nil, nil
		}
	}
	return ch.Obj, b
}

func makeCall(o *ast.Object) *ast.CallExpr {
	var rhs ast.Expr
	switch d := o.Decl.(type) {
	case *ast.AssignStmt:
		if len(d.Lhs) == len(d.Rhs) {
			for i, l := range d.Lhs {
				if id, ok := l.(*ast.Ident); ok && id.Obj == o {
					rhs = d.Rhs[i]
				}
			}
		}
	case *ast.ValueSpec:
		for i, n := range d.Names {
			if n.Obj == o && i < len(d.Values) {
				rhs = d.Values[i]
			}
		}
	}
	c, _ := rhs.(*ast.CallExpr)
	return c
}

// positiveDecl: the variable is declared with a value that is at least 1: runtime.GOMAXPROCS(…), runtime.NumCPU(), a positive literal
func positiveDecl(o *ast.Object, imports map[string]string) bool {
	var rhs ast.Expr
	switch d := o.Decl.(type) {
	case *ast.AssignStmt:
		if d.Tok == token.DEFINE && len(d.Lhs) == len(d.Rhs) {
			for i, l := range d.Lhs {
				if id, ok := l.(*ast.Ident); ok && id.Obj == o {
					rhs = d.Rhs[i]
				}
			}
		}
	case *ast.ValueSpec:
		for i, n := range d.Names {
			if n.Obj == o && i < len(d.Values) {
				rhs = d.Values[i]
			}
		}
	}
	switch v := rhs.(type) {
	case *ast.BasicLit:
		n, err := strconv.Atoi(v.Value)
		return err == nil && n >= 1
	case *ast.CallExpr:
		if s, ok := v.Fun.(*ast.SelectorExpr); ok {
			if x, ok := s.X.(*ast.Ident); ok && x.Obj == nil && imports[x.Name] == "runtime" {
				return s.Sel.Name == "GOMAXPROCS" || s.Sel.Name == "NumCPU"
			}
		}
	}
	return false
}

// isClamp: `if W > B { W = B }` (no init, no else), B printed as `bound`
func isClamp(st ast.Stmt, w *ast.Object, bound string) bool {
	f, ok := st.(*ast.IfStmt)
	if !ok || f.Init != nil || f.Else != nil || len(f.Body.List) != 1 {
		return false
	}
	c, ok := f.Cond.(*ast.BinaryExpr)
	if !ok || c.Op != token.GTR {
		return false
	}
	if x, ok := c.X.(*ast.Ident); !ok || x.Obj != w || show(c.Y) != bound {
		return false
	}
	as, ok := f.Body.List[0].(*ast.AssignStmt)
	if !ok || as.Tok != token.ASSIGN || len(as.Lhs) != 1 || len(as.Rhs) != 1 {
		return false
	}
	l, ok := as.Lhs[0].(*ast.Ident)
	return ok && l.Obj == w && show(as.Rhs[0]) == bound
}

func zeroDecl(o *ast.Object) bool {
	switch d := o.Decl.(type) {
	case *ast.AssignStmt:
		if d.Tok == token.DEFINE && len(d.Lhs) == len(d.Rhs) {
			for i, l := range d.Lhs {
				if id, ok := l.(*ast.Ident); ok && id.Obj == o {
					if b, ok := d.Rhs[i].(*ast.BasicLit); ok && b.Value == "0" {
						return true
					}
				}
			}
		}
	case *ast.ValueSpec:
		if len(d.Values) == 0 {
			if t, ok := d.Type.(*ast.Ident); ok && t.Name == "int" {
				return true
			}
		}
		for i, n := range d.Names {
			if n.Obj == o && i < len(d.Values) {
				if b, ok := d.Values[i].(*ast.BasicLit); ok && b.Value == "0" {
					return true
				}
			}
		}
	}
	return false
}

func chanMake(o *ast.Object) string {
	if o == nil {
		return "unknown"
	}
	var rhs ast.Expr
	switch d := o.Decl.(type) {
	case *ast.AssignStmt:
		if len(d.Lhs) == len(d.Rhs) {
			for i, l := range d.Lhs {
				if id, ok := l.(*ast.Ident); ok && id.Obj == o {
					rhs = d.Rhs[i]
				}
			}
		}
	case *ast.ValueSpec:
		for i, n := range d.Names {
			if n.Obj == o && i < len(d.Values) {
				rhs = d.Values[i]
			}
		}
	}
	c, ok := rhs.(*ast.CallExpr)
	if !ok {
		return "unknown"
	}
	if id, ok := c.Fun.(*ast.Ident); !ok || id.Name != "make" || len(c.Args) == 0 {
		return "unknown"
	}
	if _, ok := c.Args[0].(*ast.ChanType); !ok {
		return "unknown"
	}
	if len(c.Args) == 1 {
		return "unbuffered"
	}
	return "buffered"
}

// ---------------------------------------------------------------------------------------------------------------
// one site

func importsOf(f *ast.File) map[string]string {
	m := map[string]string{}
	for _, im := range f.Imports {
		p, _ := strconv.Unquote(im.Path.Value)
		name := p[strings.LastIndex(p, "/")+1:]
		if im.Name != nil {
			name = im.Name.Name
		}
		m[name] = p
	}
	return m
}

func funcName(fn *ast.FuncDecl) string {
	if fn.Recv != nil && len(fn.Recv.List) > 0 {
		t := fn.Recv.List[0].Type
		if s, ok := t.(*ast.StarExpr); ok {
			t = s.X
		}
		return show(t) + "." + fn.Name.Name
	}
	return fn.Name.Name
}

// safeAnalyseSite: a goroutine site whose plumbing has a form the extractor does not know (it indexes into the statement
// shapes of the current template) must become an UNSUPPORTED site — a broken structural obligation — never a crash of the extractor.
func safeAnalyseSite(root string, dir string, file *ast.File, rel string, kind string, fn *ast.FuncDecl, g *ast.GoStmt, cellDims map[string]int) (s *Site, extra []calleeItem) {
	defer func() {
		if r := recover(); r != nil {
			s = &Site{File: rel, Func: funcName(fn), Kind: kind, Line: line(g), Cover: "direct", Join: "none", Followed: []string{},
				Unsupported: []string{fmt.Sprintf("the goroutine launch at line %d has a form the extractor does not know (%v)", line(g), r)}}
			extra = nil
		}
	}()
	return analyseSite(root, dir, file, rel, kind, fn, g, cellDims)
}

func analyseSite(root string, dir string, file *ast.File, rel string, kind string, fn *ast.FuncDecl, g *ast.GoStmt, cellDims map[string]int) (*Site, []calleeItem) {
	lit := g.Call.Fun.(*ast.FuncLit)
	s := &Site{File: rel, Func: funcName(fn), Kind: kind, Line: line(g), Events: []Event{}, Unsupported: []string{},
		LoopBodyVarsCaptured: []string{}, CalleeWrites: []CalleeWrite{}, Cover: "direct", Join: "none", Followed: []string{}}
	a := &analyser{root: root, file: file, imports: importsOf(file), fn: fn, lit: lit, site: s, loopObjs: map[*ast.Object]bool{},
		bodyObjs: map[*ast.Object]bool{}, prov: map[*ast.Object]prov{}, vec: map[*ast.Object]*vecInfo{}, declared: map[string]bool{},
		captured: map[string]bool{}, globals: map[string]bool{}, callees: map[string]bool{}, cellDims: cellDims,
		cellObjs: map[*ast.Object]bool{}, cellModObjs: map[*ast.Object]bool{}, structs: map[*ast.Object]*structVal{},
		types: map[*ast.Object]*typeRef{}, retOf: map[*ast.CallExpr]*absVal{}, followed: map[*ast.CallExpr]bool{}}
	a.fr = &frame{scope: lit, outer: fn, imports: a.imports, dir: dir, bind: map[*ast.Object]*binding{}, top: true}

	// loop variables and variables declared in the loop body (outside the closure)
	if lc := findLoop(fn, g); lc != nil {
		switch l := lc.loop.(type) {
		case *ast.ForStmt:
			if in, ok := l.Init.(*ast.AssignStmt); ok && in.Tok == token.DEFINE {
				for _, x := range in.Lhs {
					if id, ok := x.(*ast.Ident); ok && id.Obj != nil {
						a.loopObjs[id.Obj] = true
						s.LoopVars = append(s.LoopVars, id.Name)
					}
				}
			}
		case *ast.RangeStmt:
			if l.Tok == token.DEFINE {
				for _, x := range []ast.Expr{l.Key, l.Value} {
					if id, ok := x.(*ast.Ident); ok && id.Obj != nil && id.Name != "_" {
						a.loopObjs[id.Obj] = true
						s.LoopVars = append(s.LoopVars, id.Name)
					}
				}
			}
		}
		ast.Inspect(lc.body, func(x ast.Node) bool {
			if x == ast.Node(lit) {
				return false
			}
			if id, ok := x.(*ast.Ident); ok && id.Obj != nil && id.Obj.Kind == ast.Var && id.Obj.Pos() == id.Pos() {
				a.bodyObjs[id.Obj] = true
			}
			return true
		})
	}
	// closure parameters and call arguments
	var params []*ast.Ident
	for _, f := range lit.Type.Params.List {
		for _, n := range f.Names {
			params = append(params, n)
			s.ClosureParams = append(s.ClosureParams, n.Name)
			a.declared[n.Name] = true
		}
	}
	var launchParam *ast.Ident // the closure parameter that receives the launch loop variable
	for i, x := range g.Call.Args {
		s.CallArgs = append(s.CallArgs, show(x))
		if id, ok := x.(*ast.Ident); ok && id.Obj != nil && a.loopObjs[id.Obj] && i < len(params) && launchParam == nil {
			launchParam = params[i]
		}
	}
	// the done channel: the captured channel the closure sends on
	ast.Inspect(lit.Body, func(x ast.Node) bool {
		if sd, ok := x.(*ast.SendStmt); ok && a.chanObj == nil {
			if id, ok := sd.Chan.(*ast.Ident); ok && id.Obj != nil && !within(id.Obj.Pos(), lit) {
				a.chanObj = id.Obj
				s.Chan = id.Name
			}
		}
		return true
	})
	s.ChanMake = chanMake(a.chanObj)
	if a.chanObj != nil {
		s.Join = "chan"
	} else {
		// no done channel: a sync.WaitGroup declared in the enclosing function on which the closure calls Done()
		ast.Inspect(lit.Body, func(x ast.Node) bool {
			if c, ok := x.(*ast.CallExpr); ok && a.joinObj == nil {
				if sel, ok := c.Fun.(*ast.SelectorExpr); ok && sel.Sel.Name == "Done" && len(c.Args) == 0 {
					if id, ok := sel.X.(*ast.Ident); ok && id.Obj != nil && within(id.Obj.Pos(), fn.Body) && !within(id.Obj.Pos(), lit) && a.isWaitGroupDecl(id.Obj) {
						a.joinObj = id.Obj
						s.Chan, s.ChanMake, s.Join = id.Name, "waitgroup", "waitgroup"
					}
				}
			}
			return true
		})
		if a.joinObj != nil && len(lit.Body.List) > 0 {
			if d, ok := lit.Body.List[0].(*ast.DeferStmt); ok && a.wgCall(d.Call) == "Done" {
				a.deferredDone = d
				s.DoneDeferred = true
			}
		}
	}
	// worker pool: the closure ranges, at its top level, over a captured channel made in the enclosing function; the range
	// variable is then the cell index and the loop body the per-cell body
	var ranges []*ast.RangeStmt
	for _, st := range lit.Body.List {
		if r, ok := st.(*ast.RangeStmt); ok {
			if id, ok := r.X.(*ast.Ident); ok && id.Obj != nil && id.Obj != a.chanObj && within(id.Obj.Pos(), fn.Body) && !within(id.Obj.Pos(), lit) && chanMake(id.Obj) != "unknown" {
				ranges = append(ranges, r)
			}
		}
	}
	switch {
	case len(ranges) == 1:
		r := ranges[0]
		s.Cover = "pool"
		s.PoolChan = r.X.(*ast.Ident).Name
		if key, ok := r.Key.(*ast.Ident); ok && key.Obj != nil && key.Name != "_" && r.Tok == token.DEFINE && r.Value == nil {
			a.poolRange = r
			a.cellObjs[key.Obj] = true
			s.CellParam = key.Name
		} else {
			s.Unsupported = append(s.Unsupported, fmt.Sprintf("range over the cell channel at line %d does not bind the cell index", line(r)))
		}
	case len(ranges) > 1:
		s.Unsupported = append(s.Unsupported, fmt.Sprintf("%d loops over channels in the closure", len(ranges)))
	}
	if s.Cover == "direct" && launchParam != nil {
		a.cellObjs[launchParam.Obj] = true
		s.CellParam = launchParam.Name
	}

	a.stmts(lit.Body.List, s.Cover == "direct")
	if a.joinObj != nil {
		s.Sends = a.sendsIn(lit.Body)
	}
	switch {
	case a.chanObj != nil:
		s.SendTail = a.tailOK(lit.Body.List)
	case a.deferredDone != nil:
		s.SendTail = s.Sends == 1
	case a.joinObj != nil:
		s.SendTail = a.tailOK(lit.Body.List)
	}
	a.skeleton(g)
	if s.Cover == "pool" {
		a.poolSkeleton(g)
	}

	s.DeclaredInside = sortedKeys(a.declared)
	s.Captured = sortedKeys(a.captured)
	s.Globals = sortedKeys(a.globals)
	s.Callees = sortedKeys(a.callees)
	if s.LoopVars == nil {
		s.LoopVars = []string{}
	}
	if s.ClosureParams == nil {
		s.ClosureParams = []string{}
	}
	if s.CallArgs == nil {
		s.CallArgs = []string{}
	}
	return s, a.extraCallees
}

func sortedKeys(m map[string]bool) []string {
	out := []string{}
	for k := range m {
		out = append(out, k)
	}
	sort.Strings(out)
	return out
}

// ---------------------------------------------------------------------------------------------------------------
// callee scan: writes to non-local roots in the plain functions reachable from the closure

type pkgFuncs struct {
	dir   string
	files map[string]*ast.File
	funcs map[string]*ast.FuncDecl
	methods map[string]*ast.FuncDecl // "Type.Method"
	types map[string]*ast.TypeSpec
	typeFile map[string]*ast.File
	fileOf map[*ast.FuncDecl]*ast.File
}

var pkgCache = map[string]*pkgFuncs{}

func loadPkg(dir string) *pkgFuncs {
	if p, ok := pkgCache[dir]; ok {
		return p
	}
	p := &pkgFuncs{dir: dir, files: map[string]*ast.File{}, funcs: map[string]*ast.FuncDecl{}, fileOf: map[*ast.FuncDecl]*ast.File{},
		methods: map[string]*ast.FuncDecl{}, types: map[string]*ast.TypeSpec{}, typeFile: map[string]*ast.File{}}
	pkgCache[dir] = p
	ents, err := os.ReadDir(dir)
	if err != nil {
		return p
	}
	for _, e := range ents {
		n := e.Name()
		if e.IsDir() || !strings.HasSuffix(n, ".go") || strings.HasSuffix(n, "_test.go") {
			continue
		}
		f, err := parser.ParseFile(fset, filepath.Join(dir, n), nil, 0)
		if err != nil {
			continue
		}
		p.files[n] = f
		p.index(f)
	}
	return p
}

func (p *pkgFuncs) index(f *ast.File) {
	{
		for _, d := range f.Decls {
			if fd, ok := d.(*ast.FuncDecl); ok && fd.Recv == nil && fd.Body != nil {
				p.funcs[fd.Name.Name] = fd
				p.fileOf[fd] = f
			}
			if fd, ok := d.(*ast.FuncDecl); ok && fd.Recv != nil && fd.Body != nil {
				p.methods[funcName(fd)] = fd
				p.fileOf[fd] = f
			}
			if g, ok := d.(*ast.GenDecl); ok && g.Tok == token.TYPE {
				for _, sp := range g.Specs {
					if ts, ok := sp.(*ast.TypeSpec); ok {
						p.types[ts.Name.Name] = ts
						p.typeFile[ts.Name.Name] = f
					}
				}
			}
		}
	}
}

// registerFile: a parsed file that exists only in memory (an expansion of the wrapper template) as a package of its own, so that
// calls into its functions and methods can be followed
func registerFile(dir string, name string, f *ast.File) {
	p := &pkgFuncs{dir: dir, files: map[string]*ast.File{name: f}, funcs: map[string]*ast.FuncDecl{}, fileOf: map[*ast.FuncDecl]*ast.File{},
		methods: map[string]*ast.FuncDecl{}, types: map[string]*ast.TypeSpec{}, typeFile: map[string]*ast.File{}}
	pkgCache[dir] = p
	p.index(f)
}

const modulePath = "github.com/flowmatters/openwater-core"

// methods that only read their receiver (array interfaces of package data and a few std types)
var readOnlyMethods = map[string]bool{"Get": true, "Get1": true, "Get2": true, "Get3": true, "Len": true, "Len1": true, "Shape": true,
	"NDims": true, "NewIndex": true, "Index": true, "Contiguous": true, "Slice": true, "Unroll": true, "Maximum": true, "Minimum": true,
	"String": true, "Error": true}

func scanCallees(root string, s *Site, dir string, start []string, startImports map[string]string, extra []calleeItem) {
	type item = calleeItem
	seen := map[item]bool{}
	var queue []item
	push := func(dir string, imports map[string]string, name string) {
		if i := strings.Index(name, "."); i >= 0 {
			p, ok := imports[name[:i]]
			if !ok || !strings.HasPrefix(p, modulePath+"/") {
				return
			}
			dir, name = filepath.Join(root, strings.TrimPrefix(p, modulePath+"/")), name[i+1:]
		}
		it := item{dir, name}
		if !seen[it] {
			seen[it] = true
			queue = append(queue, it)
		}
	}
	for _, n := range start {
		push(dir, startImports, n)
	}
	for _, it := range extra {
		// callees of followed functions (already resolved to their package), and the followed functions / methods themselves
		if !seen[it] {
			seen[it] = true
			queue = append(queue, it)
		}
	}
	for len(queue) > 0 {
		it := queue[0]
		queue = queue[1:]
		p := loadPkg(it.dir)
		fd := p.funcs[it.name]
		if fd == nil {
			fd = p.methods[it.name]
		}
		if fd == nil {
			continue
		}
		s.CalleesFound++
		file := p.fileOf[fd]
		imports := importsOf(file)
		rel, _ := filepath.Rel(root, fset.Position(fd.Pos()).Filename)
		local := func(id *ast.Ident) bool {
			return id.Name == "_" || (id.Obj != nil && id.Obj.Kind == ast.Var && within(id.Obj.Pos(), fd))
		}
		report := func(n ast.Node, id *ast.Ident) {
			s.CalleeWrites = append(s.CalleeWrites, CalleeWrite{Func: it.name, Var: id.Name,
				Pos: fmt.Sprintf("%s:%d", filepath.ToSlash(rel), line(n)), Text: show(n)})
		}
		ast.Inspect(fd.Body, func(x ast.Node) bool {
			switch v := x.(type) {
			case *ast.AssignStmt:
				if v.Tok != token.DEFINE {
					for _, l := range v.Lhs {
						if id := rootIdent(l); id != nil && !local(id) {
							if _, isPkg := imports[id.Name]; !isPkg || id.Obj != nil {
								report(v, id)
							} else if _, ok := l.(*ast.SelectorExpr); ok {
								report(v, id) // otherpkg.Var = …
							}
						}
					}
				}
			case *ast.IncDecStmt:
				if id := rootIdent(v.X); id != nil && !local(id) {
					report(v, id)
				}
			case *ast.CallExpr:
				switch f := v.Fun.(type) {
				case *ast.Ident:
					if f.Name == "copy" && f.Obj == nil && len(v.Args) == 2 {
						if id := rootIdent(v.Args[0]); id != nil && !local(id) {
							report(v, id)
						}
					}
					if f.Obj == nil && !builtins[f.Name] || (f.Obj != nil && f.Obj.Kind == ast.Fun) {
						push(it.dir, imports, f.Name)
					}
				case *ast.SelectorExpr:
					if x, ok := f.X.(*ast.Ident); ok && x.Obj == nil {
						if _, isPkg := imports[x.Name]; isPkg {
							push(it.dir, imports, x.Name+"."+f.Sel.Name)
							return true
						}
					}
					if mutating[f.Sel.Name] {
						if id := rootIdent(f.X); id != nil && !local(id) {
							if _, isPkg := imports[id.Name]; !isPkg || id.Obj != nil {
								report(v, id)
							}
						}
					} else if id := rootIdent(f.X); id != nil && !local(id) && id.Obj != nil && id.Obj.Kind == ast.Var && !readOnlyMethods[f.Sel.Name] {
						// any other method called on a package-level variable (sync.Map.Store / LoadOrStore, a mutex, a pool, a cache
						// object …): state shared between cells, models and calls. Methods known to only read an array are exempt.
						report(v, id)
					}
				}
			}
			return true
		})
	}
}

// ---------------------------------------------------------------------------------------------------------------
// template expansion on synthetic specs

type kv struct {
	Key   string
	Value string
}

type tParam struct {
	Name           string
	Units          string
	Position       int
	Default        float64
	Description    string
	Range          []float64
	IsDimension    bool
	Dimensions     []string
	Dimensionality int
}

type tFlags struct {
	GenerateStruct, GenerateVector, GenerateInit, GenerateExtractStates, ZeroStates, PassOutputsAsParams bool
}

type tSpec struct {
	Filename, Name, Package string
	Inputs, States, Outputs, Parameters []kv
	Dimensions     []string
	ParameterSpecs []tParam
	Flags          tFlags
	SingleFunc, InitFunc, PackStatsFunc, ExtractStatesFunc string
}

func templateVariants(root string) (map[string]string, error) {
	path := filepath.Join(root, "pre", "ow-specgen", "generated_struct.got")
	src, err := os.ReadFile(path)
	if err != nil {
		return nil, err
	}
	tmpl, err := template.New("t").Funcs(template.FuncMap{"inc": func(n int) int { return n + 1 }, "lower": strings.ToLower}).Parse(string(src))
	if err != nil {
		return nil, err
	}
	out := map[string]string{}
	for mask := 0; mask < 16; mask++ {
		extract, asParams, tables, states := mask&1 != 0, mask&2 != 0, mask&4 != 0, mask&8 != 0
		if !extract && !states {
			continue // a custom extract/pack function for a model without states: the template has no such expansion (`:= f(initialStates)` with nothing on the left)
		}
		sp := tSpec{Filename: "synthetic.go", Name: "Synth", Package: "synth",
			Inputs:  []kv{{"InA", ""}, {"InB", ""}},
			Outputs: []kv{{"OutA", ""}, {"OutB", ""}},
			SingleFunc: "synthKernel", InitFunc: "synthInit", PackStatsFunc: "synthPack", ExtractStatesFunc: "synthExtract"}
		sp.Flags = tFlags{GenerateStruct: true, GenerateVector: true, ZeroStates: true, GenerateExtractStates: extract, PassOutputsAsParams: asParams}
		if states {
			sp.States = []kv{{"StA", ""}, {"StB", ""}}
		}
		sp.ParameterSpecs = []tParam{{Name: "PA", Range: []float64{0, 1}, Dimensionality: 1}}
		sp.Parameters = []kv{{"PA", ""}}
		if tables {
			sp.Dimensions = []string{"nPts"}
			sp.ParameterSpecs = append(sp.ParameterSpecs,
				tParam{Name: "nPts", Range: []float64{0, 1}, IsDimension: true, Dimensionality: 1},
				tParam{Name: "Tab", Range: []float64{0, 1}, Dimensions: []string{"nPts"}, Dimensionality: 2})
			sp.Parameters = append(sp.Parameters, kv{"nPts", ""}, kv{"Tab", ""})
		}
		var b bytes.Buffer
		if err := tmpl.Execute(&b, sp); err != nil {
			return nil, err
		}
		name := fmt.Sprintf("pre/ow-specgen/generated_struct.got[extractStates=%v,outputsAsParams=%v,tables=%v,states=%v]", extract, asParams, tables, states)
		out[name] = b.String()
	}
	return out, nil
}

// ---------------------------------------------------------------------------------------------------------------

func goFuncSites(file *ast.File) map[*ast.GoStmt]*ast.FuncDecl {
	out := map[*ast.GoStmt]*ast.FuncDecl{}
	for _, d := range file.Decls {
		fd, ok := d.(*ast.FuncDecl)
		if !ok || fd.Body == nil {
			continue
		}
		ast.Inspect(fd.Body, func(x ast.Node) bool {
			if g, ok := x.(*ast.GoStmt); ok {
				out[g] = fd
			}
			return true
		})
	}
	return out
}

func readCellDims(root string, facts *Facts) {
	facts.CellDims = map[string]int{}
	p := loadPkg(filepath.Join(root, "sim"))
	for _, f := range p.files {
		for _, d := range f.Decls {
			g, ok := d.(*ast.GenDecl)
			if !ok || (g.Tok != token.CONST && g.Tok != token.VAR) {
				continue
			}
			for _, sp := range g.Specs {
				vs := sp.(*ast.ValueSpec)
				for i, n := range vs.Names {
					if strings.HasPrefix(n.Name, "DIM") && strings.HasSuffix(n.Name, "_CELL") {
						val := -1
						if i < len(vs.Values) {
							if b, ok := vs.Values[i].(*ast.BasicLit); ok {
								if k, err := strconv.Atoi(b.Value); err == nil {
									val = k
								}
							}
						}
						if g.Tok == token.VAR {
							val = -2 // a variable, not a constant
						}
						facts.CellDims[n.Name] = val
					}
				}
			}
		}
	}
}

func violations(f *Facts) {
	add := func(file, rule, detail string) {
		f.Violations = append(f.Violations, Violation{file, rule, detail})
	}
	for k, v := range f.CellDims {
		// only the state and output arrays are written per cell; DIMI_CELL/DIMP_CELL position does not matter for writes
		if (k == "DIMS_CELL" || k == "DIMO_CELL" || k == "DIMI_CELL") && v != 0 {
			add("sim/runnable.go", "cell-dim", fmt.Sprintf("%s = %d (the cell coordinate is assumed to be the first one)", k, v))
		}
	}
	for _, k := range []string{"DIMS_CELL", "DIMO_CELL", "DIMI_CELL"} {
		if _, ok := f.CellDims[k]; !ok {
			add("sim/runnable.go", "cell-dim", k+" not found")
		}
	}
	for _, e := range f.Errors {
		add("(tree)", "extract", e)
	}
	if f.WrapperFiles != f.WrapperSites {
		add("models", "coverage", fmt.Sprintf("%d wrapper files with a Run method but %d analysed goroutine sites", f.WrapperFiles, f.WrapperSites))
	}
	if f.TemplateSites != f.TemplateVariants || f.TemplateVariants == 0 {
		add("pre/ow-specgen/generated_struct.got", "coverage", fmt.Sprintf("%d of %d template variants analysed", f.TemplateSites, f.TemplateVariants))
	}
	for i := range f.Sites {
		s := &f.Sites[i]
		for _, e := range s.Events {
			what := fmt.Sprintf("line %d: %s", e.Line, e.Text)
			switch e.Access {
			case "assign", "elemAssign", "addr":
				add(s.File, "shared-write", fmt.Sprintf("%s of %s %s — %s", e.Access, e.Root, e.Var, what))
			case "call":
				if mutating[e.Method] {
					own := e.Root == "viewOwn" || ((e.Root == "captured" || e.Root == "whole") && (e.Loc == "ownLit" || e.Loc == "ownVec"))
					if !own {
						add(s.File, "shared-write", fmt.Sprintf("%s on %s %s with location class %s — %s", e.Method, e.Root, e.Var, e.Loc, what))
					}
				}
				if e.Loc == "sharedVec" {
					add(s.File, "shared-loc", fmt.Sprintf("%s on %s takes a location vector shared between goroutines — %s", e.Method, e.Var, what))
				}
			case "arg":
				if e.Scalar || e.Var == s.Chan {
					continue
				}
				ok := false
				if e.IsMethod {
					switch e.Method {
					case "Slice":
						ok = e.ArgPos == 1 || e.ArgPos == 2
					case "ApplySlice":
						ok = e.ArgPos == 1
					case "Reshape", "MustReshape", "ReshapeFast":
						ok = e.ArgPos == 0
					}
				}
				if !ok {
					add(s.File, "shared-arg", fmt.Sprintf("shared %s passed as argument %d of %s — %s", e.Var, e.ArgPos, e.Method, what))
				}
			case "recv":
				add(s.File, "join", "receive inside the closure — "+what)
			case "send":
				if e.Var != s.Chan {
					add(s.File, "join", "send on another channel — "+what)
				}
			}
		}
		if s.CellParam == "" && s.Cover != "pool" {
			add(s.File, "loop-var", "no closure parameter receives the loop variable")
		}
		if s.Cover == "pool" {
			if s.CellParam == "" || (s.PoolChanMake != "buffered" && !s.PoolFiller) || s.PoolChanMake == "unknown" || !s.PoolFillOk || !s.PoolCapMatches || !s.PoolClosed || !s.PoolRangeClean ||
				s.PoolOtherChanUses != 0 || s.PoolBoundReassigned || !s.PoolWorkersPositive {
				add(s.File, "cell-coverage", fmt.Sprintf("worker pool: the channel of cell indices must be made with the capacity of the fill bound, filled by one loop with exactly 0..B-1, "+
					"closed before the first worker starts, ranged over at the top level of the worker and used for nothing else, with at least one worker "+
					"(chan=%q make=%s cap=%q fillBound=%q fillOk=%v capMatches=%v closed=%v rangeClean=%v otherUses=%d boundReassigned=%v workersPositive=%v)",
					s.PoolChan, s.PoolChanMake, s.PoolCap, s.PoolFillBound, s.PoolFillOk, s.PoolCapMatches, s.PoolClosed, s.PoolRangeClean,
					s.PoolOtherChanUses, s.PoolBoundReassigned, s.PoolWorkersPositive))
			}
		}
		if s.CapturesLoopVar {
			add(s.File, "loop-var", fmt.Sprintf("the closure uses the loop variable(s) %v directly", s.LoopVars))
		}
		if len(s.LoopBodyVarsCaptured) > 0 {
			add(s.File, "loop-var", fmt.Sprintf("the closure captures variables declared in the loop body: %v", s.LoopBodyVarsCaptured))
		}
		for _, u := range s.Unsupported {
			add(s.File, "unsupported", u)
		}
		if s.Chan == "" || !s.SendTail || s.Sends < 1 || (s.ReturnsInClosure > 0 && !s.DoneDeferred) {
			add(s.File, "join", fmt.Sprintf("closure must end every path with exactly one send on the done channel / Done() on the WaitGroup (join=%s object=%q signals=%d tail=%v returns=%d deferred=%v)",
				s.Join, s.Chan, s.Sends, s.SendTail, s.ReturnsInClosure, s.DoneDeferred))
		}
		if (s.Kind != "models" || s.Join == "waitgroup") && s.Sends != 1 {
			add(s.File, "join", fmt.Sprintf("%d send / Done statements in the closure (exactly one expected)", s.Sends))
		}
		if !(s.LaunchForm == "counted" || s.LaunchForm == "counter") || !s.GoTopLevelOnce || !s.LaunchLoopClean || s.CountReassigned {
			add(s.File, "join", fmt.Sprintf("number of launched goroutines not determined (form=%s count=%q goTopLevelOnce=%v loopClean=%v countReassigned=%v)",
				s.LaunchForm, s.LaunchCount, s.GoTopLevelOnce, s.LaunchLoopClean, s.CountReassigned))
		}
		if s.Join == "waitgroup" {
			if !s.RecvLoopFound || !s.SameBound || s.RecvPerIter != 1 || !s.RecvLoopClean || s.OtherChanUses != 0 || s.AddForm == "" {
				add(s.File, "join", fmt.Sprintf("WaitGroup join: Add(%q) before the launch loop (or Add(1) next to the go statement), Wait() after the loop, no other use "+
					"(add=%q count=%q same=%v waitFound=%v waits=%d clean=%v otherUses=%d)",
					s.LaunchCount, s.AddForm, s.RecvBound, s.SameBound, s.RecvLoopFound, s.RecvPerIter, s.RecvLoopClean, s.OtherChanUses))
			}
		} else if !s.RecvLoopFound || !s.SameBound || s.RecvPerIter != 1 || !s.RecvLoopClean || s.OtherChanUses != 0 {
			add(s.File, "join", fmt.Sprintf("the parent must receive exactly %q times after the loop (found=%v bound=%q same=%v recvPerIter=%d clean=%v otherChanUses=%d)",
				s.LaunchCount, s.RecvLoopFound, s.RecvBound, s.SameBound, s.RecvPerIter, s.RecvLoopClean, s.OtherChanUses))
		}
		for _, w := range s.CalleeWrites {
			add(s.File, "callee-global-write", fmt.Sprintf("%s writes non-local %s at %s: %s", w.Func, w.Var, w.Pos, w.Text))
		}
	}
	if f.Violations == nil {
		f.Violations = []Violation{}
	}
}

func main() {
	jsonOut := flag.String("json", "", "write the facts as JSON to this file (default: stdout)")
	leanOut := flag.String("lean", "", "write the facts as Lean data to this file")
	flag.Parse()
	root := os.Getenv("OW_REPO")
	if flag.NArg() > 0 {
		root = flag.Arg(0)
	}
	if root == "" {
		root = "/repo"
	}
	root, _ = filepath.Abs(root)
	facts := &Facts{Root: root, Sites: []Site{}, GoStmts: []GoStmtRef{}, Errors: []string{}, InitPerCell: []string{}}
	readCellDims(root, facts)

	var files []string
	filepath.Walk(root, func(p string, info os.FileInfo, err error) error {
		if err != nil {
			return nil
		}
		if info.IsDir() {
			if info.Name() == ".git" || info.Name() == "vendor" || info.Name() == "testdata" {
				return filepath.SkipDir
			}
			return nil
		}
		if strings.HasSuffix(p, ".go") && !strings.HasSuffix(p, "_test.go") {
			files = append(files, p)
		}
		return nil
	})
	sort.Strings(files)
	for _, p := range files {
		rel, _ := filepath.Rel(root, p)
		rel = filepath.ToSlash(rel)
		f, err := parser.ParseFile(fset, p, nil, 0)
		if err != nil {
			facts.Errors = append(facts.Errors, fmt.Sprintf("%s: %v", rel, err))
			continue
		}
		parts := strings.Split(rel, "/")
		isWrapper := len(parts) == 3 && parts[0] == "models" && strings.HasPrefix(parts[2], "generated_")
		if isWrapper {
			for _, d := range f.Decls {
				if fd, ok := d.(*ast.FuncDecl); ok && fd.Recv != nil && fd.Name.Name == "Run" {
					facts.WrapperFiles++
				}
				if fd, ok := d.(*ast.FuncDecl); ok && fd.Recv != nil && fd.Name.Name == "InitialiseStates" && fd.Body != nil {
					perCell := false
					ast.Inspect(fd.Body, func(x ast.Node) bool {
						if loop, ok := x.(*ast.ForStmt); ok {
							ast.Inspect(loop.Body, func(y ast.Node) bool {
								if c, ok := y.(*ast.CallExpr); ok {
									if sel, ok := c.Fun.(*ast.SelectorExpr); ok && mutating[sel.Sel.Name] {
										perCell = true
									}
								}
								return true
							})
						}
						return true
					})
					if perCell {
						facts.InitPerCell = append(facts.InitPerCell, strings.TrimSuffix(funcName(fd), ".InitialiseStates"))
					}
				}
			}
		}
		gos := goFuncSites(f)
		var keys []*ast.GoStmt
		for g := range gos {
			keys = append(keys, g)
		}
		sort.Slice(keys, func(i, j int) bool { return keys[i].Pos() < keys[j].Pos() })
		for _, g := range keys {
			fd := gos[g]
			kind := ""
			if isWrapper && fd.Name.Name == "Run" {
				kind = "cells"
			} else if rel == "cmd/ow-sim/running.go" {
				kind = "models"
			}
			_, isLit := g.Call.Fun.(*ast.FuncLit)
			if ch, _ := fillerOf(g); ch != nil && kind == "cells" {
				// the dedicated filler goroutine of a worker pool: part of the pool site's facts (poolSkeleton), not a site of its own
				facts.GoStmts = append(facts.GoStmts, GoStmtRef{File: rel, Func: funcName(fd), Line: line(g), Site: false})
				continue
			}
			facts.GoStmts = append(facts.GoStmts, GoStmtRef{File: rel, Func: funcName(fd), Line: line(g), Site: kind != "" && isLit})
			if kind == "" {
				continue
			}
			if !isLit {
				facts.Errors = append(facts.Errors, fmt.Sprintf("%s:%d: go statement does not start a function literal", rel, line(g)))
				continue
			}
			s, extra := safeAnalyseSite(root, filepath.Dir(p), f, rel, kind, fd, g, facts.CellDims)
			func() {
				defer func() {
					if r := recover(); r != nil {
						s.Unsupported = append(s.Unsupported, fmt.Sprintf("callee scan failed on a form the extractor does not know: %v", r))
					}
				}()
				scanCallees(root, s, filepath.Dir(p), s.Callees, importsOf(f), extra)
			}()
			if kind == "cells" {
				facts.WrapperSites++
			}
			facts.Sites = append(facts.Sites, *s)
		}
	}
	// the template, in general
	vars, err := templateVariants(root)
	if err != nil {
		facts.Errors = append(facts.Errors, "template: "+err.Error())
	}
	var names []string
	for n := range vars {
		names = append(names, n)
	}
	sort.Strings(names)
	facts.TemplateVariants = len(names)
	for vi, n := range names {
		f, err := parser.ParseFile(fset, n, vars[n], 0)
		if err != nil {
			facts.Errors = append(facts.Errors, fmt.Sprintf("%s: expansion does not parse: %v", n, err))
			continue
		}
		vdir := filepath.Join(root, "pre", "ow-specgen", fmt.Sprintf("synthetic-%d", vi))
		registerFile(vdir, "synthetic.go", f)
		for g, fd := range goFuncSites(f) {
			if fd.Name.Name != "Run" {
				continue
			}
			if _, ok := g.Call.Fun.(*ast.FuncLit); !ok {
				continue
			}
			s, _ := safeAnalyseSite(root, vdir, f, n, "template", fd, g, facts.CellDims)
			facts.TemplateSites++
			facts.Sites = append(facts.Sites, *s)
		}
	}
	violations(facts)

	js, _ := json.MarshalIndent(facts, "", " ")
	if *jsonOut != "" {
		if err := os.WriteFile(*jsonOut, append(js, '\n'), 0o644); err != nil {
			fmt.Fprintln(os.Stderr, "owrunfacts:", err)
			os.Exit(2)
		}
	} else {
		os.Stdout.Write(append(js, '\n'))
	}
	if *leanOut != "" {
		if err := os.WriteFile(*leanOut, []byte(leanSource(facts)), 0o644); err != nil {
			fmt.Fprintln(os.Stderr, "owrunfacts:", err)
			os.Exit(2)
		}
	}
}
