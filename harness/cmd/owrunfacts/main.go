// owrunfacts extracts, from the CURRENT source of an openwater-core working tree, the structural facts that the
// concurrency property C05 relies on, using go/parser + go/ast only (no type checker, nothing from the tree is
// imported or compiled):
//
//	owrunfacts [-json out.json] [-lean out.lean] [repo root]        (root: argument, else $OW_REPO, else /repo)
//
// For every `go func(...){...}(...)` statement of the tree (test files excluded) it reports where it is. Those in
// models/*/generated_*.go (the goroutine-per-cell `Run` methods), in cmd/ow-sim/running.go (goroutine per model type)
// and in the 12 expansions of the wrapper template pre/ow-specgen/generated_struct.got (every meaningful combination of
// extract-states / outputs-as-params / table parameters / no states, expanded here with text/template on synthetic
// specs) are analysed as *sites*:
//
//   - which identifiers are declared INSIDE the closure, which are captured from the enclosing function, which are
//     package level;
//   - every statement in the closure that touches something shared — a captured variable, a package-level variable, a
//     local that aliases one of those, or a view obtained from one with Slice — as an Event:
//     assignment / element assignment / ++ -- / & / method call (with the method name and the class of its location
//     argument) / bare use as a call argument (with callee and position) / channel send / receive;
//   - the launch/join skeleton: loop variables, closure parameters and call arguments, whether the closure uses a
//     loop variable, the send(s) on the done channel (exactly one on every path, last action, no return before it),
//     how many goroutines are launched (loop bound, or a counter incremented once next to the go statement) and the
//     later loop that receives exactly that many times;
//   - for the plain functions (kernels, extract/pack helpers, and what they call inside the repository) reachable from
//     the closure: every assignment / ++ / copy / mutating method call whose target is not a local of that function
//     (a package-level scratch buffer).
//
// Classification is by GENERAL rules on syntax and scopes, never by names of variables or by position in the file:
// renaming or reordering statements does not change the facts. The rules themselves (what counts as a shared write,
// which uses of a shared vector are read-only, …) are evaluated by OW/Sim/RunFactsCheck.lean on the emitted data;
// this program additionally lists the violations it sees (field "violations") so that the check can name them.
//
// Knowledge about the data package that is used (and is therefore TRUSTED here, see C01/C02 for the array model):
// Set/Set1/Set2/Set3/Apply/Apply1/ApplySlice/CopyFrom write to the receiver's storage; Slice returns a view that
// aliases the receiver at the given location; Reshape/MustReshape/ReshapeFast/Unroll may alias the receiver;
// NewIndex returns a fresh slice; Shape returns an alias of the receiver's dimension vector; every other method
// only reads. Apply temporarily modifies its `loc` argument (so `loc` vectors must be goroutine-local).
package main

import (
	"bytes"
	"encoding/json"
	"flag"
	"fmt"
	"go/ast"
	"go/parser"
	"go/printer"
	"go/token"
	"os"
	"path/filepath"
	"sort"
	"strconv"
	"strings"
	"text/template"
)

// ---------------------------------------------------------------------------------------------------------------
// facts

type Event struct {
	Line     int    `json:"line"`
	Var      string `json:"var"`      // the shared thing touched (printed receiver / target expression)
	Root     string `json:"root"`     // captured | global | alias | viewOwn | viewShared
	Scalar   bool   `json:"scalar"`   // the root variable is syntactically a scalar (declared with a basic type / from a literal)
	Access   string `json:"access"`   // assign | elemAssign | addr | call | arg | send | recv
	Method   string `json:"method"`   // call: the method; arg: the callee
	Loc      string `json:"loc"`      // call: class of the location argument: ownLit ownVec modLit modVec sharedVec localOther other none
	ArgPos   int    `json:"arg_pos"`  // arg: position of the argument
	IsMethod bool   `json:"is_method"` // arg: the callee is a method (x.M(...)) rather than a function
	Text     string `json:"text"`     // the statement / expression, for the report only
}

type CalleeWrite struct {
	Func string `json:"func"`
	Var  string `json:"var"`
	Pos  string `json:"pos"`
	Text string `json:"text"`
}

type Site struct {
	File string `json:"file"`
	Func string `json:"func"`
	Kind string `json:"kind"` // cells | models | template
	Line int    `json:"line"`

	LoopVars       []string `json:"loop_vars"`
	ClosureParams  []string `json:"closure_params"`
	CallArgs       []string `json:"call_args"`
	CellParam      string   `json:"cell_param"` // the closure parameter that receives a loop variable
	CapturesLoopVar bool    `json:"captures_loop_var"`
	LoopBodyVarsCaptured []string `json:"loop_body_vars_captured"`
	DeclaredInside []string `json:"declared_inside"`
	Captured       []string `json:"captured"`
	Globals        []string `json:"globals"`
	Unsupported    []string `json:"unsupported"` // constructs inside the closure the analysis does not follow (go, defer, func literal, goto, select, labels)
	Events         []Event  `json:"events"`

	Chan             string `json:"chan"`
	ChanMake         string `json:"chan_make"` // unbuffered | buffered | unknown
	Sends            int    `json:"sends"`
	SendTail         bool   `json:"send_tail"` // every path through the closure performs exactly one send on the channel, as its last action
	RecvsInClosure   int    `json:"recvs_in_closure"`
	ReturnsInClosure int    `json:"returns_in_closure"`

	LaunchForm      string `json:"launch_form"` // counted | counter | other
	LaunchCount     string `json:"launch_count"`
	GoTopLevelOnce  bool   `json:"go_top_level_once"`
	LaunchLoopClean bool   `json:"launch_loop_clean"` // no break/continue/goto/return that could make launches and count disagree
	RecvLoopFound   bool   `json:"recv_loop_found"`
	RecvBound       string `json:"recv_bound"`
	SameBound       bool   `json:"same_bound"`
	RecvPerIter     int    `json:"recv_per_iter"`
	RecvLoopClean   bool   `json:"recv_loop_clean"`
	CountReassigned bool   `json:"count_reassigned"` // the count expression's variables are assigned elsewhere in the function
	OtherChanUses   int    `json:"other_chan_uses"`

	Callees      []string      `json:"callees"`
	CalleesFound int           `json:"callees_scanned"`
	CalleeWrites []CalleeWrite `json:"callee_writes"`
}

type GoStmtRef struct {
	File string `json:"file"`
	Func string `json:"func"`
	Line int    `json:"line"`
	Site bool   `json:"site"`
}

type Violation struct {
	File   string `json:"file"`
	Rule   string `json:"rule"`
	Detail string `json:"detail"`
}

type Facts struct {
	Root          string         `json:"root"`
	CellDims      map[string]int `json:"cell_dims"` // sim.DIM?_CELL constants
	Sites         []Site         `json:"sites"`
	GoStmts       []GoStmtRef    `json:"go_stmts"`
	WrapperFiles  int            `json:"wrapper_files"` // models/*/generated_*.go with a Run method
	WrapperSites  int            `json:"wrapper_sites"`
	TemplateSites int            `json:"template_sites"`
	TemplateVariants int         `json:"template_variants"`
	InitPerCell   []string       `json:"init_per_cell"` // models whose InitialiseStates fills the array cell by cell (row width taken from the first cell)
	Errors        []string       `json:"errors"`
	Violations    []Violation    `json:"violations"`
}

var mutating = map[string]bool{"Set": true, "Set1": true, "Set2": true, "Set3": true, "Apply": true, "Apply1": true,
	"ApplySlice": true, "CopyFrom": true}
var aliasing = map[string]bool{"Reshape": true, "MustReshape": true, "ReshapeFast": true, "Unroll": true}
var locFirst = map[string]bool{"Slice": true, "Set": true, "Get": true, "Apply": true, "ApplySlice": true, "Index": true, "SliceInto": true,
	"Set1": true, "Set2": true, "Set3": true, "Apply1": true}
var builtins = map[string]bool{"len": true, "cap": true, "make": true, "new": true, "append": true, "copy": true, "panic": true,
	"print": true, "println": true, "delete": true, "recover": true, "min": true, "max": true, "close": true, "complex": true, "real": true, "imag": true,
	"int": true, "int8": true, "int16": true, "int32": true, "int64": true, "uint": true, "uint8": true, "uint16": true, "uint32": true,
	"uint64": true, "float32": true, "float64": true, "string": true, "bool": true, "byte": true, "rune": true, "uintptr": true}
var basicTypes = map[string]bool{"int": true, "int8": true, "int16": true, "int32": true, "int64": true, "uint": true, "uint8": true,
	"uint16": true, "uint32": true, "uint64": true, "float32": true, "float64": true, "string": true, "bool": true, "byte": true, "rune": true}

// ---------------------------------------------------------------------------------------------------------------

var fset = token.NewFileSet()

func show(n ast.Node) string {
	var b bytes.Buffer
	printer.Fprint(&b, fset, n)
	s := strings.Join(strings.Fields(b.String()), " ")
	if len(s) > 160 {
		s = s[:160] + "…"
	}
	return s
}

func line(n ast.Node) int { return fset.Position(n.Pos()).Line }

func within(p token.Pos, n ast.Node) bool { return p >= n.Pos() && p < n.End() }

// rootIdent: the identifier at the bottom of x.f / x[i] / x[a:b] / *x / (x) / x.(T)
func rootIdent(e ast.Expr) *ast.Ident {
	for {
		switch v := e.(type) {
		case *ast.Ident:
			return v
		case *ast.SelectorExpr:
			e = v.X
		case *ast.IndexExpr:
			e = v.X
		case *ast.SliceExpr:
			e = v.X
		case *ast.StarExpr:
			e = v.X
		case *ast.ParenExpr:
			e = v.X
		case *ast.TypeAssertExpr:
			e = v.X
		default:
			return nil
		}
	}
}

// ---------------------------------------------------------------------------------------------------------------
// closure analysis

type prov int

const (
	pFresh prov = iota
	pViewOwn
	pViewShared
	pAlias
)

func worse(a, b prov) prov {
	if b > a {
		return b
	}
	return a
}

type vecInfo struct {
	fresh     bool // defined from NewIndex / composite literal / make
	pin       string // "", own, mod, other
	pinPos    token.Pos
	reassigned bool
}

type analyser struct {
	file    *ast.File
	imports map[string]string // local name -> import path
	fn      *ast.FuncDecl
	lit     *ast.FuncLit
	site    *Site
	cellParam *ast.Object
	loopObjs  map[*ast.Object]bool
	bodyObjs  map[*ast.Object]bool
	chanObj   *ast.Object
	prov    map[*ast.Object]prov
	vec     map[*ast.Object]*vecInfo
	declared map[string]bool
	captured map[string]bool
	globals  map[string]bool
	callees  map[string]bool
	cellDims map[string]int
}

// class of an identifier seen inside the closure
func (a *analyser) classify(id *ast.Ident) string {
	if id.Name == "_" {
		return "blank"
	}
	o := id.Obj
	if o == nil {
		if _, ok := a.imports[id.Name]; ok {
			return "pkg"
		}
		if builtins[id.Name] || id.Name == "nil" || id.Name == "true" || id.Name == "false" || id.Name == "iota" {
			return "universe"
		}
		return "global" // package-level identifier declared in another file of the package
	}
	switch o.Kind {
	case ast.Var:
		if within(o.Pos(), a.lit) {
			return "local"
		}
		if within(o.Pos(), a.fn) {
			return "captured"
		}
		return "global"
	case ast.Fun, ast.Typ, ast.Con, ast.Pkg:
		return "static"
	}
	return "static"
}

// is the captured variable syntactically a scalar?
func (a *analyser) scalar(o *ast.Object) bool {
	if o == nil {
		return false
	}
	switch d := o.Decl.(type) {
	case *ast.Field:
		if t, ok := d.Type.(*ast.Ident); ok {
			return basicTypes[t.Name]
		}
	case *ast.ValueSpec:
		if t, ok := d.Type.(*ast.Ident); ok && basicTypes[t.Name] {
			return true
		}
		for i, n := range d.Names {
			if n.Obj == o && i < len(d.Values) {
				return scalarExpr(d.Values[i])
			}
		}
	case *ast.AssignStmt:
		if len(d.Lhs) == len(d.Rhs) {
			for i, l := range d.Lhs {
				if id, ok := l.(*ast.Ident); ok && id.Obj == o {
					return scalarExpr(d.Rhs[i])
				}
			}
		}
	}
	return false
}

func scalarExpr(e ast.Expr) bool {
	switch v := e.(type) {
	case *ast.BasicLit:
		return true
	case *ast.BinaryExpr:
		return scalarExpr(v.X) && scalarExpr(v.Y)
	case *ast.ParenExpr:
		return scalarExpr(v.X)
	case *ast.CallExpr:
		if id, ok := v.Fun.(*ast.Ident); ok && basicTypes[id.Name] {
			return true
		}
		if s, ok := v.Fun.(*ast.SelectorExpr); ok && (strings.HasPrefix(s.Sel.Name, "Len") || strings.HasPrefix(s.Sel.Name, "Get") || s.Sel.Name == "NDims") {
			return true
		}
	case *ast.IndexExpr:
		// element of an int vector such as inputDims[sim.DIMI_TIMESTEP]
		return true
	}
	return false
}

func (a *analyser) ev(n ast.Node, v string, root string, scalar bool, access, method, loc string, pos int, isMethod bool) {
	a.site.Events = append(a.site.Events, Event{Line: line(n), Var: v, Root: root, Scalar: scalar, Access: access, Method: method,
		Loc: loc, ArgPos: pos, IsMethod: isMethod, Text: show(n)})
}

func provName(p prov) string {
	switch p {
	case pViewOwn:
		return "viewOwn"
	case pViewShared:
		return "viewShared"
	case pAlias:
		return "alias"
	}
	return "fresh"
}

// sharedRoot: is the expression rooted in something shared? returns (root class, printed name, scalar)
func (a *analyser) sharedRoot(e ast.Expr) (string, string, bool, *ast.Ident) {
	id := rootIdent(e)
	if id == nil {
		return "", "", false, nil
	}
	switch a.classify(id) {
	case "captured":
		a.captured[id.Name] = true
		return "captured", show(e), a.scalar(id.Obj), id
	case "global":
		a.globals[id.Name] = true
		return "global", show(e), false, id
	case "local":
		if p := a.prov[id.Obj]; p != pFresh {
			return provName(p), show(e), false, id
		}
	}
	return "", "", false, id
}

func (a *analyser) isCellParam(e ast.Expr) bool {
	id, ok := e.(*ast.Ident)
	return ok && a.cellParam != nil && id.Obj == a.cellParam
}

func (a *analyser) isCellParamMod(e ast.Expr) bool {
	b, ok := e.(*ast.BinaryExpr)
	return ok && b.Op == token.REM && a.isCellParam(b.X)
}

// is the key expression of v[key] the cell coordinate? (1 yes, 0 no, -1 unknown)
func (a *analyser) cellKey(e ast.Expr) int {
	switch v := e.(type) {
	case *ast.BasicLit:
		if v.Kind == token.INT {
			if n, err := strconv.Atoi(v.Value); err == nil {
				if n == 0 {
					return 1
				}
				return 0
			}
		}
	case *ast.SelectorExpr:
		if x, ok := v.X.(*ast.Ident); ok && a.classify(x) == "pkg" {
			if val, ok := a.cellDims[v.Sel.Name]; ok {
				_ = val
				return 1
			}
			if strings.HasPrefix(v.Sel.Name, "DIM") {
				return 0 // another DIM constant of package sim (values checked globally: the CELL constants are 0, the others are not)
			}
		}
	}
	return -1
}

func (a *analyser) locClass(e ast.Expr, at token.Pos) string {
	switch v := e.(type) {
	case *ast.CompositeLit:
		if len(v.Elts) == 0 {
			return "other"
		}
		if a.isCellParam(v.Elts[0]) {
			return "ownLit"
		}
		if a.isCellParamMod(v.Elts[0]) {
			return "modLit"
		}
		return "other"
	case *ast.Ident:
		if a.isCellParam(v) {
			return "ownLit" // Set1(i, …), Set2(i, k, …): first coordinate is the goroutine's own cell
		}
		switch a.classify(v) {
		case "captured", "global":
			return "sharedVec"
		case "local":
			vi := a.vec[v.Obj]
			if vi == nil || !vi.fresh || vi.reassigned {
				return "localOther"
			}
			if vi.pin == "own" && vi.pinPos < at {
				return "ownVec"
			}
			if vi.pin == "mod" && vi.pinPos < at {
				return "modVec"
			}
			return "localOther"
		}
	case *ast.BinaryExpr:
		if a.isCellParamMod(v) {
			return "modLit"
		}
	}
	return "other"
}

// provenance of the value of an expression
func (a *analyser) provOf(e ast.Expr) prov {
	switch v := e.(type) {
	case nil:
		return pFresh
	case *ast.Ident:
		switch a.classify(v) {
		case "captured":
			if a.scalar(v.Obj) {
				return pFresh
			}
			return pAlias
		case "global":
			return pAlias
		case "local":
			return a.prov[v.Obj]
		}
		return pFresh
	case *ast.ParenExpr:
		return a.provOf(v.X)
	case *ast.StarExpr:
		return a.provOf(v.X)
	case *ast.TypeAssertExpr:
		return a.provOf(v.X)
	case *ast.SelectorExpr:
		if x, ok := v.X.(*ast.Ident); ok && a.classify(x) == "pkg" {
			return pFresh // pkg.Const / pkg.Var read
		}
		return a.provOf(v.X)
	case *ast.IndexExpr:
		p := a.provOf(v.X)
		if p == pAlias {
			return pFresh // an element read out of a shared vector is a copy of a scalar (vectors of vectors do not occur: conservative enough, writes through it would need [] again)
		}
		return p
	case *ast.SliceExpr:
		return a.provOf(v.X)
	case *ast.UnaryExpr:
		if v.Op == token.AND {
			if p := a.provOf(v.X); p != pFresh {
				return p
			}
			if id := rootIdent(v.X); id != nil {
				c := a.classify(id)
				if c == "captured" || c == "global" {
					return pAlias
				}
			}
		}
		return pFresh
	case *ast.CompositeLit, *ast.BasicLit, *ast.BinaryExpr, *ast.FuncLit:
		return pFresh
	case *ast.CallExpr:
		if s, ok := v.Fun.(*ast.SelectorExpr); ok {
			if x, ok := s.X.(*ast.Ident); ok && a.classify(x) == "pkg" {
				return a.worstArg(v)
			}
			recv := a.provOf(s.X)
			// the receiver itself when it is a captured non-scalar (provOf gives alias) or a field of one
			m := s.Sel.Name
			switch {
			case m == "Slice":
				if recv == pFresh {
					return pFresh
				}
				if recv == pViewOwn {
					return pViewOwn
				}
				if recv == pAlias && len(v.Args) > 0 {
					lc := a.locClass(v.Args[0], v.Pos())
					if lc == "ownLit" || lc == "ownVec" {
						return pViewOwn
					}
				}
				return pViewShared
			case aliasing[m]:
				return recv
			case m == "NewIndex":
				return pFresh
			case strings.HasPrefix(m, "Get") || strings.HasPrefix(m, "Len") || m == "NDims" || m == "Index" || m == "Contiguous" || m == "Maximum" || m == "Minimum":
				return pFresh
			default:
				if recv == pFresh {
					return a.worstArg(v)
				}
				return pAlias // e.g. Shape(): aliases the receiver's dimension vector
			}
		}
		if id, ok := v.Fun.(*ast.Ident); ok {
			if basicTypes[id.Name] || id.Name == "len" || id.Name == "cap" || id.Name == "make" || id.Name == "new" {
				return pFresh
			}
			if id.Name == "append" && len(v.Args) > 0 {
				return a.provOf(v.Args[0])
			}
		}
		return a.worstArg(v)
	}
	return pFresh
}

func (a *analyser) worstArg(c *ast.CallExpr) prov {
	p := pFresh
	for _, x := range c.Args {
		p = worse(p, a.provOf(x))
	}
	return p
}

func freshVector(e ast.Expr) bool {
	switch v := e.(type) {
	case *ast.CompositeLit:
		return true
	case *ast.CallExpr:
		if s, ok := v.Fun.(*ast.SelectorExpr); ok && s.Sel.Name == "NewIndex" {
			return true
		}
		if id, ok := v.Fun.(*ast.Ident); ok && id.Name == "make" {
			return true
		}
	}
	return false
}

func (a *analyser) define(id *ast.Ident, rhs ast.Expr, multi bool, p prov) {
	if id.Name == "_" || id.Obj == nil {
		return
	}
	a.declared[id.Name] = true
	if old, ok := a.prov[id.Obj]; ok {
		p = worse(p, old)
	}
	a.prov[id.Obj] = p
	if vi, ok := a.vec[id.Obj]; ok {
		vi.reassigned = true
		return
	}
	vi := &vecInfo{}
	if !multi && rhs != nil && freshVector(rhs) {
		vi.fresh = true
		if cl, ok := rhs.(*ast.CompositeLit); ok && len(cl.Elts) > 0 {
			switch {
			case a.isCellParam(cl.Elts[0]):
				vi.pin, vi.pinPos = "own", rhs.Pos()
			case a.isCellParamMod(cl.Elts[0]):
				vi.pin, vi.pinPos = "mod", rhs.Pos()
			default:
				vi.pin, vi.pinPos = "other", rhs.Pos()
			}
		}
	}
	a.vec[id.Obj] = vi
}

// assignment target
func (a *analyser) target(lhs ast.Expr, stmt ast.Node, rhs ast.Expr, topLevel bool) {
	if id, ok := lhs.(*ast.Ident); ok {
		switch a.classify(id) {
		case "captured":
			a.captured[id.Name] = true
			a.ev(stmt, id.Name, "captured", a.scalar(id.Obj), "assign", "", "none", 0, false)
		case "global":
			a.globals[id.Name] = true
			a.ev(stmt, id.Name, "global", false, "assign", "", "none", 0, false)
		case "local":
			p := pFresh
			if rhs != nil {
				p = a.provOf(rhs)
			}
			a.prov[id.Obj] = worse(a.prov[id.Obj], p)
			if vi := a.vec[id.Obj]; vi != nil {
				vi.reassigned = true
			}
		}
		return
	}
	// element / field / pointer target
	root, name, sc, id := a.sharedRoot(lhs)
	if root != "" {
		a.ev(stmt, name, root, sc, "elemAssign", "", "none", 0, false)
	} else if id != nil && a.classify(id) == "local" {
		// pinning of a goroutine-local position vector: v[key] = rhs
		if ix, ok := lhs.(*ast.IndexExpr); ok {
			if base, ok := ix.X.(*ast.Ident); ok && base.Obj != nil {
				if vi := a.vec[base.Obj]; vi != nil {
					switch a.cellKey(ix.Index) {
					case 1:
						np := "other"
						if topLevel && rhs != nil && a.isCellParam(rhs) {
							np = "own"
						} else if topLevel && rhs != nil && a.isCellParamMod(rhs) {
							np = "mod"
						}
						if vi.pin == "" || vi.pin == np {
							if vi.pin == "" {
								vi.pinPos = lhs.Pos()
							}
							vi.pin = np
						} else {
							vi.pin = "other"
						}
					case -1:
						vi.pin = "other" // unknown coordinate may be the cell coordinate
						vi.pinPos = lhs.Pos()
					}
				}
			}
		}
	}
	a.expr(lhs, true)
}

// expression walk: emits events for shared things used other than by plain reading
func (a *analyser) expr(e ast.Expr, isTarget bool) {
	switch v := e.(type) {
	case nil:
	case *ast.Ident:
		switch a.classify(v) {
		case "captured":
			a.captured[v.Name] = true
			if a.loopObjs[v.Obj] {
				a.site.CapturesLoopVar = true
			}
			if a.bodyObjs[v.Obj] {
				a.site.LoopBodyVarsCaptured = appendUnique(a.site.LoopBodyVarsCaptured, v.Name)
			}
		case "global":
			a.globals[v.Name] = true
		}
	case *ast.ParenExpr:
		a.expr(v.X, isTarget)
	case *ast.StarExpr:
		a.expr(v.X, isTarget)
	case *ast.SelectorExpr:
		a.expr(v.X, isTarget)
	case *ast.TypeAssertExpr:
		a.expr(v.X, false)
	case *ast.IndexExpr:
		a.expr(v.X, isTarget)
		a.expr(v.Index, false)
	case *ast.SliceExpr:
		a.expr(v.X, isTarget)
		a.expr(v.Low, false)
		a.expr(v.High, false)
		a.expr(v.Max, false)
	case *ast.BinaryExpr:
		a.expr(v.X, false)
		a.expr(v.Y, false)
	case *ast.KeyValueExpr:
		if _, ok := v.Key.(*ast.Ident); !ok {
			a.expr(v.Key, false)
		}
		a.expr(v.Value, false)
	case *ast.CompositeLit:
		for _, x := range v.Elts {
			a.expr(x, false)
		}
	case *ast.UnaryExpr:
		if v.Op == token.AND {
			if root, name, sc, _ := a.sharedRoot(v.X); root != "" {
				a.ev(v, name, root, sc, "addr", "", "none", 0, false)
			}
		}
		if v.Op == token.ARROW {
			if root, name, sc, _ := a.sharedRoot(v.X); root != "" {
				a.site.RecvsInClosure++
				a.ev(v, name, root, sc, "recv", "", "none", 0, false)
			}
		}
		a.expr(v.X, false)
	case *ast.FuncLit:
		a.site.Unsupported = append(a.site.Unsupported, fmt.Sprintf("func literal at line %d", line(v)))
	case *ast.CallExpr:
		a.call(v)
	}
}

func appendUnique(l []string, s string) []string {
	for _, x := range l {
		if x == s {
			return l
		}
	}
	return append(l, s)
}

func (a *analyser) call(c *ast.CallExpr) {
	callee := ""
	isMethod := false
	switch f := c.Fun.(type) {
	case *ast.SelectorExpr:
		if x, ok := f.X.(*ast.Ident); ok && a.classify(x) == "pkg" {
			callee = x.Name + "." + f.Sel.Name
			a.callees[callee] = true
		} else {
			isMethod = true
			callee = f.Sel.Name
			// method call on something shared?
			root, name, sc, _ := a.sharedRoot(f.X)
			if root == "" {
				// receiver may be a call chain rooted in something shared: states.Slice(..).MustReshape(..)
				if p := a.provOf(f.X); p != pFresh {
					root, name = provName(p), show(f.X)
				}
			}
			if root != "" {
				loc := "none"
				if locFirst[callee] && len(c.Args) > 0 {
					loc = a.locClass(c.Args[0], c.Pos())
				}
				a.ev(c, name, root, sc, "call", callee, loc, 0, true)
			}
			a.expr(f.X, false)
		}
	case *ast.Ident:
		callee = f.Name
		switch a.classify(f) {
		case "static", "global":
			if !builtins[f.Name] {
				a.callees[f.Name] = true
			}
		case "captured", "local":
			a.site.Unsupported = append(a.site.Unsupported, fmt.Sprintf("call through function value %s at line %d", f.Name, line(c)))
		}
		if f.Name == "copy" && len(c.Args) == 2 {
			if root, name, sc, _ := a.sharedRoot(c.Args[0]); root != "" {
				a.ev(c, name, root, sc, "elemAssign", "copy", "none", 0, false)
			}
		}
	default:
		a.expr(c.Fun, false)
	}
	for i, x := range c.Args {
		bare := x
		if u, ok := bare.(*ast.UnaryExpr); ok && u.Op == token.AND {
			bare = u.X
		}
		if s, ok := bare.(*ast.SliceExpr); ok {
			bare = s.X
		}
		if id, ok := bare.(*ast.Ident); ok {
			cl := a.classify(id)
			if cl == "captured" || cl == "global" {
				if !(callee == "len" || callee == "cap" || basicTypes[callee]) {
					root := cl
					a.ev(c, id.Name, root, cl == "captured" && a.scalar(id.Obj), "arg", callee, "none", i, isMethod)
				}
			}
		}
		a.expr(x, false)
	}
}

// sendTail: does every path through the statement list end with exactly one send on the channel, with no other
// send before it?  returns (ok, number of send statements seen)
func (a *analyser) sendsIn(n ast.Node) int {
	c := 0
	ast.Inspect(n, func(x ast.Node) bool {
		if s, ok := x.(*ast.SendStmt); ok {
			if id := rootIdent(s.Chan); id != nil && id.Obj == a.chanObj {
				c++
			}
		}
		return true
	})
	return c
}

func (a *analyser) isSend(s ast.Stmt) bool {
	x, ok := s.(*ast.SendStmt)
	if !ok {
		return false
	}
	id, ok := x.Chan.(*ast.Ident)
	return ok && id.Obj == a.chanObj
}

func (a *analyser) tailOK(list []ast.Stmt) bool {
	if len(list) == 0 {
		return false
	}
	for _, s := range list[:len(list)-1] {
		if a.sendsIn(s) > 0 {
			return false
		}
	}
	last := list[len(list)-1]
	switch v := last.(type) {
	case *ast.SendStmt:
		return a.isSend(v) && a.sendsIn(v.Value) == 0
	case *ast.BlockStmt:
		return a.tailOK(v.List)
	case *ast.IfStmt:
		if v.Init != nil && a.sendsIn(v.Init) > 0 {
			return false
		}
		if v.Else == nil {
			return false
		}
		if !a.tailOK(v.Body.List) {
			return false
		}
		switch e := v.Else.(type) {
		case *ast.BlockStmt:
			return a.tailOK(e.List)
		case *ast.IfStmt:
			return a.tailOK([]ast.Stmt{e})
		}
	}
	return false
}

func (a *analyser) stmts(list []ast.Stmt, top bool) {
	for _, s := range list {
		a.stmt(s, top)
	}
}

func (a *analyser) stmt(s ast.Stmt, top bool) {
	switch v := s.(type) {
	case nil:
	case *ast.AssignStmt:
		multi := len(v.Lhs) != len(v.Rhs)
		for _, r := range v.Rhs {
			a.expr(r, false)
		}
		for i, l := range v.Lhs {
			var rhs ast.Expr
			if !multi {
				rhs = v.Rhs[i]
			} else if len(v.Rhs) == 1 {
				rhs = v.Rhs[0]
			}
			if v.Tok == token.DEFINE {
				if id, ok := l.(*ast.Ident); ok {
					if id.Obj != nil && id.Obj.Pos() == id.Pos() {
						p := pFresh
						if rhs != nil {
							p = a.provOf(rhs)
						}
						a.define(id, rhs, multi, p)
						continue
					}
				}
			}
			a.target(l, v, rhs, top)
		}
	case *ast.IncDecStmt:
		a.target(v.X, v, nil, top)
	case *ast.DeclStmt:
		if g, ok := v.Decl.(*ast.GenDecl); ok {
			for _, sp := range g.Specs {
				if vs, ok := sp.(*ast.ValueSpec); ok {
					for _, x := range vs.Values {
						a.expr(x, false)
					}
					for i, n := range vs.Names {
						var rhs ast.Expr
						if i < len(vs.Values) {
							rhs = vs.Values[i]
						}
						p := pFresh
						if rhs != nil {
							p = a.provOf(rhs)
						}
						a.define(n, rhs, len(vs.Values) != len(vs.Names), p)
					}
				}
			}
		}
	case *ast.ExprStmt:
		a.expr(v.X, false)
	case *ast.SendStmt:
		if root, name, sc, id := a.sharedRoot(v.Chan); root != "" {
			a.ev(v, name, root, sc, "send", "", "none", 0, false)
			if id != nil && id.Obj == a.chanObj {
				a.site.Sends++
			}
		}
		a.expr(v.Chan, false)
		a.expr(v.Value, false)
	case *ast.ReturnStmt:
		a.site.ReturnsInClosure++
		for _, r := range v.Results {
			a.expr(r, false)
		}
	case *ast.BlockStmt:
		a.stmts(v.List, top)
	case *ast.IfStmt:
		a.stmt(v.Init, false)
		a.expr(v.Cond, false)
		a.stmts(v.Body.List, false)
		a.stmt(v.Else, false)
	case *ast.ForStmt:
		a.stmt(v.Init, false)
		a.expr(v.Cond, false)
		a.stmt(v.Post, false)
		a.stmts(v.Body.List, false)
	case *ast.RangeStmt:
		a.expr(v.X, false)
		if v.Tok == token.DEFINE {
			for _, k := range []ast.Expr{v.Key, v.Value} {
				if id, ok := k.(*ast.Ident); ok {
					a.define(id, nil, true, a.provOf(v.X))
				}
			}
		} else {
			if v.Key != nil {
				a.target(v.Key, v, nil, false)
			}
			if v.Value != nil {
				a.target(v.Value, v, nil, false)
			}
		}
		a.stmts(v.Body.List, false)
	case *ast.SwitchStmt:
		a.stmt(v.Init, false)
		a.expr(v.Tag, false)
		for _, c := range v.Body.List {
			cc := c.(*ast.CaseClause)
			for _, x := range cc.List {
				a.expr(x, false)
			}
			a.stmts(cc.Body, false)
		}
	case *ast.BranchStmt:
		if v.Tok == token.GOTO || v.Label != nil {
			a.site.Unsupported = append(a.site.Unsupported, fmt.Sprintf("%s at line %d", show(v), line(v)))
		}
	case *ast.EmptyStmt:
	default:
		// go, defer, select, type switch, labels: not followed
		a.site.Unsupported = append(a.site.Unsupported, fmt.Sprintf("%T at line %d", s, line(s)))
	}
}

// ---------------------------------------------------------------------------------------------------------------
// launch / join skeleton

type loopCtx struct {
	loop   ast.Stmt       // *ast.ForStmt or *ast.RangeStmt
	body   *ast.BlockStmt
	parent []ast.Stmt     // the statement list containing the loop
	index  int
}

// find the innermost loop containing the go statement and the statement list that loop sits in
func findLoop(fn *ast.FuncDecl, g *ast.GoStmt) *loopCtx {
	var best *loopCtx
	var walk func(list []ast.Stmt)
	visitBody := func(n ast.Node) {
		ast.Inspect(n, func(x ast.Node) bool {
			if b, ok := x.(*ast.BlockStmt); ok {
				walk(b.List)
				return false
			}
			if c, ok := x.(*ast.CaseClause); ok {
				walk(c.Body)
				return false
			}
			if _, ok := x.(*ast.FuncLit); ok {
				return false
			}
			return true
		})
	}
	walk = func(list []ast.Stmt) {
		for i, s := range list {
			if !within(g.Pos(), s) {
				continue
			}
			switch v := s.(type) {
			case *ast.ForStmt:
				best = &loopCtx{loop: v, body: v.Body, parent: list, index: i}
				walk(v.Body.List)
			case *ast.RangeStmt:
				best = &loopCtx{loop: v, body: v.Body, parent: list, index: i}
				walk(v.Body.List)
			case *ast.GoStmt:
			default:
				visitBody(s)
			}
		}
	}
	walk(fn.Body.List)
	return best
}

// does n contain a break/continue/goto/return outside function literals and outside nested loops' own break/continue?
func hasEscape(n ast.Node, countBreakContinue bool) bool {
	found := false
	var visit func(n ast.Node, inner bool)
	visit = func(n ast.Node, inner bool) {
		ast.Inspect(n, func(x ast.Node) bool {
			if found || x == nil {
				return false
			}
			switch v := x.(type) {
			case *ast.FuncLit:
				return false
			case *ast.ReturnStmt:
				found = true
			case *ast.BranchStmt:
				if v.Tok == token.GOTO || v.Label != nil {
					found = true
				} else if (v.Tok == token.BREAK || v.Tok == token.CONTINUE) && !inner && countBreakContinue {
					found = true
				}
			case *ast.ForStmt:
				if x != n {
					visit(v.Body, true)
					return false
				}
			case *ast.RangeStmt:
				if x != n {
					visit(v.Body, true)
					return false
				}
			case *ast.SwitchStmt:
				if x != n {
					// break inside switch leaves the switch, continue still hits the loop: treat both conservatively
				}
			}
			return true
		})
	}
	visit(n, false)
	return found
}

// counted loop `for v := 0; v < B; v++`: returns v's object and B
func countedLoop(s ast.Stmt) (*ast.Object, ast.Expr) {
	f, ok := s.(*ast.ForStmt)
	if !ok || f.Init == nil || f.Cond == nil || f.Post == nil {
		return nil, nil
	}
	in, ok := f.Init.(*ast.AssignStmt)
	if !ok || in.Tok != token.DEFINE || len(in.Lhs) != 1 || len(in.Rhs) != 1 {
		return nil, nil
	}
	v, ok := in.Lhs[0].(*ast.Ident)
	if !ok || v.Obj == nil {
		return nil, nil
	}
	if l, ok := in.Rhs[0].(*ast.BasicLit); !ok || l.Value != "0" {
		return nil, nil
	}
	c, ok := f.Cond.(*ast.BinaryExpr)
	if !ok || c.Op != token.LSS {
		return nil, nil
	}
	if x, ok := c.X.(*ast.Ident); !ok || x.Obj != v.Obj {
		return nil, nil
	}
	p, ok := f.Post.(*ast.IncDecStmt)
	if !ok || p.Tok != token.INC {
		return nil, nil
	}
	if x, ok := p.X.(*ast.Ident); !ok || x.Obj != v.Obj {
		return nil, nil
	}
	return v.Obj, c.Y
}

// number of assignments (=, op=, ++, --, :=redefinition, & taken) to the object in n, outside its declaration
func assignmentsTo(n ast.Node, o *ast.Object) int {
	c := 0
	ast.Inspect(n, func(x ast.Node) bool {
		switch v := x.(type) {
		case *ast.AssignStmt:
			for _, l := range v.Lhs {
				if id := rootIdent(l); id != nil && id.Obj == o && !(v.Tok == token.DEFINE && id.Pos() == o.Pos()) {
					c++
				}
			}
		case *ast.IncDecStmt:
			if id := rootIdent(v.X); id != nil && id.Obj == o {
				c++
			}
		case *ast.UnaryExpr:
			if v.Op == token.AND {
				if id := rootIdent(v.X); id != nil && id.Obj == o {
					c++
				}
			}
		case *ast.RangeStmt:
			for _, k := range []ast.Expr{v.Key, v.Value} {
				if k != nil && v.Tok == token.ASSIGN {
					if id := rootIdent(k); id != nil && id.Obj == o {
						c++
					}
				}
			}
		}
		return true
	})
	return c
}

func identsOf(e ast.Expr) []*ast.Ident {
	var out []*ast.Ident
	ast.Inspect(e, func(x ast.Node) bool {
		if s, ok := x.(*ast.SelectorExpr); ok {
			out = append(out, identsOf(s.X)...)
			return false
		}
		if id, ok := x.(*ast.Ident); ok && id.Obj != nil && id.Obj.Kind == ast.Var {
			out = append(out, id)
		}
		return true
	})
	return out
}

func (a *analyser) skeleton(g *ast.GoStmt) {
	s := a.site
	lc := findLoop(a.fn, g)
	s.LaunchForm = "other"
	if lc == nil {
		return
	}
	// go statement exactly once, at the top level of the loop body
	nGo, top := 0, false
	ast.Inspect(lc.body, func(x ast.Node) bool {
		if _, ok := x.(*ast.GoStmt); ok {
			nGo++
		}
		return true
	})
	goIdx := -1
	for i, st := range lc.body.List {
		if st == ast.Stmt(g) {
			top, goIdx = true, i
		}
	}
	s.GoTopLevelOnce = nGo == 1 && top

	var countObj *ast.Object
	expected := 0 // assignments to the count variable that are part of the pattern
	if v, b := countedLoop(lc.loop); v != nil {
		s.LaunchForm = "counted"
		s.LaunchCount = show(b)
		s.LaunchLoopClean = !hasEscape(lc.body, true) && assignmentsTo(lc.body, v) == 0
		if id, ok := b.(*ast.Ident); ok {
			countObj = id.Obj
		}
		for _, id := range identsOf(b) {
			if assignmentsTo(a.fn.Body, id.Obj) > 0 {
				s.CountReassigned = true
			}
		}
	} else if top {
		// counter form: `c++` at the top level of the loop body, straight-line code between it and the go statement
		for i, st := range lc.body.List {
			inc, ok := st.(*ast.IncDecStmt)
			if !ok || inc.Tok != token.INC {
				continue
			}
			id, ok := inc.X.(*ast.Ident)
			if !ok || id.Obj == nil || !within(id.Obj.Pos(), a.fn) || within(id.Obj.Pos(), lc.loop) {
				continue
			}
			// declared `c := 0` (or var c = 0 / var c int) before the loop
			if !zeroDecl(id.Obj) {
				continue
			}
			lo, hi := i, goIdx
			if lo > hi {
				lo, hi = hi, lo
			}
			clean := true
			for _, mid := range lc.body.List[lo+1 : hi] {
				if hasEscape(mid, true) {
					clean = false
				}
			}
			s.LaunchForm = "counter"
			s.LaunchCount = id.Name
			s.LaunchLoopClean = clean
			countObj = id.Obj
			expected = 1
			break
		}
	}
	if countObj != nil && assignmentsTo(a.fn.Body, countObj) != expected {
		s.CountReassigned = true
	}

	// the receive loop: a later sibling of the launch loop
	for _, st := range lc.parent[lc.index+1:] {
		v, b := countedLoop(st)
		if v == nil {
			continue
		}
		f := st.(*ast.ForStmt)
		n := 0
		ast.Inspect(f.Body, func(x ast.Node) bool {
			if u, ok := x.(*ast.UnaryExpr); ok && u.Op == token.ARROW {
				if id := rootIdent(u.X); id != nil && id.Obj == a.chanObj {
					n++
				}
			}
			return true
		})
		if n == 0 {
			continue
		}
		s.RecvLoopFound = true
		s.RecvBound = show(b)
		s.SameBound = s.RecvBound == s.LaunchCount
		if id, ok := b.(*ast.Ident); ok && countObj != nil && id.Obj != countObj {
			s.SameBound = false
		}
		// receives at the top level of the loop body
		topRecv := 0
		for _, bs := range f.Body.List {
			switch w := bs.(type) {
			case *ast.ExprStmt:
				if u, ok := w.X.(*ast.UnaryExpr); ok && u.Op == token.ARROW {
					if id := rootIdent(u.X); id != nil && id.Obj == a.chanObj {
						topRecv++
					}
				}
			case *ast.AssignStmt:
				if len(w.Rhs) == 1 {
					if u, ok := w.Rhs[0].(*ast.UnaryExpr); ok && u.Op == token.ARROW {
						if id := rootIdent(u.X); id != nil && id.Obj == a.chanObj {
							topRecv++
						}
					}
				}
			}
		}
		s.RecvPerIter = n
		s.RecvLoopClean = topRecv == n && !hasEscape(f.Body, true) && assignmentsTo(f.Body, v) == 0 && a.sendsIn(f.Body) == 0
		break
	}

	// other uses of the channel in the function
	uses := 0
	ast.Inspect(a.fn.Body, func(x ast.Node) bool {
		if id, ok := x.(*ast.Ident); ok && id.Obj == a.chanObj && id.Pos() != a.chanObj.Pos() {
			uses++
		}
		return true
	})
	s.OtherChanUses = uses - s.Sends - s.RecvPerIter
	if !s.RecvLoopFound {
		s.OtherChanUses = uses - s.Sends
	}
}

func zeroDecl(o *ast.Object) bool {
	switch d := o.Decl.(type) {
	case *ast.AssignStmt:
		if d.Tok == token.DEFINE && len(d.Lhs) == len(d.Rhs) {
			for i, l := range d.Lhs {
				if id, ok := l.(*ast.Ident); ok && id.Obj == o {
					if b, ok := d.Rhs[i].(*ast.BasicLit); ok && b.Value == "0" {
						return true
					}
				}
			}
		}
	case *ast.ValueSpec:
		if len(d.Values) == 0 {
			if t, ok := d.Type.(*ast.Ident); ok && t.Name == "int" {
				return true
			}
		}
		for i, n := range d.Names {
			if n.Obj == o && i < len(d.Values) {
				if b, ok := d.Values[i].(*ast.BasicLit); ok && b.Value == "0" {
					return true
				}
			}
		}
	}
	return false
}

func chanMake(o *ast.Object) string {
	if o == nil {
		return "unknown"
	}
	var rhs ast.Expr
	switch d := o.Decl.(type) {
	case *ast.AssignStmt:
		if len(d.Lhs) == len(d.Rhs) {
			for i, l := range d.Lhs {
				if id, ok := l.(*ast.Ident); ok && id.Obj == o {
					rhs = d.Rhs[i]
				}
			}
		}
	case *ast.ValueSpec:
		for i, n := range d.Names {
			if n.Obj == o && i < len(d.Values) {
				rhs = d.Values[i]
			}
		}
	}
	c, ok := rhs.(*ast.CallExpr)
	if !ok {
		return "unknown"
	}
	if id, ok := c.Fun.(*ast.Ident); !ok || id.Name != "make" || len(c.Args) == 0 {
		return "unknown"
	}
	if _, ok := c.Args[0].(*ast.ChanType); !ok {
		return "unknown"
	}
	if len(c.Args) == 1 {
		return "unbuffered"
	}
	return "buffered"
}

// ---------------------------------------------------------------------------------------------------------------
// one site

func importsOf(f *ast.File) map[string]string {
	m := map[string]string{}
	for _, im := range f.Imports {
		p, _ := strconv.Unquote(im.Path.Value)
		name := p[strings.LastIndex(p, "/")+1:]
		if im.Name != nil {
			name = im.Name.Name
		}
		m[name] = p
	}
	return m
}

func funcName(fn *ast.FuncDecl) string {
	if fn.Recv != nil && len(fn.Recv.List) > 0 {
		t := fn.Recv.List[0].Type
		if s, ok := t.(*ast.StarExpr); ok {
			t = s.X
		}
		return show(t) + "." + fn.Name.Name
	}
	return fn.Name.Name
}

// safeAnalyseSite: a goroutine site whose plumbing has a form the extractor does not know (it indexes into the statement
// shapes of the current template) must become an UNSUPPORTED site — a broken structural obligation — never a crash of the extractor.
func safeAnalyseSite(file *ast.File, rel string, kind string, fn *ast.FuncDecl, g *ast.GoStmt, cellDims map[string]int) (s *Site) {
	defer func() {
		if r := recover(); r != nil {
			s = &Site{File: rel, Func: funcName(fn), Kind: kind, Line: line(g),
				Unsupported: []string{fmt.Sprintf("the goroutine launch at line %d has a form the extractor does not know (%v)", line(g), r)}}
		}
	}()
	return analyseSite(file, rel, kind, fn, g, cellDims)
}

func analyseSite(file *ast.File, rel string, kind string, fn *ast.FuncDecl, g *ast.GoStmt, cellDims map[string]int) *Site {
	lit := g.Call.Fun.(*ast.FuncLit)
	s := &Site{File: rel, Func: funcName(fn), Kind: kind, Line: line(g), Events: []Event{}, Unsupported: []string{},
		LoopBodyVarsCaptured: []string{}, CalleeWrites: []CalleeWrite{}}
	a := &analyser{file: file, imports: importsOf(file), fn: fn, lit: lit, site: s, loopObjs: map[*ast.Object]bool{},
		bodyObjs: map[*ast.Object]bool{}, prov: map[*ast.Object]prov{}, vec: map[*ast.Object]*vecInfo{}, declared: map[string]bool{},
		captured: map[string]bool{}, globals: map[string]bool{}, callees: map[string]bool{}, cellDims: cellDims}

	// loop variables and variables declared in the loop body (outside the closure)
	if lc := findLoop(fn, g); lc != nil {
		switch l := lc.loop.(type) {
		case *ast.ForStmt:
			if in, ok := l.Init.(*ast.AssignStmt); ok && in.Tok == token.DEFINE {
				for _, x := range in.Lhs {
					if id, ok := x.(*ast.Ident); ok && id.Obj != nil {
						a.loopObjs[id.Obj] = true
						s.LoopVars = append(s.LoopVars, id.Name)
					}
				}
			}
		case *ast.RangeStmt:
			if l.Tok == token.DEFINE {
				for _, x := range []ast.Expr{l.Key, l.Value} {
					if id, ok := x.(*ast.Ident); ok && id.Obj != nil && id.Name != "_" {
						a.loopObjs[id.Obj] = true
						s.LoopVars = append(s.LoopVars, id.Name)
					}
				}
			}
		}
		ast.Inspect(lc.body, func(x ast.Node) bool {
			if x == ast.Node(lit) {
				return false
			}
			if id, ok := x.(*ast.Ident); ok && id.Obj != nil && id.Obj.Kind == ast.Var && id.Obj.Pos() == id.Pos() {
				a.bodyObjs[id.Obj] = true
			}
			return true
		})
	}
	// closure parameters and call arguments
	var params []*ast.Ident
	for _, f := range lit.Type.Params.List {
		for _, n := range f.Names {
			params = append(params, n)
			s.ClosureParams = append(s.ClosureParams, n.Name)
			a.declared[n.Name] = true
		}
	}
	for i, x := range g.Call.Args {
		s.CallArgs = append(s.CallArgs, show(x))
		if id, ok := x.(*ast.Ident); ok && id.Obj != nil && a.loopObjs[id.Obj] && i < len(params) && a.cellParam == nil {
			a.cellParam = params[i].Obj
			s.CellParam = params[i].Name
		}
	}
	// the done channel: the captured channel the closure sends on
	ast.Inspect(lit.Body, func(x ast.Node) bool {
		if sd, ok := x.(*ast.SendStmt); ok && a.chanObj == nil {
			if id, ok := sd.Chan.(*ast.Ident); ok && id.Obj != nil && !within(id.Obj.Pos(), lit) {
				a.chanObj = id.Obj
				s.Chan = id.Name
			}
		}
		return true
	})
	s.ChanMake = chanMake(a.chanObj)

	a.stmts(lit.Body.List, true)
	s.SendTail = a.chanObj != nil && a.tailOK(lit.Body.List)
	a.skeleton(g)

	s.DeclaredInside = sortedKeys(a.declared)
	s.Captured = sortedKeys(a.captured)
	s.Globals = sortedKeys(a.globals)
	s.Callees = sortedKeys(a.callees)
	if s.LoopVars == nil {
		s.LoopVars = []string{}
	}
	if s.ClosureParams == nil {
		s.ClosureParams = []string{}
	}
	if s.CallArgs == nil {
		s.CallArgs = []string{}
	}
	return s
}

func sortedKeys(m map[string]bool) []string {
	out := []string{}
	for k := range m {
		out = append(out, k)
	}
	sort.Strings(out)
	return out
}

// ---------------------------------------------------------------------------------------------------------------
// callee scan: writes to non-local roots in the plain functions reachable from the closure

type pkgFuncs struct {
	dir   string
	files map[string]*ast.File
	funcs map[string]*ast.FuncDecl
	fileOf map[*ast.FuncDecl]*ast.File
}

var pkgCache = map[string]*pkgFuncs{}

func loadPkg(dir string) *pkgFuncs {
	if p, ok := pkgCache[dir]; ok {
		return p
	}
	p := &pkgFuncs{dir: dir, files: map[string]*ast.File{}, funcs: map[string]*ast.FuncDecl{}, fileOf: map[*ast.FuncDecl]*ast.File{}}
	pkgCache[dir] = p
	ents, err := os.ReadDir(dir)
	if err != nil {
		return p
	}
	for _, e := range ents {
		n := e.Name()
		if e.IsDir() || !strings.HasSuffix(n, ".go") || strings.HasSuffix(n, "_test.go") {
			continue
		}
		f, err := parser.ParseFile(fset, filepath.Join(dir, n), nil, 0)
		if err != nil {
			continue
		}
		p.files[n] = f
		for _, d := range f.Decls {
			if fd, ok := d.(*ast.FuncDecl); ok && fd.Recv == nil && fd.Body != nil {
				p.funcs[fd.Name.Name] = fd
				p.fileOf[fd] = f
			}
		}
	}
	return p
}

const modulePath = "github.com/flowmatters/openwater-core"

// methods that only read their receiver (array interfaces of package data and a few std types)
var readOnlyMethods = map[string]bool{"Get": true, "Get1": true, "Get2": true, "Get3": true, "Len": true, "Len1": true, "Shape": true,
	"NDims": true, "NewIndex": true, "Index": true, "Contiguous": true, "Slice": true, "Unroll": true, "Maximum": true, "Minimum": true,
	"String": true, "Error": true}

func scanCallees(root string, s *Site, dir string, start []string, startImports map[string]string) {
	type item struct {
		dir, name string
	}
	seen := map[item]bool{}
	var queue []item
	push := func(dir string, imports map[string]string, name string) {
		if i := strings.Index(name, "."); i >= 0 {
			p, ok := imports[name[:i]]
			if !ok || !strings.HasPrefix(p, modulePath+"/") {
				return
			}
			dir, name = filepath.Join(root, strings.TrimPrefix(p, modulePath+"/")), name[i+1:]
		}
		it := item{dir, name}
		if !seen[it] {
			seen[it] = true
			queue = append(queue, it)
		}
	}
	for _, n := range start {
		push(dir, startImports, n)
	}
	for len(queue) > 0 {
		it := queue[0]
		queue = queue[1:]
		p := loadPkg(it.dir)
		fd := p.funcs[it.name]
		if fd == nil {
			continue
		}
		s.CalleesFound++
		file := p.fileOf[fd]
		imports := importsOf(file)
		rel, _ := filepath.Rel(root, fset.Position(fd.Pos()).Filename)
		local := func(id *ast.Ident) bool {
			return id.Name == "_" || (id.Obj != nil && id.Obj.Kind == ast.Var && within(id.Obj.Pos(), fd))
		}
		report := func(n ast.Node, id *ast.Ident) {
			s.CalleeWrites = append(s.CalleeWrites, CalleeWrite{Func: it.name, Var: id.Name,
				Pos: fmt.Sprintf("%s:%d", filepath.ToSlash(rel), line(n)), Text: show(n)})
		}
		ast.Inspect(fd.Body, func(x ast.Node) bool {
			switch v := x.(type) {
			case *ast.AssignStmt:
				if v.Tok != token.DEFINE {
					for _, l := range v.Lhs {
						if id := rootIdent(l); id != nil && !local(id) {
							if _, isPkg := imports[id.Name]; !isPkg || id.Obj != nil {
								report(v, id)
							} else if _, ok := l.(*ast.SelectorExpr); ok {
								report(v, id) // otherpkg.Var = …
							}
						}
					}
				}
			case *ast.IncDecStmt:
				if id := rootIdent(v.X); id != nil && !local(id) {
					report(v, id)
				}
			case *ast.CallExpr:
				switch f := v.Fun.(type) {
				case *ast.Ident:
					if f.Name == "copy" && f.Obj == nil && len(v.Args) == 2 {
						if id := rootIdent(v.Args[0]); id != nil && !local(id) {
							report(v, id)
						}
					}
					if f.Obj == nil && !builtins[f.Name] || (f.Obj != nil && f.Obj.Kind == ast.Fun) {
						push(it.dir, imports, f.Name)
					}
				case *ast.SelectorExpr:
					if x, ok := f.X.(*ast.Ident); ok && x.Obj == nil {
						if _, isPkg := imports[x.Name]; isPkg {
							push(it.dir, imports, x.Name+"."+f.Sel.Name)
							return true
						}
					}
					if mutating[f.Sel.Name] {
						if id := rootIdent(f.X); id != nil && !local(id) {
							if _, isPkg := imports[id.Name]; !isPkg || id.Obj != nil {
								report(v, id)
							}
						}
					} else if id := rootIdent(f.X); id != nil && !local(id) && id.Obj != nil && id.Obj.Kind == ast.Var && !readOnlyMethods[f.Sel.Name] {
						// any other method called on a package-level variable (sync.Map.Store / LoadOrStore, a mutex, a pool, a cache
						// object …): state shared between cells, models and calls. Methods known to only read an array are exempt.
						report(v, id)
					}
				}
			}
			return true
		})
	}
}

// ---------------------------------------------------------------------------------------------------------------
// template expansion on synthetic specs

type kv struct {
	Key   string
	Value string
}

type tParam struct {
	Name           string
	Units          string
	Position       int
	Default        float64
	Description    string
	Range          []float64
	IsDimension    bool
	Dimensions     []string
	Dimensionality int
}

type tFlags struct {
	GenerateStruct, GenerateVector, GenerateInit, GenerateExtractStates, ZeroStates, PassOutputsAsParams bool
}

type tSpec struct {
	Filename, Name, Package string
	Inputs, States, Outputs, Parameters []kv
	Dimensions     []string
	ParameterSpecs []tParam
	Flags          tFlags
	SingleFunc, InitFunc, PackStatsFunc, ExtractStatesFunc string
}

func templateVariants(root string) (map[string]string, error) {
	path := filepath.Join(root, "pre", "ow-specgen", "generated_struct.got")
	src, err := os.ReadFile(path)
	if err != nil {
		return nil, err
	}
	tmpl, err := template.New("t").Funcs(template.FuncMap{"inc": func(n int) int { return n + 1 }, "lower": strings.ToLower}).Parse(string(src))
	if err != nil {
		return nil, err
	}
	out := map[string]string{}
	for mask := 0; mask < 16; mask++ {
		extract, asParams, tables, states := mask&1 != 0, mask&2 != 0, mask&4 != 0, mask&8 != 0
		if !extract && !states {
			continue // a custom extract/pack function for a model without states: the template has no such expansion (`:= f(initialStates)` with nothing on the left)
		}
		sp := tSpec{Filename: "synthetic.go", Name: "Synth", Package: "synth",
			Inputs:  []kv{{"InA", ""}, {"InB", ""}},
			Outputs: []kv{{"OutA", ""}, {"OutB", ""}},
			SingleFunc: "synthKernel", InitFunc: "synthInit", PackStatsFunc: "synthPack", ExtractStatesFunc: "synthExtract"}
		sp.Flags = tFlags{GenerateStruct: true, GenerateVector: true, ZeroStates: true, GenerateExtractStates: extract, PassOutputsAsParams: asParams}
		if states {
			sp.States = []kv{{"StA", ""}, {"StB", ""}}
		}
		sp.ParameterSpecs = []tParam{{Name: "PA", Range: []float64{0, 1}, Dimensionality: 1}}
		sp.Parameters = []kv{{"PA", ""}}
		if tables {
			sp.Dimensions = []string{"nPts"}
			sp.ParameterSpecs = append(sp.ParameterSpecs,
				tParam{Name: "nPts", Range: []float64{0, 1}, IsDimension: true, Dimensionality: 1},
				tParam{Name: "Tab", Range: []float64{0, 1}, Dimensions: []string{"nPts"}, Dimensionality: 2})
			sp.Parameters = append(sp.Parameters, kv{"nPts", ""}, kv{"Tab", ""})
		}
		var b bytes.Buffer
		if err := tmpl.Execute(&b, sp); err != nil {
			return nil, err
		}
		name := fmt.Sprintf("pre/ow-specgen/generated_struct.got[extractStates=%v,outputsAsParams=%v,tables=%v,states=%v]", extract, asParams, tables, states)
		out[name] = b.String()
	}
	return out, nil
}

// ---------------------------------------------------------------------------------------------------------------

func goFuncSites(file *ast.File) map[*ast.GoStmt]*ast.FuncDecl {
	out := map[*ast.GoStmt]*ast.FuncDecl{}
	for _, d := range file.Decls {
		fd, ok := d.(*ast.FuncDecl)
		if !ok || fd.Body == nil {
			continue
		}
		ast.Inspect(fd.Body, func(x ast.Node) bool {
			if g, ok := x.(*ast.GoStmt); ok {
				out[g] = fd
			}
			return true
		})
	}
	return out
}

func readCellDims(root string, facts *Facts) {
	facts.CellDims = map[string]int{}
	p := loadPkg(filepath.Join(root, "sim"))
	for _, f := range p.files {
		for _, d := range f.Decls {
			g, ok := d.(*ast.GenDecl)
			if !ok || (g.Tok != token.CONST && g.Tok != token.VAR) {
				continue
			}
			for _, sp := range g.Specs {
				vs := sp.(*ast.ValueSpec)
				for i, n := range vs.Names {
					if strings.HasPrefix(n.Name, "DIM") && strings.HasSuffix(n.Name, "_CELL") {
						val := -1
						if i < len(vs.Values) {
							if b, ok := vs.Values[i].(*ast.BasicLit); ok {
								if k, err := strconv.Atoi(b.Value); err == nil {
									val = k
								}
							}
						}
						if g.Tok == token.VAR {
							val = -2 // a variable, not a constant
						}
						facts.CellDims[n.Name] = val
					}
				}
			}
		}
	}
}

func violations(f *Facts) {
	add := func(file, rule, detail string) {
		f.Violations = append(f.Violations, Violation{file, rule, detail})
	}
	for k, v := range f.CellDims {
		// only the state and output arrays are written per cell; DIMI_CELL/DIMP_CELL position does not matter for writes
		if (k == "DIMS_CELL" || k == "DIMO_CELL" || k == "DIMI_CELL") && v != 0 {
			add("sim/runnable.go", "cell-dim", fmt.Sprintf("%s = %d (the cell coordinate is assumed to be the first one)", k, v))
		}
	}
	for _, k := range []string{"DIMS_CELL", "DIMO_CELL", "DIMI_CELL"} {
		if _, ok := f.CellDims[k]; !ok {
			add("sim/runnable.go", "cell-dim", k+" not found")
		}
	}
	for _, e := range f.Errors {
		add("(tree)", "extract", e)
	}
	if f.WrapperFiles != f.WrapperSites {
		add("models", "coverage", fmt.Sprintf("%d wrapper files with a Run method but %d analysed goroutine sites", f.WrapperFiles, f.WrapperSites))
	}
	if f.TemplateSites != f.TemplateVariants || f.TemplateVariants == 0 {
		add("pre/ow-specgen/generated_struct.got", "coverage", fmt.Sprintf("%d of %d template variants analysed", f.TemplateSites, f.TemplateVariants))
	}
	for i := range f.Sites {
		s := &f.Sites[i]
		for _, e := range s.Events {
			what := fmt.Sprintf("line %d: %s", e.Line, e.Text)
			switch e.Access {
			case "assign", "elemAssign", "addr":
				add(s.File, "shared-write", fmt.Sprintf("%s of %s %s — %s", e.Access, e.Root, e.Var, what))
			case "call":
				if mutating[e.Method] {
					own := e.Root == "viewOwn" || (e.Root == "captured" && (e.Loc == "ownLit" || e.Loc == "ownVec"))
					if !own {
						add(s.File, "shared-write", fmt.Sprintf("%s on %s %s with location class %s — %s", e.Method, e.Root, e.Var, e.Loc, what))
					}
				}
				if e.Loc == "sharedVec" {
					add(s.File, "shared-loc", fmt.Sprintf("%s on %s takes a location vector shared between goroutines — %s", e.Method, e.Var, what))
				}
			case "arg":
				if e.Scalar || e.Var == s.Chan {
					continue
				}
				ok := false
				if e.IsMethod {
					switch e.Method {
					case "Slice":
						ok = e.ArgPos == 1 || e.ArgPos == 2
					case "ApplySlice":
						ok = e.ArgPos == 1
					case "Reshape", "MustReshape", "ReshapeFast":
						ok = e.ArgPos == 0
					}
				}
				if !ok {
					add(s.File, "shared-arg", fmt.Sprintf("shared %s passed as argument %d of %s — %s", e.Var, e.ArgPos, e.Method, what))
				}
			case "recv":
				add(s.File, "join", "receive inside the closure — "+what)
			case "send":
				if e.Var != s.Chan {
					add(s.File, "join", "send on another channel — "+what)
				}
			}
		}
		if s.CellParam == "" {
			add(s.File, "loop-var", "no closure parameter receives the loop variable")
		}
		if s.CapturesLoopVar {
			add(s.File, "loop-var", fmt.Sprintf("the closure uses the loop variable(s) %v directly", s.LoopVars))
		}
		if len(s.LoopBodyVarsCaptured) > 0 {
			add(s.File, "loop-var", fmt.Sprintf("the closure captures variables declared in the loop body: %v", s.LoopBodyVarsCaptured))
		}
		for _, u := range s.Unsupported {
			add(s.File, "unsupported", u)
		}
		if s.Chan == "" || !s.SendTail || s.Sends < 1 || s.ReturnsInClosure > 0 {
			add(s.File, "join", fmt.Sprintf("closure must end every path with exactly one send on the done channel (chan=%q sends=%d tail=%v returns=%d)",
				s.Chan, s.Sends, s.SendTail, s.ReturnsInClosure))
		}
		if s.Kind != "models" && s.Sends != 1 {
			add(s.File, "join", fmt.Sprintf("%d send statements in the closure (exactly one expected)", s.Sends))
		}
		if !(s.LaunchForm == "counted" || s.LaunchForm == "counter") || !s.GoTopLevelOnce || !s.LaunchLoopClean || s.CountReassigned {
			add(s.File, "join", fmt.Sprintf("number of launched goroutines not determined (form=%s count=%q goTopLevelOnce=%v loopClean=%v countReassigned=%v)",
				s.LaunchForm, s.LaunchCount, s.GoTopLevelOnce, s.LaunchLoopClean, s.CountReassigned))
		}
		if !s.RecvLoopFound || !s.SameBound || s.RecvPerIter != 1 || !s.RecvLoopClean || s.OtherChanUses != 0 {
			add(s.File, "join", fmt.Sprintf("the parent must receive exactly %q times after the loop (found=%v bound=%q same=%v recvPerIter=%d clean=%v otherChanUses=%d)",
				s.LaunchCount, s.RecvLoopFound, s.RecvBound, s.SameBound, s.RecvPerIter, s.RecvLoopClean, s.OtherChanUses))
		}
		for _, w := range s.CalleeWrites {
			add(s.File, "callee-global-write", fmt.Sprintf("%s writes non-local %s at %s: %s", w.Func, w.Var, w.Pos, w.Text))
		}
	}
	if f.Violations == nil {
		f.Violations = []Violation{}
	}
}

func main() {
	jsonOut := flag.String("json", "", "write the facts as JSON to this file (default: stdout)")
	leanOut := flag.String("lean", "", "write the facts as Lean data to this file")
	flag.Parse()
	root := os.Getenv("OW_REPO")
	if flag.NArg() > 0 {
		root = flag.Arg(0)
	}
	if root == "" {
		root = "/repo"
	}
	root, _ = filepath.Abs(root)
	facts := &Facts{Root: root, Sites: []Site{}, GoStmts: []GoStmtRef{}, Errors: []string{}, InitPerCell: []string{}}
	readCellDims(root, facts)

	var files []string
	filepath.Walk(root, func(p string, info os.FileInfo, err error) error {
		if err != nil {
			return nil
		}
		if info.IsDir() {
			if info.Name() == ".git" || info.Name() == "vendor" || info.Name() == "testdata" {
				return filepath.SkipDir
			}
			return nil
		}
		if strings.HasSuffix(p, ".go") && !strings.HasSuffix(p, "_test.go") {
			files = append(files, p)
		}
		return nil
	})
	sort.Strings(files)
	for _, p := range files {
		rel, _ := filepath.Rel(root, p)
		rel = filepath.ToSlash(rel)
		f, err := parser.ParseFile(fset, p, nil, 0)
		if err != nil {
			facts.Errors = append(facts.Errors, fmt.Sprintf("%s: %v", rel, err))
			continue
		}
		parts := strings.Split(rel, "/")
		isWrapper := len(parts) == 3 && parts[0] == "models" && strings.HasPrefix(parts[2], "generated_")
		if isWrapper {
			for _, d := range f.Decls {
				if fd, ok := d.(*ast.FuncDecl); ok && fd.Recv != nil && fd.Name.Name == "Run" {
					facts.WrapperFiles++
				}
				if fd, ok := d.(*ast.FuncDecl); ok && fd.Recv != nil && fd.Name.Name == "InitialiseStates" && fd.Body != nil {
					perCell := false
					ast.Inspect(fd.Body, func(x ast.Node) bool {
						if loop, ok := x.(*ast.ForStmt); ok {
							ast.Inspect(loop.Body, func(y ast.Node) bool {
								if c, ok := y.(*ast.CallExpr); ok {
									if sel, ok := c.Fun.(*ast.SelectorExpr); ok && mutating[sel.Sel.Name] {
										perCell = true
									}
								}
								return true
							})
						}
						return true
					})
					if perCell {
						facts.InitPerCell = append(facts.InitPerCell, strings.TrimSuffix(funcName(fd), ".InitialiseStates"))
					}
				}
			}
		}
		gos := goFuncSites(f)
		var keys []*ast.GoStmt
		for g := range gos {
			keys = append(keys, g)
		}
		sort.Slice(keys, func(i, j int) bool { return keys[i].Pos() < keys[j].Pos() })
		for _, g := range keys {
			fd := gos[g]
			kind := ""
			if isWrapper && fd.Name.Name == "Run" {
				kind = "cells"
			} else if rel == "cmd/ow-sim/running.go" {
				kind = "models"
			}
			_, isLit := g.Call.Fun.(*ast.FuncLit)
			facts.GoStmts = append(facts.GoStmts, GoStmtRef{File: rel, Func: funcName(fd), Line: line(g), Site: kind != "" && isLit})
			if kind == "" {
				continue
			}
			if !isLit {
				facts.Errors = append(facts.Errors, fmt.Sprintf("%s:%d: go statement does not start a function literal", rel, line(g)))
				continue
			}
			s := safeAnalyseSite(f, rel, kind, fd, g, facts.CellDims)
			func() {
				defer func() {
					if r := recover(); r != nil {
						s.Unsupported = append(s.Unsupported, fmt.Sprintf("callee scan failed on a form the extractor does not know: %v", r))
					}
				}()
				scanCallees(root, s, filepath.Dir(p), s.Callees, importsOf(f))
			}()
			if kind == "cells" {
				facts.WrapperSites++
			}
			facts.Sites = append(facts.Sites, *s)
		}
	}
	// the template, in general
	vars, err := templateVariants(root)
	if err != nil {
		facts.Errors = append(facts.Errors, "template: "+err.Error())
	}
	var names []string
	for n := range vars {
		names = append(names, n)
	}
	sort.Strings(names)
	facts.TemplateVariants = len(names)
	for _, n := range names {
		f, err := parser.ParseFile(fset, n, vars[n], 0)
		if err != nil {
			facts.Errors = append(facts.Errors, fmt.Sprintf("%s: expansion does not parse: %v", n, err))
			continue
		}
		for g, fd := range goFuncSites(f) {
			if fd.Name.Name != "Run" {
				continue
			}
			if _, ok := g.Call.Fun.(*ast.FuncLit); !ok {
				continue
			}
			s := safeAnalyseSite(f, n, "template", fd, g, facts.CellDims)
			facts.TemplateSites++
			facts.Sites = append(facts.Sites, *s)
		}
	}
	violations(facts)

	js, _ := json.MarshalIndent(facts, "", " ")
	if *jsonOut != "" {
		if err := os.WriteFile(*jsonOut, append(js, '\n'), 0o644); err != nil {
			fmt.Fprintln(os.Stderr, "owrunfacts:", err)
			os.Exit(2)
		}
	} else {
		os.Stdout.Write(append(js, '\n'))
	}
	if *leanOut != "" {
		if err := os.WriteFile(*leanOut, []byte(leanSource(facts)), 0o644); err != nil {
			fmt.Fprintln(os.Stderr, "owrunfacts:", err)
			os.Exit(2)
		}
	}
}
