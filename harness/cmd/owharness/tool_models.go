package main

import (
	"fmt"
	"sort"

	"github.com/flowmatters/openwater-core/sim"
)

// `owharness models`: catalogue models, marking those that have a case generator.
func init() {
	tools["models"] = func(args []string) {
		var names []string
		for n := range sim.Catalog {
			names = append(names, n)
		}
		sort.Strings(names)
		for _, n := range names {
			g := "-"
			if modelGens[n] != nil {
				g = "gen"
				if modelGens[n].States != nil {
					g = "gen+states"
				}
			}
			d := sim.Catalog[n]().Description()
			fmt.Printf("%s %s states=%d inputs=%d outputs=%d params=%d\n", n, g, len(d.States), len(d.Inputs), len(d.Outputs), len(d.Parameters))
		}
	}
}
