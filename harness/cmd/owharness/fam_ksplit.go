package main

// KSPLIT family (C06): the same period simulated in one call, and in consecutive calls that carry the returned final
// states forward as initial states.
//   body: <K call> nsplit k1 … kn            (cut positions, strictly increasing, inside 1..T-1)
//   impl: ok <whole result> ## <split result: concatenated outputs, last final states>  |  panic <class>

import (
	"fmt"
	"math"
	"strings"
)

func init() {
	register(&Family{Name: "KSPLIT", Gen: genKSplit, Exec: execKSplit, Oracle: oracleKSplit})
}

func fmtKBody(r *KResult) string { return strings.TrimPrefix(r.Format(), "ok ") }

func execKSplit(body string) string {
	t := newTokenReader(body)
	k := readKCall(t)
	cuts := t.ints()
	whole := k.Run()
	// consecutive segments
	T := k.T()
	bounds := append(append([]int{0}, cuts...), T)
	var outs [][]float64
	st := k.S
	init := k.Init
	var last *KResult
	for j := 0; j+1 < len(bounds); j++ {
		seg := &KCall{Model: k.Model, Init: init, P: k.P, S: st}
		seg.In = make([][]float64, len(k.In))
		for i := range k.In {
			seg.In[i] = k.In[i][bounds[j]:bounds[j+1]]
		}
		last = seg.Run()
		if outs == nil {
			outs = make([][]float64, len(last.Out))
		}
		for o := range last.Out {
			outs[o] = append(outs[o], last.Out[o]...)
		}
		st = last.S
		init = false
	}
	split := &KResult{Status: "ok", Out: outs, S: st}
	return "ok " + fmtKBody(whole) + " ## " + fmtKBody(split)
}

// splitTolerance: models whose outputs may differ between the one-call and the split run by more than round-off
// (StorageRouting: the root finder's starting point is not part of the state; the property allows the solver tolerance).
var splitTolerance = map[string]float64{"StorageRouting": 1e-6}

func oracleKSplit(c *Ctx, id int, body, impl string) {
	if !strings.HasPrefix(impl, "ok ") {
		return
	}
	halves := strings.SplitN(strings.TrimPrefix(impl, "ok "), " ## ", 2)
	if len(halves) != 2 {
		return
	}
	c.Stats.OracleEvals++
	model := strings.Fields(body)[0]
	a := parseKResult("ok " + halves[0])
	b := parseKResult("ok " + halves[1])
	tol := splitTolerance[model]
	scale := math.Max(maxAbs(a.Out...), maxAbs(a.S))
	same := func(x, y float64) bool {
		if math.Float64bits(x) == math.Float64bits(y) || (math.IsNaN(x) && math.IsNaN(y)) || x == y {
			return true
		}
		// "to floating-point round-off": the two computations are the same arithmetic, so they are bit-identical
		// unless the model is in splitTolerance
		// StorageRouting: every solve ends within massBalanceLimit = 1e-3 m³ of its own balance; the one-call and the split
		// run start their searches from different index flows, so storages may differ by a few solver tolerances
		return tol > 0 && (math.Abs(x-y) <= tol*math.Max(scale, 1) || math.Abs(x-y) <= 5e-3)
	}
	for o := range a.Out {
		for t := range a.Out[o] {
			if !same(a.Out[o][t], b.Out[o][t]) {
				c.OracleFail(id, model+":hotstart", fmt.Sprintf("output %d at timestep %d: one call gives %v, split run gives %v", o, t, a.Out[o][t], b.Out[o][t]), body)
				return
			}
		}
	}
	if len(a.S) != len(b.S) {
		c.OracleFail(id, model+":hotstart", "final state vectors have different lengths", body)
		return
	}
	for i := range a.S {
		if !same(a.S[i], b.S[i]) {
			c.OracleFail(id, model+":hotstart", fmt.Sprintf("final state %d: one call gives %v, split run gives %v", i, a.S[i], b.S[i]), body)
			return
		}
	}
}

func genKSplit(c *Ctx) {
	models := modelsArg(c)
	n := parseI(c.Arg("n", "40"))
	if c.Tier == "thorough" {
		n *= 15
	}
	c.Stats.Rule = "per stateful model: a K call (parameters in range, segment-built series) and cut positions: every single cut for T ≤ 12, else 1–4 random cuts incl. 1-step segments; non-trivial = at least one cut and non-zero inputs; distinct by line"
	for _, m := range models {
		g := modelGens[m]
		if g == nil {
			c.Stats.Notes = append(c.Stats.Notes, "no generator for model "+m+" (skipped)")
			continue
		}
		if m == "Storage" {
			// corpus: a long STIFF reservoir run (release follows the volume with a time constant of about a day, ~2000 sub-steps
			// per daily step, > 600000 sub-steps in one call): anything accumulated over a whole call shows only here
			const nT = 420
			k := storageLongStiffCase(nT)
			c.Do(fmt.Sprintf("%s 1 %d", k.Body(), nT/2), true)
			c.Stats.Count("corpus:storage-long-stiff")
		}
		for i := 0; i < n; i++ {
			k := drawCall(c.R, g, c.Tier)
			T := k.T()
			if T < 2 {
				continue
			}
			if T <= 12 && c.R.Chance(0.5) {
				for cut := 1; cut < T; cut++ {
					c.Do(fmt.Sprintf("%s 1 %d", k.Body(), cut), maxAbs(k.In...) > 0)
					c.Stats.Count("single_cut_exhaustive")
				}
				continue
			}
			nc := c.R.Range(1, 4)
			if nc > T-1 {
				nc = T - 1
			}
			set := map[int]bool{}
			for len(set) < nc {
				if c.R.Chance(0.3) {
					set[1+c.R.Intn(minI(3, T-1))] = true // 1-step segments at the start
				} else {
					set[c.R.Range(1, T-1)] = true
				}
			}
			var cuts []int
			for t := 1; t < T; t++ {
				if set[t] {
					cuts = append(cuts, t)
				}
			}
			c.Do(fmt.Sprintf("%s %s", k.Body(), Is(cuts)), maxAbs(k.In...) > 0)
			c.Stats.Count(fmt.Sprintf("cuts:%d", len(cuts)))
			c.Stats.Count("model:" + m)
		}
	}
}
