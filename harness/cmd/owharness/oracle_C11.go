package main

import (
	"fmt"
	"math"
)

// Oracles of property C11 (flow routing): the statement's own predicates evaluated on the outputs of one real Run.

const srMassBalanceLimit = 1e-3 // models/routing/storage_routing.go: the solver's tolerance on the mass-balance residual (m³)

func init() {
	regOracle("C11", "StorageRouting", oracleStorageRouting)
	regOracle("C11", "Muskingum", oracleMuskingum)
	regOracle("C11", "Lag", oracleLag)
}

// ---------------------------------------------------------------------------------------------
// StorageRouting

// srRegion: the property's parameter region. Returns the effective (snapped) bias and power.
func srRegion(p []float64) (bias, k, m, area, dead, dt float64, ok bool) {
	bias, k, m, area, dead, dt = p[0], p[1], p[2], p[3], p[4], p[5]
	if math.Abs(bias) < 0.001 {
		bias = 0
	} else if math.Abs(m-1) < 0.001 {
		m = 1
	}
	ok = k > 0 && m > 0 && m <= 1 && dead >= 0 && area >= 0 && dt > 0 && (bias == 0 || (bias > 0 && 2*k*bias <= dt && bias < 0.999))
	return
}

// srUnconvergedScope: an unconverged root search is a NEW failure for routing powers m ≥ 0.2 (none exists on the pinned code);
// for smaller powers it is known finding KF-C11-StorageRouting-unconverged-small-power (20 iterations of halving + secant +
// Newton contract the bracket by a factor ≈ (1−m) per iteration in log space only; Lean: root_not_converged_counterexample).
func srUnconvergedScope(m float64) string {
	if m < 0.2 {
		return "StorageRouting:unconverged-small-power"
	}
	return "StorageRouting:unconverged"
}

func oracleStorageRouting(c *Ctx, id int, k *KCall, r *KResult, body string) {
	bias, rk, m, area, dead, dt, ok := srRegion(k.P)
	if !ok || !allFinite(k.In...) {
		c.Stats.OracleEvals--
		return
	}
	for _, s := range k.In {
		for _, v := range s {
			if v < 0 {
				c.Stats.OracleEvals--
				return
			}
		}
	}
	s0 := 0.0
	if !k.Init {
		s0 = k.S[0]
	}
	if s0 < 0 || math.IsNaN(s0) || math.IsInf(s0, 0) {
		c.Stats.OracleEvals--
		return
	}
	if r.Status != "ok" {
		c.OracleFail(id, "StorageRouting", "parameters and inputs in range but the run did not complete: "+r.Status, body)
		return
	}
	inflow, lateral, rain, evap := k.In[0], k.In[1], k.In[2], k.In[3]
	outflow, storage := r.Out[0], r.Out[1]
	prev := s0
	for t := range inflow {
		q, s := outflow[t], storage[t]
		if !(q >= 0) || !(s >= 0) {
			c.OracleFail(id, "StorageRouting", fmt.Sprintf("step %d: negative or NaN outflow %v / storage %v", t, q, s), body)
			return
		}
		// net evaporation actually taken: limited by the water present (as the code defines it)
		nef := math.Min(math.Max(0, prev)/dt+inflow[t], area*((evap[t]-rain[t])/dt))
		want := prev + (inflow[t]+lateral[t]-nef-q)*dt
		// tolerance: the solver's own massBalanceLimit (its accepted residual, m³) + rounding of the terms (1e-9 relative)
		scale := math.Max(math.Max(math.Abs(prev), math.Abs(s)), (inflow[t]+lateral[t]+math.Abs(nef)+q)*dt)
		tol := srMassBalanceLimit*(1+1e-6) + 1e-9*scale
		if math.Abs(s-want) > tol {
			// attribution: the zero-outflow exits reported SIndex(minQI) (= dead storage for zero bias); an index flow
			// returned by FindRoot's convergence-in-x exit leaves SIndex above the water present (outflow clamps to 0)
			scope := "StorageRouting"
			if q == 0 && bias == 0 && s == dead {
				scope = "StorageRouting:zero-outflow-storage"
			} else if q == 0 && bias > 0 && s > want {
				scope = "StorageRouting:zero-outflow-storage"
			} else if q == 0 && s > want {
				scope = srUnconvergedScope(m)
			}
			c.OracleFail(id, scope, fmt.Sprintf("step %d: water balance does not close: storage %v, but previous storage %v + (inflow %v + lateral %v − net evaporation %v − outflow %v)·%v = %v (difference %g, tolerance %g)",
				t, s, prev, inflow[t], lateral[t], nef, q, dt, want, s-want, tol), body)
			return
		}
		// S = k·Q^m + dead within the solver tolerance, for zero bias and positive outflow: the reported storage must be
		// the storage of an index flow q* with |q* − Q|·dt ≤ massBalanceLimit (the residual the solver accepts).
		// (skipped when the volumes of the step exceed 1e11 m³: there the rounding error of the solver's own mass-balance
		// residual, ≥ 4·2⁻⁵³·1e11 ≈ 4e-5, is no longer small against its tolerance of 1e-3 m³)
		if bias == 0 && q > 0 && math.Max(math.Abs(prev), q*dt) <= 1e11 {
			// Admissible: |S − (k·Q^m + dead)| ≤ massBalanceLimit (the tolerance is a volume, m³), or S is the storage of an
			// index flow q* with |q* − Q|·dt ≤ massBalanceLimit (the residual the solver accepts, expressed in flow).
			lim := srMassBalanceLimit * (1 + 1e-6)
			d := lim / dt
			sq := rk*math.Pow(q, m) + dead
			lo := math.Min(rk*math.Pow(math.Max(0, q-d), m)+dead, sq-lim)
			hi := math.Max(rk*math.Pow(q+d, m)+dead, sq+lim)
			slack := 1e-11 * math.Max(math.Max(s, dead), 1)
			c.Stats.Count("oracle:SQ-checked")
			if s < lo-slack || s > hi+slack {
				scope := srUnconvergedScope(m)
				if s > hi && lateral[t] > 0 && math.Abs(s-lateral[t]*dt) <= 1e-9*s+lim {
					scope = "StorageRouting:full-drain-lateral"
				}
				c.OracleFail(id, scope, fmt.Sprintf("step %d: bias 0, outflow %v > 0: storage %v is not k·Q^m + dead = %v·%v^%v + %v = %v within the solver tolerance (admissible [%v, %v]); lateral=%v prevStorage=%v",
					t, q, s, rk, q, m, dead, sq, lo, hi, lateral[t], prev), body)
				return
			}
		}
		prev = s
	}
	if len(r.S) == 3 && len(storage) > 0 && r.S[0] != storage[len(storage)-1] {
		c.OracleFail(id, "StorageRouting", fmt.Sprintf("final state S=%v differs from the last reported storage %v", r.S[0], storage[len(storage)-1]), body)
	}
}

// ---------------------------------------------------------------------------------------------
// Muskingum

func oracleMuskingum(c *Ctx, id int, k *KCall, r *KResult, body string) {
	K, X, dt := k.P[0], k.P[1], k.P[2]
	// stable region 2KX ≤ dt ≤ 2K(1−X) (with a rounding allowance of the bounds themselves)
	if !(K > 0 && X >= 0 && X <= 0.5 && 2*K*X <= dt*(1+1e-12) && dt <= 2*K*(1-X)*(1+1e-12)) || !allFinite(k.In...) {
		c.Stats.OracleEvals--
		return
	}
	if r.Status != "ok" {
		c.OracleFail(id, "Muskingum", "parameters in the stable region but the run did not complete: "+r.Status, body)
		return
	}
	i0, o0, s0 := 0.0, 0.0, 0.0
	if !k.Init {
		s0, i0, o0 = k.S[0], k.S[1], k.S[2]
	}
	T := k.T()
	tot := make([]float64, T) // all water entering the reach
	for t := 0; t < T; t++ {
		tot[t] = k.In[0][t] + k.In[1][t]
	}
	out := r.Out[0]
	// exact discrete budget: dt·Σ[(I_t+I_{t−1})/2 − (O_t+O_{t−1})/2] = K[X(I_T−I_0) + (1−X)(O_T−O_0)]
	terms := make([]float64, 0, 2*T)
	pi, po := i0, o0
	big := math.Max(math.Abs(i0), math.Abs(o0))
	for t := 0; t < T; t++ {
		terms = append(terms, dt*(tot[t]+pi)/2, -dt*(out[t]+po)/2)
		big = math.Max(big, math.Max(math.Abs(tot[t]), math.Abs(out[t])))
		pi, po = tot[t], out[t]
	}
	lhs := sum(terms)
	rhs := K * (X*(pi-i0) + (1-X)*(po-o0))
	// tolerance: 1e-9 × the largest term that enters either side (T steps of dt·flow, K·flow)
	tol := 1e-9 * big * (dt*float64(T) + K)
	if math.Abs(lhs-rhs) > tol {
		c.OracleFail(id, "Muskingum", fmt.Sprintf("volume budget does not close: dt·Σ(mean inflow+lateral − mean outflow) = %v but storage change K[X·ΔI+(1−X)·ΔO] = %v (difference %g, tolerance %g)", lhs, rhs, lhs-rhs, tol), body)
		return
	}
	// a steady flow passes unchanged
	steady := T > 0 && i0 == o0
	for t := 0; t < T && steady; t++ {
		steady = tot[t] == i0
	}
	if steady {
		c.Stats.Count("oracle:steady")
		for t := 0; t < T; t++ {
			if !closeTo(out[t], i0, 1e-12*float64(t+2), 0) {
				c.OracleFail(id, "Muskingum", fmt.Sprintf("steady inflow+lateral %v (carried-over inflow and outflow equal) but outflow[%d] = %v", i0, t, out[t]), body)
				return
			}
		}
	}
	// carried-over states: S untouched, prevInflow = last total inflow, prevOutflow = last outflow
	if T > 0 && len(r.S) == 3 && (r.S[0] != s0 || r.S[1] != tot[T-1] || r.S[2] != out[T-1]) {
		c.OracleFail(id, "Muskingum", fmt.Sprintf("final states %v, expected [%v %v %v]", r.S, s0, tot[T-1], out[T-1]), body)
	}
}

// ---------------------------------------------------------------------------------------------
// Lag

func oracleLag(c *Ctx, id int, k *KCall, r *KResult, body string) {
	lagF := k.P[0]
	if !(lagF >= 0) || lagF > 1e6 {
		c.Stats.OracleEvals--
		return
	}
	lag := int(lagF)
	var buf []float64
	if k.Init {
		buf = make([]float64, lag)
	} else {
		buf = k.S
	}
	if len(buf) < lag {
		c.Stats.OracleEvals-- // malformed state row: the property says nothing
		return
	}
	if r.Status != "ok" {
		c.OracleFail(id, "Lag", "valid lag and buffer but the run did not complete: "+r.Status, body)
		return
	}
	in := k.In[0]
	out := r.Out[0]
	T := len(in)
	for i := 0; i < T; i++ {
		want := 0.0
		if i < lag {
			want = buf[i]
		} else {
			want = in[i-lag]
		}
		if out[i] != want {
			c.OracleFail(id, "Lag", fmt.Sprintf("lag %d, series length %d: outflow[%d] = %v, expected %v (%s)", lag, T, i, out[i], want,
				map[bool]string{true: "carried-over buffer", false: "inflow delayed"}[i < lag]), body)
			return
		}
	}
	// final buffer = last `lag` elements of buffer ++ inflow; extra cells of a longer state row untouched
	all := append(append([]float64{}, buf[:lag]...), in...)
	want := append(append([]float64{}, all[len(all)-lag:]...), buf[lag:]...)
	if len(r.S) != len(want) {
		c.OracleFail(id, "Lag", fmt.Sprintf("final buffer has %d cells, expected %d", len(r.S), len(want)), body)
		return
	}
	for i := range want {
		if r.S[i] != want[i] {
			c.OracleFail(id, "Lag", fmt.Sprintf("lag %d, series length %d: final buffer[%d] = %v, expected %v", lag, T, i, r.S[i], want[i]), body)
			return
		}
	}
}
