package main

// Oracle for C13 (reservoir storage): the property's own predicate on ONE real Run call, using only the inputs and the
// outputs/states of the implementation (the oracle has its own table interpolation; it does not call the code under test).
//
//  balance    V[t] − V[t−1] = (inflow − outflow)·Δt + (rainfallVolume − evaporationVolume)·Δt   (the four reported series)
//  nonneg     V[t] ≥ 0, everything finite
//  final      final currentVolume = last reported volume; final level / area = table values at the final volume
//  release    outflow[t] within the envelope of the release rules over the volumes that can be traversed in the step;
//             = demand where the demand lies between the curves over that range; spill only if the full-supply volume
//             can be exceeded in the step
//
// Tolerances. The kernel accumulates the budget terms over N ≤ Δt/6+1 ≤ 14401 sub-steps in float64, each update with a
// relative rounding error ≤ 2^-53 of the largest operand: the budget closes to about N·2^-53 ≈ 1.6e-12 of the largest
// term. The oracle allows 1e-9 of the largest term (600× that), so it cannot fire on correct code, while every accounting
// error of interest (a missing sub-step, a unit factor) is many orders larger.

import (
	"fmt"
	"math"
)

// capped linear interpolation (oracle's own): below the first knot → first value, above the last → last value.
func c13Interp(xs, ys []float64, x float64) (float64, bool) {
	n := len(xs)
	if x <= xs[0] {
		return ys[0], true
	}
	if x >= xs[n-1] {
		return ys[n-1], true
	}
	for j := 1; j < n; j++ {
		if xs[j] >= x {
			x0, x1 := xs[j-1], xs[j]
			if x1 == x0 {
				return 0, false
			}
			f := (x - x0) / (x1 - x0)
			return ys[j-1]*(1-f) + ys[j]*f, true
		}
	}
	return 0, false
}

// min and max of the capped interpolant over [lo,hi] (attained at lo, hi or a knot in between)
func c13Range(xs, ys []float64, lo, hi float64) (mn, mx float64) {
	a, _ := c13Interp(xs, ys, lo)
	b, _ := c13Interp(xs, ys, hi)
	mn, mx = math.Min(a, b), math.Max(a, b)
	for i, x := range xs {
		if x >= lo && x <= hi {
			mn = math.Min(mn, ys[i])
			mx = math.Max(mx, ys[i])
		}
	}
	return
}

func c13StrictlyIncreasing(xs []float64) bool {
	for i := 1; i < len(xs); i++ {
		if !(xs[i] > xs[i-1]) {
			return false
		}
	}
	return true
}

func c13NonNeg(xss ...[]float64) bool {
	for _, xs := range xss {
		for _, x := range xs {
			if !(x >= 0) {
				return false
			}
		}
	}
	return true
}

func init() {
	regOracle("C13", "Storage", func(c *Ctx, id int, k *KCall, r *KResult, body string) {
		if r.Status != "ok" {
			c.Stats.Count("C13:" + r.Status)
			return
		}
		dt, n, levels, volumes, areas, minRel, maxRel := storageParts(k.P)
		if n < 1 {
			return
		}
		vmaxTable := volumes[0]
		for _, v := range volumes {
			if v > vmaxTable {
				vmaxTable = v
			}
		}
		T := k.T()
		V, Q, RV, EV := r.Out[0], r.Out[1], r.Out[2], r.Out[3]
		if vmaxTable <= 0 {
			// checkStorageConfiguration's early return: nothing is simulated, outputs and states are zero.
			c.Stats.Count("C13:config-invalid")
			if maxAbs(V, Q, RV, EV, r.S) != 0 {
				c.OracleFail(id, "Storage:config", "invalid configuration but non-zero outputs/states", body)
			}
			return
		}
		if !allFinite(V, Q, RV, EV, r.S) {
			c.OracleFail(id, "Storage:finite", "non-finite output or state", body)
			return
		}
		rain, pet, inflow, demand := k.In[0], k.In[1], k.In[2], k.In[3]
		vPrev := 0.0
		if !k.Init {
			vPrev = k.S[0]
		}
		strict := c13StrictlyIncreasing(volumes) && c13NonNeg(areas, minRel, maxRel, rain, pet, inflow, demand)
		for i := 0; i < n; i++ {
			if minRel[i] > maxRel[i] {
				strict = false
			}
		}
		if !strict {
			c.Stats.Count("C13:envelope-skipped(non-strict tables)")
		}
		vFull := volumes[n-1]
		maxSpill := minRel[n-1]
		amax, rhi := 0.0, 0.0
		for i := 0; i < n; i++ {
			amax = math.Max(amax, areas[i])
			rhi = math.Max(rhi, math.Max(minRel[i], maxRel[i]))
		}
		for t := 0; t < T; t++ {
			// ---- balance
			lhs := V[t] - vPrev
			rhs := (inflow[t]-Q[t])*dt + (RV[t]-EV[t])*dt
			scale := math.Max(math.Max(math.Abs(V[t]), math.Abs(vPrev)),
				math.Max(math.Max(math.Abs(inflow[t]*dt), math.Abs(Q[t]*dt)), math.Max(math.Abs(RV[t]*dt), math.Abs(EV[t]*dt))))
			if math.Abs(lhs-rhs) > 1e-9*scale+1e-12 {
				c.OracleFail(id, "Storage:balance",
					fmt.Sprintf("t=%d: V'-V=%g but (inflow-outflow)*dt+(rainVol-evapVol)*dt=%g (V=%g→%g inflow=%g outflow=%g rainfall=%gmm pet=%gmm reported rainVol=%g evapVol=%g dt=%g)",
						t, lhs, rhs, vPrev, V[t], inflow[t], Q[t], rain[t], pet[t], RV[t], EV[t], dt), body)
				return
			}
			// ---- non-negative
			if V[t] < 0 {
				c.OracleFail(id, "Storage:negative", fmt.Sprintf("t=%d: volume %g < 0", t, V[t]), body)
				return
			}
			// ---- release rules (envelope over the volumes that can be traversed in this step)
			if strict {
				rainRate := rain[t] / dt * 1e-3 * amax
				evapRate := pet[t] / dt * 1e-3 * amax
				vHigh := vPrev + (inflow[t]+rainRate)*dt
				vLow := vPrev - (math.Max(rhi, 2*maxSpill)+evapRate)*dt
				vHigh *= 1 + 1e-12
				aMin, aMax := c13Range(volumes, minRel, vLow, vHigh)
				bMin, bMax := c13Range(volumes, maxRel, vLow, vHigh)
				d := demand[t]
				lo := math.Max(aMin, math.Min(d, bMin))
				hi := math.Max(aMax, math.Min(d, bMax))
				spillHi := 0.0
				canSpill := vHigh > vFull
				if canSpill {
					spillHi = math.Max(2*maxSpill-lo, 0)
					c.Stats.Count("C13:step-can-spill")
				} else {
					c.Stats.Count("C13:step-cannot-spill")
				}
				tol := 1e-9*math.Max(math.Abs(Q[t]), math.Max(math.Abs(lo), math.Abs(hi)+spillHi)) + 1e-15
				if Q[t] < lo-tol {
					c.OracleFail(id, "Storage:release",
						fmt.Sprintf("t=%d: outflow %g below the release rules' lower envelope %g (demand %g, minRelease∈[%g,%g], maxRelease∈[%g,%g] over V∈[%g,%g])",
							t, Q[t], lo, d, aMin, aMax, bMin, bMax, vLow, vHigh), body)
					return
				}
				if Q[t] > hi+spillHi+tol {
					what := "above the release rules' upper envelope"
					if !canSpill {
						what = "above the release rules' upper envelope although the full-supply volume cannot be exceeded (spill below full supply)"
					}
					c.OracleFail(id, "Storage:release",
						fmt.Sprintf("t=%d: outflow %g %s %g (+spill allowance %g; demand %g, V∈[%g,%g], full supply %g)",
							t, Q[t], what, hi, spillHi, d, vLow, vHigh, vFull), body)
					return
				}
				if lo == hi && !canSpill {
					c.Stats.Count("C13:step-outflow-determined")
				}
			}
			vPrev = V[t]
		}
		// ---- final states
		if T > 0 {
			if r.S[0] != V[T-1] {
				c.OracleFail(id, "Storage:final", fmt.Sprintf("final currentVolume %g ≠ last reported volume %g", r.S[0], V[T-1]), body)
				return
			}
		}
		if c13StrictlyIncreasing(volumes) {
			lv, ok1 := c13Interp(volumes, levels, r.S[0])
			ar, ok2 := c13Interp(volumes, areas, r.S[0])
			if ok1 && !closeTo(r.S[1], lv, 1e-9, maxAbs(levels)*1e-3) {
				c.OracleFail(id, "Storage:final", fmt.Sprintf("final level %g ≠ table value %g at final volume %g", r.S[1], lv, r.S[0]), body)
				return
			}
			if ok2 && !closeTo(r.S[2], ar, 1e-9, maxAbs(areas)*1e-3) {
				c.OracleFail(id, "Storage:final", fmt.Sprintf("final area %g ≠ table value %g at final volume %g", r.S[2], ar, r.S[0]), body)
				return
			}
		}
	})
}
