package main

// CABI family (C03): the exported C entry point RunSingleModel of libopenwater.so, driven from a C program
// (harness/cabi/driver.c, buffers between guard zones), on the same cases as family W.
//   body: a W case (backend token ignored)
//   impl: ok <outputs and states as written into the caller's buffers> || frame=<ok|…> cells=<ok|capi≠goapi…>
// frame: guard zones intact and parameter/input buffers unchanged; cells: outputs and final states are bit-identical
// to the same case run through the Go API (family W's runW on Go-backed arrays).
// Needs env OW_CABI_DRIVER (built by the check's pre-step from the current tree).

import (
	"bufio"
	"fmt"
	"io"
	"os"
	"os/exec"
	"strings"
)

func init() {
	register(&Family{Name: "CABI", Gen: genCABI, Exec: execCABI, Oracle: oracleCABI})
}

type cabiProc struct {
	cmd *exec.Cmd
	in  io.WriteCloser
	out *bufio.Reader
}

var cabi *cabiProc

func cabiStart() (*cabiProc, error) {
	bin := os.Getenv("OW_CABI_DRIVER")
	if bin == "" {
		return nil, fmt.Errorf("OW_CABI_DRIVER not set")
	}
	cmd := exec.Command(bin)
	cmd.Env = append(os.Environ(), "GOTRACEBACK=single")
	in, err := cmd.StdinPipe()
	if err != nil {
		return nil, err
	}
	out, err := cmd.StdoutPipe()
	if err != nil {
		return nil, err
	}
	cmd.Stderr = nil
	if err := cmd.Start(); err != nil {
		return nil, err
	}
	return &cabiProc{cmd, in, bufio.NewReaderSize(out, 1<<20)}, nil
}

func execCABI(body string) (res string) {
	defer func() {
		if r := recover(); r != nil {
			res = "panic crash" // e.g. InitialiseStates panics in the calling goroutine: a C caller would die as well
		}
	}()
	if cabi == nil {
		p, err := cabiStart()
		must(err)
		cabi = p
	}
	w := parseWCall(body)
	if w.Init {
		// the caller must size the states buffer: ask the model (Go API) for the width of its initial states
		m := NewModel(w.Model)
		p, _ := mk2("g", w.Params, w.NSets)
		if d := m.FindDimensions(p); len(d) > 0 {
			m.InitialiseDimensions(d)
		}
		m.ApplyParameters(p)
		st := m.InitialiseStates(w.N)
		nS := st.Shape()[1]
		// rewrite the body's `init N nS` triple so the C driver allocates N×nS zeros
		body = rewriteInitWidth(body, w, nS)
	}
	if _, err := io.WriteString(cabi.in, body+"\n"); err != nil {
		cabi = nil
		return "panic other"
	}
	line, err := cabi.out.ReadString('\n')
	if err != nil {
		cabi.cmd.Wait()
		cabi = nil
		return "panic crash" // the library panicked inside the C caller's process
	}
	line = strings.TrimRight(line, "\n")
	parts := strings.Split(line, " | ")
	if len(parts) != 4 {
		return "bad-driver-output"
	}
	frame := "ok"
	if parts[3] != "canary=ok" {
		frame = "guard-zone-overwritten"
	}
	// parameters / inputs unchanged?
	var pb, ib strings.Builder
	pb.WriteString("P")
	grid(&pb, w.Params)
	ib.WriteString("I")
	cube(&ib, w.Inputs)
	if parts[1] != pb.String() {
		frame = "parameters-modified"
	} else if parts[2] != ib.String() {
		frame = "inputs-modified"
	}
	// the same case through the Go API
	cells := "ok"
	outs, states, _, _ := runW(w, "g")
	var gb strings.Builder
	fmt.Fprintf(&gb, "ok %d %d %d", len(outs), len(outs[0]), len(outs[0][0]))
	cube(&gb, outs)
	nS := 0
	if len(states) > 0 {
		nS = len(states[0])
	}
	fmt.Fprintf(&gb, " %d %d", len(states), nS)
	grid(&gb, states)
	if gb.String() != parts[0] {
		cells = "c-abi-result-differs-from-go-api-result"
	}
	return parts[0] + " || frame=" + frame + " cells=" + cells
}

// rewriteInitWidth replaces the `nS` token that follows `init N` in a W body (init=1 ⇒ no state values follow).
func rewriteInitWidth(body string, w *WCall, nS int) string {
	toks := strings.Fields(body)
	// position: Model backend spec(len+1) nRows nSets params nB nI T inputs init N nS
	pos := 2
	pos += 1 + len(w.Spec)
	pos += 2 + len(w.Params)*w.NSets
	pos += 3 + len(w.Inputs)*len(w.Inputs[0])*len(w.Inputs[0][0])
	// toks[pos] = init, toks[pos+1] = N, toks[pos+2] = nS
	toks[pos+2] = fmt.Sprint(nS)
	return strings.Join(toks, " ")
}

func oracleCABI(c *Ctx, id int, body, impl string) {
	c.Stats.OracleEvals++
	i := strings.Index(impl, " || ")
	if i < 0 {
		if strings.HasPrefix(impl, "panic") {
			c.Stats.Count("panicked")
		}
		return
	}
	verdict := impl[i+4:]
	model := strings.Fields(body)[0]
	if !strings.Contains(verdict, "frame=ok") {
		c.OracleFail(id, "CABI:"+model+":frame", "RunSingleModel touched memory outside its output/state buffers: "+verdict, body)
	} else if !strings.Contains(verdict, "cells=ok") {
		c.OracleFail(id, "CABI:"+model+":goapi", "RunSingleModel on caller buffers differs from the Go API run: "+verdict, body)
	}
}

// genCABI: the W generator, restricted to what the C ABI can express (exact-size or oversized outputs, states given
// or initialised by the library).
func genCABI(c *Ctx) {
	genW(c)
	c.Stats.Rule = "as family W (N cells, cyclic parameter sets / input blocks, oversized sentinel outputs, states given or initialised by the library), every case passed through the exported C entry point from a C caller with guard zones around all four buffers"
}
