package main

import (
	"fmt"
	"math"
	"sort"
	"strings"

	"github.com/flowmatters/openwater-core/data"
	"github.com/flowmatters/openwater-core/util/fn"
)

// Families FR (fn.FindRoot) and PW (fn.Piecewise) — property C18.
//
// FR body: mono L <expr> hasD [<dexpr>] initialX minX maxX tol conv maxIter
//    impl: ok x delta nf evals… nd devals…   |  panic other
//    mono=1: the function is continuous and non-decreasing BY CONSTRUCTION (also in float arithmetic: every
//    operation used is monotone under rounding); L>0: a Lipschitz bound known by construction. Both are hints for
//    the oracle only. evals = every point at which the real FindRoot called fn (logged by a wrapper), devals
//    likewise for fn_dx.
// PW body: x nx xs… ny ys…      impl: val y | err | panic <class>
//
// Test functions come from a small expression language (arithmetic and comparisons only) that is evaluated
// identically here and in lean/OW/Util/ExprFn.lean.

func init() {
	register(&Family{Name: "FR", Gen: genFR, Exec: execFR, Oracle: oracleFR, InProc: true})
	register(&Family{Name: "PW", Gen: genPW, Exec: execPW, Oracle: oraclePW, InProc: true})
}

// ---------------------------------------------------------------------------------------------
// expression language

type Ex struct {
	op string
	k  float64
	a  []*Ex
}

func exX() *Ex                 { return &Ex{op: "x"} }
func exC(k float64) *Ex        { return &Ex{op: "c", k: k} }
func exAdd(a, b *Ex) *Ex       { return &Ex{op: "+", a: []*Ex{a, b}} }
func exSub(a, b *Ex) *Ex       { return &Ex{op: "-", a: []*Ex{a, b}} }
func exMul(a, b *Ex) *Ex       { return &Ex{op: "*", a: []*Ex{a, b}} }
func exDiv(a, b *Ex) *Ex       { return &Ex{op: "/", a: []*Ex{a, b}} }
func exNeg(a *Ex) *Ex          { return &Ex{op: "neg", a: []*Ex{a}} }
func exAbs(a *Ex) *Ex          { return &Ex{op: "abs", a: []*Ex{a}} }
func exMax(a, b *Ex) *Ex       { return &Ex{op: "max", a: []*Ex{a, b}} }
func exMin(a, b *Ex) *Ex       { return &Ex{op: "min", a: []*Ex{a, b}} }
func exIte(a, b, t, e *Ex) *Ex { return &Ex{op: "ite", a: []*Ex{a, b, t, e}} }

func (e *Ex) Eval(x float64) float64 {
	switch e.op {
	case "x":
		return x
	case "c":
		return e.k
	case "+":
		return e.a[0].Eval(x) + e.a[1].Eval(x)
	case "-":
		return e.a[0].Eval(x) - e.a[1].Eval(x)
	case "*":
		return e.a[0].Eval(x) * e.a[1].Eval(x)
	case "/":
		return e.a[0].Eval(x) / e.a[1].Eval(x)
	case "neg":
		return -e.a[0].Eval(x)
	case "abs":
		return math.Abs(e.a[0].Eval(x))
	case "max":
		a, b := e.a[0].Eval(x), e.a[1].Eval(x)
		if b < a {
			return a
		}
		return b
	case "min":
		a, b := e.a[0].Eval(x), e.a[1].Eval(x)
		if b < a {
			return b
		}
		return a
	case "ite":
		if e.a[0].Eval(x) < e.a[1].Eval(x) {
			return e.a[2].Eval(x)
		}
		return e.a[3].Eval(x)
	}
	panic("bad expression op " + e.op)
}

func (e *Ex) write(b *strings.Builder) {
	if b.Len() > 0 {
		b.WriteByte(' ')
	}
	b.WriteString(e.op)
	if e.op == "c" {
		b.WriteByte(' ')
		b.WriteString(F(e.k))
	}
	for _, a := range e.a {
		a.write(b)
	}
}

func (e *Ex) Toks() string {
	var b strings.Builder
	e.write(&b)
	return b.String()
}

func readEx(t *tokenReader) *Ex {
	op := t.next()
	switch op {
	case "x":
		return exX()
	case "c":
		return exC(t.float())
	case "+", "-", "*", "/", "max", "min":
		a := readEx(t)
		b := readEx(t)
		return &Ex{op: op, a: []*Ex{a, b}}
	case "neg", "abs":
		return &Ex{op: op, a: []*Ex{readEx(t)}}
	case "ite":
		a := readEx(t)
		b := readEx(t)
		c := readEx(t)
		d := readEx(t)
		return exIte(a, b, c, d)
	}
	panic("bad expression token " + op)
}

// Deriv: symbolic derivative (one-sided at kinks), in the same language.
func (e *Ex) Deriv() *Ex {
	switch e.op {
	case "x":
		return exC(1)
	case "c":
		return exC(0)
	case "+":
		return exAdd(e.a[0].Deriv(), e.a[1].Deriv())
	case "-":
		return exSub(e.a[0].Deriv(), e.a[1].Deriv())
	case "*":
		return exAdd(exMul(e.a[0].Deriv(), e.a[1]), exMul(e.a[0], e.a[1].Deriv()))
	case "/":
		return exDiv(exSub(exMul(e.a[0].Deriv(), e.a[1]), exMul(e.a[0], e.a[1].Deriv())), exMul(e.a[1], e.a[1]))
	case "neg":
		return exNeg(e.a[0].Deriv())
	case "abs":
		return exIte(e.a[0], exC(0), exNeg(e.a[0].Deriv()), e.a[0].Deriv())
	case "max":
		return exIte(e.a[1], e.a[0], e.a[0].Deriv(), e.a[1].Deriv())
	case "min":
		return exIte(e.a[1], e.a[0], e.a[1].Deriv(), e.a[0].Deriv())
	case "ite":
		return exIte(e.a[0], e.a[1], e.a[2].Deriv(), e.a[3].Deriv())
	}
	panic("bad expression op " + e.op)
}

// ---------------------------------------------------------------------------------------------
// FR

type frCase struct {
	mono                            int
	L                               float64
	f, d                            *Ex
	initialX, minX, maxX, tol, conv float64
	maxIter                         int
}

func (k *frCase) Body() string {
	var b strings.Builder
	fmt.Fprintf(&b, "%d %s %s ", k.mono, F(k.L), k.f.Toks())
	if k.d != nil {
		fmt.Fprintf(&b, "1 %s ", k.d.Toks())
	} else {
		b.WriteString("0 ")
	}
	fmt.Fprintf(&b, "%s %s %s %s %s %d", F(k.initialX), F(k.minX), F(k.maxX), F(k.tol), F(k.conv), k.maxIter)
	return b.String()
}

func parseFR(body string) *frCase {
	t := newTokenReader(body)
	k := &frCase{}
	k.mono = t.int()
	k.L = t.float()
	k.f = readEx(t)
	if t.int() == 1 {
		k.d = readEx(t)
	}
	k.initialX, k.minX, k.maxX, k.tol, k.conv = t.float(), t.float(), t.float(), t.float(), t.float()
	k.maxIter = t.int()
	return k
}

type frResult struct {
	status        string
	x, delta      float64
	evals, devals []float64
}

func parseFRResult(impl string) *frResult {
	t := newTokenReader(impl)
	r := &frResult{status: t.next()}
	if r.status != "ok" {
		return r
	}
	r.x, r.delta = t.float(), t.float()
	r.evals = t.floats()
	r.devals = t.floats()
	return r
}

// execFR calls the real fn.FindRoot with callbacks that log every evaluation point.
func execFR(body string) string {
	k := parseFR(body)
	var evals, devals []float64
	f := func(x float64) float64 {
		evals = append(evals, x)
		return k.f.Eval(x)
	}
	var d func(x float64) float64
	if k.d != nil {
		d = func(x float64) float64 {
			devals = append(devals, x)
			return k.d.Eval(x)
		}
	}
	x, delta := fn.FindRoot(f, d, k.initialX, k.minX, k.maxX, k.tol, k.conv, k.maxIter)
	return fmt.Sprintf("ok %s %s %s %s", F(x), F(delta), Fs(evals), Fs(devals))
}

// oracleFR evaluates the statement of C18 on the real code's output.
func oracleFR(c *Ctx, id int, body, impl string) {
	k := parseFR(body)
	r := parseFRResult(impl)
	fmin, fmax := k.f.Eval(k.minX), k.f.Eval(k.maxX)
	finite := func(v float64) bool { return !math.IsNaN(v) && !math.IsInf(v, 0) }
	// hypotheses shared by every clause: a proper interval with a bracketed root, a guess inside it, a positive tolerance
	if !(finite(k.minX) && finite(k.maxX) && k.minX <= k.maxX && fmin <= 0 && 0 <= fmax) {
		return
	}
	if !(k.initialX >= k.minX && k.initialX <= k.maxX) || !(k.tol > 0) {
		return
	}
	c.Stats.OracleEvals++
	if r.status != "ok" {
		c.OracleFail(id, "FindRoot", "bracketed root but FindRoot did not return: "+impl, body)
		return
	}
	// any function with f(min) ≤ 0 ≤ f(max): result in the interval, delta is the value there.
	// An excursion of at most a few ulp of the interval (rounding of the secant point maxX-(maxX-minX)*maxDelta/(maxDelta-minDelta),
	// which lies in [minX,maxX] in exact arithmetic) is reported under its own scope.
	slack := 8 * 2.3e-16 * ((k.maxX - k.minX) + math.Abs(k.minX) + math.Abs(k.maxX))
	outside := func(v float64) (bool, string) {
		if v >= k.minX && v <= k.maxX {
			return false, ""
		}
		if v >= k.minX-slack && v <= k.maxX+slack {
			return true, "FindRoot:secant-rounding"
		}
		return true, "FindRoot"
	}
	if out, scope := outside(r.x); out {
		c.OracleFail(id, scope, fmt.Sprintf("returned point %v outside [%v,%v] (by %g)", r.x, k.minX, k.maxX, math.Max(k.minX-r.x, r.x-k.maxX)), body)
		return
	}
	if v := k.f.Eval(r.x); !(v == r.delta || (math.IsNaN(v) && math.IsNaN(r.delta))) {
		c.OracleFail(id, "FindRoot", fmt.Sprintf("returned delta %g is not f(x)=%g at x=%g", r.delta, v, r.x), body)
		return
	}
	if k.mono != 1 {
		c.Stats.Count("oracle:nonmono")
		return
	}
	// sanity of the hint: the function must be non-decreasing on the points we know
	pts := append([]float64{k.minX, k.maxX}, r.evals...)
	sort.Float64s(pts)
	for i := 1; i < len(pts); i++ {
		if k.f.Eval(pts[i-1]) > k.f.Eval(pts[i]) {
			c.Stats.Count("gen_bug:mono_hint_wrong")
			return
		}
	}
	c.Stats.Count("oracle:mono")
	// the function is never evaluated outside the interval
	for _, e := range r.evals {
		if out, scope := outside(e); out {
			c.OracleFail(id, scope, fmt.Sprintf("fn evaluated at %v outside [%v,%v] (by %g)", e, k.minX, k.maxX, math.Max(k.minX-e, e-k.maxX)), body)
			return
		}
	}
	better := math.Min(math.Abs(fmin), math.Abs(fmax))
	if k.maxIter <= 0 {
		if math.Abs(r.delta) > better {
			c.OracleFail(id, "FindRoot:zero-iterations", fmt.Sprintf("maxIterations=%d: returned |delta|=%g at the initial guess %g, worse than the better end of the bracket (%g)",
				k.maxIter, math.Abs(r.delta), k.initialX, better), body)
		}
		return
	}
	// no worse than the better end. The property states this clause unconditionally; the code violates it exactly when the
	// returned value was accepted because it is within the tolerance the caller asked for (only trial points are tested
	// against the tolerance, never the bracket ends): that case has its own scope = known finding
	// KF-C18-better-end-within-tolerance (Lean: better_end_counterexample; better_end carries the disjunct). A residual
	// above the better end that is NOT below the tolerance stays an unqualified failure.
	if math.Abs(r.delta) > better {
		if math.Abs(r.delta) < k.tol {
			c.Stats.Count("obs:accepted-within-tolerance-but-worse-than-better-end")
			c.OracleFail(id, "FindRoot:better-end-within-tolerance", fmt.Sprintf("|delta|=%g (accepted: below the tolerance %g) is larger than at the better end of the initial bracket (%g)",
				math.Abs(r.delta), k.tol, better), body)
		} else {
			c.OracleFail(id, "FindRoot", fmt.Sprintf("|delta|=%g larger than at the better end of the initial bracket (%g) and not below the tolerance %g",
				math.Abs(r.delta), better, k.tol), body)
			return
		}
	}
	// below the tolerance whenever the iteration budget suffices for interval halving to reach it:
	// monotone + L-Lipschitz ⇒ |delta| ≤ L·width₀/2ⁿ; checked when the convergence-limit exit is disabled (conv ≤ 0)
	// and the tolerance is far above the rounding noise of evaluating f (1e-9 × magnitude of its terms).
	if k.L > 0 && k.conv <= 0 && k.maxIter < 1000 {
		w0 := k.maxX - k.minX
		noise := 1e-9 * (k.L*math.Max(math.Abs(k.minX), math.Abs(k.maxX)) + math.Abs(fmin) + math.Abs(fmax))
		if k.L*w0/math.Pow(2, float64(k.maxIter)) <= 0.5*k.tol && noise <= 0.5*k.tol {
			c.Stats.Count("oracle:tolerance-clause")
			if !(math.Abs(r.delta) < k.tol) {
				c.OracleFail(id, "FindRoot", fmt.Sprintf("budget suffices (L·w0/2^n=%g ≤ tol/2) but |delta|=%g ≥ tolerance %g",
					k.L*w0/math.Pow(2, float64(k.maxIter)), math.Abs(r.delta), k.tol), body)
			}
		}
	}
}

// ---- generators of test functions

type frFn struct {
	f    *Ex
	mono int
	L    func(lo, hi float64) float64 // Lipschitz bound on [lo,hi], nil = unknown
	kind string
	// interesting x positions (roots, kinks) to place the interval around
	marks []float64
}

func niceCoef(r *Rng, lo, hi float64) float64 {
	v := r.LogUniform(lo, hi)
	if r.Chance(0.5) {
		// few significant digits
		e := math.Pow(10, math.Floor(math.Log10(v))-1)
		v = math.Round(v/e) * e
	}
	return v
}

func drawFn(r *Rng) *frFn {
	root := r.Uniform(-5, 5)
	if r.Chance(0.3) {
		root = float64(r.Range(-3, 3))
	}
	if r.Chance(0.15) {
		root = r.LogUniform(1e-6, 1e4)
	}
	u := exSub(exX(), exC(root))
	switch r.Intn(11) {
	case 0: // linear a·(x−r)
		a := niceCoef(r, 1e-4, 1e4)
		return &frFn{f: exMul(exC(a), u), mono: 1, kind: "linear", marks: []float64{root},
			L: func(lo, hi float64) float64 { return a }}
	case 1: // linear a·x + b
		a := niceCoef(r, 1e-3, 1e3)
		b := -a * root
		return &frFn{f: exAdd(exMul(exC(a), exX()), exC(b)), mono: 1, kind: "linear-ab", marks: []float64{root},
			L: func(lo, hi float64) float64 { return a }}
	case 2: // monotone cubic a·u³ + b·u
		a := niceCoef(r, 1e-3, 10)
		b := 0.0
		if r.Chance(0.7) {
			b = niceCoef(r, 1e-3, 10)
		}
		return &frFn{f: exAdd(exMul(exC(a), exMul(exMul(u, u), u)), exMul(exC(b), u)), mono: 1, kind: "cubic", marks: []float64{root},
			L: func(lo, hi float64) float64 {
				m := math.Max(math.Abs(lo-root), math.Abs(hi-root))
				return (3*a*m*m + b) * (1 + 1e-9)
			}}
	case 3: // convex kinks: a·u + Σ cᵢ·max(0, x−kᵢ)
		a := niceCoef(r, 1e-3, 10)
		e := exMul(exC(a), u)
		L := a
		marks := []float64{root}
		for i, n := 0, r.Range(1, 3); i < n; i++ {
			k := root + r.Uniform(-3, 3)
			ci := niceCoef(r, 1e-2, 100)
			e = exAdd(e, exMul(exC(ci), exMax(exC(0), exSub(exX(), exC(k)))))
			L += ci
			marks = append(marks, k)
		}
		return &frFn{f: e, mono: 1, kind: "kinked-convex", marks: marks, L: func(lo, hi float64) float64 { return L * (1 + 1e-9) }}
	case 4: // concave kinks: a·u + Σ cᵢ·min(0, x−kᵢ)
		a := niceCoef(r, 1e-3, 10)
		e := exMul(exC(a), u)
		L := a
		marks := []float64{root}
		for i, n := 0, r.Range(1, 3); i < n; i++ {
			k := root + r.Uniform(-3, 3)
			ci := niceCoef(r, 1e-2, 100)
			e = exAdd(e, exMul(exC(ci), exMin(exC(0), exSub(exX(), exC(k)))))
			L += ci
			marks = append(marks, k)
		}
		return &frFn{f: e, mono: 1, kind: "kinked-concave", marks: marks, L: func(lo, hi float64) float64 { return L * (1 + 1e-9) }}
	case 5: // dead zone: flat zero on [k0,k1]: a·max(0,x−k1) + b·min(0,x−k0)
		k0 := root - r.Uniform(0, 2)
		k1 := root + r.Uniform(0, 2)
		a, b := niceCoef(r, 1e-2, 100), niceCoef(r, 1e-2, 100)
		return &frFn{f: exAdd(exMul(exC(a), exMax(exC(0), exSub(exX(), exC(k1)))), exMul(exC(b), exMin(exC(0), exSub(exX(), exC(k0))))), mono: 1, kind: "flat-zero-zone",
			marks: []float64{k0, k1, root}, L: func(lo, hi float64) float64 { return math.Max(a, b) * (1 + 1e-9) }}
	case 6: // saturating: clamp(a·u, lo, hi) — flat tails
		a := niceCoef(r, 1e-2, 100)
		lo, hi := -niceCoef(r, 1e-3, 10), niceCoef(r, 1e-3, 10)
		return &frFn{f: exMax(exC(lo), exMin(exC(hi), exMul(exC(a), u))), mono: 1, kind: "clamped", marks: []float64{root, root + lo/a, root + hi/a},
			L: func(l, h float64) float64 { return a }}
	case 7: // identically zero / constant (flat): only brackets when the constant is 0
		k := 0.0
		if r.Chance(0.3) {
			k = r.Uniform(-1, 1)
		}
		return &frFn{f: exAdd(exMul(exC(0), exX()), exC(k)), mono: 1, kind: "constant", marks: []float64{root}, L: func(l, h float64) float64 { return 1e-300 }}
	case 8: // non-monotone cubic with three roots (x−r1)(x−r2)(x−r3), positive leading coefficient
		d1, d2 := r.Uniform(0.2, 2), r.Uniform(0.2, 2)
		a := niceCoef(r, 1e-2, 10)
		return &frFn{f: exMul(exC(a), exMul(exMul(exSub(exX(), exC(root-d1)), u), exSub(exX(), exC(root+d2)))), mono: 0, kind: "three-roots",
			marks: []float64{root - d1, root, root + d2}}
	case 9: // non-monotone: a·u + c·|x−k| with c > a (V shape tilted), sign change on one side
		a := niceCoef(r, 1e-2, 10)
		cc := a * r.Uniform(1.5, 5)
		k := root + r.Uniform(-2, 2)
		return &frFn{f: exSub(exAdd(exMul(exC(a), u), exMul(exC(cc), exAbs(exSub(exX(), exC(k))))), exC(cc*r.Uniform(0.1, 2))), mono: 0, kind: "tilted-V",
			marks: []float64{root, k}}
	default: // non-monotone quartic bump that is zero at both marks: (x−r)(x−r−d)·(1 + b·u²) — f(min)=f(max)=0 possible
		d := r.Uniform(0.5, 3)
		s := 1.0
		if r.Bool() {
			s = -1
		}
		return &frFn{f: exMul(exMul(exC(s), exMul(u, exSub(exX(), exC(root+d)))), exAdd(exC(1), exMul(exC(0.25), exMul(u, u)))), mono: 0, kind: "zero-at-both-ends",
			marks: []float64{root, root + d}}
	}
}

func genFR(c *Ctx) {
	c.Stats.Rule = "test function drawn from 11 classes of an arithmetic-only expression language (linear, monotone cubic, convex/concave kinks, flat zero zone, clamped, constant; non-monotone: three-root cubic, tilted V, zero-at-both-ends quartic) × interval around its marks × initial guess (ends, middle, inside, outside, NaN) × tolerance (1e-12…1e3, 0, negative) × convergence limit (≤0, 1e-8…large) × maxIterations (−1,0,1,2,3,5,10,20,60) × derivative (none, symbolic, wrong, zero, NaN); non-trivial = bracketed root and maxIterations ≥ 1; distinct by the full line"
	n := 12000
	if c.Tier == "thorough" {
		n = 200000
	}
	r := c.R
	fixed := fixedFRCases()
	for _, k := range fixed {
		c.Do(k.Body(), true)
		c.Stats.Count("fixed")
	}
	for i := 0; i < n; i++ {
		fnc := drawFn(r)
		k := &frCase{f: fnc.f, mono: fnc.mono}
		// interval
		var lo, hi float64
		for try := 0; ; try++ {
			m := fnc.marks[r.Intn(len(fnc.marks))]
			m2 := fnc.marks[r.Intn(len(fnc.marks))]
			a, b := math.Min(m, m2), math.Max(m, m2)
			switch r.Intn(6) {
			case 0:
				lo, hi = a-r.LogUniform(1e-3, 10), b+r.LogUniform(1e-3, 10)
			case 1:
				lo, hi = a, b+r.LogUniform(1e-3, 10) // an end exactly at a mark (root or kink)
			case 2:
				lo, hi = a-r.LogUniform(1e-3, 10), b
			case 3:
				lo, hi = a, b // both ends at marks (possibly lo == hi)
			case 4:
				lo, hi = a-r.LogUniform(1e-9, 1e-3), b+r.LogUniform(1e-9, 1e-3) // very narrow
			default:
				lo, hi = a-r.LogUniform(1, 1e4), b+r.LogUniform(1, 1e4) // very wide
			}
			fl, fh := fnc.f.Eval(lo), fnc.f.Eval(hi)
			if fl <= 0 && 0 <= fh {
				break
			}
			if try >= 6 || r.Chance(0.04) {
				break // keep an unbracketed case: panic("Invalid range") path
			}
		}
		if r.Chance(0.01) {
			lo, hi = hi, lo // reversed interval (malformed)
		}
		k.minX, k.maxX = lo, hi
		if fnc.L != nil {
			k.L = fnc.L(math.Min(lo, hi), math.Max(lo, hi))
		}
		switch r.Intn(9) {
		case 0:
			k.initialX = lo
		case 1:
			k.initialX = hi
		case 2:
			k.initialX = lo + (hi-lo)*0.5
		case 3:
			k.initialX = hi - (hi-lo)*0.5
		case 4:
			if r.Chance(0.15) {
				k.initialX = math.NaN()
			} else if r.Bool() {
				k.initialX = lo - r.LogUniform(1e-6, 10)
			} else {
				k.initialX = hi + r.LogUniform(1e-6, 10)
			}
		default:
			k.initialX = r.Uniform(lo, hi)
		}
		switch r.Intn(10) {
		case 0:
			k.tol = 0
		case 1:
			k.tol = []float64{-1, 1e3, math.Inf(1), 1e-300, math.NaN()}[r.Intn(5)]
		case 2, 3:
			k.tol = 1e-3
		case 4:
			k.tol = 1e-6
		default:
			k.tol = r.LogUniform(1e-12, 10)
		}
		switch r.Intn(8) {
		case 0, 1, 2:
			k.conv = 0
		case 3:
			k.conv = -1
		case 4:
			k.conv = 1e-8
		case 5:
			k.conv = r.LogUniform(1e-12, 1)
		case 6:
			k.conv = r.LogUniform(1, 1e6)
		default:
			k.conv = []float64{math.Inf(1), math.NaN(), 1e-15}[r.Intn(3)]
		}
		k.maxIter = []int{-1, 0, 0, 1, 1, 1, 2, 2, 3, 5, 10, 20, 20, 60}[r.Intn(14)]
		switch r.Intn(8) {
		case 0, 1, 2:
			k.d = nil
		case 3, 4, 5:
			k.d = fnc.f.Deriv()
		case 6:
			k.d = []*Ex{exC(0), exC(1), exC(-1), exSub(exX(), exC(4)), exDiv(exC(0), exC(0)), exNeg(fnc.f.Deriv()), exMul(exC(1e-9), exX())}[r.Intn(7)]
		default:
			k.d = exC(niceCoef(r, 1e-3, 1e3))
		}
		body := k.Body()
		fl, fh := k.f.Eval(k.minX), k.f.Eval(k.maxX)
		bracketed := k.minX <= k.maxX && fl <= 0 && 0 <= fh
		_, impl := c.Do(body, bracketed && k.maxIter >= 1)
		c.Stats.Count("fn:" + fnc.kind)
		c.Stats.Count(fmt.Sprintf("maxIter:%d", k.maxIter))
		if k.d != nil {
			c.Stats.Count("with-derivative")
		}
		if !bracketed {
			c.Stats.Count("unbracketed")
		}
		if strings.HasPrefix(impl, "ok") {
			res := parseFRResult(impl)
			c.Stats.Count("evals:" + bucket(len(res.evals)))
		}
	}
}

// hand-written cases: the observations of DESIGN §6 C18 and the boundaries of every guard
func fixedFRCases() []*frCase {
	id := exX()
	lin := func(a, b float64) *Ex { return exAdd(exMul(exC(a), exX()), exC(b)) }
	out := []*frCase{
		// maxIterations = 0 returns the initial guess: f(x)=x−0.1 on [0,1] from 0.9 → delta 0.8, better end 0.1
		{mono: 1, L: 1, f: exSub(id, exC(0.1)), initialX: 0.9, minX: 0, maxX: 1, tol: 1e-6, conv: 0, maxIter: 0},
		{mono: 1, L: 1, f: exSub(id, exC(0.1)), initialX: 0.9, minX: 0, maxX: 1, tol: 1e-6, conv: 0, maxIter: 1},
		// accepted within tolerance although worse than the better end: f(x)=x on [−1e-6, 9e-4], tol 1e-3
		{mono: 1, L: 1, f: id, initialX: -1e-6, minX: -1e-6, maxX: 9e-4, tol: 1e-3, conv: 0, maxIter: 5},
		// f(min)=f(max)=0 with non-zero interior and unreachable tolerance: secant point 0/0
		{mono: 0, L: 0, f: exMul(id, exSub(id, exC(1))), initialX: 0.25, minX: 0, maxX: 1, tol: 1e-12, conv: 0, maxIter: 3},
		// the repository's own test: 0.5x²+4x−3 with the (wrong) derivative x−4
		{mono: 0, L: 0, f: exAdd(exAdd(exMul(exC(0.5), exMul(id, id)), exMul(exC(4), id)), exC(-3)), d: exSub(id, exC(4)), initialX: 0.5, minX: 0, maxX: 2, tol: 1e-6, conv: 1e-15, maxIter: 10},
		// degenerate interval min == max at the root
		{mono: 1, L: 2, f: lin(2, -4), initialX: 2, minX: 2, maxX: 2, tol: 1e-9, conv: 0, maxIter: 4},
		// identically zero
		{mono: 1, L: 1e-300, f: lin(0, 0), initialX: 1, minX: -3, maxX: 7, tol: 1e-9, conv: 0, maxIter: 4},
		// unbracketed: panic
		{mono: 1, L: 1, f: exAdd(id, exC(10)), initialX: 0.5, minX: 0, maxX: 1, tol: 1e-6, conv: 0, maxIter: 4},
		{mono: 1, L: 1, f: exSub(id, exC(10)), initialX: 0.5, minX: 0, maxX: 1, tol: 1e-6, conv: 0, maxIter: 4},
		// convergence limit so large that the first iteration returns
		{mono: 1, L: 3, f: lin(3, -1), initialX: 0, minX: 0, maxX: 1, tol: 1e-12, conv: 1e9, maxIter: 20},
		// tolerance 0 on a function with a flat zero zone and f(min)=0: secant becomes 0/0 for a monotone function
		{mono: 1, L: 1, f: exMax(exC(0), exSub(id, exC(1))), initialX: 0, minX: 0, maxX: 3, tol: 0, conv: 0, maxIter: 4},
	}
	return out
}

// ---------------------------------------------------------------------------------------------
// PW

func arr1(v []float64) data.ND1Float64 {
	a := data.NewArray1DFloat64(len(v))
	for i, x := range v {
		a.Set1(i, x)
	}
	return a
}

func execPW(body string) string {
	t := newTokenReader(body)
	x := t.float()
	xs := t.floats()
	ys := t.floats()
	y, err := fn.Piecewise(x, arr1(xs), arr1(ys))
	if err != nil {
		return "err"
	}
	return "val " + F(y)
}

func pwBody(x float64, xs, ys []float64) string { return F(x) + " " + Fs(xs) + " " + Fs(ys) }

func strictlyIncreasingFinite(xs []float64) bool {
	for i, v := range xs {
		if math.IsNaN(v) || math.IsInf(v, 0) {
			return false
		}
		if i > 0 && !(xs[i-1] < v) {
			return false
		}
	}
	return true
}

func oraclePW(c *Ctx, id int, body, impl string) {
	t := newTokenReader(body)
	x := t.float()
	xs := t.floats()
	ys := t.floats()
	if len(xs) < 2 || len(ys) != len(xs) || !strictlyIncreasingFinite(xs) || !allFinite(ys) {
		return // malformed table: the property says nothing
	}
	c.Stats.OracleEvals++
	toks := strings.Fields(impl)
	n := len(xs)
	if math.IsNaN(x) || x < xs[0] || x > xs[n-1] {
		if toks[0] != "err" {
			c.OracleFail(id, "Piecewise", fmt.Sprintf("argument %v outside the table / NaN but the result is %s", x, impl), body)
		}
		c.Stats.Count("oracle:outside-or-nan")
		return
	}
	if toks[0] != "val" {
		c.OracleFail(id, "Piecewise", fmt.Sprintf("argument %v inside the table [%v,%v] but the result is %s", x, xs[0], xs[n-1], impl), body)
		return
	}
	y := parseF(toks[1])
	for k := range xs {
		if x == xs[k] {
			c.Stats.Count("oracle:knot")
			if y != ys[k] {
				c.OracleFail(id, "Piecewise:right-knot-rounding", fmt.Sprintf("at knot %d (x=%v) the table value is %v but Piecewise returned %v (xs=%v ys=%v)", k, x, ys[k], y, xs, ys), body)
			}
			return
		}
	}
	// strictly between neighbouring knots i, i+1
	i := sort.SearchFloat64s(xs, x) - 1
	y0, y1 := ys[i], ys[i+1]
	lo, hi := math.Min(y0, y1), math.Max(y0, y1)
	c.Stats.Count("oracle:between")
	if !(lo <= y && y <= hi) {
		c.OracleFail(id, "Piecewise:right-knot-rounding", fmt.Sprintf("x=%v between knots %d and %d: result %v not between the table values %v and %v", x, i, i+1, y, y0, y1), body)
		return
	}
	// the linear interpolant, evaluated in the algebraically equivalent two-sided form with a rounding allowance of
	// 8 ulp of the larger table value (each form performs ≤ 5 roundings of quantities bounded by |y0|+|y1|)
	fr := (x - xs[i]) / (xs[i+1] - xs[i])
	ref := y0*(1-fr) + y1*fr
	if math.Abs(y-ref) > 8*2.3e-16*(math.Abs(y0)+math.Abs(y1)) {
		c.OracleFail(id, "Piecewise", fmt.Sprintf("x=%v between knots %d and %d: result %v is not the linear interpolant %v", x, i, i+1, y, ref), body)
	}
}

func genPW(c *Ctx) {
	c.Stats.Rule = "knot tables of length 0..8 (0 and 1 malformed; mostly strictly increasing, ordinary decimal values; some with duplicates, decreasing, NaN/Inf entries; ys sometimes shorter/longer than xs) × queries (every knot, midpoints, random inside, one ulp inside/outside the ends, far outside, NaN, ±Inf); non-trivial = well-formed table of length ≥ 2; distinct by the full line"
	n := 2500
	if c.Tier == "thorough" {
		n = 40000
	}
	r := c.R
	do := func(x float64, xs, ys []float64) {
		wf := len(xs) >= 2 && len(ys) == len(xs) && strictlyIncreasingFinite(xs) && allFinite(ys)
		_, impl := c.Do(pwBody(x, xs, ys), wf)
		c.Stats.Count("result:" + strings.Fields(impl)[0])
		if !wf {
			c.Stats.Count("malformed")
		}
	}
	// fixed: the observation of DESIGN §6 C18 and tiny tables
	do(2, []float64{1, 2}, []float64{1e16, 1})
	do(1, []float64{1, 2}, []float64{1e16, 1})
	do(0.5, nil, nil)
	do(0.5, []float64{0.5}, []float64{3})
	do(math.NaN(), []float64{0.5}, []float64{3})
	do(1, []float64{1, 1}, []float64{2, 3})
	for i := 0; i < n; i++ {
		nx := r.Range(0, 8)
		if r.Chance(0.7) {
			nx = r.Range(2, 8)
		}
		if r.Chance(0.12) {
			// long tables: a search that switches algorithm above a size threshold (bisection instead of the linear walk) only shows here
			nx = []int{9, 10, 12, 16, 17, 24, 32, 33, 64, 100}[r.Intn(10)]
			c.Stats.Count("long_table")
		}
		xs := make([]float64, nx)
		v := 0.0
		switch r.Intn(4) {
		case 0:
			v = float64(r.Range(-5, 5))
		case 1:
			v = math.Round(r.Uniform(-100, 100)*10) / 10
		case 2:
			v = r.Uniform(-1e3, 1e3)
		}
		style := r.Intn(5)
		if style == 4 {
			v = r.Uniform(-1e-6, 1e-6) // a table in very small units: neighbouring knots closer than 1e-9
		}
		for j := range xs {
			xs[j] = v
			switch style {
			case 4:
				v += r.LogUniform(1e-13, 1e-8)
			case 0:
				v += float64(r.Range(1, 10))
			case 1:
				v = math.Round((v+r.Uniform(0.1, 10))*10) / 10
			case 2:
				v += r.LogUniform(1e-6, 1e3)
			default:
				v = math.Round((v+r.Uniform(0.01, 1))*100) / 100
			}
			if !(v > xs[j]) {
				v = math.Nextafter(xs[j], math.Inf(1))
			}
		}
		ny := nx
		if r.Chance(0.08) && nx > 0 {
			ny = r.Range(0, nx-1)
		} else if r.Chance(0.04) {
			ny = nx + r.Range(1, 2)
		}
		ys := make([]float64, ny)
		ystyle := r.Intn(5)
		for j := range ys {
			switch ystyle {
			case 0:
				ys[j] = float64(r.Range(-20, 20))
			case 1:
				ys[j] = math.Round(r.Uniform(0, 100)*10) / 10
			case 2:
				ys[j] = math.Round(r.Uniform(-1, 1)*1000) / 1000
			case 3:
				ys[j] = r.Uniform(-1e4, 1e4)
			default:
				ys[j] = r.LogUniform(1e-3, 1e6) // e.g. a storage-volume table
			}
		}
		if ystyle == 4 {
			sort.Float64s(ys)
		}
		// malformed tables
		if nx >= 2 && r.Chance(0.06) {
			j := r.Range(1, nx-1)
			switch r.Intn(4) {
			case 0:
				xs[j] = xs[j-1] // duplicate knot
			case 1:
				xs[j], xs[j-1] = xs[j-1], xs[j] // not increasing
			case 2:
				xs[j] = math.NaN()
			default:
				xs[nx-1] = math.Inf(1)
			}
		}
		// queries
		qs := []float64{math.NaN(), math.Inf(1), math.Inf(-1)}
		for j := range xs {
			qs = append(qs, xs[j])
			if j > 0 {
				qs = append(qs, xs[j-1]+(xs[j]-xs[j-1])*0.5, r.Uniform(xs[j-1], xs[j]), math.Nextafter(xs[j], math.Inf(-1)), math.Nextafter(xs[j-1], math.Inf(1)))
			}
		}
		if nx > 0 {
			qs = append(qs, math.Nextafter(xs[0], math.Inf(-1)), math.Nextafter(xs[nx-1], math.Inf(1)), xs[0]-r.LogUniform(1e-3, 1e3), xs[nx-1]+r.LogUniform(1e-3, 1e3))
		} else {
			qs = append(qs, 0, 1)
		}
		for _, q := range qs {
			do(q, xs, ys)
		}
		c.Stats.Count(fmt.Sprintf("nx:%d", nx))
	}
}
