package main

import (
	"math"
	"os"
)

// ratingNaN: also draw rating tables whose first two abscissae coincide (x == x0 == x1; 0/0 before the Piecewise
// repair, the exact knot value since) or with a NaN proportion (→ frac NaN → panic("nan")).
// ratingPartition prints diagnostics to stdout before that panic; the worker child keeps them off the protocol stream.
// OW_C16_NAN=0 switches these tables off.
var ratingNaN = os.Getenv("OW_C16_NAN") != "0"

// Generators for the conversion / function / generation models (property C16).
// Parameter columns follow the generated wrappers' ApplyParameters order; table parameters are laid out as
// nPts, inputAmount[nPts], proportion[nPts].

// signed: with probability p flips the sign of some entries (models that accept any real input).
func signed(r *Rng, xs []float64, p float64) []float64 {
	if !r.Chance(p) {
		return xs
	}
	for i := range xs {
		if r.Chance(0.3) {
			xs[i] = -xs[i]
		}
	}
	return xs
}

// pick0: 0 (or -0) with probability p0, otherwise f().
func pick0(r *Rng, p0 float64, f func() float64) float64 {
	if r.Chance(p0) {
		if r.Chance(0.2) {
			return math.Copysign(0, -1)
		}
		return 0
	}
	return f()
}

func flowSeries(r *Rng, T int) []float64 { return Series(r, T, r.LogUniform(1e-3, 100)) }

func fractionParam(r *Rng) float64 {
	switch r.Intn(8) {
	case 0:
		return 0
	case 1:
		return 1
	case 2:
		return r.Uniform(-1, 3) // outside [0,1]: the identities do not depend on the range
	case 3:
		return 0.5
	}
	return r.F01()
}

// ratingTable draws a rating table of n rows. Mostly strictly increasing from 0; sometimes with a duplicated
// first abscissa (x1==x0 → NaN → panic "nan"), sometimes unsorted.
func ratingTable(r *Rng, n int) (xs, ys []float64) {
	xs = make([]float64, n)
	ys = make([]float64, n)
	x := 0.0
	if r.Chance(0.3) {
		x = Snap(r, r.LogUniform(1e-3, 10))
	}
	step := r.LogUniform(1e-2, 100)
	for i := 0; i < n; i++ {
		xs[i] = x
		dx := Snap(r, step*(0.1+r.F01()))
		if dx <= 0 {
			dx = step
		}
		x += dx
		switch r.Intn(6) {
		case 0:
			ys[i] = 0
		case 1:
			ys[i] = 1
		default:
			ys[i] = r.F01()
		}
	}
	// "all parameter values": proportions need not lie in [0,1] (the split must still be lossless)
	if n >= 1 && r.Chance(0.15) {
		for k := 0; k < 1+n/3; k++ {
			ys[r.Intn(n)] = r.Uniform(-0.5, 1.6)
		}
	}
	if n >= 2 && r.Chance(0.04) && ratingNaN {
		xs[1] = xs[0]
	}
	if n >= 1 && r.Chance(0.03) && ratingNaN {
		ys[r.Intn(n)] = math.NaN() // NaN proportion → frac NaN → panic("nan")
	}
	if n >= 3 && r.Chance(0.04) {
		i := r.Range(1, n-1)
		xs[i], xs[i-1] = xs[i-1], xs[i]
	}
	return
}

func init() {
	none := func(r *Rng) []float64 { return []float64{} }

	// ---------------------------------------------------------------- models/conversion
	scaling := func(name string) {
		regModel(&ModelGen{Name: name,
			Params: func(r *Rng) []float64 {
				switch r.Intn(6) {
				case 0:
					return []float64{pick0(r, 1, nil)}
				case 1:
					return []float64{1}
				case 2:
					return []float64{-r.LogUniform(1e-3, 10)}
				case 3:
					return []float64{r.F01()}
				}
				return []float64{r.LogUniform(1e-4, 1e4)}
			},
			Inputs: func(r *Rng, T int, p []float64) [][]float64 {
				return [][]float64{signed(r, flowSeries(r, T), 0.3)}
			},
		})
	}
	scaling("ApplyScalingFactor")
	scaling("DeliveryRatio")

	regModel(&ModelGen{Name: "DepthToRate",
		Params: func(r *Rng) []float64 {
			dt := []float64{86400, 3600, 1, 43200, math.Floor(r.Uniform(1, 86401))}[r.Intn(5)]
			area := pick0(r, 0.15, func() float64 { return r.LogUniform(1, 1e10) })
			return []float64{dt, area}
		},
		Inputs: func(r *Rng, T int, p []float64) [][]float64 {
			return [][]float64{signed(r, Series(r, T, r.LogUniform(0.1, 100)), 0.1)}
		},
	})

	regModel(&ModelGen{Name: "FixedPartition",
		Params: func(r *Rng) []float64 { return []float64{fractionParam(r)} },
		Inputs: func(r *Rng, T int, p []float64) [][]float64 {
			return [][]float64{signed(r, flowSeries(r, T), 0.3)}
		},
	})

	regModel(&ModelGen{Name: "VariablePartition",
		Params: none,
		Inputs: func(r *Rng, T int, p []float64) [][]float64 {
			f := make([]float64, T)
			for i := range f {
				f[i] = fractionParam(r)
			}
			return [][]float64{signed(r, flowSeries(r, T), 0.3), f}
		},
	})

	regModel(&ModelGen{Name: "RatingCurvePartition",
		Params: func(r *Rng) []float64 {
			n := 0
			switch r.Intn(10) {
			case 0:
				n = 1 // single-row table: Piecewise never finds a bracket
			case 1:
				n = 2
			case 2:
				n = r.Range(9, 40)
			case 3:
				if r.Chance(0.3) {
					n = 0 // empty table
				} else {
					n = 3
				}
			default:
				n = r.Range(2, 8)
			}
			xs, ys := ratingTable(r, n)
			p := append([]float64{float64(n)}, xs...)
			return append(p, ys...)
		},
		Inputs: func(r *Rng, T int, p []float64) [][]float64 {
			n := int(p[0])
			in := make([]float64, T)
			if n == 0 {
				return [][]float64{flowSeries(r, T)}
			}
			xs := p[1 : 1+n]
			lo, hi := xs[0], xs[n-1]
			for _, v := range xs {
				lo, hi = math.Min(lo, v), math.Max(hi, v)
			}
			outside := r.Chance(0.2) // at most a few out-of-table values → panic
			for i := range in {
				switch r.Intn(8) {
				case 0:
					in[i] = xs[0] // lower end point
				case 1:
					in[i] = xs[n-1] // upper end point
				case 2:
					in[i] = xs[r.Intn(n)] // exactly on a node
				default:
					in[i] = lo + (hi-lo)*r.F01()
				}
				if outside && r.Chance(0.1) {
					switch r.Intn(4) {
					case 0:
						in[i] = math.Nextafter(hi, math.Inf(1))
					case 1:
						in[i] = math.Nextafter(lo, math.Inf(-1))
					case 2:
						in[i] = hi + r.LogUniform(1e-6, 100)
					case 3:
						in[i] = lo - r.LogUniform(1e-6, 100)
					}
				}
			}
			return [][]float64{in}
		},
		MaxT: 60,
	})

	// ---------------------------------------------------------------- models/functions
	regModel(&ModelGen{Name: "Input", Params: none,
		Inputs: func(r *Rng, T int, p []float64) [][]float64 {
			return [][]float64{signed(r, flowSeries(r, T), 0.3)}
		},
	})
	regModel(&ModelGen{Name: "Sum", Params: none,
		Inputs: func(r *Rng, T int, p []float64) [][]float64 {
			return [][]float64{signed(r, flowSeries(r, T), 0.3), signed(r, flowSeries(r, T), 0.3)}
		},
	})
	regModel(&ModelGen{Name: "Gate", Params: none,
		Inputs: func(r *Rng, T int, p []float64) [][]float64 {
			return [][]float64{signed(r, flowSeries(r, T), 0.3), signed(r, flowSeries(r, T), 0.3)}
		},
	})
	regModel(&ModelGen{Name: "ComputeProportion",
		Params: func(r *Rng) []float64 {
			return []float64{[]float64{86400, 0, 1, r.Uniform(-5, 5)}[r.Intn(4)]}
		},
		Inputs: func(r *Rng, T int, p []float64) [][]float64 {
			return [][]float64{signed(r, flowSeries(r, T), 0.3), signed(r, flowSeries(r, T), 0.3)}
		},
	})
	regModel(&ModelGen{Name: "BaseflowFilter", Params: none,
		Inputs: func(r *Rng, T int, p []float64) [][]float64 { return [][]float64{flowSeries(r, T)} },
	})
	regModel(&ModelGen{Name: "PartitionDemand", Params: none,
		Inputs: func(r *Rng, T int, p []float64) [][]float64 {
			in := flowSeries(r, T)
			scale := maxAbs(in)
			if scale == 0 {
				scale = 1
			}
			dmd := Series(r, T, scale*r.LogUniform(0.05, 5))
			for i := range dmd {
				switch r.Intn(12) {
				case 0:
					dmd[i] = in[i] // demand exactly met
				case 1:
					dmd[i] = -dmd[i] // negative demand
				case 2:
					dmd[i] = 0
				}
			}
			return [][]float64{signed(r, in, 0.15), dmd}
		},
	})

	// ---------------------------------------------------------------- models/generation
	conc := func(r *Rng) float64 { return pick0(r, 0.25, func() float64 { return Snap(r, r.LogUniform(0.1, 1e4)) }) }
	regModel(&ModelGen{Name: "EmcDwc",
		Params: func(r *Rng) []float64 { return []float64{conc(r), conc(r)} },
		Inputs: func(r *Rng, T int, p []float64) [][]float64 { return [][]float64{flowSeries(r, T), flowSeries(r, T)} },
	})
	regModel(&ModelGen{Name: "FixedConcentration",
		Params: func(r *Rng) []float64 { return []float64{conc(r)} },
		Inputs: func(r *Rng, T int, p []float64) [][]float64 { return [][]float64{flowSeries(r, T)} },
	})
	regModel(&ModelGen{Name: "PassLoadIfFlow",
		Params: func(r *Rng) []float64 {
			return []float64{pick0(r, 0.2, func() float64 { return []float64{1, r.F01(), r.LogUniform(1e-3, 1e3)}[r.Intn(3)] })}
		},
		Inputs: func(r *Rng, T int, p []float64) [][]float64 {
			f := flowSeries(r, T)
			for i := range f {
				switch r.Intn(15) {
				case 0:
					f[i] = 1e-8 // exactly EFFECTIVELY_ZERO: not > threshold
				case 1:
					f[i] = math.Nextafter(1e-8, 1)
				case 2:
					f[i] = r.LogUniform(1e-10, 1e-7)
				}
			}
			return [][]float64{f, Series(r, T, r.LogUniform(1e-3, 1e3))}
		},
	})
	regModel(&ModelGen{Name: "SednetDissolvedNutrientGeneration",
		Params: func(r *Rng) []float64 { return []float64{conc(r), conc(r)} },
		Inputs: func(r *Rng, T int, p []float64) [][]float64 { return [][]float64{flowSeries(r, T), flowSeries(r, T)} },
	})
	regModel(&ModelGen{Name: "SednetParticulateNutrientGeneration",
		Params: func(r *Rng) []float64 {
			return []float64{
				r.LogUniform(1e4, 1e9),                                           // area
				pick0(r, 0.1, func() float64 { return r.LogUniform(1e-6, 1e-2) }), // nutSurfSoilConc
				pick0(r, 0.1, func() float64 { return Snap(r, r.Uniform(0, 100)) }), // hillDeliveryRatio %
				r.Uniform(0.5, 5), // Nutrient_Enrichment_Ratio
				pick0(r, 0.1, func() float64 { return r.LogUniform(1e-6, 1e-2) }), // nutSubSoilConc
				r.Uniform(0.5, 5), // Nutrient_Enrichment_Ratio_Gully
				pick0(r, 0.1, func() float64 { return Snap(r, r.Uniform(0, 100)) }), // gullyDeliveryRatio %
				conc(r),                            // nutrientDWC
				[]float64{0, 1, 0.5, 0.51}[r.Intn(4)], // Do_P_CREAMS_Enrichment
			}
		},
		Inputs: func(r *Rng, T int, p []float64) [][]float64 {
			s := r.LogUniform(1, 1e5)
			return [][]float64{Series(r, T, s), Series(r, T, s), Series(r, T, s), Series(r, T, s), flowSeries(r, T)}
		},
	})
	regModel(&ModelGen{Name: "BankErosion",
		Params: func(r *Rng) []float64 {
			dt := []float64{86400, 3600, 43200}[r.Intn(3)]
			return []float64{
				Snap(r, r.Uniform(0, 100)),   // riparianVegPercent
				Snap(r, r.Uniform(0, 100)),   // maxRiparianVegEffectiveness
				Snap(r, r.Uniform(0, 100)),   // soilErodibility
				r.LogUniform(1e-6, 1e-3),     // bankErosionCoeff
				r.LogUniform(1e-5, 0.1),      // linkSlope
				r.LogUniform(0.1, 1e3),       // bankFullFlow
				pick0(r, 0.05, func() float64 { return r.Uniform(0.1, 2) }), // bankMgtFactor
				r.Uniform(1, 2),              // sedBulkDensity
				r.Uniform(0.2, 10),           // bankHeight
				r.LogUniform(10, 1e5),        // linkLength
				[]float64{1, 1.4, r.Uniform(0.5, 2.5)}[r.Intn(3)], // dailyFlowPowerFactor
				pick0(r, 0.1, func() float64 { return r.LogUniform(1, 1e8) }), // longTermAvDailyFlow
				pick0(r, 0.05, func() float64 { return Snap(r, r.Uniform(0, 100)) }), // soilPercentFine
				dt,
			}
		},
		Inputs: func(r *Rng, T int, p []float64) [][]float64 {
			q := flowSeries(r, T)
			v := Series(r, T, r.LogUniform(1, 1e6))
			return [][]float64{q, v}
		},
	})
	regModel(&ModelGen{Name: "USLEFineSedimentGeneration",
		Params: func(r *Rng) []float64 {
			return []float64{
				r.Uniform(0, 5000), r.Uniform(0, 5000), // S, P (unused)
				Snap(r, r.Uniform(0, 12.7)),            // RainThreshold
				r.LogUniform(1e-3, 1),                  // Alpha
				[]float64{1, 2, r.Uniform(0.1, 3)}[r.Intn(3)], // Beta
				[]float64{0.1, 1, r.Uniform(0.1, 2.5)}[r.Intn(3)], // Eta (>1 makes R negative in winter)
				r.LogUniform(1e-3, 10), r.LogUniform(1e-3, 10), r.LogUniform(1e-3, 100), // A1..A3 (unused)
				conc(r),                // DWC
				r.F01(), r.Uniform(0, 10), r.Uniform(0, 100), // avK, avLS, avFines (dead branch)
				pick0(r, 0.05, func() float64 { return r.LogUniform(1e4, 1e9) }), // area
				[]float64{1e4, r.LogUniform(1, 1e4), r.LogUniform(1e-2, 10), 0}[r.Intn(4)], // maxConc
				pick0(r, 0.1, func() float64 { return Snap(r, r.Uniform(0, 100)) }), // usleHSDRFine
				pick0(r, 0.1, func() float64 { return Snap(r, r.Uniform(0, 100)) }), // usleHSDRCoarse
				[]float64{86400, 3600}[r.Intn(2)],
			}
		},
		Inputs: func(r *Rng, T int, p []float64) [][]float64 {
			klsc := make([]float64, T)
			fine := make([]float64, T)
			cf := make([]float64, T)
			doy := make([]float64, T)
			d0 := r.Range(1, 366)
			k := r.LogUniform(1e-4, 10)
			ff := r.F01()
			for i := 0; i < T; i++ {
				klsc[i] = k * (0.5 + r.F01())
				if r.Chance(0.05) {
					klsc[i] = 0
				}
				fine[i] = klsc[i] * ff
				switch r.Intn(20) {
				case 0:
					fine[i] = klsc[i] // everything fine
				case 1:
					fine[i] = 0
				case 2:
					fine[i] = klsc[i] * 1.5 // inconsistent input: coarse becomes negative
				}
				cf[i] = r.F01()
				doy[i] = float64((d0+i-1)%366 + 1)
			}
			return [][]float64{flowSeries(r, T), flowSeries(r, T), Series(r, T, r.LogUniform(1, 60)), klsc, fine, cf, doy}
		},
	})
	gully := func(name string) {
		regModel(&ModelGen{Name: name,
			Params: func(r *Rng) []float64 {
				yd := float64(r.Range(1850, 2000))
				return []float64{
					yd, yd + float64(r.Range(0, 60)),     // YearDisturbance, GullyEndYear
					r.LogUniform(1e4, 1e9),               // Area
					[]float64{1, 0, r.Uniform(0, 3)}[r.Intn(3)], // averageGullyActivityFactor
					pick0(r, 0.15, func() float64 { return r.LogUniform(1, 1e5) }), // GullyAnnualAverageSedimentSupply
					[]float64{0, 100, 50, Snap(r, r.Uniform(0, 100))}[r.Intn(4)],    // GullyPercentFine
					[]float64{1, r.Uniform(0, 1.5)}[r.Intn(2)],                      // managementPracticeFactor
					pick0(r, 0.3, func() float64 { return r.LogUniform(1e-3, 1e3) }), // longtermRunoffFactor
					[]float64{0, -1, 1, r.Uniform(0.5, 2.5)}[r.Intn(4)],              // dailyRunoffPowerFactor
					pick0(r, 0.1, func() float64 { return Snap(r, r.Uniform(0, 100)) }), // sdrFine
					pick0(r, 0.1, func() float64 { return Snap(r, r.Uniform(0, 100)) }), // sdrCoarse
					[]float64{86400, 3600}[r.Intn(2)],
				}
			},
			Inputs: func(r *Rng, T int, p []float64) [][]float64 {
				yr := make([]float64, T)
				ar := make([]float64, T)
				al := make([]float64, T)
				y0 := int(p[0]) - r.Range(0, 2)
				if r.Chance(0.3) {
					y0 = int(p[1]) - r.Range(0, 1)
				}
				perYear := r.Range(1, 40)
				a, l := 0.0, 0.0
				for i := 0; i < T; i++ {
					if i%perYear == 0 {
						a = pick0(r, 0.15, func() float64 { return r.LogUniform(1, 2000) })
						l = pick0(r, 0.15, func() float64 { return r.LogUniform(1, 1e7) })
					}
					yr[i] = float64(y0 + i/perYear)
					ar[i] = a
					al[i] = l
				}
				return [][]float64{flowSeries(r, T), yr, ar, al}
			},
		})
	}
	gully("DynamicSednetGully")
	gully("DynamicSednetGullyAlt")
}
