package main

// Generators for routing / constituent models.

func init() {
	regModel(&ModelGen{Name: "LumpedConstituentRouting",
		Params: func(r *Rng) []float64 {
			dt := []float64{86400, 3600, 1, 43200}[r.Intn(4)]
			pi := 0.0
			if r.Chance(0.4) {
				pi = r.LogUniform(1e-6, 1)
			}
			return []float64{r.F01(), pi, dt}
		},
		Inputs: func(r *Rng, T int, p []float64) [][]float64 {
			flow := Series(r, T, r.LogUniform(1e-3, 100))
			storage := Series(r, T, r.LogUniform(1, 1e6))
			if r.Chance(0.3) { // near-empty reach: exercises the MINIMUM_VOLUME flush
				storage = Series(r, T, 1e-3)
				flow = Series(r, T, 1e-8)
			}
			return [][]float64{Series(r, T, r.LogUniform(1e-4, 10)), Series(r, T, r.LogUniform(1e-4, 10)), flow, storage}
		},
		States: func(r *Rng, p []float64) []float64 { return []float64{r.LogUniform(1e-3, 1e5)} },
	})
	regModel(&ModelGen{Name: "Muskingum",
		Params: func(r *Rng) []float64 {
			dt := []float64{86400, 3600, 43200}[r.Intn(3)]
			// stable region 2KX ≤ dt ≤ 2K(1-X)
			x := r.Uniform(0, 0.5)
			lo := dt / (2 * (1 - x))
			hi := dt * 50
			if x > 0 && dt/(2*x) < hi {
				hi = dt / (2 * x)
			}
			k := r.Uniform(lo, hi)
			return []float64{k, x, dt}
		},
		Inputs: func(r *Rng, T int, p []float64) [][]float64 {
			lat := Series(r, T, r.LogUniform(1e-3, 100))
			if r.Chance(0.3) {
				lat = make([]float64, T)
			}
			return [][]float64{Series(r, T, r.LogUniform(1e-3, 100)), lat}
		},
		States: func(r *Rng, p []float64) []float64 {
			q := r.LogUniform(1e-3, 100)
			return []float64{0, q, q * r.Uniform(0.5, 1.5)}
		},
	})
}
