package main

import "math"

// Generators for flow-routing models (constituent models: models_constituent.go).

// steady-state coordination between Inputs and States of one Muskingum draw (Inputs is drawn first)
var muskSteadyQ float64

// StorageRouting: one coordinated stream (Params → Inputs → States) with volumes so large that rounding residues exceed
// massBalanceLimit; the only way to reach the `maxQI <= minQI` exit of calcOutflow (unreachable in exact arithmetic).
var srHuge bool

func init() {
	regModel(&ModelGen{Name: "Muskingum",
		Params: func(r *Rng) []float64 {
			dt := []float64{86400, 3600, 43200}[r.Intn(3)]
			// stable region 2KX ≤ dt ≤ 2K(1-X)
			x := r.Uniform(0, 0.5)
			if r.Chance(0.15) {
				x = 0
			} else if r.Chance(0.1) {
				x = []float64{0.5, 0.25, 0.1, 0.2}[r.Intn(4)]
			}
			lo := dt / (2 * (1 - x))
			hi := dt * 50
			if x > 0 && dt/(2*x) < hi {
				hi = dt / (2 * x)
			}
			k := r.Uniform(lo, hi)
			if r.Chance(0.1) {
				k = lo // dt = 2K(1-X): a3 = 0
			} else if r.Chance(0.1) {
				k = hi // 2KX = dt: a1 = 0 (when the bound is active)
			}
			return []float64{k, x, dt}
		},
		Inputs: func(r *Rng, T int, p []float64) [][]float64 {
			muskSteadyQ = 0
			if r.Chance(0.15) { // steady flow: constant total inflow
				q := r.LogUniform(1e-3, 1000)
				if r.Chance(0.3) {
					q = float64(r.Range(1, 50))
				}
				lat := 0.0
				if r.Bool() {
					lat = math.Round(q*r.F01()*8) / 8 // exactly representable split of small integers
					if lat > q {
						lat = 0
					}
				}
				muskSteadyQ = q
				return [][]float64{ConstSeries(T, q-lat), ConstSeries(T, lat)}
			}
			lat := Series(r, T, r.LogUniform(1e-3, 100))
			if r.Chance(0.3) {
				lat = make([]float64, T)
			}
			in := Series(r, T, r.LogUniform(1e-3, 100))
			if r.Chance(0.2) && T > 8 { // a finite event followed by a recession to zero inflow
				for i := T / 3; i < T; i++ {
					in[i], lat[i] = 0, 0
				}
			}
			return [][]float64{in, lat}
		},
		States: func(r *Rng, p []float64) []float64 {
			if muskSteadyQ > 0 {
				return []float64{0, muskSteadyQ, muskSteadyQ}
			}
			q := r.LogUniform(1e-3, 100)
			return []float64{r.Uniform(0, 10), q, q * r.Uniform(0.5, 1.5)}
		},
	})

	// Lag: timeLag (steps). The state row is the buffer of int(timeLag) cells.
	regModel(&ModelGen{Name: "Lag",
		Params: func(r *Rng) []float64 {
			var lag float64
			switch r.Intn(8) {
			case 0:
				lag = 0
			case 1:
				lag = 1
			case 2:
				lag = float64(r.Range(2, 6))
			case 3:
				lag = float64(r.Range(100, 260)) // longer than any series of the quick tier
			case 4:
				lag = float64(r.Range(0, 12)) + r.F01() // fractional: int() truncates
			default:
				lag = float64(r.Range(0, 130))
			}
			return []float64{lag}
		},
		Inputs: func(r *Rng, T int, p []float64) [][]float64 {
			return [][]float64{Series(r, T, r.LogUniform(1e-3, 100))}
		},
		States: func(r *Rng, p []float64) []float64 {
			n := int(p[0])
			if r.Chance(0.06) {
				n += r.Range(1, 3) // a longer state row: the extra cells must stay untouched
			} else if r.Chance(0.02) && n > 0 {
				n -= 1 // malformed: state row shorter than the lag (the code indexes out of range)
			}
			s := make([]float64, n)
			for i := range s {
				s[i] = math.Round(r.LogUniform(1e-3, 1e3)*1e3) / 1e3
			}
			return s
		},
	})

	// StorageRouting: InflowBias, RoutingConstant k, RoutingPower m, area, deadStorage, DeltaT.
	regModel(&ModelGen{Name: "StorageRouting",
		Params: func(r *Rng) []float64 {
			dt := []float64{86400, 86400, 3600, 43200}[r.Intn(4)]
			srHuge = r.Chance(0.15)
			if srHuge {
				return []float64{0, r.LogUniform(1e3, 1e6), 1, 1e19, 0, dt}
			}
			var k float64
			switch r.Intn(6) {
			case 0:
				k = r.LogUniform(1e-7, 1) // almost no routing storage: the full-drain exit
			case 1:
				k = r.LogUniform(1, 1e3)
			default:
				k = r.LogUniform(1e3, 1e6)
			}
			m := 1.0
			switch r.Intn(8) {
			case 0, 1, 2:
				m = r.Uniform(0.3, 1)
			case 3:
				m = []float64{0.5, 0.6, 0.75, 0.8, 0.9}[r.Intn(5)]
			case 4:
				m = 1 + r.Uniform(-0.0009, 0.0009) // snapped to 1 when the bias is non-zero
			case 5:
				if r.Chance(0.3) {
					m = r.Uniform(1.001, 1.6) // outside the property's region (m ≤ 1): correspondence only
				}
			}
			bias := 0.0
			switch r.Intn(10) {
			case 0, 1, 2:
				// within the Muskingum stability limit 2·k·bias ≤ dt
				hi := math.Min(0.5, dt/(2*k))
				if hi > 0.0011 {
					bias = r.Uniform(0.0011, hi)
				}
			case 3:
				bias = r.Uniform(-0.0009, 0.0009) // snapped to 0
			case 4:
				if r.Chance(0.3) {
					bias = []float64{0.9995, 1, 0.7, 0.998}[r.Intn(4)] // outside the region: correspondence only
				}
			}
			area := 0.0
			if r.Chance(0.5) {
				area = r.LogUniform(1e2, 1e8)
			}
			dead := 0.0
			if r.Chance(0.45) {
				dead = r.LogUniform(1, 1e5)
				if r.Chance(0.3) {
					dead = math.Round(dead)
				}
			}
			return []float64{bias, k, m, area, dead, dt}
		},
		Inputs: func(r *Rng, T int, p []float64) [][]float64 {
			if srHuge { // evaporation demand exceeds everything present; no lateral inflow
				ev := make([]float64, T)
				for i := range ev {
					ev[i] = r.Uniform(1, 10)
				}
				return [][]float64{Series(r, T, 1), make([]float64, T), make([]float64, T), ev}
			}
			sc := r.LogUniform(1e-4, 1e3)
			in := Series(r, T, sc)
			lat := Series(r, T, sc*r.LogUniform(1e-3, 1))
			if r.Chance(0.4) {
				lat = make([]float64, T)
			}
			rain := Series(r, T, r.Uniform(0, 40))
			evap := Series(r, T, r.Uniform(0, 12))
			if r.Chance(0.3) {
				rain = make([]float64, T)
			}
			if r.Chance(0.2) {
				evap = make([]float64, T)
			}
			switch r.Intn(10) {
			case 0: // a constant flow: the previous index flow is still the solution (prev-qi exit)
				q := r.LogUniform(1e-3, 100)
				in, lat, rain, evap = ConstSeries(T, q), make([]float64, T), make([]float64, T), make([]float64, T)
			case 1: // a long dry spell with evaporation emptying the reach
				for i := T / 4; i < T; i++ {
					in[i], lat[i], rain[i] = 0, 0, 0
				}
			case 2: // trickle into an empty reach below its dead storage
				for i := range in {
					in[i] = 1e-3 * r.F01()
					lat[i] = 0
				}
			}
			return [][]float64{in, lat, rain, evap}
		},
		States: func(r *Rng, p []float64) []float64 {
			dead := p[4]
			if srHuge {
				return []float64{r.LogUniform(1e14, 1e17), 0, 0}
			}
			var s float64
			switch r.Intn(6) {
			case 0:
				s = 0
			case 1:
				s = dead
			case 2:
				s = dead * r.F01()
			case 3:
				s = dead + r.LogUniform(1e-3, 1e3)
			default:
				s = dead + r.LogUniform(1, 1e7)
			}
			return []float64{s, r.LogUniform(1e-3, 10), r.LogUniform(1e-3, 10)}
		},
	})
}
