package main

import (
	"fmt"
	"math"
)

// Oracles of property C12 (constituent transport and trapping conserve mass), evaluated on the implementation's
// outputs only.
//
// The in-stream store is not an output of any of the models, only its final value is (the state row). The oracle
// therefore re-derives the store from the budget itself:
//
//	store(t+1) = store(t) + massIn(t) − massOut(t) − deposited/trapped/decayed/floodplain(t)
//
// starting from the initial state, where every term on the right is an input or a reported output. On a step whose
// working volume is below the model's threshold the code is allowed to flush the store ("the only permitted loss"):
// there the reconstructed value is the flushed amount (must not be negative: no mass may be created) and the
// reconstruction restarts from 0. The run passes if (a) the reconstruction never goes negative, (b) at the end it equals
// the reported final store, i.e. the exact budget holds over the whole run when no step is below the threshold and over
// the whole flush-free tail otherwise, (c) all loads and stores are non-negative and finite.
//
// Tolerance: every step performs a handful of IEEE operations on the terms of the budget (relative error 1.1e-16
// each); over ≤ 12 000 steps the accumulated error is below 1e-11 × the largest term. The oracle uses 1e-9 × the
// largest term (largest of initial store, final store, total mass in, total mass to each sink), which a correct kernel
// cannot exceed and any real loss or gain (a missing Δt, a stale store, a swapped branch) exceeds by orders of magnitude.

const c12Rtol = 1e-9

type c12Run struct {
	model string
	in    []float64 // mass entering the in-stream store on step t
	sink  []float64 // mass leaving it on step t (downstream·Δt + deposited + trapped + decayed + floodplain·Δt)
	low   []bool    // step t is below the volume threshold: flush permitted
	s0    float64
	sT    float64
	mag   float64 // Σ of the magnitudes of the individual sink terms (a step's terms may cancel: remobilised mass leaving downstream)
}

// sinks sets the mass leaving the in-stream store on step t as the sum of its individual terms.
func (b *c12Run) sinks(t int, terms ...float64) {
	v := 0.0
	for _, x := range terms {
		v += x
		b.mag += math.Abs(x)
	}
	b.sink[t] = v
}

func (b *c12Run) scale() float64 {
	si, so := 0.0, 0.0
	for t := range b.in {
		si += math.Abs(b.in[t])
		so += math.Abs(b.sink[t])
	}
	return math.Max(math.Max(math.Abs(b.s0), math.Abs(b.sT)), math.Max(si, math.Max(so, b.mag)))
}

// check runs the reconstruction; returns the number of flush steps.
func (b *c12Run) check(c *Ctx, id int, scope, body string) int {
	scale := b.scale()
	tol := c12Rtol * scale
	acc := b.s0
	nflush := 0
	var comp float64 // Neumaier compensation so that the oracle's own round-off stays far below tol
	add := func(x float64) {
		t := acc + x
		if math.Abs(acc) >= math.Abs(x) {
			comp += (acc - t) + x
		} else {
			comp += (x - t) + acc
		}
		acc = t
	}
	for t := range b.in {
		add(b.in[t])
		add(-b.sink[t])
		v := acc + comp
		if math.IsNaN(v) || math.IsInf(v, 0) {
			c.OracleFail(id, scope+":non-finite", fmt.Sprintf("budget term not finite at step %d", t), body)
			return nflush
		}
		if v < -tol {
			c.OracleFail(id, scope, fmt.Sprintf("mass created: by step %d the sinks have received %.17g more than initial store + mass in (tolerance %.3g, largest term %.6g)", t, -v, tol, scale), body)
			return nflush
		}
		if b.low[t] {
			nflush++
			acc, comp = 0, 0
		}
	}
	v := acc + comp
	if math.Abs(v-b.sT) > tol {
		what := "whole run"
		if nflush > 0 {
			what = "flush-free tail of the run"
		}
		c.OracleFail(id, scope, fmt.Sprintf("budget does not close over the %s: initial store + mass in − mass to sinks = %.17g but final store = %.17g (difference %.6g, tolerance %.3g, largest term %.6g, %d flush steps)", what, v, b.sT, v-b.sT, tol, scale, nflush), body)
	}
	return nflush
}

func c12Init(k *KCall, n int) []float64 {
	if k.Init {
		return make([]float64, n)
	}
	return k.S
}

// c12NonNeg: every listed value ≥ −tol and finite.
func c12NonNeg(c *Ctx, id int, scope, body string, tol float64, names []string, series ...[]float64) bool {
	for i, s := range series {
		for t, v := range s {
			if math.IsNaN(v) || math.IsInf(v, 0) {
				c.OracleFail(id, scope+":non-finite", fmt.Sprintf("%s[%d] = %v", names[i], t, v), body)
				return false
			}
			if v < -tol {
				c.OracleFail(id, scope+":negative", fmt.Sprintf("%s[%d] = %.17g < 0 (tolerance %.3g)", names[i], t, v, tol), body)
				return false
			}
		}
	}
	return true
}

func c12InputsOK(k *KCall) bool {
	// the property quantifies over non-negative finite loads, flows and volumes
	return allFinite(k.In...) && allFinite(k.P) && allFinite(k.S)
}

func c12Stat(c *Ctx, model string, nflush, T int) {
	if nflush > 0 {
		c.Stats.Count("C12:" + model + ":runs-with-flush")
		if nflush < T {
			c.Stats.Count("C12:" + model + ":runs-mixed")
		}
	} else {
		c.Stats.Count("C12:" + model + ":runs-flush-free")
	}
}

// lumped-type budget shared by LumpedConstituentRouting, the bank-full-0 branch of InstreamFineSediment and
// StorageDissolvedDecay with decay disabled.
func c12Lumped(c *Ctx, id int, body, model, scope string, in, outflow, vol, outLoad []float64, dt, s0, sT float64) int {
	T := len(in)
	b := &c12Run{model: model, in: in, sink: make([]float64, T), low: make([]bool, T), s0: s0, sT: sT}
	for t := 0; t < T; t++ {
		b.sink[t] = outLoad[t] * dt
		b.low[t] = outflow[t]*dt+vol[t] < minimumVolumeC12
		if b.low[t] && outLoad[t] != 0 {
			c.OracleFail(id, scope, fmt.Sprintf("step %d is below the minimum volume but reports a downstream load %v", t, outLoad[t]), body)
		}
	}
	n := b.check(c, id, scope, body)
	c12NonNeg(c, id, scope, body, c12Rtol*b.scale(), []string{"downstream load", "final store"}, outLoad, []float64{sT})
	c12Stat(c, model, n, T)
	return n
}

func init() {
	regOracle("C12", "LumpedConstituentRouting", func(c *Ctx, id int, k *KCall, r *KResult, body string) {
		if r.Status != "ok" {
			c.OracleFail(id, k.Model+":panic", r.Status, body)
			return
		}
		if !c12InputsOK(k) {
			return
		}
		pi, dt := k.P[1], k.P[2]
		T := k.T()
		in := make([]float64, T)
		for t := range in {
			in[t] = (k.In[0][t] + k.In[1][t] + pi) * dt
		}
		s0 := c12Init(k, 1)[0]
		c12Lumped(c, id, body, k.Model, k.Model, in, k.In[2], k.In[3], r.Out[0], dt, s0, r.S[0])
		for t := 0; t < T; t++ {
			low := k.In[2][t]*dt+k.In[3][t] < minimumVolumeC12
			want := pi
			if low {
				want = 0
			}
			if r.Out[1][t] != want {
				c.OracleFail(id, k.Model+":point-source-report", fmt.Sprintf("pointSourceLoad[%d] = %v, expected %v", t, r.Out[1][t], want), body)
				break
			}
		}
	})

	regOracle("C12", "ConstituentDecay", func(c *Ctx, id int, k *KCall, r *KResult, body string) {
		if r.Status != "ok" {
			c.OracleFail(id, k.Model+":panic", r.Status, body)
			return
		}
		if !c12InputsOK(k) {
			return
		}
		hl, dt := k.P[1], k.P[2]
		T := k.T()
		b := &c12Run{model: k.Model, in: make([]float64, T), sink: make([]float64, T), low: make([]bool, T),
			s0: c12Init(k, 1)[0], sT: r.S[0]}
		for t := 0; t < T; t++ {
			b.in[t] = k.In[0][t]*dt + k.In[1][t]*dt
			b.sinks(t, r.Out[1][t]*dt, r.Out[0][t]*dt)
			b.low[t] = k.In[3][t]*dt+k.In[4][t] < minimumVolumeC12
			if !(hl > 0) && r.Out[0][t] != 0 {
				c.OracleFail(id, k.Model, fmt.Sprintf("decay disabled (halfLife %v) but decayedLoad[%d] = %v", hl, t, r.Out[0][t]), body)
				break
			}
		}
		n := b.check(c, id, k.Model, body)
		c12NonNeg(c, id, k.Model, body, c12Rtol*b.scale(), []string{"decayedLoad", "outflowLoad", "final store"}, r.Out[0], r.Out[1], r.S)
		c12Stat(c, k.Model, n, T)
	})

	regOracle("C12", "InstreamCoarseSediment", func(c *Ctx, id int, k *KCall, r *KResult, body string) {
		if r.Status != "ok" {
			c.OracleFail(id, k.Model+":panic", r.Status, body)
			return
		}
		if !c12InputsOK(k) {
			return
		}
		dt := k.P[0]
		T := k.T()
		s := c12Init(k, 2)
		// total store = channel store + in-stream store; the only sink is the downstream load
		b := &c12Run{model: k.Model, in: make([]float64, T), sink: make([]float64, T), low: make([]bool, T),
			s0: s[0] + s[1], sT: r.S[0] + r.S[1]}
		for t := 0; t < T; t++ {
			b.in[t] = (k.In[0][t] + k.In[1][t] + k.In[2][t]) * dt
			b.sink[t] = r.Out[0][t] * dt
		}
		b.check(c, id, k.Model, body)
		c12NonNeg(c, id, k.Model, body, c12Rtol*b.scale(), []string{"loadDownstream", "final stores"}, r.Out[0], r.S)
		c12Stat(c, k.Model, 0, T)
	})

	regOracle("C12", "InstreamFineSediment", func(c *Ctx, id int, k *KCall, r *KResult, body string) {
		if r.Status != "ok" {
			c.OracleFail(id, k.Model+":panic", r.Status, body)
			return
		}
		if !c12InputsOK(k) {
			return
		}
		p := k.P
		bff, dt := p[0], p[12]
		T := k.T()
		s := c12Init(k, 2)
		in := make([]float64, T)
		for t := range in {
			in[t] = (k.In[0][t] + k.In[1][t] + k.In[2][t]) * dt
		}
		vol, flow := k.In[3], k.In[4]
		if bff <= 1e-8 {
			// bank-full flow 0: plain lumped routing of everything that enters the reach; the channel store is untouched
			c.Stats.Count("C12:" + k.Model + ":lumped-branch")
			c12Lumped(c, id, body, k.Model, k.Model+":lumped-branch", in, flow, vol, r.Out[0], dt, s[1], r.S[1])
			if r.S[0] != s[0] {
				c.OracleFail(id, k.Model+":lumped-branch", fmt.Sprintf("channel store changed from %v to %v", s[0], r.S[0]), body)
			}
			return
		}
		maxStorage := p[7] * p[6] * (p[3] * p[4]) * p[8] * 1000
		cs0 := s[0]
		if cs0 < 0 {
			cs0 = math.Abs(cs0) * maxStorage
		}
		b := &c12Run{model: k.Model, in: in, sink: make([]float64, T), low: make([]bool, T), s0: s[1], sT: r.S[1]}
		depScale := math.Abs(cs0)
		for t := 0; t < T; t++ {
			b.sinks(t, r.Out[0][t]*dt, r.Out[1][t]*dt, r.Out[2][t])
			b.low[t] = vol[t]+flow[t]*dt <= 0
			depScale = math.Max(depScale, math.Abs(r.Out[2][t]))
		}
		if !allFinite(r.Out...) || !allFinite(r.S) {
			c.OracleFail(id, k.Model+":non-finite", "an output or state is NaN/Inf for finite non-negative inputs", body)
			return
		}
		n := b.check(c, id, k.Model, body)
		tol := c12Rtol * b.scale()
		c12NonNeg(c, id, k.Model, body, tol, []string{"loadDownstream", "loadToFloodplain", "floodplainDepositionFraction", "final in-stream store"},
			r.Out[0], r.Out[1], r.Out[3], []float64{r.S[1]})
		c12Stat(c, k.Model, n, T)
		// channel store: follows the reported net deposition; remobilisation never exceeds what it holds
		cs := cs0
		ctol := c12Rtol * math.Max(depScale, math.Abs(maxStorage))
		for t := 0; t < T; t++ {
			d := r.Out[2][t]
			if d < 0 {
				c.Stats.Count("C12:" + k.Model + ":remob-steps")
				if -d > cs+ctol {
					c.OracleFail(id, k.Model+":remobilisation", fmt.Sprintf("step %d remobilises %.17g but the channel store holds %.17g", t, -d, cs), body)
					break
				}
			} else if d > 0 {
				c.Stats.Count("C12:" + k.Model + ":deposition-steps")
				if s[0] <= maxStorage && cs0 <= maxStorage && cs+d > maxStorage+ctol {
					c.OracleFail(id, k.Model+":deposition", fmt.Sprintf("step %d deposits %.17g into a channel store of %.17g with capacity %.17g", t, d, cs, maxStorage), body)
					break
				}
			}
			cs += d
			if cs < -ctol {
				c.OracleFail(id, k.Model+":negative", fmt.Sprintf("channel store %.17g < 0 after step %d", cs, t), body)
				break
			}
			if f := r.Out[3][t]; f > 1+c12Rtol {
				c.OracleFail(id, k.Model, fmt.Sprintf("floodplainDepositionFraction[%d] = %v > 1", t, f), body)
				break
			}
		}
		// (the reconstruction repeats the code's own `store += deposition`, so it is exact; ctol only absorbs −0/+0 style noise)
		if math.Abs(cs-r.S[0]) > ctol {
			c.OracleFail(id, k.Model+":channel-store", fmt.Sprintf("initial channel store + reported net deposition = %.17g but final channel store = %.17g", cs, r.S[0]), body)
		}
	})

	regOracle("C12", "InstreamParticulateNutrient", func(c *Ctx, id int, k *KCall, r *KResult, body string) {
		if r.Status != "ok" {
			c.OracleFail(id, k.Model+":panic", r.Status, body)
			return
		}
		if !c12InputsOK(k) {
			return
		}
		pnc, dt := k.P[0], k.P[2]
		T := k.T()
		s := c12Init(k, 2)
		up, lat, vol, flow, sbe := k.In[0], k.In[1], k.In[2], k.In[3], k.In[4]
		dep, fromBank, down, fp := r.Out[0], r.Out[1], r.Out[2], r.Out[3]
		b := &c12Run{model: k.Model, in: make([]float64, T), sink: make([]float64, T), low: make([]bool, T), s0: s[0], sT: r.S[0]}
		sumDep, depScale := 0.0, math.Max(math.Abs(s[1]), math.Abs(r.S[1]))
		for t := 0; t < T; t++ {
			b.in[t] = up[t]*dt + lat[t]*dt + fromBank[t]*dt
			b.sinks(t, down[t]*dt, fp[t]*dt, dep[t])
			b.low[t] = flow[t]*dt+vol[t] < minimumVolumeC12
			sumDep += dep[t]
			depScale = math.Max(depScale, math.Abs(dep[t]))
			if fromBank[t] != sbe[t]*pnc {
				c.OracleFail(id, k.Model, fmt.Sprintf("loadFromStreambank[%d] = %v, expected streambankErosion × concentration = %v", t, fromBank[t], sbe[t]*pnc), body)
				break
			}
		}
		n := b.check(c, id, k.Model, body)
		c12NonNeg(c, id, k.Model, body, c12Rtol*b.scale(), []string{"loadDownstream", "loadToFloodplain", "loadFromStreambank", "final in-stream store"},
			down, fp, fromBank, []float64{r.S[0]})
		c12Stat(c, k.Model, n, T)
		if n == 0 {
			// the channel store follows the reported bed exchange (on flushed steps the code does not report it)
			if math.Abs(s[1]+sumDep-r.S[1]) > c12Rtol*depScale*float64(T+1) { // |Σ| ≤ (T+1)·largest term
				c.OracleFail(id, k.Model+":channel-store", fmt.Sprintf("initial channel store + reported deposition = %.17g but final channel store = %.17g", s[1]+sumDep, r.S[1]), body)
			}
		}
	})

	regOracle("C12", "StorageParticulateTrapping", func(c *Ctx, id int, k *KCall, r *KResult, body string) {
		if r.Status != "ok" {
			c.OracleFail(id, k.Model+":panic", r.Status, body)
			return
		}
		if !c12InputsOK(k) {
			return
		}
		dt := k.P[0]
		T := k.T()
		b := &c12Run{model: k.Model, in: make([]float64, T), sink: make([]float64, T), low: make([]bool, T),
			s0: c12Init(k, 1)[0], sT: r.S[0]}
		for t := 0; t < T; t++ {
			b.in[t] = k.In[0][t] * dt
			b.sinks(t, r.Out[0][t], r.Out[1][t]*dt)
			if r.Out[0][t] > b.in[t]*(1+c12Rtol) {
				c.OracleFail(id, k.Model, fmt.Sprintf("step %d traps %.17g of an incoming %.17g", t, r.Out[0][t], b.in[t]), body)
				break
			}
		}
		b.check(c, id, k.Model, body) // no flush branch in this model: the budget must close over every run
		c12NonNeg(c, id, k.Model, body, c12Rtol*b.scale(), []string{"trappedMass", "outflowLoad", "final store"}, r.Out[0], r.Out[1], r.S)
		c12Stat(c, k.Model, 0, T)
	})

	regOracle("C12", "StorageTrapAll", func(c *Ctx, id int, k *KCall, r *KResult, body string) {
		if k.T() == 0 {
			// empty series: the kernel indexes element 0 and panics (modelled as an error); no budget to check
			c.Stats.Count("C12:" + k.Model + ":empty-series:" + r.Status)
			return
		}
		if r.Status != "ok" {
			c.OracleFail(id, k.Model+":panic", r.Status, body)
			return
		}
		if !c12InputsOK(k) {
			return
		}
		// no Δt in this model: trapped is in the units of the inflow series
		T := k.T()
		s0 := c12Init(k, 1)[0]
		for t := 0; t < T; t++ {
			want := k.In[0][t]
			if t == 0 {
				want += s0
			}
			if r.Out[0][t] != want {
				c.OracleFail(id, k.Model, fmt.Sprintf("trappedMass[%d] = %v, expected %v", t, r.Out[0][t], want), body)
				return
			}
			if r.Out[1][t] != 0 {
				c.OracleFail(id, k.Model, fmt.Sprintf("outflowMass[%d] = %v, expected 0 (everything is trapped)", t, r.Out[1][t]), body)
				return
			}
		}
		scale := math.Max(math.Abs(s0), sum(k.In[0]))
		if math.Abs(sum(k.In[0])+s0-sum(r.Out[0])-r.S[0]) > c12Rtol*scale || r.S[0] != 0 {
			c.OracleFail(id, k.Model, fmt.Sprintf("mass in %.17g + initial store %.17g ≠ trapped %.17g + final store %.17g", sum(k.In[0]), s0, sum(r.Out[0]), r.S[0]), body)
		}
		c12Stat(c, k.Model, 0, T)
	})

	regOracle("C12", "StorageDissolvedDecay", func(c *Ctx, id int, k *KCall, r *KResult, body string) {
		if k.P[1] >= 0.5 {
			c.Stats.Count("C12:" + k.Model + ":decay-enabled-not-in-property")
			return
		}
		if r.Status != "ok" {
			c.OracleFail(id, k.Model+":panic", r.Status, body)
			return
		}
		if !c12InputsOK(k) {
			return
		}
		dt := k.P[0]
		T := k.T()
		in := make([]float64, T)
		for t := range in {
			in[t] = k.In[0][t] * dt
		}
		c12Lumped(c, id, body, k.Model, k.Model, in, k.In[2], k.In[3], r.Out[1], dt, c12Init(k, 1)[0], r.S[0])
		for t := 0; t < T; t++ {
			if r.Out[0][t] != 0 {
				c.OracleFail(id, k.Model, fmt.Sprintf("decay disabled but decayedMass[%d] = %v", t, r.Out[0][t]), body)
				break
			}
		}
	})
}
