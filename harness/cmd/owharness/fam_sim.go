package main

// Family SIM (property C07): the REAL ow-sim binary on generated model graphs.
//
// A case is a model graph: model types (catalogued kernels that have a bit-exact Lean kernel model), per-model
// cumulative `batches`, per-node parameters / initial states / optional stored inputs, a /LINKS table with the ten
// columns of cmd/ow-sim/main.go, and a command-line output selection. Exec writes the input file THROUGH THE HDF5 STUB
// (gonum.org/v1/hdf5 is replaced by /verif/harness/hdf5stub: libhdf5 is MODELLED), runs the ow-sim binary named by
// OW_SIM_BIN (built with tag `verif` from the tree under test) in a temporary directory with OW_TRACE set, reads the
// output file back through the stub and returns the canonical dump of the output datasets, followed after " | " by the
// hook trace of that execution (ignored by the model comparison, used by the oracle and by family SIMTRACE).
//
// body:  gmp jit T G M  sel(4 × Is)  { name nP nI nS hasIn Is(batches) { P… S… [I…] }×N }×M  L { 10 ints }×L
//        a model with TABLE-valued (dimensioned) parameters has nP = -1 and every node's parameters are length-prefixed
//        (Fs): the node's PACKED column [nPts, inputAmount[nPts], proportion[nPts]] (different lengths per node); the
//        `parameters` dataset of the input file is the table padded to the model-wide maximum of each dimension
// impl:  ok { name created  ds(outputs) ds(inputs) ds(states) extra }×M  | ntrace { ev a b }…
//        ds = 0 | 1 rank dims… values…          (exit <code> / panic <class> when ow-sim fails)

import (
	"bytes"
	"fmt"
	"math"
	"os"
	"os/exec"
	"path/filepath"
	"sort"
	"strconv"
	"strings"
	"sync"
	"sync/atomic"
	"time"

	"gonum.org/v1/hdf5"
)

// ------------------------------------------------------------------------------------------------
// graph

type SimModel struct {
	Name       string
	NP, NI, NS int
	Table      bool // dimensioned parameters: P[node] is the node's packed column (own table lengths); NP is not used
	HasInputs  bool
	Batches    []int         // cumulative node counts per generation
	P          [][]float64   // [node][param]
	S          [][]float64   // [node][state]
	In         [][][]float64 // [node][input][t] (only when HasInputs)
}

func (m *SimModel) Total() int {
	if len(m.Batches) == 0 {
		return 0
	}
	return m.Batches[len(m.Batches)-1]
}

// paramRows is the wrapper's parameter array [row][set] for the given nodes: one row per scalar parameter, or — for a
// model with table-valued parameters — the packed columns laid out (padded with zeros) to the maximum of each dimension
// OVER THE GIVEN NODES, exactly as the generated FindDimensions / ApplyParameters expect (buildParams, fam_w.go).
func (m *SimModel) paramRows(nodes []int) [][]float64 {
	if m.Table {
		cols := make([][]float64, len(nodes))
		for i, n := range nodes {
			cols[i] = m.P[n]
		}
		return buildParams(specOf(m.Name), cols)
	}
	rows := make([][]float64, m.NP)
	for p := range rows {
		rows[p] = make([]float64, len(nodes))
		for i, n := range nodes {
			rows[p][i] = m.P[n][p]
		}
	}
	return rows
}

// tableLen is the table length (first dimension parameter) of a node of a table model.
func (m *SimModel) tableLen(n int) int {
	if !m.Table || len(m.P[n]) == 0 {
		return 0
	}
	return int(m.P[n][0])
}

func (m *SimModel) Start(g int) int {
	if g == 0 {
		return 0
	}
	return m.Batches[g-1]
}

type SimGraph struct {
	GMP, Jit int
	T, G     int
	Models   []*SimModel
	Sel      [4][]int // outputs-for, no-outputs-for, inputs-for, no-inputs-for (model indices)
	Links    [][10]int
	// generator bookkeeping (not part of the protocol line)
	chain                      bool
	tableRepairs, tableRedraws int
	tableInterior              bool
}

func (g *SimGraph) Body() string {
	var b strings.Builder
	fmt.Fprintf(&b, "%d %d %d %d %d", g.GMP, g.Jit, g.T, g.G, len(g.Models))
	for _, s := range g.Sel {
		b.WriteByte(' ')
		b.WriteString(Is(s))
	}
	for _, m := range g.Models {
		hi := 0
		if m.HasInputs {
			hi = 1
		}
		np := m.NP
		if m.Table {
			np = -1
		}
		fmt.Fprintf(&b, " %s %d %d %d %d %s", m.Name, np, m.NI, m.NS, hi, Is(m.Batches))
		for n := 0; n < m.Total(); n++ {
			if m.Table {
				b.WriteByte(' ')
				b.WriteString(Fs(m.P[n]))
			} else {
				for _, v := range m.P[n] {
					b.WriteByte(' ')
					b.WriteString(F(v))
				}
			}
			for _, v := range m.S[n] {
				b.WriteByte(' ')
				b.WriteString(F(v))
			}
			if m.HasInputs {
				for _, s := range m.In[n] {
					for _, v := range s {
						b.WriteByte(' ')
						b.WriteString(F(v))
					}
				}
			}
		}
	}
	fmt.Fprintf(&b, " %d", len(g.Links))
	for _, l := range g.Links {
		for _, v := range l {
			b.WriteByte(' ')
			b.WriteString(strconv.Itoa(v))
		}
	}
	return b.String()
}

func parseSimGraph(body string) *SimGraph {
	t := newTokenReader(body)
	g := &SimGraph{}
	g.GMP, g.Jit, g.T, g.G = t.int(), t.int(), t.int(), t.int()
	M := t.int()
	for i := range g.Sel {
		g.Sel[i] = t.ints()
	}
	for i := 0; i < M; i++ {
		m := &SimModel{}
		m.Name = t.next()
		m.NP, m.NI, m.NS = t.int(), t.int(), t.int()
		if m.NP < 0 {
			m.Table, m.NP = true, 0
		}
		m.HasInputs = t.int() == 1
		m.Batches = t.ints()
		N := m.Total()
		for n := 0; n < N; n++ {
			var p []float64
			if m.Table {
				p = t.floats()
			} else {
				p = make([]float64, m.NP)
				for j := range p {
					p[j] = t.float()
				}
			}
			s := make([]float64, m.NS)
			for j := range s {
				s[j] = t.float()
			}
			m.P = append(m.P, p)
			m.S = append(m.S, s)
			if m.HasInputs {
				in := make([][]float64, m.NI)
				for j := range in {
					in[j] = make([]float64, g.T)
					for k := range in[j] {
						in[j][k] = t.float()
					}
				}
				m.In = append(m.In, in)
			}
		}
		g.Models = append(g.Models, m)
	}
	L := t.int()
	for i := 0; i < L; i++ {
		var l [10]int
		for j := range l {
			l[j] = t.int()
		}
		g.Links = append(g.Links, l)
	}
	return g
}

// ------------------------------------------------------------------------------------------------
// command-line selection (cmd/ow-sim/command_line.go, writeFor)

var simSelFlags = [4]string{"-outputs-for", "-no-outputs-for", "-inputs-for", "-no-inputs-for"}

func (g *SimGraph) selNames(k int) []string {
	out := []string{}
	for _, i := range g.Sel[k] {
		if i >= 0 && i < len(g.Models) {
			out = append(out, g.Models[i].Name)
		} else {
			out = append(out, "NoSuchModel")
		}
	}
	return out
}

func (g *SimGraph) cmdArgs() []string {
	args := []string{}
	for k := range g.Sel {
		if len(g.Sel[k]) > 0 {
			args = append(args, simSelFlags[k], strings.Join(g.selNames(k), ","))
		}
	}
	return args
}

// refWriteFor is the documented meaning of the flags as the code implements it: listed under the include flag → yes,
// else listed under the exclude flag → no, else the default.
func simHas(xs []int, i int) bool {
	for _, x := range xs {
		if x == i {
			return true
		}
	}
	return false
}

func (g *SimGraph) writeOutputs(mi int) bool {
	if simHas(g.Sel[0], mi) {
		return true
	}
	if simHas(g.Sel[1], mi) {
		return false
	}
	return true
}

func (g *SimGraph) writeInputs(mi int) bool {
	if simHas(g.Sel[2], mi) {
		return true
	}
	if simHas(g.Sel[3], mi) {
		return false
	}
	return g.Models[mi].Batches[0] == 0
}

// ------------------------------------------------------------------------------------------------
// writing the input file through the stub

func h5must(err error) {
	if err != nil {
		panic("h5: " + err.Error())
	}
}

func h5WriteRaw(parent *hdf5.CommonFG, name string, dt *hdf5.Datatype, dims []uint, buf interface{}, n int) {
	sp, err := hdf5.CreateSimpleDataspace(dims, nil)
	h5must(err)
	ds, err := parent.CreateDataset(name, dt, sp)
	h5must(err)
	if n > 0 {
		h5must(ds.Write(buf))
	}
	ds.Close()
	sp.Close()
}

func h5Float64s(parent *hdf5.CommonFG, name string, dims []uint, vals []float64) {
	h5WriteRaw(parent, name, hdf5.T_NATIVE_DOUBLE, dims, &vals, len(vals))
}

func writeSimInput(g *SimGraph, fn string) {
	f, err := hdf5.CreateFile(fn, hdf5.F_ACC_TRUNC)
	h5must(err)
	meta, err := f.CreateGroup("META")
	h5must(err)
	// /META/models: fixed-length strings
	L := 1
	for _, m := range g.Models {
		if len(m.Name)+1 > L {
			L = len(m.Name) + 1
		}
	}
	raw := make([]byte, L*len(g.Models))
	for i, m := range g.Models {
		copy(raw[i*L:], m.Name)
	}
	st, err := hdf5.CreateDatatype(hdf5.T_STRING, L)
	h5must(err)
	h5WriteRaw(&meta.CommonFG, "models", st, []uint{uint(len(g.Models))}, &raw, len(raw))
	meta.Close()
	// /DIMENSIONS (a group; ow-sim only lists its datasets)
	dg, err := f.CreateGroup("DIMENSIONS")
	h5must(err)
	dg.Close()
	// /LINKS uint32 [nLinks, 10]
	lv := make([]uint32, 0, 10*len(g.Links))
	for _, l := range g.Links {
		for _, v := range l {
			lv = append(lv, uint32(v))
		}
	}
	h5WriteRaw(&f.CommonFG, "LINKS", hdf5.T_NATIVE_UINT32, []uint{uint(len(g.Links)), 10}, &lv, len(lv))
	mg, err := f.CreateGroup("MODELS")
	h5must(err)
	for _, m := range g.Models {
		grp, err := mg.CreateGroup(m.Name)
		h5must(err)
		N := m.Total()
		b := make([]int32, len(m.Batches))
		for i, v := range m.Batches {
			b[i] = int32(v)
		}
		h5WriteRaw(&grp.CommonFG, "batches", hdf5.T_NATIVE_INT32, []uint{uint(len(b))}, &b, len(b))
		// parameters [nP, N]; a table model: the WHOLE table padded to the model-wide maximum of each dimension
		all := make([]int, N)
		for n := range all {
			all[n] = n
		}
		rows := m.paramRows(all)
		pv := make([]float64, 0, len(rows)*N)
		for _, row := range rows {
			pv = append(pv, row...)
		}
		h5Float64s(&grp.CommonFG, "parameters", []uint{uint(len(rows)), uint(N)}, pv)
		// states [N, nS]
		sv := make([]float64, 0, m.NS*N)
		for n := 0; n < N; n++ {
			sv = append(sv, m.S[n]...)
		}
		h5Float64s(&grp.CommonFG, "states", []uint{uint(N), uint(m.NS)}, sv)
		if m.HasInputs {
			iv := make([]float64, 0, N*m.NI*g.T)
			for n := 0; n < N; n++ {
				for j := 0; j < m.NI; j++ {
					iv = append(iv, m.In[n][j]...)
				}
			}
			h5Float64s(&grp.CommonFG, "inputs", []uint{uint(N), uint(m.NI), uint(g.T)}, iv)
		}
		grp.Close()
	}
	mg.Close()
	h5must(f.Close())
}

// ------------------------------------------------------------------------------------------------
// reading the output file through the stub → canonical dump

func fmtDS(dims []int, vals []float64) string {
	var b strings.Builder
	fmt.Fprintf(&b, "1 %d", len(dims))
	for _, d := range dims {
		fmt.Fprintf(&b, " %d", d)
	}
	for _, v := range vals {
		b.WriteByte(' ')
		b.WriteString(F(v))
	}
	return b.String()
}

func dumpSimOutput(g *SimGraph, fn string) string {
	var b strings.Builder
	b.WriteString("ok")
	f, err := hdf5.OpenFile(fn, hdf5.F_ACC_RDONLY)
	if err != nil {
		// no output file at all: only legitimate when no model has any node
		for _, m := range g.Models {
			fmt.Fprintf(&b, " %s 0 0 0 0 0", m.Name)
		}
		return b.String()
	}
	defer f.Close()
	for _, m := range g.Models {
		grp, err := f.OpenGroup("/MODELS/" + m.Name)
		if err != nil {
			fmt.Fprintf(&b, " %s 0 0 0 0 0", m.Name)
			continue
		}
		fmt.Fprintf(&b, " %s 1", m.Name)
		n, _ := grp.NumObjects()
		extra := int(n)
		for _, label := range []string{"outputs", "inputs", "states"} {
			ds, err := grp.OpenDataset(label)
			if err != nil {
				b.WriteString(" 0")
				continue
			}
			extra--
			sp := ds.Space()
			dims, _, err := sp.SimpleExtentDims()
			h5must(err)
			size := 1
			idims := make([]int, len(dims))
			for i, d := range dims {
				size *= int(d)
				idims[i] = int(d)
			}
			vals := make([]float64, size)
			if size > 0 {
				h5must(ds.Read(&vals))
			}
			b.WriteByte(' ')
			b.WriteString(fmtDS(idims, vals))
			sp.Close()
			ds.Close()
		}
		fmt.Fprintf(&b, " %d", extra)
		grp.Close()
	}
	return b.String()
}

// ------------------------------------------------------------------------------------------------
// reference semantics, computed independently of cmd/ow-sim: sequential, node by node, real kernels through the
// catalogue (one cell per Run call). Node = (model index, global row); links are read through their GLOBAL node columns
// (LINK_SRC_NODE, LINK_DEST_NODE), which ow-sim itself never looks at.

type simNodeRes struct {
	In  [][]float64
	Out [][]float64
	S   []float64
}

func simReference(g *SimGraph) [][]*simNodeRes { return simReferenceHook(g, nil) }

// simReferenceHook: `before` (generator only) sees every node's final inputs just before the node runs and may still
// adjust that node's parameters; returning false abandons the run (nil result).
func simReferenceHook(g *SimGraph, before func(mi, n int, in [][]float64) bool) [][]*simNodeRes {
	res := make([][]*simNodeRes, len(g.Models))
	for i, m := range g.Models {
		res[i] = make([]*simNodeRes, m.Total())
	}
	for gen := 0; gen < g.G; gen++ {
		for mi, m := range g.Models {
			for n := m.Start(gen); n < m.Batches[gen]; n++ {
				in := make([][]float64, m.NI)
				for j := range in {
					in[j] = make([]float64, g.T)
					if m.HasInputs {
						copy(in[j], m.In[n][j])
					}
				}
				for _, l := range g.Links {
					if l[6] == mi && l[7] == n {
						src := res[l[1]][l[2]]
						if src == nil {
							panic("reference: link from a node that has not run")
						}
						for t := range in[l[9]] {
							in[l[9]][t] += src.Out[l[4]][t]
						}
					}
				}
				if before != nil && !before(mi, n, in) {
					return nil
				}
				// one cell with ITS OWN parameter column (a table model: its own table lengths are the dimensions)
				rc := &RunCase{Model: m.Name, Cells: 1}
				rc.Params = m.paramRows([]int{n})
				rc.Inputs = [][][]float64{in}
				rc.States = [][]float64{append([]float64{}, m.S[n]...)}
				var out [][]float64
				var st []float64
				if g.T == 0 || m.NI == 0 {
					// arr3 cannot build a zero-extent array: a zero-length run leaves the states unchanged
					nOut := len(NewModel(m.Name).Description().Outputs)
					out = make([][]float64, nOut)
					st = append([]float64{}, m.S[n]...)
				} else {
					r := RunOn(nil, rc)
					out = r.Outputs[0]
					if len(r.States) > 0 {
						st = r.States[0]
					}
				}
				res[mi][n] = &simNodeRes{In: in, Out: out, S: st}
			}
		}
	}
	return res
}

// simExpectedDump is the reference result in the format of dumpSimOutput.
func simExpectedDump(g *SimGraph) string {
	ref := simReference(g)
	var b strings.Builder
	b.WriteString("ok")
	for mi, m := range g.Models {
		N := m.Total()
		if N == 0 {
			fmt.Fprintf(&b, " %s 0 0 0 0 0", m.Name)
			continue
		}
		fmt.Fprintf(&b, " %s 1", m.Name)
		nOut := len(ref[mi][0].Out)
		if g.writeOutputs(mi) {
			vals := []float64{}
			for n := 0; n < N; n++ {
				for _, s := range ref[mi][n].Out {
					vals = append(vals, s...)
				}
			}
			b.WriteString(" " + fmtDS([]int{N, nOut, g.T}, vals))
		} else {
			b.WriteString(" 0")
		}
		if g.writeInputs(mi) {
			vals := []float64{}
			for n := 0; n < N; n++ {
				for _, s := range ref[mi][n].In {
					vals = append(vals, s...)
				}
			}
			b.WriteString(" " + fmtDS([]int{N, m.NI, g.T}, vals))
		} else {
			b.WriteString(" 0")
		}
		vals := []float64{}
		for n := 0; n < N; n++ {
			vals = append(vals, ref[mi][n].S...)
		}
		b.WriteString(" " + fmtDS([]int{N, m.NS}, vals))
		b.WriteString(" 0")
	}
	return b.String()
}

// ------------------------------------------------------------------------------------------------
// Exec

var simCaseSeq int64

func simWorkDir() string {
	base := os.Getenv("OW_SIM_WORK")
	if base == "" {
		base = os.TempDir()
	}
	d := filepath.Join(base, fmt.Sprintf("sim-%d-%d", os.Getpid(), atomic.AddInt64(&simCaseSeq, 1)))
	os.MkdirAll(d, 0o755)
	return d
}

var simTraceCodes = map[string]string{
	"writer-spawned": "spawn", "token-received": "recv", "purge": "purge", "token-resent": "resent",
	"write-start": "wstart", "write-done": "wdone", "token-sent": "sent", "links-applied": "links",
	"main-final-received": "mrecv",
}

// readSimTrace → "n ev a b ev a b …" (missing arguments are -1)
func readSimTrace(fn string) string {
	raw, err := os.ReadFile(fn)
	if err != nil {
		return "0"
	}
	lines := strings.Split(strings.TrimSpace(string(raw)), "\n")
	var b strings.Builder
	n := 0
	for _, l := range lines {
		f := strings.Fields(l)
		if len(f) == 0 {
			continue
		}
		code, ok := simTraceCodes[f[0]]
		if !ok {
			code = "unknown:" + f[0]
		}
		a, bb := "-1", "-1"
		if len(f) > 1 {
			a = f[1]
		}
		if len(f) > 2 {
			bb = f[2]
		}
		fmt.Fprintf(&b, " %s %s %s", code, a, bb)
		n++
	}
	return strconv.Itoa(n) + b.String()
}

func execSim(body string) string {
	g := parseSimGraph(body)
	bin := os.Getenv("OW_SIM_BIN")
	if bin == "" {
		return "no-ow-sim-binary"
	}
	dir := simWorkDir()
	defer os.RemoveAll(dir)
	in := filepath.Join(dir, "in.h5")
	out := filepath.Join(dir, "out.h5")
	tr := filepath.Join(dir, "trace.txt")
	writeSimInput(g, in)
	if keep := os.Getenv("OW_SIM_CASES"); keep != "" {
		simKeepCase(keep, g, in)
	}
	args := append(g.cmdArgs(), in, out)
	cmd := exec.Command(bin, args...)
	cmd.Dir = dir
	env := []string{}
	for _, e := range os.Environ() {
		if !strings.HasPrefix(e, "GOMAXPROCS=") && !strings.HasPrefix(e, "OW_TRACE") {
			env = append(env, e)
		}
	}
	env = append(env, "OW_TRACE="+tr, fmt.Sprintf("OW_TRACE_JITTER=%d", g.Jit))
	if g.GMP > 0 {
		env = append(env, fmt.Sprintf("GOMAXPROCS=%d", g.GMP))
	}
	cmd.Env = env
	var stdout, stderr bytes.Buffer
	cmd.Stdout = &stdout
	cmd.Stderr = &stderr
	done := make(chan error, 1)
	if err := cmd.Start(); err != nil {
		return "no-ow-sim-binary " + strings.ReplaceAll(err.Error(), " ", "_")
	}
	go func() { done <- cmd.Wait() }()
	var err error
	select {
	case err = <-done:
	case <-time.After(120 * time.Second):
		cmd.Process.Kill()
		<-done
		return "timeout | " + readSimTrace(tr)
	}
	if err != nil {
		se := stderr.String()
		if strings.Contains(se, "panic:") || strings.Contains(se, "fatal error:") {
			cls := panicClass(se)
			if strings.Contains(se, "all goroutines are asleep") {
				cls = "deadlock"
			}
			return "panic " + cls + " | " + readSimTrace(tr)
		}
		code := -1
		if ee, ok := err.(*exec.ExitError); ok {
			code = ee.ExitCode()
		}
		return fmt.Sprintf("exit %d | %s", code, readSimTrace(tr))
	}
	return dumpSimOutput(g, out) + " | " + readSimTrace(tr)
}

var simKeepMu sync.Mutex
var simKept int

// simKeepCase keeps a few small generated input files (and their command lines) for other checks (ow-sim -race).
func simKeepCase(dir string, g *SimGraph, in string) {
	simKeepMu.Lock()
	defer simKeepMu.Unlock()
	if simKept >= 8 {
		return
	}
	nodes := 0
	for _, m := range g.Models {
		nodes += m.Total()
	}
	if nodes < 3 || g.G < 2 || len(g.Links) < 2 {
		return
	}
	os.MkdirAll(dir, 0o755)
	raw, err := os.ReadFile(in)
	if err != nil {
		return
	}
	name := fmt.Sprintf("case%02d", simKept)
	if os.WriteFile(filepath.Join(dir, name+".h5"), raw, 0o644) != nil {
		return
	}
	os.WriteFile(filepath.Join(dir, name+".args"), []byte(strings.Join(g.cmdArgs(), "\n")+"\n"), 0o644)
	simKept++
}

// ------------------------------------------------------------------------------------------------
// generator

type simKernel struct {
	Name   string
	Params func(r *Rng) []float64
	States func(r *Rng, p []float64) []float64
	// Table: a model with table-valued (dimensioned) parameters; TableParams draws the PACKED column of one node for a
	// given table length (Params is not used)
	Table       bool
	TableParams func(r *Rng, nPts int) []float64
	// Inexact: uses pow (compared at 1e-9): never put upstream of a table model, whose interpolation amplifies a relative
	// difference without bound where the proportion crosses zero
	Inexact bool
}

func simNoParams(r *Rng) []float64 { return []float64{} }

// simKernels: catalogued kernels whose Lean kernel model is bit-exact (only + - * / and comparisons).
var simKernels = []simKernel{
	{Name: "Input", Params: simNoParams},
	{Name: "Sum", Params: simNoParams},
	{Name: "Gate", Params: simNoParams},
	{Name: "VariablePartition", Params: simNoParams},
	{Name: "FixedPartition", Params: func(r *Rng) []float64 {
		if r.Chance(0.2) {
			return []float64{[]float64{0, 1, 0.5, 0.25}[r.Intn(4)]}
		}
		return []float64{r.F01()}
	}},
	{Name: "RunoffCoefficient", Params: func(r *Rng) []float64 { return []float64{r.F01()} }},
	{Name: "ApplyScalingFactor", Params: func(r *Rng) []float64 { return []float64{r.Uniform(0, 3)} }},
	{Name: "DepthToRate", Params: func(r *Rng) []float64 {
		return []float64{[]float64{86400, 3600}[r.Intn(2)], r.LogUniform(1e3, 1e8)}
	}},
	{Name: "EmcDwc", Params: func(r *Rng) []float64 { return []float64{r.Uniform(0, 200), r.Uniform(0, 50)} }},
	{Name: "FixedConcentration", Params: func(r *Rng) []float64 { return []float64{r.Uniform(0, 100)} }},
	{Name: "Muskingum",
		Params: func(r *Rng) []float64 { return modelGens["Muskingum"].Params(r) },
		States: func(r *Rng, p []float64) []float64 {
			if r.Chance(0.3) {
				return []float64{0, 0, 0}
			}
			q := r.LogUniform(1e-3, 100)
			return []float64{r.Uniform(0, 10), q, q * r.Uniform(0.5, 1.5)}
		}},
	{Name: "LumpedConstituentRouting",
		Params: func(r *Rng) []float64 { return modelGens["LumpedConstituentRouting"].Params(r) },
		States: func(r *Rng, p []float64) []float64 {
			if r.Chance(0.3) {
				return []float64{0}
			}
			return []float64{r.LogUniform(1e-3, 1e4)}
		}},
	{Name: "Lag",
		Params: func(r *Rng) []float64 { return []float64{[]float64{0, 1, 1, 0.5, 1.75}[r.Intn(5)]} },
		States: func(r *Rng, p []float64) []float64 { return []float64{r.Uniform(0, 20)} }},
	// a pair of models one of whose names contains the other's ("all command-line output selections": a selection naming
	// one must not select the other). They use pow, so C07 compares the SIM family at 1e-9 relative.
	{Name: "DynamicSednetGully", Inexact: true, Params: func(r *Rng) []float64 { return modelGens["DynamicSednetGully"].Params(r) }},
	{Name: "DynamicSednetGullyAlt", Inexact: true, Params: func(r *Rng) []float64 { return modelGens["DynamicSednetGullyAlt"].Params(r) }},
	// a DIMENSIONED model (parameters nPts, inputAmount[nPts], proportion[nPts]): every node has its own table length, the
	// parameter table of the file is padded to the model-wide maximum. Linear interpolation (+ - * / only): bit-exact.
	{Name: "RatingCurvePartition", Table: true, TableParams: simRatingColumn},
}

const simTableHuge = 1e300

// simTableAllowEmpty (default; table-empty=0 switches it off): also draw dimensioned models without any node
// (ow-sim used to panic at start-up on them: fix commit 78b3069 in /repo).
var simTableAllowEmpty = true

// simRatingColumn draws the packed parameter column [nPts, inputAmount[nPts], proportion[nPts]] of one
// RatingCurvePartition node: strictly increasing knots, proportions in [0,1]. The kernel panics (and a panic kills
// ow-sim) when an inflow lies outside [first knot, last knot]; finaliseTables widens the end knots of the nodes whose
// inflow needs it.
func simRatingColumn(r *Rng, n int) []float64 {
	xs := make([]float64, n)
	ys := make([]float64, n)
	switch r.Intn(10) {
	case 0:
		xs[0] = -simTableHuge
	case 1, 2:
		xs[0] = -r.LogUniform(1e-3, 1e3)
	default:
		xs[0] = 0
	}
	x := 0.0
	step := r.LogUniform(1e-3, 30)
	for i := 1; i < n-1; i++ {
		dx := Snap(r, step*(0.1+r.F01()))
		if !(dx > 0) {
			dx = step
		}
		x += dx
		xs[i] = x
	}
	if r.Chance(0.6) {
		xs[n-1] = simTableHuge
	} else {
		xs[n-1] = x + r.LogUniform(1, 1e4)
	}
	for i := range ys {
		switch r.Intn(6) {
		case 0:
			ys[i] = 0
		case 1:
			ys[i] = 1
		default:
			ys[i] = r.F01()
		}
	}
	p := append([]float64{float64(n)}, xs...)
	return append(p, ys...)
}

// simTableLengths draws the table lengths (2…9) of the N nodes of a table model. Mostly ONE node carries the model-wide
// maximum and all others are strictly shorter, so that every generation but one lies below the dimension to which the
// parameter table of the file is padded.
func simTableLengths(r *Rng, N int) []int {
	out := make([]int, N)
	if N == 0 {
		return out
	}
	if r.Chance(0.25) {
		for i := range out {
			out[i] = r.Range(2, 9)
		}
		return out
	}
	max := r.Range(3, 9)
	for i := range out {
		out[i] = r.Range(2, max-1)
	}
	out[r.Intn(N)] = max
	return out
}

// finaliseTables runs the reference semantics once over a freshly drawn graph and, node by node in execution order,
// makes the table of every table-model node cover the inflow that reaches it (first knot → -1e300 when an inflow lies
// below it — VariablePartition with a stored fraction > 1 and Muskingum produce negative flows —, last knot → 1e300 when
// one lies above). false: a NaN / ±Inf / beyond-1e300 value reaches such a node (the kernel would panic): draw again.
func finaliseTables(g *SimGraph) bool {
	any := false
	for _, m := range g.Models {
		any = any || m.Table
	}
	if !any {
		return true
	}
	ok := simReferenceHook(g, func(mi, n int, in [][]float64) bool {
		m := g.Models[mi]
		if !m.Table {
			return true
		}
		np := m.tableLen(n)
		p := m.P[n]
		for _, s := range in {
			for _, v := range s {
				if math.IsNaN(v) || math.Abs(v) > simTableHuge {
					return false
				}
				if v < p[1] {
					p[1] = -simTableHuge
					g.tableRepairs++
				}
				if v > p[np] {
					p[np] = simTableHuge
					g.tableRepairs++
				}
				if v > p[2] && np > 2 {
					g.tableInterior = true
				}
			}
		}
		return true
	}) != nil
	return ok
}

// drawSimGraph: a graph whose table-model nodes (if any) can be run by the kernel.
func drawSimGraph(r *Rng, tier string, pool []simKernel) *SimGraph {
	redraws := 0
	for {
		g := drawSimGraphOnce(r, tier, pool)
		if finaliseTables(g) {
			g.tableRedraws = redraws
			return g
		}
		redraws++
		if redraws >= 50 {
			panic("drawSimGraph: no runnable graph with a table model in 50 draws")
		}
	}
}

func simKernelNames() []string {
	out := []string{}
	for _, k := range simKernels {
		out = append(out, k.Name)
	}
	return out
}

func drawSimGraphOnce(r *Rng, tier string, pool []simKernel) *SimGraph {
	g := &SimGraph{}
	g.GMP = []int{1, 2, 4, 8, 0}[r.Intn(5)]
	g.Jit = 0
	if r.Chance(0.7) {
		g.Jit = 1 + r.Intn(1<<30)
	}
	switch r.Intn(6) {
	case 0:
		g.T = r.Range(1, 2)
	case 1:
		g.T = 16
	default:
		g.T = r.Range(1, 16)
	}
	g.G = r.Range(1, 6)
	if r.Chance(0.15) {
		g.G = 1
	}
	M := r.Range(1, 5)
	if M > len(pool) {
		M = len(pool)
	}
	perm := make([]int, len(pool))
	for i := range perm {
		perm[i] = i
	}
	for i := len(perm) - 1; i > 0; i-- {
		j := r.Intn(i + 1)
		perm[i], perm[j] = perm[j], perm[i]
	}
	// sometimes: both models of a name-containing pair, and a selection flag naming only the longer name
	pairCase := -1
	if r.Chance(0.12) {
		a, b := -1, -1
		for i, k := range pool {
			if k.Name == "DynamicSednetGully" {
				a = i
			}
			if k.Name == "DynamicSednetGullyAlt" {
				b = i
			}
		}
		if a >= 0 && b >= 0 {
			rest := []int{}
			for _, x := range perm {
				if x != a && x != b {
					rest = append(rest, x)
				}
			}
			perm = append([]int{a, b}, rest...)
			if M < 2 {
				M = 2
			}
			pairCase = 1 // index of the longer-named model in g.Models
		}
	}
	// CHAIN class: a source model with stored inputs in generation 0 feeding a chain of equally sized generations of ONE model that
	// has no stored inputs (its input blocks are allocated by ow-sim, generation after generation, while the writer purges the earlier
	// ones): anything recycled or carried between generations of one model (buffers, caches keyed by shape) shows only here, and only
	// when every generation actually receives non-zero inflow through its links.
	chain := pairCase < 0 && len(pool) >= 2 && r.Chance(0.15)
	chainCount := r.Range(1, 3)
	if chain {
		M = 2
		g.G = r.Range(4, 7)
		if g.T < 2 {
			g.T = r.Range(2, 16)
		}
	}
	// TABLE class: a model with dimensioned parameters among the models (always, by the permutation, in ≈ M/len(pool) of the
	// graphs; here: forced into another fifth, and into 40 % of the CHAIN graphs as the chained model — no stored inputs, one
	// small generation after the other, each with its own table lengths)
	tableAt := -1
	for i, x := range perm {
		if pool[x].Table {
			tableAt = i
		}
	}
	if tableAt >= 0 && pairCase < 0 {
		if chain && r.Chance(0.4) {
			perm[1], perm[tableAt] = perm[tableAt], perm[1]
		} else if !chain && tableAt >= M && r.Chance(0.2) {
			at := r.Intn(M)
			perm[at], perm[tableAt] = perm[tableAt], perm[at]
		}
	}
	tableGraph := false
	for mi := 0; mi < M; mi++ {
		tableGraph = tableGraph || pool[perm[mi]].Table
	}
	if tableGraph {
		// only bit-exact kernels around a table model: replace the pow-using ones by the next unused exact kernels
		spare := append([]int{}, perm[M:]...)
		kept := []int{}
		for mi := 0; mi < M; mi++ {
			x := perm[mi]
			for pool[x].Inexact && len(spare) > 0 {
				x, spare = spare[0], spare[1:]
			}
			if !pool[x].Inexact {
				kept = append(kept, x)
			}
		}
		perm, M = kept, len(kept)
		if chain && M < 2 { // a pool without a second exact kernel (models=…)
			chain = false
		}
	}
	g.chain = chain
	nodesLeft := 30
	anyInputs := false
	for mi := 0; mi < M; mi++ {
		k := pool[perm[mi]]
		d := NewModel(k.Name).Description()
		m := &SimModel{Name: k.Name, NP: len(d.Parameters), NI: len(d.Inputs), NS: len(d.States), Table: k.Table}
		m.HasInputs = r.Chance(0.65)
		if chain {
			m.HasInputs = mi == 0
		}
		// counts per generation: many empty batches
		emptyP := r.Uniform(0.1, 0.7)
		allEmpty := r.Chance(0.04)
		if k.Table {
			emptyP *= 0.5 // the nodes of a dimensioned model spread over several generations
		}
		cum := 0
		for gen := 0; gen < g.G; gen++ {
			c := 0
			if !allEmpty && !r.Chance(emptyP) {
				c = r.Range(1, 3)
			}
			if chain {
				c = 0
				if (mi == 0) == (gen == 0) {
					c = chainCount
				}
			}
			if c > nodesLeft {
				c = nodesLeft
			}
			nodesLeft -= c
			cum += c
			m.Batches = append(m.Batches, cum)
		}
		if k.Table && cum == 0 && !simTableAllowEmpty {
			// (only with table-empty=0) a dimensioned model type without any node: the model gets one node, or is left out when
			// the node budget is used up
			if nodesLeft <= 0 {
				continue
			}
			g0 := r.Intn(g.G)
			for gen := g0; gen < g.G; gen++ {
				m.Batches[gen] = 1
			}
			cum = 1
			nodesLeft--
		}
		var tableLens []int
		if k.Table {
			tableLens = simTableLengths(r, cum)
		}
		for n := 0; n < cum; n++ {
			var p []float64
			if k.Table {
				p = k.TableParams(r, tableLens[n])
			} else {
				p = k.Params(r)
			}
			m.P = append(m.P, p)
			var s []float64
			if k.States != nil {
				s = k.States(r, p)
			} else {
				s = make([]float64, m.NS)
			}
			m.S = append(m.S, s)
			if m.HasInputs {
				in := make([][]float64, m.NI)
				for j := range in {
					in[j] = Series(r, g.T, r.LogUniform(1e-2, 100))
					if r.Chance(0.1) {
						in[j] = make([]float64, g.T)
					}
					if g.T > 0 && !tableGraph && r.Chance(0.03) {
						// a gap in a stored record: NaN must propagate through the links like any value (not in graphs with a table
						// model: RatingCurvePartition panics on a NaN inflow, and a panic kills ow-sim)
						in[j][r.Intn(g.T)] = math.NaN()
					}
				}
				m.In = append(m.In, in)
			}
		}
		if m.HasInputs {
			anyInputs = true
		}
		g.Models = append(g.Models, m)
	}
	if !anyInputs {
		// ow-sim takes the series length from the first stored inputs dataset: without any, every series has length 0
		if r.Chance(0.8) {
			m := g.Models[r.Intn(len(g.Models))]
			m.HasInputs = true
			for n := 0; n < m.Total(); n++ {
				in := make([][]float64, m.NI)
				for j := range in {
					in[j] = Series(r, g.T, r.LogUniform(1e-2, 100))
				}
				m.In = append(m.In, in)
			}
		} else {
			g.T = 0
		}
	}
	// links: destination generation > source generation
	type nodeRef struct{ m, n, gen int }
	var nodes []nodeRef
	for mi, m := range g.Models {
		for gen := 0; gen < g.G; gen++ {
			for n := m.Start(gen); n < m.Batches[gen]; n++ {
				nodes = append(nodes, nodeRef{mi, n, gen})
			}
		}
	}
	nOut := make([]int, len(g.Models))
	for mi, m := range g.Models {
		nOut[mi] = len(NewModel(m.Name).Description().Outputs)
	}
	want := 0
	if len(nodes) > 1 {
		want = r.Range(0, 2*len(nodes))
		if want > 60 {
			want = 60
		}
	}
	if chain {
		// every node of generation g feeds the node with the same position in generation g+1
		want = r.Range(0, 4) // plus a few random links
		for gen := 0; gen+1 < g.G; gen++ {
			sm := 1
			if gen == 0 {
				sm = 0
			}
			for k := 0; k < chainCount; k++ {
				sn, dn := g.Models[sm].Start(gen)+k, g.Models[1].Start(gen+1)+k
				if sn >= g.Models[sm].Batches[gen] || dn >= g.Models[1].Batches[gen+1] || g.Models[1].NI == 0 {
					continue
				}
				g.Links = append(g.Links, [10]int{gen, sm, sn, k, r.Intn(nOut[sm]), gen + 1, 1, dn, k, r.Intn(g.Models[1].NI)})
			}
		}
		want += len(g.Links)
	}
	var last *[10]int
	for tries := 0; len(g.Links) < want && tries < 20*want+20; tries++ {
		s := nodes[r.Intn(len(nodes))]
		d := nodes[r.Intn(len(nodes))]
		if last != nil && r.Chance(0.3) { // fan-in: the same destination input again
			d = nodeRef{last[6], last[7], last[5]}
		} else if last != nil && r.Chance(0.2) { // fan-out: the same source output again
			s = nodeRef{last[1], last[2], last[0]}
		}
		if d.gen <= s.gen {
			continue
		}
		sv := r.Intn(nOut[s.m])
		dv := r.Intn(g.Models[d.m].NI)
		if last != nil && d.m == last[6] && d.n == last[7] && r.Chance(0.7) {
			dv = last[9]
		}
		l := [10]int{s.gen, s.m, s.n, s.n - g.Models[s.m].Start(s.gen), sv, d.gen, d.m, d.n, d.n - g.Models[d.m].Start(d.gen), dv}
		g.Links = append(g.Links, l)
		last = &g.Links[len(g.Links)-1]
	}
	// the file format orders links by source generation; order within one source generation is arbitrary
	for i := len(g.Links) - 1; i > 0; i-- {
		j := r.Intn(i + 1)
		g.Links[i], g.Links[j] = g.Links[j], g.Links[i]
	}
	sort.SliceStable(g.Links, func(a, b int) bool { return g.Links[a][0] < g.Links[b][0] })
	// command-line selection
	for k := range g.Sel {
		g.Sel[k] = []int{}
		if r.Chance(0.35) {
			for mi := range g.Models {
				if r.Chance(0.5) {
					g.Sel[k] = append(g.Sel[k], mi)
				}
			}
			if r.Chance(0.1) {
				g.Sel[k] = append(g.Sel[k], len(g.Models)) // a name that is not a model of the file
			}
		}
	}
	if pairCase >= 0 {
		for k := range g.Sel {
			g.Sel[k] = []int{}
		}
		g.Sel[r.Intn(4)] = []int{pairCase}
	}
	return g
}

func simPool(c *Ctx) []simKernel {
	want := c.Arg("models", "")
	if want == "" {
		return simKernels
	}
	out := []simKernel{}
	for _, n := range strings.Split(want, ",") {
		for _, k := range simKernels {
			if k.Name == n {
				out = append(out, k)
			}
		}
	}
	return out
}

func genSim(c *Ctx) {
	n := parseI(c.Arg("n", "60"))
	if c.Tier == "thorough" {
		n *= 8
	}
	par := parseI(c.Arg("par", "6"))
	c.Stats.Rule = "a DAG of ≤30 nodes over ≤5 catalogued kernels (bit-exact ones + the pow-using Gully pair; in ≈1/3 of the graphs a DIMENSIONED model, RatingCurvePartition, every node with its own table length 2…9, parameter table padded to the model-wide maximum, mostly only one generation reaching that maximum) partitioned into ≤6 generations (empty batches, fan-in with repeated destination input, fan-out, models without stored inputs, models without nodes), ≤60 links sorted by source generation, T≤16, random -outputs-for/-no-outputs-for/-inputs-for/-no-inputs-for, GOMAXPROCS∈{1,2,4,8,default}, schedule jitter; one run of the real ow-sim binary per case; non-trivial = ≥2 generations with ≥1 link; distinct by the full protocol line"
	pool := simPool(c)
	simTableAllowEmpty = c.Arg("table-empty", "1") == "1" && os.Getenv("OW_SIM_TABLE_EMPTY") != "0"
	bodies := make([]string, n)
	graphs := make([]*SimGraph, n)
	for i := 0; i < n; i++ {
		graphs[i] = drawSimGraph(c.R, c.Tier, pool)
		bodies[i] = graphs[i].Body()
	}
	// the real code runs in separate ow-sim processes: cases can be executed concurrently from this process
	impls := make([]string, n)
	var wg sync.WaitGroup
	sem := make(chan struct{}, par)
	for i := 0; i < n; i++ {
		wg.Add(1)
		sem <- struct{}{}
		go func(i int) {
			defer wg.Done()
			defer func() { <-sem }()
			impls[i] = safeExec(execSim, bodies[i])
		}(i)
	}
	wg.Wait()
	tf, err := os.Create(filepath.Join(c.Dir, "SIM.traces"))
	must(err)
	defer tf.Close()
	for i := 0; i < n; i++ {
		g := graphs[i]
		id := c.Emit(bodies[i], impls[i], g.G >= 2 && len(g.Links) >= 1)
		st := strings.SplitN(impls[i], " ", 2)[0]
		c.Stats.Count("status:" + st)
		oracleSim(c, id, bodies[i], impls[i])
		if parts := strings.SplitN(impls[i], " | ", 2); len(parts) == 2 {
			fmt.Fprintf(tf, "%d %s\n", g.G, parts[1])
		}
		nodes := 0
		empty := 0
		for _, m := range g.Models {
			nodes += m.Total()
			for gen := 0; gen < g.G; gen++ {
				if m.Batches[gen] == m.Start(gen) {
					empty++
				}
			}
			if !m.HasInputs {
				c.Stats.Count("model-without-stored-inputs")
			}
			if m.Total() == 0 {
				c.Stats.Count("model-without-nodes")
			}
			c.Stats.Count("kernel:" + m.Name)
		}
		for _, m := range g.Models {
			if !m.Table || m.Total() == 0 {
				continue
			}
			c.Stats.Count("table_model")
			if g.chain {
				c.Stats.Count("table_model_in_chain_graph")
			}
			if !m.HasInputs {
				c.Stats.Count("table_model_without_stored_inputs")
			}
			maxN, gens, below := 0, 0, 0
			for n := 0; n < m.Total(); n++ {
				if l := m.tableLen(n); l > maxN {
					maxN = l
				}
				c.Stats.Count("table_len:" + strconv.Itoa(m.tableLen(n)))
			}
			for gen := 0; gen < g.G; gen++ {
				if m.Batches[gen] == m.Start(gen) {
					continue
				}
				gens++
				gmax := 0
				for n := m.Start(gen); n < m.Batches[gen]; n++ {
					if l := m.tableLen(n); l > gmax {
						gmax = l
					}
				}
				if gmax < maxN {
					below++
				}
			}
			if gens >= 2 {
				c.Stats.Count("table_model_over_2+_generations")
			}
			if below > 0 {
				c.Stats.Count("generation_below_max_dims")
				c.Stats.CountN("generations_below_max_dims_total", below)
			}
			c.Stats.CountN("table_nodes", m.Total())
		}
		if g.tableInterior {
			c.Stats.Count("table_inflow_beyond_second_knot")
		}
		c.Stats.CountN("table_end_knot_widened", g.tableRepairs)
		c.Stats.CountN("table_graph_redrawn", g.tableRedraws)
		if g.chain {
			c.Stats.Count("chain_graph")
		}
		c.Stats.Count("G:" + strconv.Itoa(g.G))
		c.Stats.Count("T:" + bucket(g.T))
		c.Stats.Count("nodes:" + bucket(nodes))
		c.Stats.Count("links:" + bucket(len(g.Links)))
		c.Stats.CountN("empty-batches", empty)
		c.Stats.Count("gomaxprocs:" + strconv.Itoa(g.GMP))
		fanin := map[[3]int]int{}
		fanout := map[[3]int]int{}
		for _, l := range g.Links {
			fanin[[3]int{l[6], l[7], l[9]}]++
			fanout[[3]int{l[1], l[2], l[4]}]++
		}
		for _, v := range fanin {
			if v > 1 {
				c.Stats.Count("fan-in>1")
				break
			}
		}
		for _, v := range fanout {
			if v > 1 {
				c.Stats.Count("fan-out>1")
				break
			}
		}
		sel := false
		for k := range g.Sel {
			if len(g.Sel[k]) > 0 {
				sel = true
				c.Stats.Count("flag:" + simSelFlags[k])
			}
		}
		if !sel {
			c.Stats.Count("flag:none")
		}
	}
}

// ------------------------------------------------------------------------------------------------
// oracle

type simEvent struct {
	Ev   string
	A, B int
}

func parseSimTrace(s string) []simEvent {
	t := newTokenReader(s)
	n := t.int()
	out := make([]simEvent, 0, n)
	for i := 0; i < n; i++ {
		e := simEvent{Ev: t.next()}
		e.A, e.B = t.int(), t.int()
		out = append(out, e)
	}
	return out
}

func simDumpEqual(a, b string) (bool, string) {
	ta, tb := strings.Fields(a), strings.Fields(b)
	if len(ta) != len(tb) {
		return false, fmt.Sprintf("token count %d vs %d", len(ta), len(tb))
	}
	for i := range ta {
		if ta[i] == tb[i] {
			continue
		}
		if strings.HasPrefix(ta[i], "f") && strings.HasPrefix(tb[i], "f") {
			x, y := parseF(ta[i]), parseF(tb[i])
			if (math.IsNaN(x) && math.IsNaN(y)) || x == y {
				continue
			}
			return false, fmt.Sprintf("token %d: %v vs %v", i, x, y)
		}
		return false, fmt.Sprintf("token %d: %s vs %s", i, ta[i], tb[i])
	}
	return true, ""
}

func oracleSim(c *Ctx, id int, body, impl string) {
	g := parseSimGraph(body)
	c.Stats.OracleEvals++
	parts := strings.SplitN(impl, " | ", 2)
	dump := parts[0]
	if !strings.HasPrefix(dump, "ok") {
		c.OracleFail(id, "ow-sim:run", "ow-sim did not complete on a valid model graph: "+dump, body)
		return
	}
	// 1. output = sequential reference semantics (bit for bit)
	want := simExpectedDump(g)
	if ok, why := simDumpEqual(dump, want); !ok {
		c.OracleFail(id, "ow-sim:reference", "output datasets differ from the sequential reference semantics: "+why, body)
	}
	if len(parts) < 2 {
		c.OracleFail(id, "ow-sim:trace", "no hook trace (ow-sim built without the verif hooks?)", body)
		return
	}
	// 2. the trace is a run of the writer-protocol transition system, 3. every generation written exactly once,
	// 4. no purge before written ∧ links applied
	evs := parseSimTrace(parts[1])
	if len(evs) == 0 {
		c.OracleFail(id, "ow-sim:trace", "empty hook trace (ow-sim built without the verif hooks?)", body)
		return
	}
	if why := simTraceCheck(g.G, evs); why != "" {
		c.OracleFail(id, "ow-sim:protocol", why, body)
	}
	for _, e := range evs {
		if e.Ev == "resent" {
			c.Stats.Count("trace:writer-bounce")
		}
		if e.Ev == "mrecv" && e.A != g.G-1 {
			c.Stats.Count("trace:main-bounce")
		}
	}
}

func init() {
	register(&Family{Name: "SIM", Gen: genSim, Exec: execSim, Oracle: oracleSim})
}
