package main

import (
	"fmt"
	"math"
)

// Oracles of property C10 — "rainfall-runoff models never create water and keep stores within bounds" —
// evaluated on the implementation's outputs (kernel family K, one Run on one cell):
//   * every output finite and non-negative;
//   * every observable store between zero and its capacity;
//   * reported components add up to the reported total;
//   * for every prefix: cumulative runoff (+ reported AET) ≤ cumulative rainfall + initial storage, and at the end
//     cumulative runoff + final storage ≤ cumulative rainfall + initial storage (initial storage from the initial
//     state row; a case starting from the model's own initial state starts empty);
//   * GR4J with x2 = 0 and zero PET: rainfall = runoff + change of production, routing and unit-hydrograph stores.
//
// Tolerances. The implementation works in float64; each check is an inequality/equality of sums of at most ~600
// terms, each term computed with relative error of a few ulp (2·10⁻¹⁶): accumulated round-off is below
// 10⁻¹²·(largest term involved). The oracle allows 10⁻⁹·scale (scale = largest of |inputs|, |outputs|, |stores|,
// capacities involved, at least 1 mm), three orders of magnitude above round-off and far below any modelling error
// of interest (10⁻⁹ mm of water).

const c10Tol = 1e-9

type c10ctx struct {
	c     *Ctx
	id    int
	body  string
	model string
	scale float64
}

func (o *c10ctx) fail(mech, what string) {
	o.c.OracleFail(o.id, o.model+":"+mech, what, o.body)
}

// finiteNonneg: every value of every listed series is finite and ≥ −tol.
func (o *c10ctx) finiteNonneg(names []string, series ...[]float64) bool {
	ok := true
	for k, s := range series {
		for t, v := range s {
			if math.IsNaN(v) || math.IsInf(v, 0) {
				o.fail("finite", fmt.Sprintf("%s[%d] = %v is not finite", names[k], t, v))
				return false
			}
			if v < -c10Tol*o.scale {
				o.fail("nonneg", fmt.Sprintf("%s[%d] = %.17g < 0", names[k], t, v))
				ok = false
				break
			}
		}
	}
	return ok
}

func (o *c10ctx) within(name string, v, lo, hi float64) {
	if math.IsNaN(v) || v < lo-c10Tol*o.scale || v > hi+c10Tol*o.scale {
		o.fail("bounds", fmt.Sprintf("%s = %.17g outside [%.17g, %.17g]", name, v, lo, hi))
	}
}

// components: total[t] = a[t] + b[t]
func (o *c10ctx) components(what string, total, a, b []float64) {
	for t := range total {
		if math.Abs(total[t]-(a[t]+b[t])) > c10Tol*math.Max(o.scale, math.Abs(total[t])) {
			o.fail("components", fmt.Sprintf("%s: total[%d] = %.17g but parts %.17g + %.17g = %.17g", what, t, total[t], a[t], b[t], a[t]+b[t]))
			return
		}
	}
}

// prefixBudget: for every t, Σ_{≤t} out ≤ Σ_{≤t} in + storage0.
func (o *c10ctx) prefixBudget(out, in []float64, storage0 float64) {
	co, ci := 0.0, 0.0
	for t := range out {
		co += out[t]
		ci += in[t]
		if co > ci+storage0+c10Tol*math.Max(o.scale, ci+storage0) {
			o.fail("budget", fmt.Sprintf("water created: after step %d cumulative outflow %.17g > cumulative rainfall %.17g + initial storage %.17g", t, co, ci, storage0))
			return
		}
	}
}

// endBudget: Σ out + storageT ≤ Σ in + storage0 (exact → equality).
func (o *c10ctx) endBudget(out, in []float64, storage0, storageT float64, exact bool) {
	co, ci := sum(out), sum(in)
	lhs, rhs := co+storageT, ci+storage0
	tol := c10Tol * math.Max(o.scale, math.Max(math.Abs(lhs), math.Abs(rhs)))
	if lhs > rhs+tol {
		o.fail("budget", fmt.Sprintf("water created: outflow %.17g + final storage %.17g = %.17g > rainfall %.17g + initial storage %.17g = %.17g", co, storageT, lhs, ci, storage0, rhs))
	} else if exact && lhs < rhs-tol {
		o.fail("closed-balance", fmt.Sprintf("balance does not close: outflow %.17g + final storage %.17g = %.17g ≠ rainfall %.17g + initial storage %.17g = %.17g", co, storageT, lhs, ci, storage0, rhs))
	}
}

func addSeries(a, b []float64) []float64 {
	out := make([]float64, len(a))
	for i := range a {
		out[i] = a[i] + b[i]
	}
	return out
}

func allZero(xs []float64) bool {
	for _, x := range xs {
		if x != 0 {
			return false
		}
	}
	return true
}

// initial state row of a call: the drawn one, or the model's own (all RR models start empty; GR4J: [0,0,n1,n2,0…])
func c10State0(k *KCall, r *KResult) []float64 {
	if !k.Init {
		return k.S
	}
	s := make([]float64, len(r.S))
	if k.Model == "GR4J" && len(r.S) >= 4 {
		s[2], s[3] = r.S[2], r.S[3]
	}
	return s
}

func newC10(c *Ctx, id int, k *KCall, r *KResult, body string) *c10ctx {
	sc := math.Max(1, math.Max(maxAbs(k.In...), math.Max(maxAbs(r.Out...), math.Max(maxAbs(r.S), maxAbs(k.S)))))
	return &c10ctx{c: c, id: id, body: body, model: k.Model, scale: sc}
}

func init() {
	regOracle("C10", "RunoffCoefficient", func(c *Ctx, id int, k *KCall, r *KResult, body string) {
		if r.Status != "ok" || k.P[0] < 0 || k.P[0] > 1 {
			return
		}
		o := newC10(c, id, k, r, body)
		if !o.finiteNonneg([]string{"runoff"}, r.Out[0]) {
			return
		}
		for t, q := range r.Out[0] {
			if q > k.In[0][t]+c10Tol*o.scale {
				o.fail("budget", fmt.Sprintf("runoff[%d] = %.17g > rainfall %.17g", t, q, k.In[0][t]))
				return
			}
		}
		o.prefixBudget(r.Out[0], k.In[0], 0)
	})

	regOracle("C10", "GR4J", func(c *Ctx, id int, k *KCall, r *KResult, body string) {
		if r.Status != "ok" {
			return
		}
		o := newC10(c, id, k, r, body)
		x1, x2, x3 := k.P[0], k.P[1], k.P[2]
		s0 := c10State0(k, r)
		if !o.finiteNonneg([]string{"runoff", "states"}, r.Out[0], r.S) {
			return
		}
		o.within("S", r.S[0], 0, x1)
		o.within("R", r.S[1], 0, x3)
		if x2 <= 0 {
			st0, stT := sum(s0[:2])+sum(s0[4:]), sum(r.S[:2])+sum(r.S[4:])
			o.prefixBudget(r.Out[0], k.In[0], st0)
			o.endBudget(r.Out[0], k.In[0], st0, stT, x2 == 0 && allZero(k.In[1]))
			if x2 == 0 && allZero(k.In[1]) {
				c.Stats.Count("GR4J:closed-balance-cases")
			}
		}
	})

	regOracle("C10", "Simhyd", func(c *Ctx, id int, k *KCall, r *KResult, body string) {
		if r.Status != "ok" {
			return
		}
		o := newC10(c, id, k, r, body)
		pf, smsc := k.P[5], k.P[8]
		s0 := c10State0(k, r)
		if !o.finiteNonneg([]string{"runoff", "quickflow", "baseflow", "store", "states"}, r.Out[0], r.Out[1], r.Out[2], r.Out[3], r.S) {
			return
		}
		o.components("runoff = quickflow + baseflow", r.Out[0], r.Out[1], r.Out[2])
		for t, v := range r.Out[3] {
			if v > smsc+c10Tol*o.scale {
				o.fail("bounds", fmt.Sprintf("store[%d] = %.17g > capacity %.17g", t, v, smsc))
				break
			}
		}
		o.within("SoilMoistureStore", r.S[0], 0, smsc)
		o.prefixBudget(r.Out[0], k.In[0], pf*(s0[0]+s0[1]))
		o.endBudget(r.Out[0], k.In[0], pf*(s0[0]+s0[1]), pf*(r.S[0]+r.S[1]), false)
	})

	regOracle("C10", "Surm", func(c *Ctx, id int, k *KCall, r *KResult, body string) {
		if r.Status != "ok" || k.P[6] < 10 {
			return
		}
		o := newC10(c, id, k, r, body)
		fperv, smax := 1-k.P[4], k.P[6]
		s0 := c10State0(k, r)
		if !o.finiteNonneg([]string{"runoff", "quickflow", "baseflow", "store", "states"}, r.Out[0], r.Out[1], r.Out[2], r.Out[3], r.S) {
			return
		}
		o.components("runoff = quickflow + baseflow", r.Out[0], r.Out[1], r.Out[2])
		o.within("SoilMoistureStore", r.S[0], 0, smax)
		// the reported store is soil moisture + groundwater at every step: the budget invariant itself
		co, ci, st0 := 0.0, 0.0, fperv*(s0[0]+s0[1])
		for t := range r.Out[0] {
			co += r.Out[0][t]
			ci += k.In[0][t]
			if co+fperv*r.Out[3][t] > ci+st0+c10Tol*math.Max(o.scale, ci+st0) {
				o.fail("budget", fmt.Sprintf("water created: after step %d cumulative runoff %.17g + storage %.17g > cumulative rainfall %.17g + initial storage %.17g", t, co, fperv*r.Out[3][t], ci, st0))
				break
			}
		}
		o.endBudget(r.Out[0], k.In[0], st0, fperv*(r.S[0]+r.S[1]), false)
	})

	// Sacramento. Area fractions: pctim impervious, adimp additional impervious (store adimc), the rest pervious
	// (upper/lower zone stores; the lower free water stores count (1+side)-fold: that is the amount the code drains
	// as total baseflow, of which 1/(1+side) reaches the channel). Water in the unit-hydrograph buffer at the end of
	// a call is dropped by the code (D13), which only lowers the left-hand side.
	regOracle("C10", "Sacramento", func(c *Ctx, id int, k *KCall, r *KResult, body string) {
		if r.Status != "ok" {
			return
		}
		o := newC10(c, id, k, r, body)
		p := k.P
		uztwm, uzfwm, lztwm, lzfsm, lzfpm, side, pctim, adimp := p[3], p[4], p[5], p[6], p[7], p[11], p[13], p[14]
		s0 := c10State0(k, r)
		// Known finding KF-C10-Sacramento-negative-aet: with most of the catchment "additional impervious" (adimp > 0.5) the ADIMP
		// evaporation term e5 = e1 + (red+e2)·(adimc−e1−uztwc)/(uztwm+lztwm) goes negative when the upper tension store exceeds
		// adimc, and with it the reported actualET (proved: OW.Props.C10Sacramento.sacramento_negative_aet_counterexample; the
		// theorem sacramento_outputs_nonneg carries the exact condition PET·uzfwm ≤ lztwm·(uztwm+uzfwm)). Own scope, so that any
		// other negative output of Sacramento is still reported.
		if adimp > 0.5 {
			for t, v := range r.Out[0] {
				if v < -c10Tol*o.scale {
					c.OracleFail(id, "Sacramento:negative-aet-high-adimp", fmt.Sprintf("actualET[%d] = %.17g < 0 with adimp = %v", t, v, adimp), body)
					return
				}
			}
		}
		if !o.finiteNonneg([]string{"actualET", "runoff", "imperviousRunoff", "surfaceRunoff", "baseflow", "states"},
			r.Out[0], r.Out[1], r.Out[2], r.Out[3], r.Out[4], r.S) {
			return
		}
		o.components("runoff = surfaceRunoff + baseflow", r.Out[1], r.Out[3], r.Out[4])
		o.within("UprTensionWater", r.S[0], 0, uztwm)
		o.within("UprFreeWater", r.S[1], 0, uzfwm)
		o.within("LwrTensionWater", r.S[2], 0, lztwm)
		o.within("LwrPrimaryFreeWater", r.S[3], 0, lzfpm)
		o.within("LwrSupplFreeWater", r.S[4], 0, lzfsm)
		held := func(s []float64) float64 {
			return (1-pctim-adimp)*(s[0]+s[1]+s[2]+(s[3]+s[4])*(1+side)) + adimp*s[5]
		}
		out := addSeries(r.Out[0], r.Out[1])
		o.prefixBudget(out, k.In[0], held(s0))
		o.endBudget(out, k.In[0], held(s0), held(r.S), false)
	})
}
