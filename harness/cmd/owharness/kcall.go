package main

import (
	"fmt"
	"math"
	"strings"
)

// KCall is one real Run call on one cell (protocol family K and friends).
//   body: Model init np p… ni T in… ns s…
//   impl: ok no T out… ns states…  |  panic <class>
type KCall struct {
	Model  string
	Init   bool        // states from the model's own InitialiseStates
	P      []float64   // parameter column of the cell
	In     [][]float64 // [input][t]
	S      []float64   // state row (ignored when Init)
}

type KResult struct {
	Status string
	Out    [][]float64
	S      []float64
}

func (k *KCall) Body() string {
	var b strings.Builder
	init := 0
	if k.Init {
		init = 1
	}
	T := 0
	if len(k.In) > 0 {
		T = len(k.In[0])
	}
	fmt.Fprintf(&b, "%s %d %s %d %d", k.Model, init, Fs(k.P), len(k.In), T)
	for _, s := range k.In {
		for _, v := range s {
			b.WriteByte(' ')
			b.WriteString(F(v))
		}
	}
	b.WriteByte(' ')
	if k.Init {
		b.WriteString("0")
	} else {
		b.WriteString(Fs(k.S))
	}
	return b.String()
}

func readKCall(t *tokenReader) *KCall {
	k := &KCall{}
	k.Model = t.next()
	k.Init = t.int() == 1
	k.P = t.floats()
	ni := t.int()
	T := t.int()
	k.In = make([][]float64, ni)
	for i := range k.In {
		k.In[i] = make([]float64, T)
		for j := range k.In[i] {
			k.In[i][j] = t.float()
		}
	}
	k.S = t.floats()
	return k
}

func parseKCall(body string) *KCall { return readKCall(newTokenReader(body)) }

func (k *KCall) T() int {
	if len(k.In) == 0 {
		return 0
	}
	return len(k.In[0])
}

// Run executes the call on the real code through the public API (one cell).
func (k *KCall) Run() *KResult {
	rc := &RunCase{Model: k.Model, Cells: 1}
	rc.Params = make([][]float64, len(k.P))
	for i, v := range k.P {
		rc.Params[i] = []float64{v}
	}
	rc.Inputs = [][][]float64{k.In}
	if !k.Init {
		rc.States = [][]float64{k.S}
	}
	res := RunOn(nil, rc)
	// frame: a Run call must leave its inputs and parameters as they were (bit for bit). A kernel that accumulates into one of its
	// input series gives the right answer for this call and a wrong one for every later use of the same series.
	for i := range k.In {
		for t := range k.In[i] {
			if math.Float64bits(res.Inputs[0][i][t]) != math.Float64bits(k.In[i][t]) {
				return &KResult{Status: fmt.Sprintf("frame inputs-modified:input=%d,t=%d,was=%v,is=%v", i, t, k.In[i][t], res.Inputs[0][i][t])}
			}
		}
	}
	for i := range k.P {
		if math.Float64bits(res.Params[i][0]) != math.Float64bits(k.P[i]) {
			return &KResult{Status: fmt.Sprintf("frame parameters-modified:param=%d,was=%v,is=%v", i, k.P[i], res.Params[i][0])}
		}
	}
	r := &KResult{Status: "ok", Out: res.Outputs[0]}
	if len(res.States) > 0 {
		r.S = res.States[0]
	}
	return r
}

func (r *KResult) Format() string {
	if r.Status != "ok" {
		return r.Status
	}
	var b strings.Builder
	T := 0
	if len(r.Out) > 0 {
		T = len(r.Out[0])
	}
	fmt.Fprintf(&b, "ok %d %d", len(r.Out), T)
	for _, s := range r.Out {
		for _, v := range s {
			b.WriteByte(' ')
			b.WriteString(F(v))
		}
	}
	b.WriteByte(' ')
	b.WriteString(Fs(r.S))
	return b.String()
}

func readKResult(t *tokenReader) *KResult {
	r := &KResult{}
	r.Status = t.next()
	if r.Status != "ok" {
		r.Status += " " + t.next()
		return r
	}
	no := t.int()
	T := t.int()
	r.Out = make([][]float64, no)
	for i := range r.Out {
		r.Out[i] = make([]float64, T)
		for j := range r.Out[i] {
			r.Out[i][j] = t.float()
		}
	}
	r.S = t.floats()
	return r
}

func parseKResult(s string) *KResult { return readKResult(newTokenReader(s)) }

func execK(body string) string { return parseKCall(body).Run().Format() }

// ---- small numeric helpers for oracles

func sum(xs []float64) float64 {
	// Kahan–Neumaier, so the oracle's own round-off stays far below its tolerance
	s, c := 0.0, 0.0
	for _, x := range xs {
		t := s + x
		if math.Abs(s) >= math.Abs(x) {
			c += (s - t) + x
		} else {
			c += (x - t) + s
		}
		s = t
	}
	return s + c
}

func maxAbs(xss ...[]float64) float64 {
	m := 0.0
	for _, xs := range xss {
		for _, x := range xs {
			if a := math.Abs(x); a > m && !math.IsInf(a, 0) {
				m = a
			}
		}
	}
	return m
}

func allFinite(xss ...[]float64) bool {
	for _, xs := range xss {
		for _, x := range xs {
			if math.IsNaN(x) || math.IsInf(x, 0) {
				return false
			}
		}
	}
	return true
}

// closeTo: |a-b| ≤ rtol·max(|a|,|b|,scale)
func closeTo(a, b, rtol, scale float64) bool {
	m := math.Max(math.Max(math.Abs(a), math.Abs(b)), scale)
	return math.Abs(a-b) <= rtol*m
}
