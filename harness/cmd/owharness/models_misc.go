package main

import "time"

// Generators for models owned by the coordinator.

func init() {
	regModel(&ModelGen{Name: "DateGenerator",
		Params: func(r *Rng) []float64 {
			y := r.Range(1580, 2420)
			m := r.Range(1, 12)
			dim := time.Date(y, time.Month(m)+1, 0, 0, 0, 0, 0, time.UTC).Day()
			d := r.Range(1, dim)
			if r.Chance(0.4) {
				d = dim
			}
			return []float64{float64(d), float64(m), float64(y)}
		},
		Inputs: func(r *Rng, T int, p []float64) [][]float64 { return [][]float64{make([]float64, T)} },
	})
	regModel(&ModelGen{Name: "InstreamDissolvedNutrientDecay",
		Params: func(r *Rng) []float64 {
			doDecay := 0.0
			if r.Chance(0.7) {
				doDecay = 1
			}
			ps := 0.0
			if r.Chance(0.4) {
				ps = r.LogUniform(1, 1e5)
			}
			dt := []float64{86400, 3600, 43200}[r.Intn(3)]
			uptake := r.LogUniform(1e-3, 10)
			if r.Chance(0.1) {
				uptake = 1e6 // exp underflows to 0: the "no decay coefficient" branch
			}
			return []float64{doDecay, ps, r.Uniform(0.5, 10), r.Uniform(1, 50), r.LogUniform(100, 1e5), uptake, dt}
		},
		Inputs: func(r *Rng, T int, p []float64) [][]float64 {
			vol := Series(r, T, r.LogUniform(10, 1e6))
			flow := Series(r, T, r.LogUniform(1e-3, 100))
			if r.Chance(0.3) { // slow flow: travel time longer than the step
				flow = Series(r, T, 1e-4)
			}
			fp := make([]float64, T)
			return [][]float64{Series(r, T, r.LogUniform(1e-4, 10)), Series(r, T, r.LogUniform(1e-4, 10)), vol, flow, fp}
		},
		States: func(r *Rng, p []float64) []float64 { return []float64{r.LogUniform(1e-3, 1e4)} },
	})
}
