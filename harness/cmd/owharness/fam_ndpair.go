package main

// NDPAIR family (C03): the SAME program of array operations applied in lock-step to Go-backed and to C-backed
// roots (`root vals dims` becomes `gslice` / `cwrap`). Result: `<go run> || <c run>`.
// The oracle compares the observations of the two runs (values read, unrolled values, contiguity, reshape
// outcomes, extrema, final contents of the root storages); canaries around the C buffers are checked after every op.

import (
	"fmt"
	"strings"
)

func init() {
	register(&Family{Name: "NDPAIR", Gen: genNDPair, Exec: execNDPair, Oracle: oracleNDPair, InProc: true})
}

func substRoot(body, with string) string {
	toks := strings.Fields(body)
	for i, t := range toks {
		if t == "root" {
			toks[i] = with
		}
	}
	return strings.Join(toks, " ")
}

func execNDPair(body string) string {
	return execND(substRoot(body, "gslice")) + " || " + execND(substRoot(body, "cwrap"))
}

// observations of a run with back-end-specific detail removed
func normalizeND(run string) []string {
	parts := strings.Split(run, " ; ")
	out := make([]string, len(parts))
	for i, p := range parts {
		f := strings.Fields(p)
		switch {
		case len(f) >= 2 && f[0] == "ok" && f[1] == "alias":
			out[i] = "ok vals " + strings.Join(f[4:], " ")
		case len(f) >= 2 && f[0] == "ok" && f[1] == "fresh":
			out[i] = "ok vals " + strings.Join(f[2:], " ")
		case len(f) > 6 && f[0] == "ok":
			// a view description: keep only the shape (after `sid base len isC <orig…>`)
			t := &tokenReader{toks: f[5:]}
			t.ints()
			out[i] = "ok view " + Is(t.ints())
		case len(f) > 0 && f[0] == "H":
			out[i] = p
		default:
			out[i] = p
		}
	}
	return out
}

func oracleNDPair(c *Ctx, id int, body, impl string) {
	halves := strings.Split(impl, " || ")
	if len(halves) != 2 {
		return
	}
	c.Stats.OracleEvals++
	if strings.Contains(halves[1], "CANARY-OVERWRITTEN") {
		c.OracleFail(id, "NDPAIR:canary", "an operation on a C-backed array wrote outside the caller's buffer", body)
		return
	}
	// Did the program perform a bulk copy whose source and destination overlap in one storage? (the only way a
	// generated NDPAIR program leaves the domain of the reference semantics)
	scope := "NDPAIR"
	if toks := strings.Fields(substRoot(body, "gslice")); len(toks) > 2 && refRun(toks[2:]).overlap {
		scope = "NDPAIR:overlap"
	}
	g, cc := normalizeND(halves[0]), normalizeND(halves[1])
	n := len(g)
	if len(cc) < n {
		n = len(cc)
	}
	for i := 0; i < n; i++ {
		if g[i] == cc[i] {
			continue
		}
		// the final dumps may differ in the number of storages (a non-contiguous reshape copies on both back-ends,
		// an unroll copy is not a storage); compare the storages that exist in both
		if strings.HasPrefix(g[i], "H ") && strings.HasPrefix(cc[i], "H ") {
			if rootsOf(g[i]) == rootsOf(cc[i]) {
				continue
			}
		}
		what := fmt.Sprintf("op %d: Go-backed run observes `%s`, C-backed run `%s`", i, trunc(g[i], 200), trunc(cc[i], 200))
		// Known finding c-int-width (int / uint instantiations: C.int / C.uint are 32 bit wide). The difference is that and nothing
		// else iff the Go-backed run agrees with the reference semantics of the property AND the C-backed run agrees with the variant
		// of the reference whose C storages hold 32-bit elements (op by op and in the final contents). Anything else: plain scope.
		if mode := narrowMode(strings.Fields(body)[1]); mode != 0 {
			gt, ct := strings.Fields(substRoot(body, "gslice")), strings.Fields(substRoot(body, "cwrap"))
			if ndCompare(refRun(gt[2:]), strings.Split(halves[0], " ; "), gt) == "" &&
				ndCompare(refRunMode(ct[2:], mode), strings.Split(halves[1], " ; "), ct) == "" {
				c.Stats.Count("c_int_width_differences:" + gt[1])
				c.OracleFail(id, "NDPAIR:c-int-width", "C-backed "+gt[1]+" array holds 32-bit elements: "+what, body)
				return
			}
		}
		c.OracleFail(id, scope, what, body)
		return
	}
	if len(g) != len(cc) {
		c.OracleFail(id, scope, fmt.Sprintf("runs have different lengths (%d vs %d ops): one back-end halted", len(g), len(cc)), body)
	}
}

// rootsOf keeps the dump as is: storages are created by the same ops on both back-ends.
func rootsOf(dump string) string { return dump }

func genNDPair(c *Ctx) {
	c.Stats.Rule = "random valid op sequences (as ND (b)) whose roots are created by `root`, run once on Go-backed and once on C-backed roots; non-trivial = at least one derived view and one write/bulk op; distinct by program text"
	types := ndTypes // all 8 element-type instantiations in every tier
	if t := c.Arg("types", ""); t != "" && t != "all" {
		types = strings.Split(t, ",")
	}
	N := parseI(c.Arg("n", "1200"))
	if c.Tier == "thorough" {
		N *= 10
	}
	for i := 0; i < N; i++ {
		elt := types[c.R.Intn(len(types))]
		p := newProg(c.R, "g", elt)
		arrayOps := elt != "int" && elt != "uint"
		nops := c.R.Range(3, 30)
		if c.R.Chance(0.15) {
			p.addLongAxisRoots(false, false)
			nops = c.R.Range(3, 14)
			c.Stats.Count("long_axis_programs")
		} else {
			p.addRoot(false, p.randShape(3, 4))
			if c.R.Chance(0.5) {
				p.addRoot(false, p.randShape(3, 4))
			}
		}
		for k := 0; k < nops; k++ {
			p.addRandomOp(arrayOps)
		}
		// rewrite root creation ops to `root vals dims` (new → zero-filled values)
		for k, o := range p.ops {
			f := strings.Fields(o)
			switch f[0] {
			case "gslice":
				f[0] = "root"
				p.ops[k] = strings.Join(f, " ")
			case "new":
				t := &tokenReader{toks: f[1:]}
				dims := t.ints()
				p.ops[k] = fmt.Sprintf("root %s %s", Is(make([]int, prod(dims))), Is(dims))
			}
		}
		derived, write := false, false
		for _, o := range p.ops {
			switch strings.Fields(o)[0] {
			case "slice", "reshape", "rfast", "must":
				derived = true
			case "set", "apply", "aslice", "copy", "set1", "apply1", "set2", "set3", "scale", "addto":
				write = true
			}
		}
		c.Do(p.body(), derived && write)
		c.Stats.Count("eltype:" + elt)
		if p.nWide > 0 {
			c.Stats.Count("programs_writing_values_outside_32_bits:" + elt)
		}
	}
}
