package main

import (
	"fmt"

	"github.com/flowmatters/openwater-core/data"
	_ "github.com/flowmatters/openwater-core/models"
	"github.com/flowmatters/openwater-core/sim"
)

// RunCase describes one vectorised Run through the public Go API.
type RunCase struct {
	Model   string
	Params  [][]float64   // [paramRow][set]
	Inputs  [][][]float64 // [block][input][t]
	States  [][]float64   // [cell][state]; nil → model.InitialiseStates(Cells)
	Cells   int
	OutCells, OutT int   // output array extents (≥ Cells, ≥ T); 0 → exact
	Sentinel float64      // initial fill of outputs beyond the needed region (0 → zero)
}

type RunResult struct {
	Outputs [][][]float64 // [cell][output][t] whole array, incl. oversize
	States  [][]float64
	Inputs  [][][]float64 // after the run (frame check)
	Params  [][]float64
}

func arr2(v [][]float64) data.ND2Float64 {
	n := len(v)
	m := 0
	if n > 0 {
		m = len(v[0])
	}
	a := data.NewArray2DFloat64(n, m)
	for i := range v {
		for j := range v[i] {
			a.Set2(i, j, v[i][j])
		}
	}
	return a
}

func arr3(v [][][]float64) data.ND3Float64 {
	a := data.NewArray3DFloat64(len(v), len(v[0]), len(v[0][0]))
	for i := range v {
		for j := range v[i] {
			for k := range v[i][j] {
				a.Set3(i, j, k, v[i][j][k])
			}
		}
	}
	return a
}

func un2(a data.ND2Float64) [][]float64 {
	sh := a.Shape()
	out := make([][]float64, sh[0])
	for i := range out {
		out[i] = make([]float64, sh[1])
		for j := range out[i] {
			out[i][j] = a.Get2(i, j)
		}
	}
	return out
}

func un3(a data.ND3Float64) [][][]float64 {
	sh := a.Shape()
	out := make([][][]float64, sh[0])
	for i := range out {
		out[i] = make([][]float64, sh[1])
		for j := range out[i] {
			out[i][j] = make([]float64, sh[2])
			for k := range out[i][j] {
				out[i][j][k] = a.Get3(i, j, k)
			}
		}
	}
	return out
}

// NewModel builds a fresh model object from the catalogue.
func NewModel(name string) sim.TimeSteppingModel {
	f := sim.Catalog[name]
	if f == nil {
		panic(fmt.Sprintf("model %s not in catalogue", name))
	}
	return f()
}

// RunOn runs a case on the given model object (nil → fresh one), exactly the way libopenwater/single.go
// and cmd/ow-sim do: FindDimensions → InitialiseDimensions → ApplyParameters → [InitialiseStates] → Run.
func RunOn(m sim.TimeSteppingModel, rc *RunCase) *RunResult {
	if m == nil {
		m = NewModel(rc.Model)
	}
	p := arr2(rc.Params)
	dims := m.FindDimensions(p)
	if len(dims) > 0 {
		m.InitialiseDimensions(dims)
	}
	m.ApplyParameters(p)
	in := arr3(rc.Inputs)
	var st data.ND2Float64
	if rc.States == nil {
		st = m.InitialiseStates(rc.Cells)
	} else {
		st = arr2(rc.States)
	}
	nOut := len(m.Description().Outputs)
	T := len(rc.Inputs[0][0])
	oc, ot := rc.OutCells, rc.OutT
	if oc == 0 {
		oc = rc.Cells
	}
	if ot == 0 {
		ot = T
	}
	out := data.NewArray3DFloat64(oc, nOut, ot)
	if rc.Sentinel != 0 {
		for i := 0; i < oc; i++ {
			for j := 0; j < nOut; j++ {
				for k := 0; k < ot; k++ {
					if i >= rc.Cells || k >= T {
						out.Set3(i, j, k, rc.Sentinel)
					}
				}
			}
		}
	}
	m.Run(in, st, out)
	return &RunResult{Outputs: un3(out), States: un2(st), Inputs: un3(in), Params: un2(p)}
}
