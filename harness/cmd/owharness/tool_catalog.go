package main

// `owharness catalog` — dumps the REAL sim.Catalog of the tree the harness was built against: every key, the Go
// type its factory builds, and that model's Description() (parameters with default / range / dimensions, inputs,
// states, outputs, dimensions), as JSON on stdout. Used by property C09 (catalogue vs OW-SPEC blocks).
// Floats are printed as shortest round-trip decimals in strings (NaN/Inf safe) plus their IEEE bit patterns.

import (
	"encoding/json"
	"fmt"
	"math"
	"os"
	"reflect"
	"sort"
	"strconv"

	"github.com/flowmatters/openwater-core/sim"
)

type catParam struct {
	Name        string   `json:"name"`
	Default     string   `json:"default"`
	DefaultBits string   `json:"default_bits"`
	Description string   `json:"description"`
	Min         string   `json:"min"`
	Max         string   `json:"max"`
	MinBits     string   `json:"min_bits"`
	MaxBits     string   `json:"max_bits"`
	MinOpen     bool     `json:"min_open"`
	MaxOpen     bool     `json:"max_open"`
	Units       string   `json:"units"`
	Dims        []string `json:"dims"`
}

type catModel struct {
	Key        string     `json:"key"`
	Type       string     `json:"type"`    // name of the struct the factory returns
	PkgPath    string     `json:"pkgpath"` // its package
	Panic      string     `json:"panic,omitempty"`
	Parameters []catParam `json:"parameters"`
	Inputs     []string   `json:"inputs"`
	States     []string   `json:"states"`
	Outputs    []string   `json:"outputs"`
	Dimensions []string   `json:"dimensions"`
}

func init() { tools["catalog"] = toolCatalog }

func strs(xs []string) []string {
	if xs == nil {
		return []string{}
	}
	return xs
}

func describeOne(key string) (m catModel) {
	m = catModel{Key: key, Parameters: []catParam{}, Inputs: []string{}, States: []string{}, Outputs: []string{}, Dimensions: []string{}}
	defer func() {
		if r := recover(); r != nil {
			m.Panic = fmt.Sprint(r)
		}
	}()
	factory := sim.Catalog[key]
	if factory == nil {
		m.Panic = "nil factory"
		return
	}
	model := factory()
	t := reflect.TypeOf(model)
	for t != nil && t.Kind() == reflect.Ptr {
		t = t.Elem()
	}
	if t != nil {
		m.Type = t.Name()
		m.PkgPath = t.PkgPath()
	}
	d := model.Description()
	for _, p := range d.Parameters {
		m.Parameters = append(m.Parameters, catParam{
			Name:        p.Name,
			Default:     strconv.FormatFloat(p.Default, 'g', -1, 64),
			DefaultBits: strconv.FormatUint(math.Float64bits(p.Default), 10),
			Description: p.Description,
			Min:         strconv.FormatFloat(p.Range[0], 'g', -1, 64),
			Max:         strconv.FormatFloat(p.Range[1], 'g', -1, 64),
			MinBits:     strconv.FormatUint(math.Float64bits(p.Range[0]), 10),
			MaxBits:     strconv.FormatUint(math.Float64bits(p.Range[1]), 10),
			MinOpen:     p.RangeOpen[0],
			MaxOpen:     p.RangeOpen[1],
			Units:       p.Units,
			Dims:        strs(p.Dimensions),
		})
	}
	m.Inputs = strs(d.Inputs)
	m.States = strs(d.States)
	m.Outputs = strs(d.Outputs)
	m.Dimensions = strs(d.Dimensions)
	return
}

func toolCatalog(args []string) {
	keys := make([]string, 0, len(sim.Catalog))
	for k := range sim.Catalog {
		keys = append(keys, k)
	}
	sort.Strings(keys)
	out := struct {
		Keys   []string   `json:"keys"`
		Models []catModel `json:"models"`
	}{Keys: keys, Models: []catModel{}}
	for _, k := range keys {
		out.Models = append(out.Models, describeOne(k))
	}
	enc := json.NewEncoder(os.Stdout)
	enc.SetEscapeHTML(false)
	enc.SetIndent("", " ")
	must(enc.Encode(out))
}
