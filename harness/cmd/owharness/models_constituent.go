package main

import (
	"math"
	"os"
)

// Generators for the constituent transport / trapping models of property C12
// (routing/{lumpedconstituent,decay,instream_*}.go, storage/{sediment_trapping,trap_all,dissolved_decay}.go).
//
// Common rule: loads, flows and volumes are non-negative series built from segments (Series), the water side
// (outflow rate, stored volume) is drawn with wet, near-empty (working volume below MINIMUM_VOLUME = 0.01 m³) and
// exactly empty spells so that every run mixes normal and flush steps; parameters are drawn over their physical range
// with the degenerate values (0, exact thresholds) that select the other branch of each model.

const minimumVolumeC12 = 1e-2

// c12FineConditioned (harness argument `finegen=conditioned`) restricts the InstreamFineSediment generator to
// well-conditioned runs, for the tolerance-based correspondence of that kernel only. Reason: the kernel reports two
// RATIOS (deposition / mass present). When the mass present is pure round-off residue (everything was deposited on
// the previous step and nothing arrives) the ratio is residue/residue: the real code and the model, whose pow/exp
// differ in the last bit, then legitimately disagree by many orders of magnitude (observed: −5e47 vs 0). In
// conditioned mode mass of the order of the transport capacity arrives on every step, so the mass present is never a
// residue; the unrestricted generator (zero-load spells included) is still run against the implementation for the
// oracle (family label K-fine-oracle in checks/C12.py), just not diffed against the model.
var c12FineConditioned = func() bool {
	for _, a := range os.Args {
		if a == "finegen=conditioned" {
			return true
		}
	}
	return false
}()

// c12FineCorpus: minimised inputs on which the pinned code violated C12 (kept as regression cases, drawn first in
// every run of the InstreamFineSediment generator; see /verif/fixes/fine-sediment-*.diff):
//
//	0: bank-full flow 0 and 1 kg/s of reach-local mass for one day into a wet reach — the pre-fix code routed only
//	   upstream + lateral mass and the 86 400 kg vanished (loadDownstream 0, stored 0);
//	1: outflow == bankFullFlow (10 m³/s) on a reach without floodplain (area 0) — the pre-fix code computed
//	   0/0 in floodPlainDepositionEmperical and every output and the stored mass were NaN from then on.
var c12FineCorpus = []struct {
	P  []float64
	In [][]float64
}{
	{[]float64{0, 1e-4, 1e6, 20, 5000, 1e-3, 2, 0.5, 1.5, 0.04, 1e-4, 2e-4, 86400},
		[][]float64{{0}, {0}, {1}, {1000}, {1}}},
	{[]float64{10, 1e-4, 0, 20, 5000, 1e-3, 2, 0.5, 1.5, 0.04, 1e-4, 2e-4, 86400},
		[][]float64{{1, 1}, {0, 0}, {0, 0}, {1000, 1000}, {10, 5}}},
}
var c12FineDrawn = 0    // number of InstreamFineSediment cases drawn so far
var c12FineCurrent = -1 // index into c12FineCorpus of the case being drawn, or -1

// stash between the Inputs and the States draw of one InstreamFineSediment case (drawCall draws them in that order)
var c12FineStash struct {
	allZero   bool
	massScale float64
}

func drawDt(r *Rng) float64 {
	return []float64{86400, 86400, 3600, 43200, 600, 1}[r.Intn(6)]
}

// flowVolume draws an outflow-rate series and a stored-volume series.
func flowVolume(r *Rng, T int, dt float64) (flow, vol []float64) {
	flow = Series(r, T, r.LogUniform(1e-3, 100))
	vol = Series(r, T, r.LogUniform(1, 1e6))
	switch r.Intn(6) {
	case 0: // as drawn: zeros of both series can coincide
	case 1: // wet everywhere: no flush step at all
		for i := range flow {
			vol[i] += 1
		}
	case 2: // near-empty everywhere
		for i := range flow {
			vol[i] = 0.02 * r.F01()
			flow[i] = 0.02 * r.F01() / dt
		}
	case 3: // river reach without storage: working volume = outflow volume only
		for i := range vol {
			vol[i] = 0
		}
	default: // per-segment regimes
		i := 0
		for i < T {
			seg := r.Range(1, 1+T/4)
			kind := r.Intn(6)
			for j := 0; j < seg && i < T; j++ {
				switch kind {
				case 0, 1: // wet (as drawn)
				case 2: // near-empty, on either side of the threshold
					vol[i] = 0.02 * r.F01()
					flow[i] = 0.02 * r.F01() / dt
				case 3: // exactly empty
					vol[i], flow[i] = 0, 0
				case 4: // exactly on the threshold (not below it)
					vol[i], flow[i] = minimumVolumeC12, 0
				case 5: // storage only, no outflow
					flow[i] = 0
				}
				i++
			}
		}
	}
	return
}

func loadSeries(r *Rng, T int) []float64 {
	if r.Chance(0.1) {
		return make([]float64, T)
	}
	return Series(r, T, r.LogUniform(1e-4, 10))
}

func storedMass(r *Rng) float64 {
	if r.Chance(0.15) {
		return 0
	}
	return r.LogUniform(1e-3, 1e5)
}

// stcC12 is the fine-sediment transport-capacity threshold in t/d (only used to place loads around the threshold).
func stcC12(q, slope, v, w, n float64) float64 {
	return 0.1 * math.Pow(q, 1.4) * math.Pow(slope, 1.3) / (v * math.Pow(w, 0.4) * math.Pow(n, 0.6)) * 86400
}

func init() {
	regModel(&ModelGen{Name: "LumpedConstituentRouting",
		Params: func(r *Rng) []float64 {
			pi := 0.0
			if r.Chance(0.4) {
				pi = r.LogUniform(1e-6, 1)
			}
			return []float64{r.F01(), pi, drawDt(r)}
		},
		Inputs: func(r *Rng, T int, p []float64) [][]float64 {
			flow, vol := flowVolume(r, T, p[2])
			return [][]float64{loadSeries(r, T), loadSeries(r, T), flow, vol}
		},
		States: func(r *Rng, p []float64) []float64 { return []float64{storedMass(r)} },
	})

	regModel(&ModelGen{Name: "ConstituentDecay",
		Params: func(r *Rng) []float64 {
			dt := drawDt(r)
			hl := 0.0
			switch r.Intn(5) {
			case 0: // decay off
			case 1:
				hl = -r.LogUniform(1, 1e6) // "not positive" also means off
			default:
				hl = dt * r.LogUniform(1e-2, 1e3)
			}
			return []float64{r.F01(), hl, dt}
		},
		Inputs: func(r *Rng, T int, p []float64) [][]float64 {
			flow, vol := flowVolume(r, T, p[2])
			return [][]float64{loadSeries(r, T), loadSeries(r, T), Series(r, T, 10), flow, vol}
		},
		States: func(r *Rng, p []float64) []float64 { return []float64{storedMass(r)} },
	})

	regModel(&ModelGen{Name: "InstreamCoarseSediment",
		Params: func(r *Rng) []float64 { return []float64{drawDt(r)} },
		Inputs: func(r *Rng, T int, p []float64) [][]float64 {
			return [][]float64{loadSeries(r, T), loadSeries(r, T), loadSeries(r, T)}
		},
		States: func(r *Rng, p []float64) []float64 { return []float64{storedMass(r), storedMass(r)} },
	})

	regModel(&ModelGen{Name: "InstreamFineSediment",
		Params: func(r *Rng) []float64 {
			c12FineCurrent = -1
			if c12FineDrawn < len(c12FineCorpus) {
				c12FineCurrent = c12FineDrawn
			}
			c12FineDrawn++
			if c12FineCurrent >= 0 {
				return append([]float64{}, c12FineCorpus[c12FineCurrent].P...)
			}
			bff := r.LogUniform(0.05, 200)
			switch r.Intn(10) {
			case 0, 1: // bank-full flow 0: lumped routing
				bff = 0
			case 2: // the threshold itself and just below / above it
				bff = []float64{1e-8, 1e-9, 2e-8}[r.Intn(3)]
			}
			vfl := r.LogUniform(1e-7, 1e-3)
			fpa := r.LogUniform(1e3, 1e8)
			if r.Chance(0.2) { // reach without a floodplain
				fpa = 0
			}
			if r.Chance(0.05) {
				vfl = 0
			}
			w := r.LogUniform(1, 200)
			l := r.LogUniform(100, 1e5)
			slope := r.LogUniform(1e-5, 0.1)
			bh := r.Uniform(0.3, 10)
			prop := r.F01()
			if r.Chance(0.1) { // no room for deposition at all
				prop = 0
			}
			dens := r.Uniform(1, 2)
			n := r.Uniform(0.02, 0.15)
			vs := r.LogUniform(1e-6, 1e-2)
			vr := vs * r.LogUniform(1e-2, 1e2) // either side of the settling velocity
			if c12FineConditioned {
				vr = vs * r.LogUniform(0.1, 10)
			}
			if r.Chance(0.15) {
				vr = vs
			}
			return []float64{bff, vfl, fpa, w, l, slope, bh, prop, dens, n, vs, vr, drawDt(r)}
		},
		Inputs: func(r *Rng, T int, p []float64) [][]float64 {
			if c12FineCurrent >= 0 {
				in := make([][]float64, 5)
				for i, s := range c12FineCorpus[c12FineCurrent].In {
					in[i] = append([]float64{}, s...)
				}
				return in
			}
			dt := p[12]
			flow, vol := flowVolume(r, T, dt)
			if p[0] > 1e-8 {
				// flows around bank-full so that both the flood and the no-flood branch are taken
				s := p[0] * r.LogUniform(0.1, 10) / (1 + maxAbs(flow))
				for i := range flow {
					flow[i] *= s
				}
				if r.Chance(0.25) { // some steps exactly at bank-full flow
					for i := range flow {
						if r.Chance(0.3) {
							flow[i] = p[0]
						}
					}
				}
			}
			// loads around the transport-capacity thresholds of a typical flow
			q := maxAbs(flow) * 0.3
			scale := r.LogUniform(1e-4, 10)
			if q > 0 && r.Chance(0.8) {
				stc := stcC12(q, p[5], p[10], p[3], p[9])
				scale = stc * 1000 / dt * r.LogUniform(1e-3, 30)
				if !(scale > 1e-12 && scale < 1e12) {
					scale = r.LogUniform(1e-4, 10)
				}
			}
			mk := func() []float64 {
				if r.Chance(0.15) {
					return make([]float64, T)
				}
				return Series(r, T, scale)
			}
			c12FineStash.allZero, c12FineStash.massScale = false, 0
			if c12FineConditioned && p[0] > 1e-8 {
				if r.Chance(0.05) { // nothing at all (the States draw then starts from empty stores): exact zeros throughout
					c12FineStash.allZero = true
					return [][]float64{make([]float64, T), make([]float64, T), make([]float64, T), vol, flow}
				}
				if q > 0 {
					scale = stcC12(q, p[5], p[10], p[3], p[9]) * 1000 / dt * r.LogUniform(1e-2, 30)
				}
				if !(scale > 1e-9 && scale < 1e12) {
					scale = r.LogUniform(1e-4, 10)
				}
				c12FineStash.massScale = scale * dt
				// every step receives mass within a factor 400 of every other step, through at least one of the three inputs
				ld := [][]float64{make([]float64, T), make([]float64, T), make([]float64, T)}
				use := []bool{r.Chance(0.7), r.Chance(0.7), r.Chance(0.7)}
				if !use[0] && !use[1] && !use[2] {
					use[r.Intn(3)] = true
				}
				storm := 1.0
				for t := 0; t < T; t++ {
					if r.Chance(0.1) {
						storm = 1 + 19*r.F01()
					} else {
						storm = 1 + (storm-1)*0.6
					}
					for k := 0; k < 3; k++ {
						if use[k] {
							ld[k][t] = scale * storm * r.Uniform(0.05, 1)
						}
					}
				}
				return [][]float64{ld[0], ld[1], ld[2], vol, flow}
			}
			return [][]float64{mk(), mk(), mk(), vol, flow}
		},
		States: func(r *Rng, p []float64) []float64 {
			if c12FineCurrent >= 0 {
				return []float64{0, 0}
			}
			maxStorage := p[7] * p[6] * (p[3] * p[4]) * p[8] * 1000
			cs := 0.0
			switch r.Intn(5) {
			case 0:
			case 1: // "negative = proportion of maxStorage"
				cs = -r.F01()
			case 2:
				cs = maxStorage
			default:
				cs = maxStorage * r.F01()
			}
			sm := storedMass(r)
			if r.Chance(0.5) {
				sm *= 1e3
			}
			if c12FineConditioned && p[0] > 1e-8 {
				if c12FineStash.allZero {
					return []float64{0, 0}
				}
				sm = c12FineStash.massScale * r.LogUniform(1e-2, 1e2)
				if r.Chance(0.15) {
					sm = 0
				}
			}
			return []float64{cs, sm}
		},
	})

	regModel(&ModelGen{Name: "InstreamParticulateNutrient",
		Params: func(r *Rng) []float64 {
			pnc := r.F01() * 0.01
			if r.Chance(0.2) {
				pnc = []float64{0, 1, 0.5}[r.Intn(3)]
			}
			spf := r.Uniform(0, 100)
			if r.Chance(0.3) {
				spf = []float64{0, 100, 50}[r.Intn(3)]
			}
			return []float64{pnc, spf, drawDt(r)}
		},
		Inputs: func(r *Rng, T int, p []float64) [][]float64 {
			flow, vol := flowVolume(r, T, p[2])
			frac := func(lo, hi float64) []float64 {
				out := make([]float64, T)
				mode := r.Intn(4)
				for i := range out {
					switch mode {
					case 0: // stays 0
					case 1:
						out[i] = r.Uniform(0, 1)
					default:
						if r.Chance(0.6) {
							out[i] = r.Uniform(lo, hi)
						}
					}
				}
				return out
			}
			latSed := loadSeries(r, T)
			return [][]float64{loadSeries(r, T), loadSeries(r, T), vol, flow, loadSeries(r, T), latSed,
				frac(-0.2, 1.3), frac(-1, 1.5)}
		},
		States: func(r *Rng, p []float64) []float64 { return []float64{storedMass(r), storedMass(r)} },
	})

	regModel(&ModelGen{Name: "StorageParticulateTrapping",
		Params: func(r *Rng) []float64 {
			capacity := r.LogUniform(1e4, 1e10)
			length := r.LogUniform(50, 1e5)
			if r.Chance(0.1) {
				length = 0 // no trapping
			}
			sub, mul := 112.0, 800.0
			ldf, ldp := 3.28, -0.2
			if r.Chance(0.6) {
				sub = r.Uniform(60, 140)
				mul = r.Uniform(50, 2000)
				ldf = r.LogUniform(0.3, 30)
				ldp = -r.Uniform(0.02, 0.5)
				if r.Chance(0.15) {
					ldp = r.Uniform(0, 0.3)
				}
			}
			if r.Chance(0.08) {
				// UNSET parameters (the spec defaults are zero): capacity 0 and / or length-discharge factor 0 make the sedimentation index
				// 0/0 or x/0; what the clamp min(100, max(0, ·)) does with a NaN / ±Inf decides whether mass is conserved
				switch r.Intn(3) {
				case 0:
					capacity, ldf = 0, 0
				case 1:
					ldf = 0
				default:
					capacity = 0
				}
			}
			return []float64{drawDt(r), capacity, length, sub, mul, ldf, ldp}
		},
		Inputs: func(r *Rng, T int, p []float64) [][]float64 {
			flow, vol := flowVolume(r, T, p[0])
			return [][]float64{loadSeries(r, T), Series(r, T, r.LogUniform(1e-2, 1e4)), flow, vol}
		},
		States: func(r *Rng, p []float64) []float64 { return []float64{storedMass(r)} },
	})

	regModel(&ModelGen{Name: "StorageTrapAll",
		Params: func(r *Rng) []float64 { return []float64{} },
		Inputs: func(r *Rng, T int, p []float64) [][]float64 {
			if r.Chance(0.03) { // malformed: empty series — the kernel indexes element 0 and panics
				T = 0
			}
			flow, vol := flowVolume(r, T, 86400)
			return [][]float64{loadSeries(r, T), Series(r, T, 10), flow, vol}
		},
		States: func(r *Rng, p []float64) []float64 { return []float64{storedMass(r)} },
	})

	regModel(&ModelGen{Name: "StorageDissolvedDecay",
		Params: func(r *Rng) []float64 {
			dsd := []float64{0, 0, 0, 0.2, 0.49}[r.Intn(5)]
			if r.Chance(0.12) { // decay enabled: correspondence only, not part of C12
				dsd = []float64{0.5, 1}[r.Intn(2)]
			}
			mfrt := r.Uniform(0, 8)
			if r.Chance(0.2) {
				mfrt = 0
			}
			return []float64{drawDt(r), dsd, r.Uniform(1, 100), r.LogUniform(0.1, 100), mfrt}
		},
		Inputs: func(r *Rng, T int, p []float64) [][]float64 {
			flow, vol := flowVolume(r, T, p[0])
			return [][]float64{loadSeries(r, T), Series(r, T, 10), flow, vol}
		},
		States: func(r *Rng, p []float64) []float64 { return []float64{storedMass(r)} },
	})
}
