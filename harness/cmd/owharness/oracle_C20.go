package main

// Oracle for C20 (derived climate variables are physically ordered), evaluated on the outputs of ONE real Run call.
//
//  finite     every output finite
//  vp>0       saturation vapour pressure positive
//  vp↑        vapour pressure strictly increasing with temperature: all samples of the call sorted by temperature,
//             neighbouring samples with T2 − T1 ≥ 1e-9 °C must have vp2 > vp1 (vp changes by ≥ 3 %/°C, so a 1e-9 °C
//             step changes it by ≥ 3e-11 relative, 5 orders above the rounding error of pow/log10); closer or equal
//             temperatures must not decrease by more than 1e-12 relative
//  between    min(dew, dry) ≤ wet ≤ max(dew, dry)   (order-free; slack 1e-9·max(|dry|,|dew|,1) for the rounding of
//             rtb+dx — exact arithmetic keeps the iterate strictly inside the bracket)
//  deltaT     deltaT == dry − wet, bit for bit (it is that one float64 subtraction)
//  dew↑       at equal temperature, RH2 ≥ RH1·(1+1e-9) ⇒ dew2 > dew1
//  ordered    the ORDERED reading dew ≤ wet ≤ dry: fails for samples with dew point > dry bulb (RH = 100 %, T ≳ 31 °C; Magnus vs
//             Goff-Gratch) — reported under the scope ClimateVariables:dewpoint-above-drybulb = known finding
//             KF-C20-dewpoint-above-drybulb (one report per call)

import (
	"fmt"
	"math"
	"sort"
)

func init() {
	regOracle("C20", "ClimateVariables", func(c *Ctx, id int, k *KCall, r *KResult, body string) {
		c.Stats.Hist["C20:near-tie-rejected-by-generator"] = climNearTieRejected
		if r.Status != "ok" {
			c.OracleFail(id, "ClimateVariables:panic", "panic on in-range input: "+r.Status, body)
			return
		}
		dry, hum := k.In[0], k.In[1]
		vp, dew, wet, dT := r.Out[0], r.Out[1], r.Out[2], r.Out[3]
		T := k.T()
		dewAboveDryReported := false // one report per call
		for i := 0; i < T; i++ {
			in := fmt.Sprintf("sample %d: dryBulb=%v humidity=%v elevation=%v → vp=%v dew=%v wet=%v deltaT=%v", i, dry[i], hum[i], k.P[0], vp[i], dew[i], wet[i], dT[i])
			if !allFinite([]float64{vp[i], dew[i], wet[i], dT[i]}) {
				c.OracleFail(id, "ClimateVariables:finite", "non-finite output; "+in, body)
				return
			}
			if !(vp[i] > 0) {
				c.OracleFail(id, "ClimateVariables:vp-positive", "vapour pressure not positive; "+in, body)
				return
			}
			lo, hi := math.Min(dew[i], dry[i]), math.Max(dew[i], dry[i])
			slack := 1e-9 * math.Max(math.Max(math.Abs(dry[i]), math.Abs(dew[i])), 1)
			if wet[i] < lo-slack || wet[i] > hi+slack {
				c.OracleFail(id, "ClimateVariables:wetbulb-between", "wet bulb outside [min(dew,dry), max(dew,dry)]; "+in, body)
				return
			}
			if dT[i] != dry[i]-wet[i] {
				c.OracleFail(id, "ClimateVariables:deltaT", fmt.Sprintf("deltaT ≠ dry − wet (= %v); %s", dry[i]-wet[i], in), body)
				return
			}
			if dew[i] > dry[i] {
				c.Stats.Count("C20:dew>dry (recorded)")
				ex := dew[i] - dry[i]
				if ex > 0.0065 {
					// the documented excess is ≤ 0.006 °C; a larger one is new information
					c.Stats.Count("C20:dew>dry by more than 0.0065")
				}
				// The ORDERED reading of "the wet-bulb temperature lies between the dew point and the dry-bulb temperature"
				// (dew ≤ wet ≤ dry) fails here: the dew point is above the dry bulb, the wet bulb is not below the dry bulb and
				// deltaT ≤ 0 (Lean: dewPoint_exceeds_dryBulb_example, ordered_reading_counterexample). Own scope = known finding
				// KF-C20-dewpoint-above-drybulb. Slack 1e-9·max(|dry|,1): at RH = 100 % a consistent pair of formulas gives
				// dew = dry up to rounding, which must not fire. The order-free reading is checked above (wetbulb-between).
				if ex > 1e-9*math.Max(math.Abs(dry[i]), 1) && !dewAboveDryReported {
					dewAboveDryReported = true
					c.OracleFail(id, "ClimateVariables:dewpoint-above-drybulb", fmt.Sprintf("dew point above dry bulb by %g °C (wet bulb − dry bulb = %g, deltaT = %g): the ordered reading dew ≤ wet ≤ dry fails; %s", ex, wet[i]-dry[i], dT[i], in), body)
				}
			}
		}
		// vapour pressure strictly increasing with temperature
		idx := make([]int, T)
		for i := range idx {
			idx[i] = i
		}
		sort.SliceStable(idx, func(a, b int) bool { return dry[idx[a]] < dry[idx[b]] })
		for j := 1; j < T; j++ {
			a, b := idx[j-1], idx[j]
			d := dry[b] - dry[a]
			switch {
			case d >= 1e-9:
				c.Stats.Count("C20:vp-pairs")
				if (dry[a] <= 0) != (dry[b] <= 0) {
					c.Stats.Count("C20:vp-pairs-across-freezing")
				}
				if !(vp[b] > vp[a]) {
					c.OracleFail(id, "ClimateVariables:vp-monotone",
						fmt.Sprintf("vapour pressure not strictly increasing: T=%v → %v but T=%v → %v", dry[a], vp[a], dry[b], vp[b]), body)
					return
				}
			default:
				if vp[b] < vp[a]*(1-1e-12) {
					c.OracleFail(id, "ClimateVariables:vp-monotone",
						fmt.Sprintf("vapour pressure decreases: T=%v → %v but T=%v → %v", dry[a], vp[a], dry[b], vp[b]), body)
					return
				}
			}
		}
		// dew point rises with humidity at equal temperature
		sort.SliceStable(idx, func(a, b int) bool {
			if dry[idx[a]] != dry[idx[b]] {
				return dry[idx[a]] < dry[idx[b]]
			}
			return hum[idx[a]] < hum[idx[b]]
		})
		for j := 1; j < T; j++ {
			a, b := idx[j-1], idx[j]
			if dry[a] == dry[b] && hum[a] > 0 && hum[b] >= hum[a]*(1+1e-9) {
				c.Stats.Count("C20:dew-pairs")
				if !(dew[b] > dew[a]) {
					c.OracleFail(id, "ClimateVariables:dew-monotone",
						fmt.Sprintf("dew point does not rise with humidity at T=%v: RH=%v → %v but RH=%v → %v", dry[a], hum[a], dew[a], hum[b], dew[b]), body)
					return
				}
			}
		}
	})
}
