package main

import "math"

// storageLongStiffCase: a long STIFF reservoir run (release follows the volume with a time constant of about a day, ~2000
// sub-steps per daily step, > 600000 sub-steps in one call of nT = 420 steps). Anything accumulated over a whole call
// (a sub-step counter that is never reset, a budget that drifts) shows only on such a run.
func storageLongStiffCase(nT int) *KCall {
	k := &KCall{Model: "Storage", Init: true, P: []float64{86400, 2, 0, 10, 0, 1e7, 1e5, 1e6, 0, 0, 0, 100}}
	k.In = make([][]float64, 6)
	for i := range k.In {
		k.In[i] = make([]float64, nT)
	}
	for t := 0; t < nT; t++ {
		v := 50 + 30*math.Sin(float64(t)*2.1) + 10*math.Cos(float64(t)*0.37)
		if t%2 == 0 {
			v = 90 - v/2
		}
		k.In[2][t] = v
		k.In[3][t] = 1e6
	}
	return k
}

func init() {
	kCorpus["C13:Storage"] = []*KCall{storageLongStiffCase(420)}
}
