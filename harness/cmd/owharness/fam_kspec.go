package main

import (
	"fmt"
	"strings"
)

// Family KSPEC (property C15): the REAL GR4J is run through the public API exactly like family K, but the protocol
// line names the model `GR4J#spec` (or `GR4J#published`), which the Lean driver resolves to the independent
// specification OW/Spec/GR4J.lean (Perrin et al. 2003) executed at Float. The diff is therefore
// implementation vs published formulation, not implementation vs its own model.
//
//	owharness gen KSPEC -seed N -tier quick -dir D variant=spec|published n=300
func init() {
	register(&Family{Name: "KSPEC", Gen: genKSpec, Exec: execKSpec, Oracle: oracleKSpec})
	register(&Family{Name: "KORACLE", Gen: genKOracle, Exec: execKSpec, Oracle: oracleKOracle})
}

// Family KORACLE: oracle-only runs of the real code on a generator variant `<Model>#<variant>` (no model
// comparison: the check lists it with compare=False). Used for regimes in which a kernel is numerically
// ill-conditioned, so that a 1e-9 correspondence is not meaningful but the property's own predicate still is.
//
//	owharness gen KORACLE -seed N -tier quick -dir D models=Sacramento variant=wet prop=C10 n=150
func genKOracle(c *Ctx) {
	n := parseI(c.Arg("n", "150"))
	if c.Tier == "thorough" {
		n *= 20
	}
	variant := c.Arg("variant", "")
	c.Stats.Rule = "oracle-only: generator variant '" + variant + "' of the listed models (parameters and series concentrated on one regime, initial states produced by the model itself); one real Run on one cell per case; non-trivial = T≥2 and some rain"
	for _, m := range modelsArg(c) {
		g := modelGens[m+"#"+variant]
		if g == nil {
			must(fmt.Errorf("no generator variant %s#%s", m, variant))
		}
		for i := 0; i < n; i++ {
			k := drawCall(c.R, g, c.Tier)
			c.Do(k.Body(), k.T() >= 2 && maxAbs(k.In[0]) > 0)
			c.Stats.Count("model:" + k.Model)
			c.Stats.Count(fmt.Sprintf("T:%s", bucket(k.T())))
		}
	}
}

func oracleKOracle(c *Ctx, id int, body, impl string) {
	k := kspecReal(parseKCall(body))
	f := kOracles[c.Arg("prop", "")][k.Model]
	if f == nil {
		return
	}
	c.Stats.OracleEvals++
	f(c, id, k, parseKResult(impl), body)
}

func genKSpec(c *Ctx) {
	n := parseI(c.Arg("n", "300"))
	if c.Tier == "thorough" {
		n *= 20
	}
	variant := c.Arg("variant", "spec")
	c.Stats.Rule = "GR4J only: (x1,x2,x3) over the documented ranges, x4 dense in [0.5,4] plus every integer/half-integer and its floating-point neighbours (all UH lengths 1..4 / 1..8); rainfall/PET series from segments incl. dry spells, extreme storms, zero PET, rain = PET days; initial stores from the model's own init or drawn (S in [0,x1], R in [0,x3], pending UH deliveries ≥ 0); numerically ill-conditioned cases (implementation moves > 1e-10 under a 1e-13 input perturbation) are redrawn/shortened; the line is executed by the real gr4j and by the Lean specification; non-trivial = T≥2 and some rain"
	// same conditioning filter as the K generator of GR4J (models_rr.go): only cases on which the implementation
	// itself is insensitive to a 1e-13 perturbation of its inputs are compared at 1e-9
	g := &ModelGen{Name: "GR4J", Params: gr4jParams,
		Inputs: conditionedInputs("GR4J", rainPetP),
		States: conditionedStates("GR4J", gr4jStates)}
	for i := 0; i < n; i++ {
		k := drawCall(c.R, g, c.Tier)
		k.Model = "GR4J#" + variant
		c.Do(k.Body(), k.T() >= 2 && maxAbs(k.In[0]) > 0)
		c.Stats.Count(fmt.Sprintf("n1:%d", ceilInt(k.P[3])))
		c.Stats.Count(fmt.Sprintf("n2:%d", ceilInt(2*k.P[3])))
		c.Stats.Count(fmt.Sprintf("T:%s", bucket(k.T())))
		if k.P[1] == 0 {
			c.Stats.Count("x2=0")
		}
	}
}

// the catalogue name is the part before '#'
func kspecReal(k *KCall) *KCall {
	kk := *k
	if i := strings.IndexByte(kk.Model, '#'); i >= 0 {
		kk.Model = kk.Model[:i]
	}
	return &kk
}

func execKSpec(body string) string { return kspecReal(parseKCall(body)).Run().Format() }

func oracleKSpec(c *Ctx, id int, body, impl string) {
	k := kspecReal(parseKCall(body))
	f := kOracles["C15"][k.Model]
	if f == nil {
		return
	}
	c.Stats.OracleEvals++
	f(c, id, k, parseKResult(impl), body)
}
