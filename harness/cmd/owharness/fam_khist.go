package main

// KHIST family (C14): histories of runs on real model objects in ONE process: new object / reuse of an object /
// other models in between / the same call again / the same call with the inputs truncated at t.
//   body: nruns (slot ntoks <K call tokens>)…      slot = which model object runs the call (objects are created on first use)
//   impl: ok (run <result> | panic <class>)…
// The Lean model is history-free, so any carry-over between runs, and any look-ahead, shows as a disagreement;
// the oracle checks repeat-equality and prefix-equality directly on the implementation's results.

import (
	"fmt"
	"math"
	"strings"

	"github.com/flowmatters/openwater-core/sim"
)

func init() {
	register(&Family{Name: "KHIST", Gen: genKHist, Exec: execKHist, Oracle: oracleKHist})
}

type histRun struct {
	slot int
	call *KCall
}

func parseHist(body string) []histRun {
	t := newTokenReader(body)
	n := t.int()
	runs := make([]histRun, 0, n)
	for i := 0; i < n; i++ {
		slot := t.int()
		ln := t.int()
		sub := &tokenReader{toks: t.toks[t.pos : t.pos+ln]}
		t.pos += ln
		runs = append(runs, histRun{slot, readKCall(sub)})
	}
	return runs
}

func execKHist(body string) string {
	runs := parseHist(body)
	objs := map[int]sim.TimeSteppingModel{}
	names := map[int]string{}
	var out []string
	for _, r := range runs {
		m, ok := objs[r.slot]
		if !ok || names[r.slot] != r.call.Model {
			m = NewModel(r.call.Model)
			objs[r.slot] = m
			names[r.slot] = r.call.Model
		}
		k := r.call
		rc := &RunCase{Model: k.Model, Cells: 1}
		rc.Params = make([][]float64, len(k.P))
		for i, v := range k.P {
			rc.Params[i] = []float64{v}
		}
		rc.Inputs = [][][]float64{k.In}
		if !k.Init {
			rc.States = [][]float64{k.S}
		}
		res := RunOn(m, rc)
		kr := &KResult{Status: "ok", Out: res.Outputs[0]}
		if len(res.States) > 0 {
			kr.S = res.States[0]
		}
		out = append(out, "run "+fmtKBody(kr))
	}
	return "ok " + strings.Join(out, " ")
}

func splitRuns(impl string) []*KResult {
	toks := strings.Fields(impl)
	if len(toks) == 0 || toks[0] != "ok" {
		return nil
	}
	t := &tokenReader{toks: toks[1:]}
	var out []*KResult
	for !t.done() {
		if t.next() != "run" {
			return out
		}
		// reuse the K result reader: it expects a leading status
		t.pos--
		t.toks[t.pos] = "ok"
		out = append(out, readKResult(t))
	}
	return out
}

func sameCall(a, b *KCall, uptoT int) bool {
	if a.Model != b.Model || a.Init != b.Init || len(a.P) != len(b.P) || len(a.In) != len(b.In) {
		return false
	}
	for i := range a.P {
		if math.Float64bits(a.P[i]) != math.Float64bits(b.P[i]) {
			return false
		}
	}
	if !a.Init {
		if len(a.S) != len(b.S) {
			return false
		}
		for i := range a.S {
			if math.Float64bits(a.S[i]) != math.Float64bits(b.S[i]) {
				return false
			}
		}
	}
	for i := range a.In {
		if len(a.In[i]) < uptoT || len(b.In[i]) < uptoT {
			return false
		}
		for t := 0; t < uptoT; t++ {
			if math.Float64bits(a.In[i][t]) != math.Float64bits(b.In[i][t]) {
				return false
			}
		}
	}
	return true
}

func oracleKHist(c *Ctx, id int, body, impl string) {
	runs := parseHist(body)
	res := splitRuns(impl)
	if len(res) != len(runs) {
		return
	}
	c.Stats.OracleEvals++
	bits := func(x, y float64) bool {
		return math.Float64bits(x) == math.Float64bits(y) || (math.IsNaN(x) && math.IsNaN(y))
	}
	for i := range runs {
		for j := i + 1; j < len(runs); j++ {
			a, b := runs[i].call, runs[j].call
			Ta, Tb := a.T(), b.T()
			if !sameCall(a, b, 0) {
				continue
			}
			// T = length of the longest common prefix of the input series (causality: outputs before the first difference agree)
			T := minI(Ta, Tb)
			for _, pair := range [][2][][]float64{{a.In, b.In}} {
				for k := range pair[0] {
					for t := 0; t < T; t++ {
						if math.Float64bits(pair[0][k][t]) != math.Float64bits(pair[1][k][t]) {
							T = t
							break
						}
					}
				}
			}
			if T == 0 {
				continue
			}
			if T < minI(Ta, Tb) {
				Ta, Tb = -1, -2 // not identical calls: states are not compared, the message names the prefix
			}
			// equal up to T: outputs up to T must be bit-identical (purity when Ta == Tb, causality otherwise)
			for o := range res[i].Out {
				for t := 0; t < T; t++ {
					if !bits(res[i].Out[o][t], res[j].Out[o][t]) {
						what := "same parameters, states and inputs"
						if Ta != Tb {
							what = fmt.Sprintf("inputs equal up to t=%d (lengths %d and %d)", T, a.T(), b.T())
						}
						c.OracleFail(id, a.Model+":purity", fmt.Sprintf("runs %d and %d (%s) differ at output %d timestep %d: %v vs %v", i, j, what, o, t, res[i].Out[o][t], res[j].Out[o][t]), body)
						return
					}
				}
			}
			if Ta == Tb {
				for s := range res[i].S {
					if s < len(res[j].S) && !bits(res[i].S[s], res[j].S[s]) {
						c.OracleFail(id, a.Model+":purity", fmt.Sprintf("runs %d and %d (identical calls) end in different states: state %d %v vs %v", i, j, s, res[i].S[s], res[j].S[s]), body)
						return
					}
				}
			}
		}
	}
}

func genKHist(c *Ctx) {
	models := modelsArg(c)
	n := parseI(c.Arg("n", "12"))
	if c.Tier == "thorough" {
		n *= 15
	}
	c.Stats.Rule = "per model: histories of 4–12 runs over ≤ 4 model objects built from a base call: the call again on the same object, on a fresh object, after runs of other models / other parameters on the same object, with inputs truncated at a random t, with later inputs changed; non-trivial = history has a repeat or a truncation; distinct by line"
	for mi, m := range models {
		g := modelGens[m]
		if g == nil {
			c.Stats.Notes = append(c.Stats.Notes, "no generator for model "+m+" (skipped)")
			continue
		}
		for i := 0; i < n; i++ {
			base := drawCall(c.R, g, "quick")
			for base.T() < 2 {
				base = drawCall(c.R, g, "quick")
			}
			if base.T() > 60 {
				for k := range base.In {
					base.In[k] = base.In[k][:60]
				}
			}
			var runs []histRun
			add := func(slot int, k *KCall) { runs = append(runs, histRun{slot, k}) }
			add(0, base)
			steps := c.R.Range(3, 10)
			for s := 0; s < steps; s++ {
				switch c.R.Intn(6) {
				case 0: // same call, same object
					add(0, base)
					c.Stats.Count("repeat_same_object")
				case 1: // same call, fresh object
					add(1+c.R.Intn(3), base)
					c.Stats.Count("repeat_fresh_object")
				case 2: // other parameters on the same (reused) object, and the same call on a fresh object: must agree
					oc := drawCall(c.R, g, "quick")
					add(0, oc)
					add(4+s, oc)
					c.Stats.Count("other_call_same_object_and_fresh")
				case 3: // another model in between
					om := models[(mi+1+c.R.Intn(len(models)))%len(models)]
					if og := modelGens[om]; og != nil {
						add(1+c.R.Intn(3), drawCall(c.R, og, "quick"))
						c.Stats.Count("other_model")
					}
				case 4: // truncated inputs
					t := c.R.Range(1, base.T()-1)
					tr := &KCall{Model: base.Model, Init: base.Init, P: base.P, S: base.S}
					for _, s := range base.In {
						tr.In = append(tr.In, s[:t])
					}
					add(c.R.Intn(2), tr)
					c.Stats.Count("truncated")
				case 5: // later inputs changed
					t := c.R.Range(1, base.T()-1)
					ch := &KCall{Model: base.Model, Init: base.Init, P: base.P, S: base.S}
					for _, s := range base.In {
						ns := append([]float64{}, s...)
						for k := t; k < len(ns); k++ {
							ns[k] = ns[k]*1.5 + 1
						}
						ch.In = append(ch.In, ns)
					}
					add(c.R.Intn(2), ch)
					c.Stats.Count("later_inputs_changed")
				}
			}
			if i < 4 {
				// QUIET-THEN-EVENT class: the same call with a SUBSET of its input series silenced (zero; i == 0: all of them, 1: one,
				// 2: two, 3: a random half) before t0 and the drawn series afterwards, next to the quiet series of full length and
				// the truncation at t0. A kernel that looks at an aggregate of a WHOLE series (any non-zero value, a maximum, a sum
				// above a threshold) before its loop gives different early outputs for these. Zero initial states every other time.
				t0 := c.R.Range(1, base.T()-1)
				init := base.Init || c.R.Bool()
				quiet := &KCall{Model: base.Model, Init: init, P: base.P, S: base.S}
				event := &KCall{Model: base.Model, Init: init, P: base.P, S: base.S}
				trunc := &KCall{Model: base.Model, Init: init, P: base.P, S: base.S}
				ni := len(base.In)
				sil := make([]bool, ni)
				switch i {
				case 0:
					for k := range sil {
						sil[k] = true
					}
				case 1:
					sil[c.R.Intn(ni)] = true
				case 2:
					sil[c.R.Intn(ni)] = true
					sil[c.R.Intn(ni)] = true
				default:
					for k := range sil {
						sil[k] = c.R.Bool()
					}
					sil[c.R.Intn(ni)] = true
				}
				for k, sr := range base.In {
					q := append([]float64{}, sr...)
					if sil[k] {
						for t := range q {
							q[t] = 0
						}
					}
					e := append([]float64{}, q...)
					copy(e[t0:], sr[t0:])
					if sil[k] && maxAbs(e[t0:]) == 0 {
						e[len(e)-1] = 1 + math.Abs(sr[0])
					}
					quiet.In = append(quiet.In, q)
					event.In = append(event.In, e)
					trunc.In = append(trunc.In, q[:t0])
				}
				add(1, quiet)
				add(2, event)
				add(3, trunc)
				c.Stats.Count("quiet_then_event")
			}
			add(0, base) // and once more at the end, on the first object
			var b strings.Builder
			fmt.Fprintf(&b, "%d", len(runs))
			for _, r := range runs {
				kb := r.call.Body()
				fmt.Fprintf(&b, " %d %d %s", r.slot, len(strings.Fields(kb)), kb)
			}
			c.Do(b.String(), true)
			c.Stats.Count("model:" + m)
		}
	}
}
