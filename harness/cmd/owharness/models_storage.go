package main

// Generator for the Storage model (property C13).
//
// Parameter column of one cell: DeltaT, nLVA, levels[nLVA], volumes[nLVA], areas[nLVA], minRelease[nLVA], maxRelease[nLVA]
// (with one cell the wrapper's FindDimensions gives maxnLVA = int(nLVA), so the tables are packed).
// Inputs: rainfall mm, pet mm, inflow m3/s, demand m3/s, targetMinimumVolume, targetMinimumCapacity (the last two are
// drawn at random: the kernel must not depend on them). States: currentVolume, level, area (level/area junk on purpose:
// the kernel must not read them).

import (
	"math"
)

// storageTables draws monotone level/volume/area tables and release curves with n knots.
func storageTables(r *Rng, n int) (levels, volumes, areas, minRel, maxRel []float64) {
	levels = make([]float64, n)
	volumes = make([]float64, n)
	areas = make([]float64, n)
	minRel = make([]float64, n)
	maxRel = make([]float64, n)
	if n == 0 {
		return
	}
	vmax := r.LogUniform(1e3, 1e9)
	depth := r.Uniform(2, 80)
	amax := vmax / depth * r.Uniform(1, 3)
	// knot positions: increasing fractions in [0,1]
	fr := make([]float64, n)
	acc := 0.0
	for i := 1; i < n; i++ {
		acc += r.Uniform(0.05, 1)
		fr[i] = acc
	}
	for i := range fr {
		if acc > 0 {
			fr[i] /= acc
		}
	}
	dead := 0.0 // dead storage: first volume knot > 0
	if r.Chance(0.2) {
		dead = vmax * r.Uniform(0.001, 0.05)
	}
	shapeA := r.Uniform(0.4, 1.2)
	for i := 0; i < n; i++ {
		volumes[i] = dead + (vmax-dead)*fr[i]
		levels[i] = depth * math.Pow(fr[i], r.Uniform(0.3, 0.6))
		if i > 0 && levels[i] < levels[i-1] {
			levels[i] = levels[i-1]
		}
		areas[i] = amax * math.Pow(fr[i], shapeA)
	}
	if r.Chance(0.15) { // a lake that keeps a wet surface at the lowest knot
		a0 := amax * r.Uniform(0.001, 0.05)
		for i := range areas {
			areas[i] += a0
		}
	}
	if r.Chance(0.05) && n > 2 { // repeated knot (still monotone, not strictly)
		j := r.Range(1, n-2)
		volumes[j+1] = volumes[j]
		levels[j+1] = levels[j]
		areas[j+1] = areas[j]
	}
	// release curves: outlet capacity grows with head; minimum release zero except a spillway at the last knot(s)
	qcap := vmax / 86400 * r.LogUniform(0.01, 5)
	for i := 0; i < n; i++ {
		maxRel[i] = qcap * math.Sqrt(fr[i])
	}
	if r.Chance(0.2) { // valve that can deliver at the lowest knot (drawing down to empty ends in the panic branch)
		for i := range maxRel {
			maxRel[i] += qcap * 0.1
		}
	}
	switch r.Intn(4) {
	case 0: // no minimum release, no spillway capacity
	case 1: // spillway only at full supply
		minRel[n-1] = qcap * r.Uniform(0.5, 20)
	case 2: // environmental release + spillway
		env := qcap * r.Uniform(0, 0.2)
		for i := 1; i < n; i++ {
			minRel[i] = env * fr[i]
		}
		minRel[n-1] = qcap * r.Uniform(0.5, 20)
	case 3: // spillway starting at the second-last knot
		minRel[n-1] = qcap * r.Uniform(0.5, 20)
		if n > 2 {
			minRel[n-2] = minRel[n-1] * r.Uniform(0, 0.3)
		}
	}
	for i := 0; i < n; i++ { // keep min ≤ max pointwise (the release rules assume it)
		if maxRel[i] < minRel[i] {
			maxRel[i] = minRel[i]
		}
	}
	return
}

func storageParams(dt float64, levels, volumes, areas, minRel, maxRel []float64) []float64 {
	p := []float64{dt, float64(len(volumes))}
	p = append(p, levels...)
	p = append(p, volumes...)
	p = append(p, areas...)
	p = append(p, minRel...)
	p = append(p, maxRel...)
	return p
}

// storageParts splits a parameter column back into its tables.
func storageParts(p []float64) (dt float64, n int, levels, volumes, areas, minRel, maxRel []float64) {
	dt = p[0]
	n = int(p[1])
	t := p[2:]
	if n < 0 || len(t) != 5*n {
		return dt, -1, nil, nil, nil, nil, nil
	}
	return dt, n, t[0:n], t[n : 2*n], t[2*n : 3*n], t[3*n : 4*n], t[4*n : 5*n]
}

func init() {
	// (the kernel reports a bad configuration with fmt.Println on stdout; child.go diverts the stdout of the code under test)
	regModel(&ModelGen{Name: "Storage", MaxT: 60,
		Params: func(r *Rng) []float64 {
			dt := []float64{86400, 86400, 43200, 3600, 600, 60, 7200}[r.Intn(7)]
			n := r.Range(2, 8)
			switch {
			case r.Chance(0.12):
				n = []int{9, 10, 12, 16, 17, 24, 33}[r.Intn(7)] // long tables (a search that changes algorithm above a size threshold)
			case r.Chance(0.02):
				n = 1 // a single knot: Piecewise finds no bracket → panic(err)
			case r.Chance(0.01):
				n = 0 // empty tables
			}
			levels, volumes, areas, minRel, maxRel := storageTables(r, n)
			if n >= 1 && r.Chance(0.02) { // "No volumes": checkStorageConfiguration's early return
				for i := range volumes {
					volumes[i] = 0
				}
			}
			return storageParams(dt, levels, volumes, areas, minRel, maxRel)
		},
		Inputs: func(r *Rng, T int, p []float64) [][]float64 {
			dt, n, _, volumes, _, _, maxRel := storageParts(p)
			vmax, qcap := 1e6, 1.0
			if n >= 1 {
				vmax = math.Max(volumes[n-1], 1)
				qcap = math.Max(maxRel[n-1], 1e-6)
			}
			fill := vmax / dt // inflow that fills the storage in one step
			var inflow, demand []float64
			switch r.Intn(6) {
			case 0: // filling to spill, no demand
				inflow = Series(r, T, fill*r.LogUniform(0.02, 3))
				demand = make([]float64, T)
			case 1: // drawing down: no inflow, large demand
				inflow = make([]float64, T)
				demand = ConstSeries(T, qcap*r.LogUniform(0.5, 50))
			case 2: // demand inside the release range most of the time
				inflow = Series(r, T, fill*r.LogUniform(1e-3, 0.3))
				demand = Series(r, T, qcap*r.Uniform(0, 0.5))
			case 3: // flood pulse through a full storage
				inflow = Series(r, T, fill*r.LogUniform(0.5, 20))
				demand = Series(r, T, qcap*r.Uniform(0, 2))
			case 4: // quiet: everything small
				inflow = Series(r, T, fill*1e-4)
				demand = Series(r, T, qcap*1e-3)
			default:
				inflow = Series(r, T, fill*r.LogUniform(1e-3, 2))
				demand = Series(r, T, qcap*r.LogUniform(1e-2, 10))
			}
			rain := Series(r, T, r.Uniform(0, 40))
			pet := Series(r, T, r.Uniform(0, 12))
			switch r.Intn(5) {
			case 0:
				rain = make([]float64, T)
			case 1:
				pet = make([]float64, T)
			case 2:
				rain = make([]float64, T)
				pet = make([]float64, T)
			}
			return [][]float64{rain, pet, inflow, demand, Series(r, T, vmax*r.F01()), Series(r, T, vmax*r.F01())}
		},
		States: func(r *Rng, p []float64) []float64 {
			_, n, _, volumes, _, _, _ := storageParts(p)
			vmax := 1e6
			if n >= 1 {
				vmax = math.Max(volumes[n-1], 1)
			}
			var v float64
			switch r.Intn(5) {
			case 0:
				v = 0
			case 1:
				v = vmax // exactly full
			case 2:
				v = vmax * r.Uniform(1, 1.5) // above full supply: spills from the first sub-step
			default:
				v = vmax * r.F01()
			}
			// level and area are junk on purpose
			return []float64{v, r.Uniform(-5, 500), r.Uniform(-5, 1e7)}
		},
	})
}
