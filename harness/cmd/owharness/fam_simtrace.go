package main

// Writer-protocol transition system of cmd/ow-sim/main.go (main loop + one writer goroutine per generation + the
// unbuffered `writingDone` rendezvous) — the Go mirror of /verif/lean/OW/Sim/Writer.lean — used
//   * by the SIM oracle: the hook trace of every real ow-sim execution must be a complete run of this system, with every
//     generation written exactly once, in order, and no purge of a generation before it is written and its links applied;
//   * by family SIMTRACE: the same traces (plus mutated traces and random walks of the system) are given to the Lean
//     driver, whose acceptor is `OW.Sim.Writer.step` itself, and both verdicts are compared.
//
// Trace events (hook calls in main.go → label):
//   writer-spawned g      → spawn g    (main, BEFORE `go func`)            run g → links g ; W(g) := ready (g=0) | waiting
//   links-applied i       → links i    (main, after the link loop)         links i → run i+1 | final
//   token-received g k    → recv g k   (W(g), after `<-writingDone`)       rendezvous: W(g) waiting → got k ; sender moves on
//   purge g k             → purge g k  (W(g), after PurgeGeneration loop)  got k → ready (k = g-1) | bounce k
//   token-resent g k      → resent g k (W(g), BEFORE `writingDone <- k`)   bounce k → resend k
//   write-start g         → wstart g                                       ready → writing
//   write-done g          → wdone g                                        writing → wrote ; writes[g]++
//   token-sent g          → sent g     (W(g), BEFORE `writingDone <- g`)   wrote → sending
//   main-final-received k → mrecv k    (main, after `<-writingDone`)       rendezvous: final → exited (k = G-1) | hold k
// A sender is: W(k) in `sending`, some W(h) in `resend k`, or main in `hold k`.

import (
	"bufio"
	"fmt"
	"os"
	"path/filepath"
	"strconv"
	"strings"
)

const (
	wNot = iota
	wWaiting
	wGot
	wBounce
	wResend
	wReady
	wWriting
	wWrote
	wSending
	wDone
)

const (
	mRun = iota
	mLinks
	mFinal
	mHold
	mExited
)

type wPc struct{ K, Tok int }

type wlts struct {
	G      int
	MK, MI int // main pc kind and its argument (generation for run/links, token for hold)
	W      []wPc
	Writes []int
	Links  []bool
	Purges []int
}

func newWlts(G int) *wlts {
	return &wlts{G: G, MK: mRun, MI: 0, W: make([]wPc, G), Writes: make([]int, G), Links: make([]bool, G), Purges: make([]int, G)}
}

func (s *wlts) wk(g int) int {
	if g < 0 || g >= s.G {
		return wNot
	}
	return s.W[g].K
}

// takeFrom moves the (first enabled) sender of token k on; false when nobody is sending k.
func (s *wlts) takeFrom(k int, receiver int) bool {
	if k >= 0 && k < s.G && s.W[k].K == wSending && k != receiver {
		s.W[k] = wPc{wDone, 0}
		return true
	}
	for h := 0; h < s.G; h++ {
		if h != receiver && s.W[h].K == wResend && s.W[h].Tok == k {
			s.W[h] = wPc{wWaiting, 0}
			return true
		}
	}
	if receiver >= 0 && s.MK == mHold && s.MI == k {
		s.MK, s.MI = mFinal, 0
		return true
	}
	return false
}

// step applies one label; "" when enabled.
func (s *wlts) step(e simEvent) string {
	a, b := e.A, e.B
	inr := func(g int) bool { return g >= 0 && g < s.G }
	switch e.Ev {
	case "spawn":
		if !(s.MK == mRun && s.MI == a && inr(a)) {
			return "spawn: main is not about to spawn this writer"
		}
		if s.W[a].K != wNot {
			return "spawn: writer already exists"
		}
		s.MK = mLinks
		if a == 0 {
			s.W[a] = wPc{wReady, 0}
		} else {
			s.W[a] = wPc{wWaiting, 0}
		}
	case "links":
		if !(s.MK == mLinks && s.MI == a) {
			return "links: main is not processing the links of this generation"
		}
		s.Links[a] = true
		if a+1 < s.G {
			s.MK, s.MI = mRun, a+1
		} else {
			s.MK, s.MI = mFinal, 0
		}
	case "recv":
		if !(inr(a) && s.W[a].K == wWaiting) {
			return "recv: receiver is not waiting on the channel"
		}
		if !s.takeFrom(b, a) {
			return "recv: nobody is sending this token"
		}
		s.W[a] = wPc{wGot, b}
	case "mrecv":
		if s.MK != mFinal {
			return "mrecv: main is not in its final wait loop"
		}
		if !s.takeFrom(a, -1) {
			return "mrecv: nobody is sending this token"
		}
		if a == s.G-1 {
			s.MK, s.MI = mExited, 0
		} else {
			s.MK, s.MI = mHold, a
		}
	case "purge":
		if !(inr(a) && s.W[a].K == wGot && s.W[a].Tok == b) {
			return "purge: writer did not just receive this token"
		}
		if inr(b) {
			s.Purges[b]++
		}
		if b+1 == a {
			s.W[a] = wPc{wReady, 0}
		} else {
			s.W[a] = wPc{wBounce, b}
		}
	case "resent":
		if !(inr(a) && s.W[a].K == wBounce && s.W[a].Tok == b) {
			return "resent: writer is not bouncing this token"
		}
		s.W[a] = wPc{wResend, b}
	case "wstart":
		if !(inr(a) && s.W[a].K == wReady) {
			return "wstart: writer is not ready to write"
		}
		s.W[a] = wPc{wWriting, 0}
	case "wdone":
		if !(inr(a) && s.W[a].K == wWriting) {
			return "wdone: writer is not writing"
		}
		s.W[a] = wPc{wWrote, 0}
		s.Writes[a]++
	case "sent":
		if !(inr(a) && s.W[a].K == wWrote) {
			return "sent: writer has not just written"
		}
		s.W[a] = wPc{wSending, 0}
	default:
		return "unknown event " + e.Ev
	}
	return ""
}

func (s *wlts) terminal() bool {
	if s.MK != mExited {
		return false
	}
	for g := 0; g < s.G; g++ {
		if s.W[g].K != wDone || s.Writes[g] != 1 || !s.Links[g] {
			return false
		}
	}
	return true
}

// enabled lists every label enabled in s (all senders/receivers), for random walks and the no-stuck sanity check.
func (s *wlts) enabled() []simEvent {
	var out []simEvent
	if s.MK == mRun {
		out = append(out, simEvent{"spawn", s.MI, -1})
	}
	if s.MK == mLinks {
		out = append(out, simEvent{"links", s.MI, -1})
	}
	tokens := []int{} // deterministic order: a seed replays exactly
	for g := 0; g < s.G; g++ {
		switch s.W[g].K {
		case wSending:
			tokens = append(tokens, g)
		case wResend:
			tokens = append(tokens, s.W[g].Tok)
		case wGot:
			out = append(out, simEvent{"purge", g, s.W[g].Tok})
		case wBounce:
			out = append(out, simEvent{"resent", g, s.W[g].Tok})
		case wReady:
			out = append(out, simEvent{"wstart", g, -1})
		case wWriting:
			out = append(out, simEvent{"wdone", g, -1})
		case wWrote:
			out = append(out, simEvent{"sent", g, -1})
		}
	}
	mainTok := -1
	if s.MK == mHold {
		mainTok = s.MI
	}
	for g := 0; g < s.G; g++ {
		if s.W[g].K == wWaiting {
			for _, k := range tokens {
				out = append(out, simEvent{"recv", g, k})
			}
			if mainTok >= 0 {
				out = append(out, simEvent{"recv", g, mainTok})
			}
		}
	}
	if s.MK == mFinal {
		for _, k := range tokens {
			out = append(out, simEvent{"mrecv", k, -1})
		}
	}
	return out
}

// simTraceVerdict: "accept" | "reject <index>" | "incomplete" — exactly what the Lean acceptor prints.
func simTraceVerdict(G int, evs []simEvent) string {
	if G < 1 {
		return "reject 0"
	}
	s := newWlts(G)
	for i, e := range evs {
		if why := s.step(e); why != "" {
			return "reject " + strconv.Itoa(i)
		}
	}
	if !s.terminal() {
		return "incomplete"
	}
	return "accept"
}

// simTraceCheck is the SIM oracle: run of the system + the property's own predicates on the trace.
func simTraceCheck(G int, evs []simEvent) string {
	s := newWlts(G)
	written := make([]int, G)
	for i, e := range evs {
		if e.Ev == "purge" {
			k := e.B
			if k < 0 || k >= G || written[k] != 1 || !s.Links[k] {
				return fmt.Sprintf("event %d: purge of generation %d before it is written and its outgoing links are applied", i, k)
			}
			if (s.MK == mRun || s.MK == mLinks) && k >= s.MI {
				return fmt.Sprintf("event %d: purge of generation %d which the main loop (at generation %d) still uses", i, k, s.MI)
			}
		}
		if e.Ev == "wdone" && e.A >= 0 && e.A < G {
			for g := 0; g < e.A; g++ {
				if written[g] != 1 {
					return fmt.Sprintf("event %d: generation %d written before generation %d", i, e.A, g)
				}
			}
			written[e.A]++
			if written[e.A] > 1 {
				return fmt.Sprintf("event %d: generation %d written twice", i, e.A)
			}
		}
		if why := s.step(e); why != "" {
			return fmt.Sprintf("event %d (%s %d %d) is not a step of the writer protocol: %s", i, e.Ev, e.A, e.B, why)
		}
	}
	for g := 0; g < G; g++ {
		if written[g] != 1 {
			return fmt.Sprintf("generation %d written %d times before the process exited", g, written[g])
		}
	}
	if !s.terminal() {
		return "the process exited before the protocol reached its terminal state"
	}
	return ""
}

// ------------------------------------------------------------------------------------------------
// family SIMTRACE:  body = kind G n { ev a b }×n   (kind 1 = real ow-sim trace, 0 = mutated trace, 2 = random walk)
//                   impl = ok accept | ok reject <i> | ok incomplete

func fmtEvents(evs []simEvent) string {
	var b strings.Builder
	b.WriteString(strconv.Itoa(len(evs)))
	for _, e := range evs {
		fmt.Fprintf(&b, " %s %d %d", e.Ev, e.A, e.B)
	}
	return b.String()
}

func execSimTrace(body string) string {
	t := newTokenReader(body)
	_ = t.int()
	G := t.int()
	n := t.int()
	evs := make([]simEvent, 0, n)
	for i := 0; i < n; i++ {
		e := simEvent{Ev: t.next()}
		e.A, e.B = t.int(), t.int()
		evs = append(evs, e)
	}
	return "ok " + simTraceVerdict(G, evs)
}

func randomWalk(r *Rng, G int, bias float64) ([]simEvent, bool) {
	s := newWlts(G)
	var evs []simEvent
	for steps := 0; steps < 4000; steps++ {
		en := s.enabled()
		if len(en) == 0 {
			return evs, s.terminal()
		}
		e := en[r.Intn(len(en))]
		if r.Chance(bias) { // prefer the main loop: all writers queue up before anything is written
			for _, x := range en {
				if x.Ev == "spawn" || x.Ev == "links" {
					e = x
				}
			}
		}
		if why := s.step(e); why != "" {
			panic("enabled label refused: " + why)
		}
		evs = append(evs, e)
	}
	return evs, false
}

func genSimTrace(c *Ctx) {
	c.Stats.Rule = "every hook trace recorded by family SIM in this run (kind 1), mutants of them (swap / drop / duplicate / renumber one event; kind 0) and random walks of the Go transition system for 1 ≤ G ≤ 8 under a random scheduler (kind 2); non-trivial = real or random-walk trace with ≥2 generations; distinct by the full line"
	from := c.Arg("from", filepath.Join("..", "SIM", "SIM.traces"))
	if !filepath.IsAbs(from) {
		from = filepath.Join(c.Dir, from)
	}
	if f, err := os.Open(from); err == nil {
		sc := bufio.NewScanner(f)
		sc.Buffer(make([]byte, 1<<20), 1<<26)
		for sc.Scan() {
			parts := strings.SplitN(sc.Text(), " ", 2)
			if len(parts) != 2 {
				continue
			}
			G := parseI(parts[0])
			evs := parseSimTrace(parts[1])
			id, impl := c.Do(fmt.Sprintf("1 %d %s", G, fmtEvents(evs)), G >= 2)
			c.Stats.Count("real")
			c.Stats.OracleEvals++
			if impl != "ok accept" {
				c.OracleFail(id, "ow-sim:protocol", "hook trace of a real ow-sim execution is not a complete run of the writer protocol: "+impl, fmt.Sprintf("1 %d %s", G, fmtEvents(evs)))
			}
			// mutants
			for k := 0; k < 3 && len(evs) > 1; k++ {
				m := append([]simEvent{}, evs...)
				i := c.R.Intn(len(m))
				switch c.R.Intn(4) {
				case 0:
					j := i + 1
					if j >= len(m) {
						j = i - 1
					}
					m[i], m[j] = m[j], m[i]
				case 1:
					m = append(m[:i], m[i+1:]...)
				case 2:
					m = append(m[:i+1], m[i:]...)
				case 3:
					m[i].A = c.R.Intn(G + 1)
				}
				_, mi := c.Do(fmt.Sprintf("0 %d %s", G, fmtEvents(m)), false)
				c.Stats.Count("mutant:" + strings.Fields(mi)[1])
			}
		}
		f.Close()
	} else {
		c.Stats.Notes = append(c.Stats.Notes, "no SIM.traces file: only random walks")
	}
	n := parseI(c.Arg("walks", "150"))
	if c.Tier == "thorough" {
		n *= 10
	}
	for i := 0; i < n; i++ {
		G := c.R.Range(1, 8)
		evs, term := randomWalk(c.R, G, []float64{0, 0.5, 0.9}[c.R.Intn(3)])
		body := fmt.Sprintf("2 %d %s", G, fmtEvents(evs))
		id, impl := c.Do(body, G >= 2)
		c.Stats.Count("walk")
		c.Stats.OracleEvals++
		bounces := 0
		for _, e := range evs {
			if e.Ev == "resent" || (e.Ev == "mrecv" && e.A != G-1) {
				bounces++
			}
		}
		if bounces > 0 {
			c.Stats.Count("walk-with-bounce")
		}
		if !term || impl != "ok accept" {
			// a stuck non-terminal state of the transition system itself
			c.OracleFail(id, "writer-lts:stuck", "random walk of the writer transition system ended in a non-terminal state", body)
		}
	}
}

func init() {
	register(&Family{Name: "SIMTRACE", Gen: genSimTrace, Exec: execSimTrace, InProc: true})
}
