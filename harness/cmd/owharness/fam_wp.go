package main

// WP family (C05): the W case (one vectorised Run of N cells through the real generated wrapper) executed FOUR times in
// the same worker, at GOMAXPROCS 1, 2, 4 and 16 (runtime.GOMAXPROCS), on fresh arrays each time.
//   body: as family W
//   impl: <W result at GOMAXPROCS=1> sweep=<ok | differs-at-gomaxprocs-K>
// The W result already carries, evaluated on the real code: frame (inputs/parameters/out-of-region outputs untouched)
// and cells (every cell's outputs and final states bit-identical to running that cell ALONE — the sequential
// cell-by-cell result). sweep=ok says the complete canonical result line (all output and state arrays, bit patterns
// of NaNs included) is identical at all four GOMAXPROCS values. Needs no kernel model: it covers every model that has
// a case generator. Sampling evidence for schedule independence, never a proof.

import (
	"fmt"
	"runtime"
	"strings"

	"github.com/flowmatters/openwater-core/sim"
)

func init() {
	register(&Family{Name: "WP", Gen: genWP, Exec: execWP, Oracle: oracleWP})
}

var wpProcs = []int{1, 2, 4, 16}

func execWP(body string) string {
	prev := runtime.GOMAXPROCS(0)
	defer runtime.GOMAXPROCS(prev)
	first := ""
	sweep := "ok"
	for _, p := range wpProcs {
		runtime.GOMAXPROCS(p)
		r := execW(body)
		if first == "" {
			first = r
		} else if r != first && sweep == "ok" {
			sweep = fmt.Sprintf("differs-at-gomaxprocs-%d", p)
		}
	}
	return first + " sweep=" + sweep
}

func oracleWP(c *Ctx, id int, body, impl string) {
	oracleW(c, id, body, impl) // frame / cells (concurrent N-cell run vs each cell alone)
	if i := strings.Index(impl, " || "); i >= 0 && !strings.Contains(impl[i:], "sweep=ok") {
		model := strings.Fields(body)[0]
		c.OracleFail(id, "W:"+model+":gomaxprocs", "vectorised Run gives different results at different GOMAXPROCS: "+impl[i+4:], body)
	}
}

func genWP(c *Ctx) {
	if len(modelsArg(c)) == 0 {
		// every CATALOGUE model that has a case generator (generator variants such as "GR4J#stiff" are not catalogue keys)
		var ms []string
		for name := range modelGens {
			if _, ok := sim.Catalog[name]; ok {
				ms = append(ms, name)
			}
		}
		c.Args = append(c.Args, "models="+strings.Join(sortedStrings(ms), ","))
	}
	genW(c)
	c.Stats.Rule = "every W case executed at GOMAXPROCS 1, 2, 4, 16 in one worker; all four canonical results must be identical and equal to the single-cell runs. " + c.Stats.Rule
}
