package main

// ND family (C01, C02, C03): programs of array operations run on the REAL data / cdata packages.
//
//   ops : ND id <tag> <eltype> nops op…          (see OW/Driver/Nd.lean for the op grammar)
//   impl: per op `ok …` | `err <class>` | `panic <class>` | `skip`, separated by `;`, halting at the first panic,
//         then `H n (len vals…)…` = every storage the program can reach, in creation order.
//
// Every view's metadata (OriginalDims, Dims, Start, Offset, Step, OffsetStep) and the window of the storage its Impl
// denotes are read by reflection and printed, so model and code are compared on their complete state.

import (
	"errors"
	"fmt"
	"reflect"
	"strings"
	"unsafe"

	"github.com/flowmatters/openwater-core/data"
	"github.com/flowmatters/openwater-core/data/cdata"
)

type num interface {
	~float64 | ~float32 | ~int32 | ~uint32 | ~int64 | ~uint64 | ~int | ~uint
}

type ndIface[T num, A any] interface {
	Len(int) int
	Shape() []int
	NDims() int
	NewIndex(int) []int
	Get([]int) T
	Set([]int, T)
	Slice(loc, dims, step []int) A
	Apply([]int, int, int, []T)
	ApplySlice([]int, []int, A)
	CopyFrom(A)
	Contiguous() bool
	Unroll() []T
	Reshape([]int) (A, error)
	MustReshape([]int) A
	ReshapeFast([]int) (A, error)
	Maximum() T
	Minimum() T
}

type ndExtra[T num] interface {
	Get1(int) T
	Set1(int, T)
	Apply1(int, int, []T)
	Get2(int, int) T
	Set2(int, int, T)
	Get3(int, int, int) T
	Set3(int, int, int, T)
}

type ndFuncs[T num, A any] struct {
	New       func([]int) A
	FromSlice func([]T, []int) A
	FromC     func(unsafe.Pointer, []int) A
	Scale     func(dest, source A, k T) // nil for int/uint
	AddTo     func(dest, source A)
}

type ndEngine interface {
	Run(toks []string) string
}

type storage[T num] struct {
	ptr   uintptr
	data  []T     // the whole storage (cap); nil for narrow C buffers
	guard []T     // for C buffers: the enclosing buffer incl. guard zones
	isC   bool
	c32   []int32 // C buffer of the int/uint instantiations: cdata wraps those as C.int/C.uint (32 bit)
	n     int
}

func (s *storage[T]) size() int {
	if s.c32 != nil {
		return s.n
	}
	return len(s.data)
}

func (s *storage[T]) vals() []int64 {
	out := make([]int64, s.size())
	for i := range out {
		if s.c32 != nil {
			// what the code reads back: int(C.int) sign-extends, uint(C.uint) zero-extends
			var z T
			if _, unsigned := any(z).(uint); unsigned {
				out[i] = int64(uint32(s.c32[guardN+i]))
			} else {
				out[i] = int64(s.c32[guardN+i])
			}
		} else {
			out[i] = int64(s.data[i])
		}
	}
	return out
}

const canary = 77
const guardN = 64

type engine[T num, A ndIface[T, A]] struct {
	f      ndFuncs[T, A]
	stores []*storage[T]
	views  []*A
	canaryBroken bool
}

var ndEngines = map[string]func() ndEngine{
	"float64": func() ndEngine {
		return &engine[float64, data.NDFloat64]{f: ndFuncs[float64, data.NDFloat64]{data.NewArrayFloat64, data.ArrayFromSliceFloat64, cdata.NewFloat64CArray, data.ScaleFloat64Array, data.AddToFloat64Array}}
	},
	"float32": func() ndEngine {
		return &engine[float32, data.NDFloat32]{f: ndFuncs[float32, data.NDFloat32]{data.NewArrayFloat32, data.ArrayFromSliceFloat32, cdata.NewFloat32CArray, data.ScaleFloat32Array, data.AddToFloat32Array}}
	},
	"int32": func() ndEngine {
		return &engine[int32, data.NDInt32]{f: ndFuncs[int32, data.NDInt32]{data.NewArrayInt32, data.ArrayFromSliceInt32, cdata.NewInt32CArray, data.ScaleInt32Array, data.AddToInt32Array}}
	},
	"uint32": func() ndEngine {
		return &engine[uint32, data.NDUint32]{f: ndFuncs[uint32, data.NDUint32]{data.NewArrayUint32, data.ArrayFromSliceUint32, cdata.NewUint32CArray, data.ScaleUint32Array, data.AddToUint32Array}}
	},
	"int64": func() ndEngine {
		return &engine[int64, data.NDInt64]{f: ndFuncs[int64, data.NDInt64]{data.NewArrayInt64, data.ArrayFromSliceInt64, cdata.NewInt64CArray, data.ScaleInt64Array, data.AddToInt64Array}}
	},
	"uint64": func() ndEngine {
		return &engine[uint64, data.NDUint64]{f: ndFuncs[uint64, data.NDUint64]{data.NewArrayUint64, data.ArrayFromSliceUint64, cdata.NewUint64CArray, data.ScaleUint64Array, data.AddToUint64Array}}
	},
	"int": func() ndEngine {
		return &engine[int, data.NDInt]{f: ndFuncs[int, data.NDInt]{data.NewArrayInt, data.ArrayFromSliceInt, cdata.NewIntCArray, nil, nil}}
	},
	"uint": func() ndEngine {
		return &engine[uint, data.NDUint]{f: ndFuncs[uint, data.NDUint]{data.NewArrayUint, data.ArrayFromSliceUint, cdata.NewUintCArray, nil, nil}}
	},
}

var ndTypes = []string{"float64", "float32", "int32", "uint32", "int64", "uint64", "int", "uint"}

func (e *engine[T, A]) elemSize() uintptr { var z T; return unsafe.Sizeof(z) }

// narrowC: the C-backed instantiation of this element type is 32 bit wide while T is 64 bit (int, uint)
func (e *engine[T, A]) narrowC() bool {
	var z T
	switch any(z).(type) {
	case int, uint:
		return true
	}
	return false
}

// locate finds (registering if new) the storage that contains ptr; returns sid and element offset.
func (e *engine[T, A]) locate(ptr uintptr, capElems int) (int, int) {
	sz := e.elemSize()
	for i, s := range e.stores {
		n := uintptr(s.size())
		w := sz
		if s.c32 != nil {
			w = 4
		}
		if ptr >= s.ptr && (ptr < s.ptr+n*w || (n == 0 && ptr == s.ptr)) {
			return i, int((ptr - s.ptr) / w)
		}
	}
	var d []T
	if capElems > 0 {
		d = unsafe.Slice((*T)(unsafe.Pointer(ptr)), capElems)
	}
	e.stores = append(e.stores, &storage[T]{ptr: ptr, data: d})
	return len(e.stores) - 1, 0
}

func intsField(v reflect.Value, name string) []int {
	f := v.FieldByName(name)
	out := make([]int, f.Len())
	for i := range out {
		out[i] = int(f.Index(i).Int())
	}
	return out
}

// describe prints `sid base len isC orig dims start offset step offStep` of an array, by reflection.
func (e *engine[T, A]) describe(a A) string {
	rv := reflect.ValueOf(a)
	if rv.Kind() == reflect.Interface {
		rv = rv.Elem()
	}
	el := rv.Elem()
	common := el.Field(0)
	impl := el.FieldByName("Impl")
	var sid, base, ln, isC int
	if impl.Kind() == reflect.Slice {
		sid, base = e.locate(impl.Pointer(), impl.Cap())
		ln = impl.Len()
	} else {
		isC = 1
		sid, base = e.locate(impl.Pointer(), 0)
		ln = e.stores[sid].size()
	}
	return fmt.Sprintf("%d %d %d %d %s %s %d %s %s %s", sid, base, ln, isC,
		Is(intsField(common, "OriginalDims")), Is(intsField(common, "Dims")), int(common.FieldByName("Start").Int()),
		Is(intsField(common, "Offset")), Is(intsField(common, "Step")), Is(intsField(common, "OffsetStep")))
}

func toT[T num](xs []int) []T {
	out := make([]T, len(xs))
	for i, x := range xs {
		out[i] = T(x)
	}
	return out
}

func fmtVals[T num](xs []T) string {
	var b strings.Builder
	fmt.Fprintf(&b, "%d", len(xs))
	for _, x := range xs {
		fmt.Fprintf(&b, " %d", int64(x))
	}
	return b.String()
}

func optInts(t *tokenReader) []int {
	if t.int() == 0 {
		return nil
	}
	return t.ints()
}

func (e *engine[T, A]) view(i int) (A, bool) {
	var zero A
	if i < 0 || i >= len(e.views) || e.views[i] == nil {
		return zero, false
	}
	return *e.views[i], true
}

func (e *engine[T, A]) checkCanaries() bool {
	for _, s := range e.stores {
		if s.c32 != nil {
			for i := 0; i < guardN; i++ {
				if s.c32[i] != canary || s.c32[guardN+s.n+i] != canary {
					return false
				}
			}
			continue
		}
		if s.guard == nil {
			continue
		}
		n := len(s.data)
		for i := 0; i < guardN; i++ {
			if s.guard[i] != canary || s.guard[guardN+n+i] != canary {
				return false
			}
		}
	}
	return true
}

// op runs one op; returns its result text and whether a view slot was appended.
func (e *engine[T, A]) op(t *tokenReader) (res string) {
	defer func() {
		if r := recover(); r != nil {
			res = "panic " + panicClass(fmt.Sprint(r))
		}
	}()
	name := t.next()
	addView := func(a A) string {
		e.views = append(e.views, &a)
		return "ok " + e.describe(a)
	}
	reshapeRes := func(a A, err error) string {
		if err != nil {
			e.views = append(e.views, nil)
			switch {
			case strings.Contains(err.Error(), "Size mismatch"):
				return "err size-mismatch"
			case strings.Contains(err.Error(), "not contiguous"):
				return "err not-contiguous"
			}
			return "err other"
		}
		return addView(a)
	}
	switch name {
	case "new":
		dims := t.ints()
		return addView(e.f.New(dims))
	case "gslice":
		vals := toT[T](t.ints())
		dims := t.ints()
		var p uintptr
		if len(vals) > 0 {
			p = uintptr(unsafe.Pointer(&vals[0]))
		} else {
			p = uintptr(unsafe.Pointer(unsafe.SliceData(vals)))
		}
		e.stores = append(e.stores, &storage[T]{ptr: p, data: vals})
		return addView(e.f.FromSlice(vals, dims))
	case "cwrap":
		vals := t.ints()
		dims := t.ints()
		if e.narrowC() {
			b32 := make([]int32, guardN+len(vals)+guardN+1)
			for i := range b32 {
				b32[i] = canary
			}
			for i, v := range vals {
				b32[guardN+i] = int32(v)
			}
			p := unsafe.Pointer(&b32[guardN])
			e.stores = append(e.stores, &storage[T]{ptr: uintptr(p), isC: true, c32: b32, n: len(vals)})
			return addView(e.f.FromC(p, dims))
		}
		buf := make([]T, guardN+len(vals)+guardN+1)
		for i := range buf {
			buf[i] = canary
		}
		for i, v := range vals {
			buf[guardN+i] = T(v)
		}
		p := unsafe.Pointer(&buf[guardN])
		e.stores = append(e.stores, &storage[T]{ptr: uintptr(p), data: buf[guardN : guardN+len(vals) : guardN+len(vals)], guard: buf, isC: true})
		return addView(e.f.FromC(p, dims))
	}
	// all other ops start with a view index
	vi := t.int()
	a, ok := e.view(vi)
	skip := !ok
	srcOf := func() (A, bool) {
		si := t.int()
		s, ok2 := e.view(si)
		return s, ok2
	}
	switch name {
	case "slice":
		loc, dims, step := t.ints(), t.ints(), optInts(t)
		if skip {
			return "skip"
		}
		return addView(a.Slice(loc, dims, step))
	case "get":
		loc := t.ints()
		if skip {
			return "skip"
		}
		return fmt.Sprintf("ok %d", int64(a.Get(loc)))
	case "set":
		loc, x := t.ints(), t.int()
		if skip {
			return "skip"
		}
		a.Set(loc, T(x))
		return "ok"
	case "apply":
		loc, dim, step, vals := t.ints(), t.int(), t.int(), t.ints()
		if skip {
			return "skip"
		}
		a.Apply(loc, dim, step, toT[T](vals))
		return "ok"
	case "aslice":
		loc, step := t.ints(), optInts(t)
		src, ok2 := srcOf()
		if skip || !ok2 {
			return "skip"
		}
		a.ApplySlice(loc, step, src)
		return "ok"
	case "copy":
		src, ok2 := srcOf()
		if skip || !ok2 {
			return "skip"
		}
		a.CopyFrom(src)
		return "ok"
	case "unroll":
		if skip {
			return "skip"
		}
		u := a.Unroll()
		// does the returned slice alias a known storage?
		if cap(u) > 0 {
			p := uintptr(unsafe.Pointer(unsafe.SliceData(u)))
			sz := e.elemSize()
			for i, s := range e.stores {
				n := uintptr(len(s.data))
				if s.c32 == nil && p >= s.ptr && p < s.ptr+n*sz {
					return fmt.Sprintf("ok alias %d %d %s", i, int((p-s.ptr)/sz), fmtVals(u))
				}
			}
		}
		return "ok fresh " + fmtVals(u)
	case "reshape":
		shape := t.ints()
		if skip {
			return "skip"
		}
		return reshapeRes(a.Reshape(shape))
	case "rfast":
		shape := t.ints()
		if skip {
			return "skip"
		}
		return reshapeRes(a.ReshapeFast(shape))
	case "must":
		shape := t.ints()
		if skip {
			return "skip"
		}
		var r A
		var err error
		func() {
			defer func() {
				if rec := recover(); rec != nil {
					err = errors.New(fmt.Sprint(rec))
				}
			}()
			r = a.MustReshape(shape)
		}()
		if err != nil {
			return "panic " + panicClass(err.Error())
		}
		return addView(r)
	case "contig":
		if skip {
			return "skip"
		}
		if a.Contiguous() {
			return "ok 1"
		}
		return "ok 0"
	case "get1", "set1", "apply1", "get2", "set2", "get3", "set3":
		var x ndExtra[T]
		if !skip {
			x = any(a).(ndExtra[T])
		}
		switch name {
		case "get1":
			i := t.int()
			if skip {
				return "skip"
			}
			return fmt.Sprintf("ok %d", int64(x.Get1(i)))
		case "set1":
			i, v := t.int(), t.int()
			if skip {
				return "skip"
			}
			x.Set1(i, T(v))
			return "ok"
		case "apply1":
			i, step, vals := t.int(), t.int(), t.ints()
			if skip {
				return "skip"
			}
			x.Apply1(i, step, toT[T](vals))
			return "ok"
		case "get2":
			i, j := t.int(), t.int()
			if skip {
				return "skip"
			}
			return fmt.Sprintf("ok %d", int64(x.Get2(i, j)))
		case "set2":
			i, j, v := t.int(), t.int(), t.int()
			if skip {
				return "skip"
			}
			x.Set2(i, j, T(v))
			return "ok"
		case "get3":
			i, j, k := t.int(), t.int(), t.int()
			if skip {
				return "skip"
			}
			return fmt.Sprintf("ok %d", int64(x.Get3(i, j, k)))
		case "set3":
			i, j, k, v := t.int(), t.int(), t.int(), t.int()
			if skip {
				return "skip"
			}
			x.Set3(i, j, k, T(v))
			return "ok"
		}
	case "max":
		if skip {
			return "skip"
		}
		return fmt.Sprintf("ok %d", int64(a.Maximum()))
	case "min":
		if skip {
			return "skip"
		}
		return fmt.Sprintf("ok %d", int64(a.Minimum()))
	case "scale":
		src, ok2 := srcOf()
		k := t.int()
		if skip || !ok2 {
			return "skip"
		}
		e.f.Scale(a, src, T(k))
		return "ok"
	case "addto":
		src, ok2 := srcOf()
		if skip || !ok2 {
			return "skip"
		}
		e.f.AddTo(a, src)
		return "ok"
	case "len":
		ax := t.int()
		if skip {
			return "skip"
		}
		return fmt.Sprintf("ok %d", a.Len(ax))
	case "shape":
		if skip {
			return "skip"
		}
		return "ok " + Is(a.Shape())
	}
	return "bad-op"
}

func (e *engine[T, A]) Run(toks []string) string {
	t := &tokenReader{toks: toks}
	nops := t.int()
	var out []string
	halted := false
	for i := 0; i < nops; i++ {
		r := e.op(t)
		out = append(out, r)
		if strings.HasPrefix(r, "panic") || r == "bad-op" {
			halted = true
			break
		}
		if !e.checkCanaries() {
			out[len(out)-1] = r + " CANARY-OVERWRITTEN"
			e.canaryBroken = true
			halted = true
			break
		}
	}
	if halted {
		out = append(out, "halt")
	} else {
		var b strings.Builder
		fmt.Fprintf(&b, "H %d", len(e.stores))
		for _, s := range e.stores {
			b.WriteByte(' ')
			b.WriteString(fmtI64(s.vals()))
		}
		out = append(out, b.String())
	}
	return strings.Join(out, " ; ")
}

func execND(body string) string {
	toks := strings.Fields(body)
	if len(toks) < 3 {
		return "bad-op"
	}
	mk, ok := ndEngines[toks[1]]
	if !ok {
		return "bad-op"
	}
	return mk().Run(toks[2:])
}
