package main

import (
	"bufio"
	"fmt"
	"io"
	"os"
	"os/exec"
	"strings"
	"time"
)

// Worker child: `owharness child <FAMILY>` reads one case body per line on stdin, runs the family's Exec on the
// real code and answers one line. A panic in a goroutine of the real code kills this child, not the generator.

func childMain(args []string) {
	if len(args) < 1 {
		os.Exit(2)
	}
	f, ok := families[args[0]]
	if !ok {
		fmt.Fprintln(os.Stderr, "unknown family", args[0])
		os.Exit(2)
	}
	in := bufio.NewReaderSize(os.Stdin, 1<<20)
	// The real code prints diagnostics with fmt.Printf (e.g. ratingPartition before panic("nan")): keep them off
	// the protocol stream. fmt resolves os.Stdout at call time, so redirecting the variable is enough.
	proto := os.Stdout
	os.Stdout = os.Stderr
	out := bufio.NewWriterSize(proto, 1<<20)
	for {
		line, err := in.ReadString('\n')
		if len(line) > 0 {
			res := safeExec(f.Exec, strings.TrimRight(line, "\n"))
			out.WriteString(strings.ReplaceAll(res, "\n", " "))
			out.WriteByte('\n')
			out.Flush()
		}
		if err != nil {
			return
		}
	}
}

// safeExec recovers panics of the calling goroutine (index out of range in array code etc.).
func safeExec(f func(string) string, body string) (res string) {
	defer func() {
		if r := recover(); r != nil {
			res = "panic " + panicClass(fmt.Sprint(r))
		}
	}()
	return f(body)
}

func panicClass(msg string) string {
	switch {
	case strings.Contains(msg, "index out of range"), strings.Contains(msg, "slice bounds out of range"):
		return "index-out-of-range"
	case strings.Contains(msg, "nil pointer"), strings.Contains(msg, "invalid memory address"):
		return "nil"
	case strings.Contains(msg, "Size mismatch"):
		return "size-mismatch"
	case strings.Contains(msg, "not contiguous"):
		return "not-contiguous"
	case strings.Contains(msg, "interface conversion"):
		return "type-assertion"
	case strings.Contains(msg, "makeslice"), strings.Contains(msg, "out of memory"):
		return "alloc"
	case strings.Contains(msg, "divide by zero"):
		return "int-div-zero"
	}
	return "other"
}

type worker struct {
	fam  string
	cmd  *exec.Cmd
	in   io.WriteCloser
	out  *bufio.Reader
	errb *strings.Builder
}

func startWorker(fam string) *worker {
	exe := os.Getenv("OW_HARNESS")
	if exe == "" {
		exe, _ = os.Executable()
	}
	cmd := exec.Command(exe, "child", fam)
	cmd.Env = append(os.Environ(), "GOMEMLIMIT=2GiB", "GOTRACEBACK=single")
	in, err := cmd.StdinPipe()
	must(err)
	outp, err := cmd.StdoutPipe()
	must(err)
	w := &worker{fam: fam, cmd: cmd, in: in, out: bufio.NewReaderSize(outp, 1<<20), errb: &strings.Builder{}}
	cmd.Stderr = &limitedWriter{w.errb, 1 << 16}
	must(cmd.Start())
	return w
}

type limitedWriter struct {
	b   *strings.Builder
	max int
}

func (l *limitedWriter) Write(p []byte) (int, error) {
	if l.b.Len() < l.max {
		l.b.Write(p)
	}
	return len(p), nil
}

// call returns (result, true) or ("panic <class>", false) when the child died or timed out.
func (w *worker) call(body string) (string, bool) {
	type resp struct {
		s   string
		err error
	}
	ch := make(chan resp, 1)
	go func() {
		_, err := io.WriteString(w.in, body+"\n")
		if err != nil {
			ch <- resp{"", err}
			return
		}
		s, err := w.out.ReadString('\n')
		ch <- resp{s, err}
	}()
	select {
	case r := <-ch:
		if r.err != nil {
			w.cmd.Process.Kill()
			w.cmd.Wait()
			return "panic " + panicClass(w.errb.String()), false
		}
		return strings.TrimRight(r.s, "\n"), true
	case <-time.After(60 * time.Second):
		w.cmd.Process.Kill()
		w.cmd.Wait()
		return "panic timeout", false
	}
}

func (w *worker) close() {
	w.in.Close()
	done := make(chan struct{})
	go func() { w.cmd.Wait(); close(done) }()
	select {
	case <-done:
	case <-time.After(5 * time.Second):
		w.cmd.Process.Kill()
	}
}
