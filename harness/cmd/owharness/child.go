package main

import (
	"fmt"
	"os"
)

// childFns: operations that may panic inside a goroutine of the real code (which kills the process)
// are run in a child process: `owharness child <name> <args…>`; registered per family.
var childFns = map[string]func(args []string){}

func childMain(args []string) {
	if len(args) < 1 {
		os.Exit(2)
	}
	f, ok := childFns[args[0]]
	if !ok {
		fmt.Fprintln(os.Stderr, "unknown child fn", args[0])
		os.Exit(2)
	}
	f(args[1:])
}
