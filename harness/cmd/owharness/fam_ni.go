package main

// NI family (C02): the integer index helpers of data/sliceops.go and data/arraysint.go, one call per line.
//   NI id offsets <dims> | idivmod n <den> <mod> | increment k <vec> <wrt> | product <ix> | multiply <a> <b> | argmax <v> | maximum <v>
// `increment k` applies Increment k times. Results: `ok <list or int>` | `panic <class>`.

import (
	"fmt"
	"strings"

	"github.com/flowmatters/openwater-core/data"
)

func init() {
	register(&Family{Name: "NI", Gen: genNI, Exec: execNI, Oracle: oracleNI, InProc: true})
}

func execNI(body string) string {
	t := newTokenReader(body)
	switch t.next() {
	case "offsets":
		return "ok " + Is(data.Offsets(t.ints()))
	case "idivmod":
		n := t.int()
		den, mod := t.ints(), t.ints()
		return "ok " + Is(data.IDivMod(n, den, mod))
	case "increment":
		k := t.int()
		vec, wrt := t.ints(), t.ints()
		for i := 0; i < k; i++ {
			data.Increment(vec, wrt)
		}
		return "ok " + Is(vec)
	case "product":
		return fmt.Sprintf("ok %d", data.Product(t.ints()))
	case "multiply":
		a, b := t.ints(), t.ints()
		return "ok " + Is(data.Multiply(a, b))
	case "argmax":
		return fmt.Sprintf("ok %d", data.Argmax(t.ints()))
	case "maximum":
		return fmt.Sprintf("ok %d", data.Maximum(t.ints()))
	}
	return "bad-op"
}

// arithmetic definitions, written independently of the code
func oracleNI(c *Ctx, id int, body, impl string) {
	t := newTokenReader(body)
	fn := t.next()
	fail := func(exp string) {
		if impl != exp {
			c.OracleFail(id, "NI:"+fn, fmt.Sprintf("%s: definition gives `%s`, implementation `%s`", body, exp, impl), body)
		}
	}
	positive := func(xs []int) bool {
		for _, x := range xs {
			if x < 1 {
				return false
			}
		}
		return len(xs) > 0
	}
	switch fn {
	case "offsets":
		dims := t.ints()
		if len(dims) == 0 {
			return
		}
		c.Stats.OracleEvals++
		out := make([]int, len(dims))
		for i := range dims {
			p := 1
			for j := i + 1; j < len(dims); j++ {
				p *= dims[j]
			}
			out[i] = p
		}
		fail("ok " + Is(out))
	case "idivmod":
		n := t.int()
		den, mod := t.ints(), t.ints()
		// row-major digits: only defined for den = offsets(mod), mod ≥ 1, 0 ≤ n < Π mod
		if !positive(mod) || len(den) != len(mod) || n < 0 || n >= prod(mod) {
			return
		}
		for i := range mod {
			p := 1
			for j := i + 1; j < len(mod); j++ {
				p *= mod[j]
			}
			if den[i] != p {
				return
			}
		}
		c.Stats.OracleEvals++
		fail("ok " + Is(unravel(n, mod)))
	case "increment":
		k := t.int()
		vec, wrt := t.ints(), t.ints()
		if !positive(wrt) || len(vec) != len(wrt) || !inBounds(vec, wrt) {
			return
		}
		c.Stats.OracleEvals++
		fail("ok " + Is(unravel((ravel(vec, wrt)+k)%prod(wrt), wrt)))
	case "product":
		c.Stats.OracleEvals++
		fail(fmt.Sprintf("ok %d", prod(t.ints())))
	case "multiply":
		a, b := t.ints(), t.ints()
		if len(a) != len(b) {
			return
		}
		c.Stats.OracleEvals++
		out := make([]int, len(a))
		for i := range a {
			out[i] = a[i] * b[i]
		}
		fail("ok " + Is(out))
	case "argmax", "maximum":
		v := t.ints()
		if len(v) == 0 {
			return
		}
		c.Stats.OracleEvals++
		best := 0
		for i, x := range v {
			if x > v[best] {
				best = i
			}
		}
		if fn == "argmax" {
			fail(fmt.Sprintf("ok %d", best)) // least index of a maximal element
		} else {
			fail(fmt.Sprintf("ok %d", v[best]))
		}
	}
}

func genNI(c *Ctx) {
	c.Stats.Rule = "every list of length 0..L over [-2..4] for product/argmax/maximum/offsets, pairs for multiply, every (n, dims) for idivmod with row-major denominators plus arbitrary ones, increment applied k times from every in-bounds vector; non-trivial = list length ≥ 2; distinct by line"
	L := 3
	if c.Tier == "thorough" {
		L = 4
	}
	c.Stats.Exhaustive = true
	var lists [][]int
	var rec func(cur []int)
	rec = func(cur []int) {
		lists = append(lists, append([]int{}, cur...))
		if len(cur) == L {
			return
		}
		for v := -2; v <= 4; v++ {
			rec(append(cur, v))
		}
	}
	rec(nil)
	for _, l := range lists {
		nt := len(l) >= 2
		c.Do("product "+Is(l), nt)
		c.Do("argmax "+Is(l), nt)
		c.Do("maximum "+Is(l), nt)
		c.Do("offsets "+Is(l), nt)
	}
	// multiply: pairs, including unequal lengths
	for i := 0; i < 3000; i++ {
		a := lists[c.R.Intn(len(lists))]
		b := lists[c.R.Intn(len(lists))]
		if c.R.Chance(0.7) && len(a) <= len(b) {
			b = b[:len(a)]
		}
		c.Do(fmt.Sprintf("multiply %s %s", Is(a), Is(b)), len(a) >= 2)
	}
	// idivmod / increment over every shape with extents 1..4
	for rank := 1; rank <= L; rank++ {
		for _, sh := range allShapes(rank, 4) {
			offs := data.Offsets(sh)
			size := prod(sh)
			for n := 0; n < size; n++ {
				c.Do(fmt.Sprintf("idivmod %d %s %s", n, Is(offs), Is(sh)), rank >= 2)
				c.Do(fmt.Sprintf("increment %d %s %s", c.R.Range(1, size+2), Is(unravel(n, sh)), Is(sh)), rank >= 2)
			}
		}
	}
	// arbitrary (malformed) arguments: zero / negative denominators, unequal lengths, out-of-range vectors
	for i := 0; i < 3000; i++ {
		a := lists[c.R.Intn(len(lists))]
		b := lists[c.R.Intn(len(lists))]
		c.Do(fmt.Sprintf("idivmod %d %s %s", c.R.Range(-5, 30), Is(a), Is(b)), false)
		c.Do(fmt.Sprintf("increment %d %s %s", c.R.Range(0, 3), Is(a), Is(b)), false)
		c.Stats.Count("malformed")
	}
	_ = strings.Join
}
