package main

import (
	"fmt"
	"math"
)

// Oracles for property C16: the algebraic identities of the partition / conversion / generation models, evaluated on
// the implementation's outputs of one call. (This is the search for a failing input, not a proof: the identities are
// proved over the Lean models in OW/Props/C16.lean.)
//
// Tolerances. Every identity below relates values that the kernels obtain from the inputs by at most ~12 rounded
// float64 operations (relative error ≤ 12·2^-53 ≈ 1.4e-15 of the largest term involved), so identities that only involve
// + - * / are checked to 1e-12 relative to the largest term. Identities whose reference value needs math.Pow / math.Cos
// (bank erosion total, gully daily runoff factor) are checked to 1e-9. Sign and ordering facts (≥ 0, ≤ demand) are exact.

const (
	c16Tol    = 1e-12
	c16TolPow = 1e-9
	mgL       = 1e-3 // MG_PER_LITRE_TO_KG_PER_M3 as documented: 1e-6 kg/mg ÷ 1e-3 m3/L
)

type c16chk struct {
	c      *Ctx
	id     int
	model  string
	body   string
	failed map[string]bool
}

func (k *c16chk) fail(mech, format string, a ...any) {
	if k.failed[mech] {
		return
	}
	k.failed[mech] = true
	k.c.OracleFail(k.id, k.model+":"+mech, fmt.Sprintf(format, a...), k.body)
}

// near: |a-b| ≤ rtol·max(|a|,|b|,|scales…|); NaN/Inf never near anything.
func near(a, b, rtol float64, scales ...float64) bool {
	if math.IsNaN(a) || math.IsNaN(b) || math.IsInf(a, 0) || math.IsInf(b, 0) {
		return false
	}
	m := math.Max(math.Abs(a), math.Abs(b))
	for _, s := range scales {
		m = math.Max(m, math.Abs(s))
	}
	return math.Abs(a-b) <= rtol*m
}

func allNonNeg(xss ...[]float64) bool {
	for _, xs := range xss {
		for _, x := range xs {
			if !(x >= 0) {
				return false
			}
		}
	}
	return true
}

func regC16(model string, f func(k *c16chk, p []float64, in, out [][]float64, T int)) {
	regOracle("C16", model, func(c *Ctx, id int, kc *KCall, r *KResult, body string) {
		if r.Status != "ok" {
			return
		}
		if !allFinite(kc.P) || !allFinite(kc.In...) {
			return
		}
		f(&c16chk{c: c, id: id, model: model, body: body, failed: map[string]bool{}}, kc.P, kc.In, r.Out, kc.T())
	})
}

func init() {
	// ------------------------------------------------------------------------------------ linear maps, identity, sum, mask
	scaling := func(k *c16chk, p []float64, in, out [][]float64, T int) {
		for t := 0; t < T; t++ {
			if !near(out[0][t], in[0][t]*p[0], c16Tol) {
				k.fail("linear", "t=%d output=%g but input*factor=%g*%g=%g", t, out[0][t], in[0][t], p[0], in[0][t]*p[0])
			}
		}
	}
	regC16("ApplyScalingFactor", scaling)
	regC16("DeliveryRatio", scaling)
	regC16("DepthToRate", func(k *c16chk, p []float64, in, out [][]float64, T int) {
		dt, area := p[0], p[1]
		for t := 0; t < T; t++ {
			want := in[0][t] * 1e-3 * area / dt // mm → m, × m² ÷ s
			if !near(out[0][t], want, c16Tol) {
				k.fail("linear", "t=%d outflow=%g but input·1e-3·area/DeltaT=%g (input=%g area=%g DeltaT=%g)", t, out[0][t], want, in[0][t], area, dt)
			}
		}
	})
	regC16("Input", func(k *c16chk, p []float64, in, out [][]float64, T int) {
		for t := 0; t < T; t++ {
			if out[0][t] != in[0][t] {
				k.fail("identity", "t=%d output=%g input=%g", t, out[0][t], in[0][t])
			}
		}
	})
	regC16("Sum", func(k *c16chk, p []float64, in, out [][]float64, T int) {
		for t := 0; t < T; t++ {
			if !near(out[0][t], in[0][t]+in[1][t], c16Tol, in[0][t], in[1][t]) {
				k.fail("sum", "t=%d out=%g i1+i2=%g+%g", t, out[0][t], in[0][t], in[1][t])
			}
		}
	})
	regC16("Gate", func(k *c16chk, p []float64, in, out [][]float64, T int) {
		for t := 0; t < T; t++ {
			want := 0.0
			if in[0][t] > 0 {
				want = in[1][t]
			}
			if out[0][t] != want {
				k.fail("mask", "t=%d trigger=%g incoming=%g outgoing=%g", t, in[0][t], in[1][t], out[0][t])
			}
		}
	})
	regC16("ComputeProportion", func(k *c16chk, p []float64, in, out [][]float64, T int) {
		for t := 0; t < T; t++ {
			want := p[0]
			if in[1][t] != 0 {
				want = in[0][t] / in[1][t]
			}
			if !near(out[0][t], want, c16Tol) {
				k.fail("ratio", "t=%d proportion=%g numerator=%g denominator=%g", t, out[0][t], in[0][t], in[1][t])
			}
		}
	})

	// ------------------------------------------------------------------------------------ partitions
	split := func(k *c16chk, t int, x, o1, o2 float64) {
		if !near(o1+o2, x, c16Tol, o1, o2) {
			k.fail("split-sum", "t=%d output1+output2=%g+%g=%g but input=%g", t, o1, o2, o1+o2, x)
		}
	}
	regC16("FixedPartition", func(k *c16chk, p []float64, in, out [][]float64, T int) {
		for t := 0; t < T; t++ {
			split(k, t, in[0][t], out[0][t], out[1][t])
			if !near(out[0][t], in[0][t]*p[0], c16Tol) {
				k.fail("fraction", "t=%d output1=%g but input*fraction=%g", t, out[0][t], in[0][t]*p[0])
			}
		}
	})
	regC16("VariablePartition", func(k *c16chk, p []float64, in, out [][]float64, T int) {
		for t := 0; t < T; t++ {
			split(k, t, in[0][t], out[0][t], out[1][t])
			if !near(out[0][t], in[0][t]*in[1][t], c16Tol) {
				k.fail("fraction", "t=%d output1=%g but input*fraction=%g", t, out[0][t], in[0][t]*in[1][t])
			}
		}
	})
	regOracle("C16", "RatingCurvePartition", func(c *Ctx, id int, kc *KCall, r *KResult, body string) {
		k := &c16chk{c: c, id: id, model: "RatingCurvePartition", body: body, failed: map[string]bool{}}
		if !allFinite(kc.P) || !allFinite(kc.In...) || len(kc.P) < 1 {
			return
		}
		n := int(kc.P[0])
		if len(kc.P) != 1+2*n {
			return
		}
		xs, ys := kc.P[1:1+n], kc.P[1+n:]
		increasing := n >= 2
		for i := 1; i < n; i++ {
			if !(xs[i] > xs[i-1]) {
				increasing = false
			}
		}
		inside := true
		for _, x := range kc.In[0] {
			if n == 0 || x < xs[0] || x > xs[n-1] {
				inside = false
			}
		}
		if r.Status != "ok" {
			// the partition is defined on the whole table range, end points included
			if increasing && inside {
				k.fail("defined-on-table", "%s although the table has %d strictly increasing rows and every input lies in [%g,%g]", r.Status, n, xs[0], xs[n-1])
			}
			return
		}
		for t, x := range kc.In[0] {
			o1, o2 := r.Out[0][t], r.Out[1][t]
			if !near(o1+o2, x, c16Tol, o1, o2) {
				k.fail("split-sum", "t=%d output1+output2=%g+%g=%g but input=%g", t, o1, o2, o1+o2, x)
			}
			if increasing {
				for i := 0; i < n; i++ {
					if x == xs[i] && !near(o1, x*ys[i], c16Tol, x, x*ys[0], x*ys[n-1], x*ys[max(i-1, 0)]) {
						k.fail("node", "t=%d input=%g is row %d of the table (proportion %g) but output1=%g", t, x, i, ys[i], o1)
					}
				}
			}
		}
	})
	regC16("PartitionDemand", func(k *c16chk, p []float64, in, out [][]float64, T int) {
		for t := 0; t < T; t++ {
			inp, dmd, outflow, ext := in[0][t], in[1][t], out[0][t], out[1][t]
			if !(ext <= dmd) {
				k.fail("extraction-le-demand", "t=%d extraction=%g > demand=%g (input=%g)", t, ext, dmd, inp)
			}
			if !(ext <= inp) {
				k.fail("extraction-le-available", "t=%d extraction=%g > input=%g (demand=%g)", t, ext, inp, dmd)
			}
			if !(outflow >= 0) {
				k.fail("outflow-nonneg", "t=%d outflow=%g (input=%g demand=%g)", t, outflow, inp, dmd)
			}
			if !near(outflow+ext, inp, c16Tol, outflow, ext) {
				k.fail("split-sum", "t=%d outflow+extraction=%g+%g but input=%g (demand=%g)", t, outflow, ext, inp, dmd)
			}
		}
	})

	// ------------------------------------------------------------------------------------ concentration-based generators
	regC16("EmcDwc", func(k *c16chk, p []float64, in, out [][]float64, T int) {
		emc, dwc := p[0], p[1]
		nn := allNonNeg(p, in[0], in[1])
		for t := 0; t < T; t++ {
			ql, sl, tot := out[0][t], out[1][t], out[2][t]
			if !near(tot, ql+sl, c16Tol, ql, sl) {
				k.fail("total", "t=%d totalLoad=%g quickLoad+slowLoad=%g+%g", t, tot, ql, sl)
			}
			if !near(ql, in[0][t]*emc*mgL, c16Tol) || !near(sl, in[1][t]*dwc*mgL, c16Tol) {
				k.fail("linear", "t=%d quickLoad=%g want %g; slowLoad=%g want %g", t, ql, in[0][t]*emc*mgL, sl, in[1][t]*dwc*mgL)
			}
			if (in[0][t] == 0 && ql != 0) || (in[1][t] == 0 && sl != 0) || (in[0][t] == 0 && in[1][t] == 0 && tot != 0) {
				k.fail("zero-driver", "t=%d flows %g,%g loads %g,%g,%g", t, in[0][t], in[1][t], ql, sl, tot)
			}
			if nn && !(ql >= 0 && sl >= 0 && tot >= 0) {
				k.fail("nonneg", "t=%d loads %g,%g,%g", t, ql, sl, tot)
			}
		}
	})
	regC16("FixedConcentration", func(k *c16chk, p []float64, in, out [][]float64, T int) {
		nn := allNonNeg(p, in[0])
		for t := 0; t < T; t++ {
			l := out[0][t]
			if !near(l, in[0][t]*p[0]*mgL, c16Tol) {
				k.fail("linear", "t=%d load=%g want flow*conc*1e-3=%g", t, l, in[0][t]*p[0]*mgL)
			}
			if in[0][t] == 0 && l != 0 {
				k.fail("zero-driver", "t=%d flow=0 load=%g", t, l)
			}
			if nn && !(l >= 0) {
				k.fail("nonneg", "t=%d load=%g", t, l)
			}
		}
	})
	regC16("PassLoadIfFlow", func(k *c16chk, p []float64, in, out [][]float64, T int) {
		nn := allNonNeg(p, in[0], in[1])
		for t := 0; t < T; t++ {
			want := 0.0
			if in[0][t] > 1e-8 {
				want = in[1][t] * p[0]
			}
			if !near(out[0][t], want, c16Tol) {
				k.fail("mask-scale", "t=%d flow=%g inputLoad=%g scalingFactor=%g outputLoad=%g want %g", t, in[0][t], in[1][t], p[0], out[0][t], want)
			}
			if in[0][t] == 0 && out[0][t] != 0 {
				k.fail("zero-driver", "t=%d flow=0 outputLoad=%g", t, out[0][t])
			}
			if nn && !(out[0][t] >= 0) {
				k.fail("nonneg", "t=%d outputLoad=%g", t, out[0][t])
			}
		}
	})
	regC16("SednetDissolvedNutrientGeneration", func(k *c16chk, p []float64, in, out [][]float64, T int) {
		nn := allNonNeg(p, in[0], in[1])
		for t := 0; t < T; t++ {
			q, s, tot := out[0][t], out[1][t], out[2][t]
			if !near(tot, q+s, c16Tol, q, s) {
				k.fail("total", "t=%d totalLoad=%g quick+slow=%g+%g", t, tot, q, s)
			}
			if !near(q, in[0][t]*p[0]*mgL, c16Tol) || !near(s, in[1][t]*p[1]*mgL, c16Tol) {
				k.fail("linear", "t=%d quick=%g want %g; slow=%g want %g", t, q, in[0][t]*p[0]*mgL, s, in[1][t]*p[1]*mgL)
			}
			if (in[0][t] == 0 && q != 0) || (in[1][t] == 0 && s != 0) {
				k.fail("zero-driver", "t=%d flows %g,%g loads %g,%g", t, in[0][t], in[1][t], q, s)
			}
			if nn && !(q >= 0 && s >= 0 && tot >= 0) {
				k.fail("nonneg", "t=%d loads %g,%g,%g", t, q, s, tot)
			}
		}
	})
	regC16("SednetParticulateNutrientGeneration", func(k *c16chk, p []float64, in, out [][]float64, T int) {
		nn := allNonNeg(p, in[0], in[1], in[2], in[3], in[4])
		for t := 0; t < T; t++ {
			q, s, tot, hill, gul := out[0][t], out[1][t], out[2][t], out[3][t], out[4][t]
			if !near(tot, q+s, c16Tol, q, s) {
				k.fail("total", "t=%d totalLoad=%g quick+slow=%g+%g", t, tot, q, s)
			}
			if !near(q, hill+gul, c16Tol, hill, gul) {
				k.fail("parts", "t=%d quickflowConstituent=%g hillslope+gully=%g+%g", t, q, hill, gul)
			}
			wantH := (in[0][t] + in[1][t]) * p[1] * p[3] * (p[2] * 0.01)
			wantG := (in[2][t] + in[3][t]) * p[4] * p[5] * (p[6] * 0.01)
			if !near(hill, wantH, c16Tol) || !near(gul, wantG, c16Tol) {
				k.fail("delivered", "t=%d hillslope=%g want generated×conc×NER×HSDR%%=%g; gully=%g want %g", t, hill, wantH, gul, wantG)
			}
			if !near(s, in[4][t]*p[7]*mgL, c16Tol) {
				k.fail("linear", "t=%d slowflowConstituent=%g want slowflow*DWC*1e-3=%g", t, s, in[4][t]*p[7]*mgL)
			}
			if (in[0][t]+in[1][t] == 0 && hill != 0) || (in[2][t]+in[3][t] == 0 && gul != 0) || (in[4][t] == 0 && s != 0) {
				k.fail("zero-driver", "t=%d sheet=%g gully=%g slowflow=%g loads hill=%g gully=%g slow=%g", t, in[0][t]+in[1][t], in[2][t]+in[3][t], in[4][t], hill, gul, s)
			}
			if nn && !(q >= 0 && s >= 0 && tot >= 0 && hill >= 0 && gul >= 0) {
				k.fail("nonneg", "t=%d loads %g,%g,%g,%g,%g", t, q, s, tot, hill, gul)
			}
		}
	})

	// ------------------------------------------------------------------------------------ sediment generators
	regC16("BankErosion", func(k *c16chk, p []float64, in, out [][]float64, T int) {
		rvp, mrve, se, bec, slope, bff, bmf, sbd, bh, ll, pw, lt, pf, dt := p[0], p[1], p[2], p[3], p[4], p[5], p[6], p[7], p[8], p[9], p[10], p[11], p[12], p[13]
		meanAnnual := sbd * bh * ll * (bec * 1000 * 9.81 * slope * bff * bmf) * ((1 - math.Min(rvp/100, mrve/100)) * (se / 100))
		nn := allNonNeg(p, in[0], in[1]) && (rvp <= 100 || mrve <= 100) && pf <= 100
		for t := 0; t < T; t++ {
			fine, coarse := out[0][t], out[1][t]
			q, v := in[0][t], in[1][t]
			total := 0.0
			if v > 0 && q > 0 && lt > 0 {
				total = meanAnnual * (math.Pow(q*dt, pw) / lt) / 365.25 * 1000 / dt
			}
			if !near(fine+coarse, total, c16TolPow, fine, coarse) {
				k.fail("split-sum", "t=%d fine+coarse=%g+%g but total bank erosion=%g kg/s", t, fine, coarse, total)
			}
			// split by soilPercentFine: fine·(1-pf%) = coarse·pf%
			if !near(fine*(1-pf*0.01), coarse*(pf*0.01), c16Tol, fine, coarse) {
				k.fail("fine-fraction", "t=%d fine=%g coarse=%g soilPercentFine=%g", t, fine, coarse, pf)
			}
			if (q == 0 || v == 0) && (fine != 0 || coarse != 0) {
				k.fail("zero-driver", "t=%d flow=%g volume=%g fine=%g coarse=%g", t, q, v, fine, coarse)
			}
			if nn && !(fine >= 0 && coarse >= 0) {
				k.fail("nonneg", "t=%d fine=%g coarse=%g", t, fine, coarse)
			}
		}
	})
	regC16("USLEFineSedimentGeneration", func(k *c16chk, p []float64, in, out [][]float64, T int) {
		thr, dwc, hf, hc := p[2], p[9], p[15], p[16]
		nnp := allNonNeg(p)
		for t := 0; t < T; t++ {
			qf, sf, rain, klsc, klscF := in[0][t], in[1][t], in[2][t], in[3][t], in[4][t]
			qF, sF, qC, sC, tF, tC, gF, gC := out[0][t], out[1][t], out[2][t], out[3][t], out[4][t], out[5][t], out[6][t], out[7][t]
			if !near(tF, qF+sF, c16Tol, qF, sF) || !near(tC, qC+sC, c16Tol, qC, sC) {
				k.fail("total", "t=%d totalFine=%g quick+slow=%g+%g; totalCoarse=%g quick+slow=%g+%g", t, tF, qF, sF, tC, qC, sC)
			}
			if !near(qF, gF*(hf*0.01), c16Tol) || !near(qC, gC*(hc*0.01), c16Tol) {
				k.fail("delivered", "t=%d quickLoadFine=%g generated×HSDR=%g×%g%%; quickLoadCoarse=%g generated×HSDR=%g×%g%%", t, qF, gF, hf, qC, gC, hc)
			}
			if !near(sF, dwc*sf*mgL, c16Tol) {
				k.fail("linear", "t=%d slowLoadFine=%g want DWC*baseflow*1e-3=%g", t, sF, dwc*sf*mgL)
			}
			// fine + coarse split by the fine fraction KLSC_Fine/KLSC of the eroded material
			if klsc != 0 && !near(gF*klsc, (gF+gC)*klscF, c16TolPow, gF*klsc, gC*klscF) {
				k.fail("fine-fraction", "t=%d generatedFine=%g generatedCoarse=%g KLSC=%g KLSC_Fine=%g", t, gF, gC, klsc, klscF)
			}
			if (qf == 0 || !(rain > thr) || klsc == 0) && (qF != 0 || qC != 0 || gF != 0 || gC != 0) {
				k.fail("zero-driver", "t=%d quickflow=%g rain=%g threshold=%g KLSC=%g loads %g,%g,%g,%g", t, qf, rain, thr, klsc, qF, qC, gF, gC)
			}
			if sf == 0 && sF != 0 {
				k.fail("zero-driver", "t=%d baseflow=0 slowLoadFine=%g", t, sF)
			}
			if nnp && qf >= 0 && sf >= 0 && rain >= 0 && klsc >= 0 && klscF >= 0 && klscF <= klsc {
				for i := 0; i < 8; i++ {
					if !(out[i][t] >= 0) {
						k.fail("nonneg", "t=%d output %d = %g", t, i, out[i][t])
					}
				}
			}
		}
	})
	gully := func(alt bool) func(k *c16chk, p []float64, in, out [][]float64, T int) {
		return func(k *c16chk, p []float64, in, out [][]float64, T int) {
			yd, ge, af, supply, pfPct, sdrF, sdrC := p[0], p[1], p[3], p[4], p[5], p[9], p[10]
			nnp := allNonNeg(p) && pfPct <= 100
			pf := pfPct / 100
			for t := 0; t < T; t++ {
				q, yr, ar, al := in[0][t], in[1][t], in[2][t], in[3][t]
				fl, cl, gf, gc := out[0][t], out[1][t], out[2][t], out[3][t]
				if !near(fl, gf*(sdrF*0.01), c16Tol) || !near(cl, gc*(sdrC*0.01), c16Tol) {
					k.fail("delivered", "t=%d fineLoad=%g generatedFine×SDR=%g×%g%%; coarseLoad=%g generatedCoarse×SDR=%g×%g%%", t, fl, gf, sdrF, cl, gc, sdrC)
				}
				act := 1.0
				if yr > ge {
					act = af
				}
				// fine : coarse = propFine·activity : (1-propFine)
				if !near(gf*(1-pf), gc*pf*act, c16Tol, gf, gc) {
					k.fail("fine-fraction", "t=%d generatedFine=%g generatedCoarse=%g percentFine=%g activityFactor=%g", t, gf, gc, pfPct, act)
				}
				// The property's own clause ("fine + coarse material split by the model's fine fraction"), WITHOUT the
				// activity factor: fine : coarse = propFine : (1-propFine). After GullyEndYear the code multiplies only the
				// fine part by averageGullyActivityFactor, so the clause fails there whenever that factor ≠ 1 and both parts
				// are present (Lean: gully_fine_fraction_after_end_year_counterexample). Own scope = known finding
				// KF-C16-gully-activity-factor(-alt); the check above (with the factor) keeps guarding the code as written.
				if yr > ge && !near(gf*(1-pf), gc*pf, c16Tol, gf, gc) {
					k.fail("fine-fraction-after-end-year", "t=%d year=%g > GullyEndYear=%g: generatedFine/(generatedFine+generatedCoarse)=%g but GullyPercentFine/100=%g (averageGullyActivityFactor=%g applied to the fine part only; generatedFine=%g generatedCoarse=%g)", t, yr, ge, gf/(gf+gc), pf, af, gf, gc)
				}
				driver0 := q == 0 || ar == 0 || yr < yd
				if alt {
					driver0 = driver0 || al == 0
				} else {
					driver0 = driver0 || supply == 0
				}
				if driver0 && (fl != 0 || cl != 0 || gf != 0 || gc != 0) {
					k.fail("zero-driver", "t=%d quickflow=%g annualRunoff=%g year=%g supply=%g annualLoad=%g loads %g,%g,%g,%g", t, q, ar, yr, supply, al, fl, cl, gf, gc)
				}
				if nnp && q >= 0 && ar >= 0 && al >= 0 && !(fl >= 0 && cl >= 0 && gf >= 0 && gc >= 0) {
					k.fail("nonneg", "t=%d loads %g,%g,%g,%g", t, fl, cl, gf, gc)
				}
			}
		}
	}
	regC16("DynamicSednetGully", gully(false))
	regC16("DynamicSednetGullyAlt", gully(true))
}
