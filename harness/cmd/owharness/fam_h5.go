package main

// Families of property C08 (HDF5 array I/O), run on the REAL package io compiled against the pure-Go library model
// /verif/harness/hdf5stub.
//
//   H5U  sliceSize / makeHyperslab called directly through io/verif_export.go
//        ops : H5U id ss <slice Is> <size>            impl: ok n | panic <class>
//              H5U id mh <n entry*> <dims Is>         impl: ok <offset Ns> <stride Ns> <count Ns> <block Ns> | panic <class>
//              entry = 0 (nil) | 1 <k items>
//   H5   one line = one program of io calls on a fresh file, for one element type
//        ops : H5 id <eltype> nops op…
//              arr <vals Is> <dims Is> nsl (loc Is, dims Is, step optIs)*   source array = root + chain of slices
//                  (extents 0 allowed: `arr 0 <dims with a 0> 0` = a fresh empty root, `… 1 loc <dims with a 0> step` = a
//                  zero-wide slice of a non-empty root; a few percent of the programs, stats key zero_extent_source)
//              create <path> <shape Is> | write <path> <arr#> | wslice <path> <arr#> <loc Is>
//              load <path> <sel> | shape <path> | exists <path> | datasets <path> | groups <path>
//              sel = 0 (Slice == nil) | 1 <n entry*>
//              par k (nops op…)*k     k goroutines, each running its own program concurrently (thorough tier)
//        impl: per op `ok …` | `err <class>` | `panic <class>` separated by ` ; `, halting at the first panic, then
//              the dump of the file read back through the library model (not through io): `D nofile` |
//              `D n (G path | S path <shape Ns> <vals Is>)*` in path order; after ` | `: the number of library calls
//              and every call made without the package lock (or a mutating one without the exclusive lock).
//
// The hdf5stub Hook asserts through io.VerifLockState that the package lock is held at EVERY library call.

import (
	"encoding/binary"
	"fmt"
	"math"
	"os"
	"sort"
	"strings"
	"sync"
	"sync/atomic"

	"github.com/flowmatters/openwater-core/data"
	owio "github.com/flowmatters/openwater-core/io"
	"gonum.org/v1/hdf5"
)

func init() {
	register(&Family{Name: "H5U", Gen: genH5U, Exec: execH5U, Oracle: oracleH5U, InProc: true})
	register(&Family{Name: "H5", Gen: genH5, Exec: execH5, Oracle: oracleH5})
}

// ---------------------------------------------------------------------------------------------------------------
// H5U

func popEntries(t *tokenReader) [][]int {
	n := t.int()
	out := make([][]int, n)
	for i := range out {
		if t.int() == 1 {
			e := t.ints()
			if e == nil {
				e = []int{}
			}
			out[i] = e
		}
	}
	return out
}

func fmtEntries(sel [][]int) string {
	var b strings.Builder
	fmt.Fprintf(&b, "%d", len(sel))
	for _, e := range sel {
		if e == nil {
			b.WriteString(" 0")
		} else {
			b.WriteString(" 1 " + Is(e))
		}
	}
	return b.String()
}

func Us(xs []uint) string {
	var b strings.Builder
	fmt.Fprintf(&b, "%d", len(xs))
	for _, x := range xs {
		fmt.Fprintf(&b, " %d", x)
	}
	return b.String()
}

func execH5U(body string) string {
	t := newTokenReader(body)
	switch t.next() {
	case "ss":
		sl := t.ints()
		size := t.int()
		return fmt.Sprintf("ok %d", owio.VerifSliceSize(sl, size))
	case "mh":
		sel := popEntries(t)
		dims := t.ints()
		o, s, c, b := owio.VerifMakeHyperslab(sel, dims)
		return "ok " + Us(o) + " " + Us(s) + " " + Us(c) + " " + Us(b)
	}
	return "bad-op"
}

// selected indices of one dimension by the property's own words: start, start+step, … < min(stop, extent)
func specIndices(start, stop, step, extent int) []int {
	var out []int
	lim := stop
	if extent < lim {
		lim = extent
	}
	for i := start; i < lim; i += step {
		out = append(out, i)
	}
	return out
}

func oracleH5U(c *Ctx, id int, body, impl string) {
	t := newTokenReader(body)
	r := newTokenReader(impl)
	switch t.next() {
	case "ss":
		sl := t.ints()
		size := t.int()
		if len(sl) != 3 || sl[0] < 0 || sl[2] < 1 || size < 0 {
			return // outside the property's domain
		}
		c.Stats.OracleEvals++
		want := len(specIndices(sl[0], sl[1], sl[2], size))
		if r.next() != "ok" {
			c.OracleFail(id, "H5U:sliceSize", "valid [start,stop,step] but sliceSize did not return: "+impl, body)
			return
		}
		if got := r.int(); got != want {
			c.OracleFail(id, "H5U:sliceSize", fmt.Sprintf("sliceSize(%v, extent %d) = %d, but {start + k*step < min(stop, extent)} has %d elements", sl, size, got, want), body)
		}
	case "mh":
		sel := popEntries(t)
		dims := t.ints()
		if len(sel) != len(dims) {
			return
		}
		for i, e := range sel {
			if dims[i] < 0 || (e != nil && (len(e) != 3 || e[0] < 0 || e[2] < 1)) {
				return
			}
		}
		c.Stats.OracleEvals++
		if r.next() != "ok" {
			c.OracleFail(id, "H5U:makeHyperslab", "valid selection but makeHyperslab did not return: "+impl, body)
			return
		}
		o, s, cnt, b := r.ints(), r.ints(), r.ints(), r.ints()
		for i, e := range sel {
			want := specIndices(0, dims[i], 1, dims[i])
			if e != nil {
				want = specIndices(e[0], e[1], e[2], dims[i])
			}
			var got []int
			if i < len(o) && i < len(s) && i < len(cnt) && i < len(b) && b[i] == 1 {
				for k := 0; k < cnt[i]; k++ {
					got = append(got, o[i]+k*s[i])
				}
			} else {
				got = []int{-1}
			}
			if !sameInts(got, want) {
				c.OracleFail(id, "H5U:makeHyperslab", fmt.Sprintf("dimension %d of %v on extent %d: hyperslab selects %v, the property's slice is %v", i, e, dims[i], got, want), body)
				return
			}
		}
	}
}

func genH5U(c *Ctx) {
	c.Stats.Rule = "sliceSize: every [start,stop,step] × extent in a box (negative and zero steps, stop/start beyond the extent included) plus slices of length ≠ 3; makeHyperslab: every rank-1 selection of the box, random rank 2–3 selections with nil dimensions, malformed entries, rank mismatches; non-trivial = step>1 or nil dimension or start>0; distinct by arguments"
	lo, hi, maxStep, maxExt := -2, 8, 4, 6
	if c.Tier == "thorough" {
		lo, hi, maxStep, maxExt = -4, 14, 7, 11
	}
	c.Stats.Exhaustive = true
	for size := 0; size <= maxExt; size++ {
		for start := lo; start <= hi; start++ {
			for stop := lo; stop <= hi+1; stop++ {
				for step := -2; step <= maxStep; step++ {
					sl := []int{start, stop, step}
					c.Do(fmt.Sprintf("ss %s %d", Is(sl), size), step > 1 || start > 0)
					if step > 1 && start >= 0 && start < stop && start < size {
						lim := stop
						if size < lim {
							lim = size
						}
						if (lim-start)%step != 0 {
							c.Stats.Count("ss:remainder")
						} else {
							c.Stats.Count("ss:exact")
						}
					}
					if stop > size {
						c.Stats.Count("ss:stop-beyond-extent")
					}
					if start > size {
						c.Stats.Count("ss:start-beyond-extent")
					}
				}
			}
		}
	}
	for _, sl := range [][]int{{}, {1}, {1, 2}, {0, 4, 1, 9}} {
		c.Do(fmt.Sprintf("ss %s %d", Is(sl), 5), false)
		c.Stats.Count("ss:malformed")
	}
	// makeHyperslab, rank 1: the whole box; rank 2-3: random
	for size := 0; size <= maxExt; size++ {
		c.Do(fmt.Sprintf("mh %s %s", fmtEntries([][]int{nil}), Is([]int{size})), true)
		for start := lo; start <= hi; start += 1 {
			for stop := 0; stop <= hi; stop++ {
				for step := 0; step <= maxStep; step++ {
					c.Do(fmt.Sprintf("mh %s %s", fmtEntries([][]int{{start, stop, step}}), Is([]int{size})), step > 1 || start > 0)
				}
			}
		}
	}
	N := 3000
	if c.Tier == "thorough" {
		N = 40000
	}
	for i := 0; i < N; i++ {
		rank := c.R.Range(1, 3)
		dims := make([]int, rank)
		sel := make([][]int, rank)
		for d := range dims {
			dims[d] = c.R.Range(0, maxExt)
			switch {
			case c.R.Chance(0.3):
				sel[d] = nil
				c.Stats.Count("mh:nil-dim")
			default:
				sel[d] = []int{c.R.Range(0, maxExt+1), c.R.Range(0, maxExt+3), c.R.Range(1, maxStep)}
				if c.R.Chance(0.05) {
					sel[d][0] = -c.R.Range(1, 3)
				}
			}
		}
		switch {
		case c.R.Chance(0.03):
			sel = append(sel, nil) // more selection entries than dimensions
			c.Stats.Count("mh:malformed")
		case c.R.Chance(0.03):
			sel[c.R.Intn(rank)] = []int{1, 2}[:c.R.Intn(3)]
			c.Stats.Count("mh:malformed")
		case c.R.Chance(0.02):
			d := c.R.Intn(rank)
			if sel[d] != nil {
				sel[d][2] = 0
				c.Stats.Count("mh:step0")
			}
		}
		c.Do(fmt.Sprintf("mh %s %s", fmtEntries(sel), Is(dims)), true)
	}
}

// ---------------------------------------------------------------------------------------------------------------
// H5: engine

type h5Ref[T num, A any] interface {
	Load() (A, error)
	Write(A) error
	Create([]int, T, bool) error
	WriteSlice(A, []int) error
	Exists() bool
	Shape() ([]int, error)
	GetDatasets() ([]string, error)
	GetGroups() ([]string, error)
}

type h5Engine[T num, A ndIface[T, A]] struct {
	fromSlice func([]T, []int) A
	mkRef     func(fn, ds string, sl [][]int) h5Ref[T, A]
	fn        string
	arrs      []*A
}

type h5Runner interface {
	Run(fn string, t *tokenReader) []string
}

var h5Engines = map[string]func() h5Runner{
	"float64": func() h5Runner {
		return &h5Engine[float64, data.NDFloat64]{fromSlice: data.ArrayFromSliceFloat64, mkRef: func(fn, ds string, sl [][]int) h5Ref[float64, data.NDFloat64] {
			return owio.H5RefFloat64{Filename: fn, Dataset: ds, Slice: sl}
		}}
	},
	"float32": func() h5Runner {
		return &h5Engine[float32, data.NDFloat32]{fromSlice: data.ArrayFromSliceFloat32, mkRef: func(fn, ds string, sl [][]int) h5Ref[float32, data.NDFloat32] {
			return owio.H5RefFloat32{Filename: fn, Dataset: ds, Slice: sl}
		}}
	},
	"int32": func() h5Runner {
		return &h5Engine[int32, data.NDInt32]{fromSlice: data.ArrayFromSliceInt32, mkRef: func(fn, ds string, sl [][]int) h5Ref[int32, data.NDInt32] {
			return owio.H5RefInt32{Filename: fn, Dataset: ds, Slice: sl}
		}}
	},
	"uint32": func() h5Runner {
		return &h5Engine[uint32, data.NDUint32]{fromSlice: data.ArrayFromSliceUint32, mkRef: func(fn, ds string, sl [][]int) h5Ref[uint32, data.NDUint32] {
			return owio.H5RefUint32{Filename: fn, Dataset: ds, Slice: sl}
		}}
	},
	"int64": func() h5Runner {
		return &h5Engine[int64, data.NDInt64]{fromSlice: data.ArrayFromSliceInt64, mkRef: func(fn, ds string, sl [][]int) h5Ref[int64, data.NDInt64] {
			return owio.H5RefInt64{Filename: fn, Dataset: ds, Slice: sl}
		}}
	},
	"uint64": func() h5Runner {
		return &h5Engine[uint64, data.NDUint64]{fromSlice: data.ArrayFromSliceUint64, mkRef: func(fn, ds string, sl [][]int) h5Ref[uint64, data.NDUint64] {
			return owio.H5RefUint64{Filename: fn, Dataset: ds, Slice: sl}
		}}
	},
	"int": func() h5Runner {
		return &h5Engine[int, data.NDInt]{fromSlice: data.ArrayFromSliceInt, mkRef: func(fn, ds string, sl [][]int) h5Ref[int, data.NDInt] {
			return owio.H5RefInt{Filename: fn, Dataset: ds, Slice: sl}
		}}
	},
	"uint": func() h5Runner {
		return &h5Engine[uint, data.NDUint]{fromSlice: data.ArrayFromSliceUint, mkRef: func(fn, ds string, sl [][]int) h5Ref[uint, data.NDUint] {
			return owio.H5RefUint{Filename: fn, Dataset: ds, Slice: sl}
		}}
	},
}

// error classes of io / the library model (same names as in OW/Sim/H5.lean)
func h5ErrClass(err error) string {
	m := err.Error()
	switch {
	case strings.Contains(m, "Cannot resize datasets"):
		return "shape"
	case strings.Contains(m, "Cannot open file"), strings.Contains(m, "unable to open file"):
		return "nofile"
	case strings.Contains(m, "Cannot open or create group"):
		return "group"
	case strings.Contains(m, "Cannot create dataset"):
		return "create"
	case strings.Contains(m, "dataset not found"), strings.Contains(m, "group not found"):
		return "notfound"
	case strings.Contains(m, "size of offset does not match extent"):
		return "rank"
	case strings.Contains(m, "not within extent"):
		return "sel"
	case strings.Contains(m, "different number of elements"):
		return "count"
	case strings.Contains(m, "argument shorter than the rank"):
		return "args"
	case strings.Contains(m, "stride==0"):
		return "stride0"
	case strings.Contains(m, "blocks overlap"):
		return "overlap"
	}
	return "other"
}

func popSel(t *tokenReader) [][]int {
	if t.int() == 0 {
		return nil
	}
	s := popEntries(t)
	if s == nil {
		s = [][]int{}
	}
	return s
}

func fmtSel(sel [][]int) string {
	if sel == nil {
		return "0"
	}
	return "1 " + fmtEntries(sel)
}

func (e *h5Engine[T, A]) arr(i int) (A, bool) {
	var zero A
	if i < 0 || i >= len(e.arrs) || e.arrs[i] == nil {
		return zero, false
	}
	return *e.arrs[i], true
}

func (e *h5Engine[T, A]) op(t *tokenReader) (res string) {
	defer func() {
		if r := recover(); r != nil {
			res = "panic " + panicClass(fmt.Sprint(r))
		}
	}()
	status := func(err error) string {
		if err != nil {
			return "err " + h5ErrClass(err)
		}
		return "ok"
	}
	name := t.next()
	switch name {
	case "arr":
		vals, dims, n := toT[T](t.ints()), t.ints(), t.int()
		type req struct{ loc, dims, step []int }
		reqs := make([]req, n)
		for i := range reqs {
			reqs[i] = req{t.ints(), t.ints(), optInts(t)}
		}
		e.arrs = append(e.arrs, nil)
		a := e.fromSlice(vals, dims)
		for _, r := range reqs {
			a = a.Slice(r.loc, r.dims, r.step)
		}
		e.arrs[len(e.arrs)-1] = &a
		return "ok " + Is(a.Shape())
	case "create":
		path, shape := t.next(), t.ints()
		// the fill argument is only a type example in the real code (datasets are zero-initialised, existing ones untouched):
		// pass a NON-zero value so that any use of it as data shows
		fill := T(7)
		return status(e.mkRef(e.fn, path, nil).Create(shape, fill, false))
	case "write":
		path, ai := t.next(), t.int()
		a, ok := e.arr(ai)
		if !ok {
			return "skip"
		}
		return status(e.mkRef(e.fn, path, nil).Write(a))
	case "wslice":
		path, ai, loc := t.next(), t.int(), t.ints()
		a, ok := e.arr(ai)
		if !ok {
			return "skip"
		}
		return status(e.mkRef(e.fn, path, nil).WriteSlice(a, loc))
	case "load":
		path, sel := t.next(), popSel(t)
		before := fmtSel(sel)
		r, err := e.mkRef(e.fn, path, sel).Load()
		if after := fmtSel(sel); after != before {
			// frame: a Load must not rewrite the caller's selection (the same [][]int is legitimately reused for other datasets:
			// a "whole dimension" entry filled in with this dataset's extent silently truncates the next, longer one)
			return "frame selection-modified:" + strings.ReplaceAll(before, " ", ",") + "->" + strings.ReplaceAll(after, " ", ",")
		}
		if err != nil {
			return "err " + h5ErrClass(err)
		}
		return "ok " + Is(r.Shape()) + " " + fmtVals(r.Unroll())
	case "shape":
		s, err := e.mkRef(e.fn, t.next(), nil).Shape()
		if err != nil {
			return "err " + h5ErrClass(err)
		}
		return "ok " + Is(s)
	case "exists":
		if e.mkRef(e.fn, t.next(), nil).Exists() {
			return "ok 1"
		}
		return "ok 0"
	case "datasets", "groups":
		ref := e.mkRef(e.fn, t.next(), nil)
		var l []string
		var err error
		if name == "datasets" {
			l, err = ref.GetDatasets()
		} else {
			l, err = ref.GetGroups()
		}
		if err != nil {
			return "err " + h5ErrClass(err)
		}
		return strings.Join(append([]string{"ok", fmt.Sprint(len(l))}, l...), " ")
	}
	return "bad-op"
}

// skipProg advances the reader over one `nops op…` program without running it (used to split `par` programs).
func h5ProgTokens(t *tokenReader) []string {
	start := t.pos
	n := t.int()
	for i := 0; i < n; i++ {
		switch t.next() {
		case "arr":
			t.ints()
			t.ints()
			k := t.int()
			for j := 0; j < k; j++ {
				t.ints()
				t.ints()
				optInts(t)
			}
		case "create":
			t.next()
			t.ints()
		case "write":
			t.next()
			t.int()
		case "wslice":
			t.next()
			t.int()
			t.ints()
		case "load":
			t.next()
			popSel(t)
		case "shape", "exists", "datasets", "groups":
			t.next()
		}
	}
	return t.toks[start:t.pos]
}

// Run executes `nops op…`; returns the result texts (with "halt" appended after a panic).
func (e *h5Engine[T, A]) Run(fn string, t *tokenReader) []string {
	e.fn = fn
	out, halted := e.run(t)
	if halted && (len(out) == 0 || out[len(out)-1] != "halt") {
		out = append(out, "halt")
	}
	return out
}

func (e *h5Engine[T, A]) run(t *tokenReader) (out []string, halted bool) {
	n := t.int()
	for i := 0; i < n; i++ {
		if t.pos < len(t.toks) && t.toks[t.pos] == "par" {
			t.next()
			k := t.int()
			progs := make([][]string, k)
			for g := range progs {
				progs[g] = h5ProgTokens(t)
			}
			res := make([][]string, k)
			halts := make([]bool, k)
			var wg sync.WaitGroup
			for g := range progs {
				wg.Add(1)
				go func(g int) {
					defer wg.Done()
					res[g], halts[g] = e.run(&tokenReader{toks: progs[g]})
				}(g)
			}
			wg.Wait()
			for g := range res {
				out = append(out, res[g]...)
				if halts[g] {
					return append(out, "halt"), true
				}
			}
			continue
		}
		r := e.op(t)
		out = append(out, r)
		if strings.HasPrefix(r, "panic") || r == "bad-op" {
			return out, true
		}
	}
	return out, false
}

// ---------------------------------------------------------------------------------------------------------------
// lock monitor (hdf5stub.Hook) and dump

var (
	h5HookMu    sync.Mutex
	h5Viol      []string
	h5Calls     int64
	h5HookOff   int32 // the harness's own library calls (dump) are not io's
	h5HookReady sync.Once
)

func h5InstallHook() {
	h5HookReady.Do(func() {
		hdf5.Hook = func(op string, mutating bool) {
			if atomic.LoadInt32(&h5HookOff) != 0 {
				return
			}
			atomic.AddInt64(&h5Calls, 1)
			held, excl := owio.VerifLockState()
			if held && (excl || !mutating) {
				return
			}
			h5HookMu.Lock()
			if len(h5Viol) < 8 {
				st := "not-held"
				if held {
					st = "held-shared"
				}
				h5Viol = append(h5Viol, fmt.Sprintf("%s(mutating=%v):%s", op, mutating, st))
			}
			h5HookMu.Unlock()
		}
	})
}

func decodeElems(raw []byte, class hdf5.TypeClass, size uint, unsigned bool) []int64 {
	n := 0
	if size > 0 {
		n = len(raw) / int(size)
	}
	out := make([]int64, n)
	for i := range out {
		b := raw[i*int(size):]
		switch {
		case class == hdf5.T_FLOAT && size == 4:
			out[i] = int64(math.Float32frombits(binary.LittleEndian.Uint32(b)))
		case class == hdf5.T_FLOAT && size == 8:
			out[i] = int64(math.Float64frombits(binary.LittleEndian.Uint64(b)))
		case size == 4 && unsigned:
			out[i] = int64(binary.LittleEndian.Uint32(b))
		case size == 4:
			out[i] = int64(int32(binary.LittleEndian.Uint32(b)))
		case size == 8:
			out[i] = int64(binary.LittleEndian.Uint64(b))
		case size == 1:
			out[i] = int64(b[0])
		}
	}
	return out
}

// h5Dump reads the file back through the library model directly.
func h5Dump(fn string, unsigned bool) string {
	atomic.StoreInt32(&h5HookOff, 1)
	defer atomic.StoreInt32(&h5HookOff, 0)
	if _, err := os.Stat(fn); err != nil {
		return "D nofile"
	}
	f, err := hdf5.OpenFile(fn, hdf5.F_ACC_RDONLY)
	if err != nil {
		return "D unreadable"
	}
	defer f.Close()
	var items []string
	var walk func(g *hdf5.CommonFG, prefix string)
	walk = func(g *hdf5.CommonFG, prefix string) {
		n, _ := g.NumObjects()
		for i := uint(0); i < n; i++ {
			name, _ := g.ObjectNameByIndex(i)
			typ, _ := g.ObjectTypeByIndex(i)
			p := name
			if prefix != "" {
				p = prefix + "/" + name
			}
			if typ == hdf5.H5G_GROUP {
				items = append(items, "G "+p)
				sub, err := g.OpenGroup(name)
				if err == nil {
					walk(&sub.CommonFG, p)
					sub.Close()
				}
				continue
			}
			ds, err := g.OpenDataset(name)
			if err != nil {
				items = append(items, "S "+p+" unreadable")
				continue
			}
			sp := ds.Space()
			dims := make([]uint, sp.SimpleExtentNDims())
			if len(dims) > 0 {
				dims, _, _ = sp.SimpleExtentDims()
			}
			dt, _ := ds.Datatype()
			cnt := uint(1)
			for _, d := range dims {
				cnt *= d
			}
			raw := make([]byte, cnt*dt.Size())
			if len(raw) > 0 {
				ds.Read(&raw)
			}
			items = append(items, "S "+p+" "+Us(dims)+" "+fmtI64(decodeElems(raw, dt.Class(), dt.Size(), unsigned)))
			ds.Close()
		}
	}
	walk(&f.CommonFG, "")
	return strings.TrimSpace(fmt.Sprintf("D %d %s", len(items), strings.Join(items, " ")))
}

var h5CaseNo int64

func execH5(body string) string {
	h5InstallHook()
	toks := strings.Fields(body)
	if len(toks) < 2 {
		return "bad-op"
	}
	mk, ok := h5Engines[toks[0]]
	if !ok {
		return "bad-op"
	}
	fn := fmt.Sprintf("h5case-%d-%d.h5", os.Getpid(), atomic.AddInt64(&h5CaseNo, 1))
	os.Remove(fn)
	defer os.Remove(fn)
	h5HookMu.Lock()
	h5Viol = nil
	h5HookMu.Unlock()
	atomic.StoreInt64(&h5Calls, 0)
	out := mk().Run(fn, &tokenReader{toks: toks[1:]})
	calls := atomic.LoadInt64(&h5Calls)
	out = append(out, h5Dump(fn, strings.HasPrefix(toks[0], "uint")))
	res := strings.Join(out, " ; ") + fmt.Sprintf(" | calls %d", calls)
	h5HookMu.Lock()
	if len(h5Viol) > 0 {
		res += " LOCK-VIOLATION " + strings.Join(h5Viol, ",")
	}
	h5HookMu.Unlock()
	return res
}

// ---------------------------------------------------------------------------------------------------------------
// H5: oracle — the property's predicates evaluated on the implementation's own outputs

type h5Val struct {
	shape []int
	vals  []int64
}

// a shape of the H5 programs: rank >= 1, extents >= 0 (an extent 0 = an array without elements)
func h5Shape(shape []int) bool {
	if len(shape) == 0 {
		return false
	}
	for _, d := range shape {
		if d < 0 {
			return false
		}
	}
	return true
}

func firstWord(s string) string {
	if f := strings.Fields(s); len(f) > 0 {
		return f[0]
	}
	return "none"
}

// hasZero: the array has no elements because one of its extents is 0
func (v *h5Val) hasZero() bool {
	for _, d := range v.shape {
		if d == 0 {
			return true
		}
	}
	return false
}

// row-major values of a root + chain of slices, from the definition "element i of a slice is element loc + i*step"
// (a slice with an extent 0 has no elements: nothing to look up, whatever its loc)
func h5RefArr(vals []int64, dims []int, chain [][3][]int) (h5Val, bool) {
	cur := h5Val{dims, vals}
	if !h5Shape(dims) || prod(dims) != len(vals) {
		return cur, false
	}
	for _, r := range chain {
		loc, nd, step := r[0], r[1], r[2]
		if step == nil {
			step = make([]int, len(nd))
			for i := range step {
				step[i] = 1
			}
		}
		if len(loc) != len(cur.shape) || len(nd) != len(cur.shape) || len(step) != len(cur.shape) || !h5Shape(nd) {
			return cur, false
		}
		out := make([]int64, prod(nd))
		for k := range out {
			idx := unravel(k, nd)
			src := make([]int, len(idx))
			for d := range idx {
				src[d] = loc[d] + idx[d]*step[d]
			}
			if !inBounds(src, cur.shape) {
				return cur, false
			}
			out[k] = cur.vals[ravel(src, cur.shape)]
		}
		cur = h5Val{nd, out}
	}
	return cur, true
}

func normPath(p string) string {
	var parts []string
	for _, c := range strings.Split(p, "/") {
		if c != "" {
			parts = append(parts, c)
		}
	}
	return strings.Join(parts, "/")
}

func sameI64(a, b []int64) bool {
	if len(a) != len(b) {
		return false
	}
	for i := range a {
		if a[i] != b[i] {
			return false
		}
	}
	return true
}

type h5Claim struct {
	v    h5Val
	why  string // which clause of the property predicts this content
	from int    // op number
}

type h5Oracle struct {
	c      *Ctx
	id     int
	body   string
	scope  func(string) string
	arrs   []*h5Val
	known  map[string]*h5Claim // content of a dataset as last observed through a full Load, or as the property predicts it
	failed bool
	opNo   int
	muts   []h5Mut // every Create / Write / WriteSlice call seen so far (for the history statistics only)
}

type h5Mut struct {
	op   int
	path string
}

// otherPathMutSince: a Create / Write / WriteSlice call on ANOTHER path happened after op `from` (the histories of
// stored_object_persists / write_then_load_across)
func (o *h5Oracle) otherPathMutSince(from int, p string) bool {
	for _, m := range o.muts {
		if m.op > from && m.path != p {
			return true
		}
	}
	return false
}

func (o *h5Oracle) fail(scope, what string) {
	if o.failed {
		return
	}
	o.failed = true
	sc := o.scope(scope)
	if sc == "H5:int-width" {
		// the known finding fires on most int/uint programs: record a few, count the rest, so that the harness's cap on
		// recorded failures is never used up by it
		o.c.Stats.Count("oracle_fail_total:" + sc)
		if o.c.Stats.Hist["oracle_fail:"+sc] >= 25 {
			return
		}
	}
	o.c.OracleFail(o.id, sc, what, o.body)
}

func parseLoadResult(r *tokenReader) (h5Val, string) {
	st := r.next()
	if st != "ok" {
		return h5Val{}, st + " " + r.next()
	}
	shape := r.ints()
	n := r.int()
	vals := make([]int64, n)
	for i := range vals {
		v := r.next()
		var x int64
		fmt.Sscan(v, &x)
		vals[i] = x
	}
	return h5Val{shape, vals}, ""
}

// step processes one op of the program and its result text.
func (o *h5Oracle) step(t *tokenReader, res string) {
	o.opNo++
	r := newTokenReader(res)
	name := t.next()
	switch name {
	case "arr":
		vals, dims, n := t.ints(), t.ints(), t.int()
		chain := make([][3][]int, n)
		for i := range chain {
			chain[i] = [3][]int{t.ints(), t.ints(), optInts(t)}
		}
		v64 := make([]int64, len(vals))
		for i, v := range vals {
			v64[i] = int64(v)
		}
		a, ok := h5RefArr(v64, dims, chain)
		if ok {
			o.arrs = append(o.arrs, &a)
		} else {
			o.arrs = append(o.arrs, nil)
		}
	case "create":
		p, shape := normPath(t.next()), t.ints()
		o.muts = append(o.muts, h5Mut{o.opNo, p})
		k := o.known[p]
		if k == nil {
			return
		}
		o.c.Stats.OracleEvals++
		if sameInts(k.v.shape, shape) {
			if res != "ok" {
				o.fail("create", fmt.Sprintf("op %d: Create of the existing dataset %s with its own shape %v returned %q", o.opNo, p, shape, res))
			}
		} else if !strings.HasPrefix(res, "err") {
			o.fail("create", fmt.Sprintf("op %d: Create of the existing dataset %s (shape %v) with the different shape %v returned %q instead of an error", o.opNo, p, k.v.shape, shape, res))
		}
		o.known[p] = &h5Claim{k.v, "Create on an existing dataset never changes its contents", o.opNo}
	case "write":
		p, ai := normPath(t.next()), t.int()
		o.muts = append(o.muts, h5Mut{o.opNo, p})
		k := o.known[p]
		delete(o.known, p)
		var a *h5Val
		if ai >= 0 && ai < len(o.arrs) {
			a = o.arrs[ai]
		}
		if a != nil && a.hasZero() {
			o.c.Stats.Count("zero_extent_result:write:" + firstWord(res))
			if strings.HasPrefix(res, "panic") {
				// Write evaluates data.Get(data.NewIndex(0)) after opening (or creating) the file and before any dataset is opened
				// or created: a Write that panics there has written nothing (write_empty_panics, OW/Props/C08Seq.lean)
				if k != nil {
					o.known[p] = &h5Claim{k.v, "ZeroExtent (a Write that panics writes nothing)", o.opNo}
				}
				return
			}
		}
		if res == "ok" && a != nil {
			o.known[p] = &h5Claim{*a, "Write then Load returns the same shape and values", o.opNo}
		}
	case "wslice":
		p, ai, loc := normPath(t.next()), t.int(), t.ints()
		o.muts = append(o.muts, h5Mut{o.opNo, p})
		k := o.known[p]
		if k != nil && strings.HasPrefix(k.why, "WriteSlice") {
			o.c.Stats.Count("history:wslice-onto-earlier-wslice")
		}
		delete(o.known, p)
		if ai < 0 || ai >= len(o.arrs) || o.arrs[ai] == nil {
			return
		}
		a := o.arrs[ai]
		zero := a.hasZero()
		if zero {
			o.c.Stats.Count("zero_extent_result:wslice:" + firstWord(res))
		}
		// a sub-array with a zero extent: no element is transferred, so also a call that panics (Unroll() = Impl[s:e+1] with
		// e+1 < s for some zero-wide views that Contiguous() accepts) has written nothing
		if k == nil || (res != "ok" && !(zero && strings.HasPrefix(res, "panic"))) {
			return
		}
		if len(loc) != len(k.v.shape) || len(a.shape) != len(k.v.shape) {
			return
		}
		if zero {
			// the block loc + [0, shape) is empty wherever loc is: nothing changes (writeSlice_empty_noop)
			o.known[p] = &h5Claim{k.v, "ZeroExtent (WriteSlice of a sub-array with a zero extent changes nothing)", o.opNo}
			return
		}
		for d := range loc {
			if loc[d] < 0 || loc[d]+a.shape[d] > k.v.shape[d] {
				return // block not inside the dataset: outside the property (the code swallows the library's error)
			}
		}
		nv := append([]int64{}, k.v.vals...)
		for q := range a.vals {
			idx := unravel(q, a.shape)
			for d := range idx {
				idx[d] += loc[d]
			}
			nv[ravel(idx, k.v.shape)] = a.vals[q]
		}
		o.known[p] = &h5Claim{h5Val{k.v.shape, nv}, "WriteSlice changes exactly the block loc + [0, shape)", o.opNo}
	case "load":
		p, sel := normPath(t.next()), popSel(t)
		got, errText := parseLoadResult(r)
		k := o.known[p]
		subset := false
		for _, e := range sel {
			if e != nil {
				subset = true
			}
		}
		if !subset {
			if errText != "" {
				if k != nil {
					o.c.Stats.OracleEvals++
					o.fail("load", fmt.Sprintf("op %d: Load of the existing dataset %s returned %s", o.opNo, p, errText))
				}
				return
			}
			if k != nil {
				o.c.Stats.OracleEvals++
				if o.otherPathMutSince(k.from, p) {
					o.c.Stats.Count("history:load-checked-across-other-path-mutations")
				} else {
					o.c.Stats.Count("history:load-checked-directly")
				}
				if !sameInts(k.v.shape, got.shape) || !sameI64(k.v.vals, got.vals) {
					o.fail(strings.Fields(k.why)[0], fmt.Sprintf("op %d: Load of %s returned shape %v values %v; expected shape %v values %v (%s, op %d)", o.opNo, p, got.shape, got.vals, k.v.shape, k.v.vals, k.why, k.from))
				}
			}
			o.known[p] = &h5Claim{got, "Load returns what the previous Load returned (no write in between)", o.opNo}
			return
		}
		if k == nil || len(sel) != len(k.v.shape) {
			return
		}
		per := make([][]int, len(sel))
		for d, e := range sel {
			if e == nil {
				per[d] = specIndices(0, k.v.shape[d], 1, k.v.shape[d])
				continue
			}
			if len(e) != 3 || e[0] < 0 || e[2] < 1 {
				return // outside the property's domain
			}
			per[d] = specIndices(e[0], e[1], e[2], k.v.shape[d])
		}
		o.c.Stats.OracleEvals++
		wantShape := make([]int, len(per))
		for d := range per {
			wantShape[d] = len(per[d])
		}
		want := make([]int64, prod(wantShape))
		for q := range want {
			idx := unravel(q, wantShape)
			for d := range idx {
				idx[d] = per[d][idx[d]]
			}
			want[q] = k.v.vals[ravel(idx, k.v.shape)]
		}
		if errText != "" {
			o.fail("selection", fmt.Sprintf("op %d: Load of %s with the valid selection %v returned %s", o.opNo, p, sel, errText))
		} else if !sameInts(got.shape, wantShape) || !sameI64(got.vals, want) {
			o.fail("selection", fmt.Sprintf("op %d: Load of %s (shape %v) with selection %v returned shape %v values %v; the in-memory slice start,start+step,…<min(stop,extent) has shape %v values %v", o.opNo, p, k.v.shape, sel, got.shape, got.vals, wantShape, want))
		}
	case "shape":
		p := normPath(t.next())
		if k := o.known[p]; k != nil {
			o.c.Stats.OracleEvals++
			if r.next() != "ok" || !sameInts(r.ints(), k.v.shape) {
				o.fail("load", fmt.Sprintf("op %d: Shape of %s returned %q, expected %v", o.opNo, p, res, k.v.shape))
			}
		}
	case "exists":
		raw := t.next()
		p := normPath(raw)
		// H5Ref.Exists splits the spelled path on "/" and looks the LAST component up among the datasets, so a spelling with a
		// trailing slash ("g/h/") answers false although Load/Write resolve it; the property says nothing about Exists on such
		// spellings, so the oracle only demands true for spellings whose last component is the dataset name (DESIGN §0.4).
		if k := o.known[p]; k != nil && p != "" && !strings.HasSuffix(raw, "/") {
			o.c.Stats.OracleEvals++
			if res != "ok 1" {
				o.fail("load", fmt.Sprintf("op %d: Exists of the dataset %s returned %q", o.opNo, p, res))
			}
		}
	case "datasets", "groups":
		t.next()
	}
}

// walk runs the oracle over `nops op…` with the implementation's result texts.
func (o *h5Oracle) walk(t *tokenReader, results *[]string) {
	n := t.int()
	for i := 0; i < n; i++ {
		if t.pos < len(t.toks) && t.toks[t.pos] == "par" {
			t.next()
			k := t.int()
			for g := 0; g < k; g++ {
				o.walk(t, results) // programs of a `par` address disjoint datasets: results are listed program by program
			}
			continue
		}
		if len(*results) == 0 {
			return
		}
		res := (*results)[0]
		*results = (*results)[1:]
		if res == "halt" {
			*results = nil
			return
		}
		o.step(t, res)
		if strings.HasPrefix(res, "panic") {
			*results = nil
			return
		}
	}
}

func oracleH5(c *Ctx, id int, body, impl string) {
	elt := strings.SplitN(body, " ", 2)[0]
	narrow := elt == "int" || elt == "uint"
	scope := func(s string) string {
		if narrow && s != "lock" {
			return "H5:int-width"
		}
		return "H5:" + s
	}
	main := impl
	extra := ""
	if i := strings.Index(impl, " | "); i >= 0 {
		main, extra = impl[:i], impl[i+3:]
	}
	if strings.Contains(extra, "LOCK-VIOLATION") {
		c.OracleFail(id, "H5:lock", "library call made without the package lock (or a mutating call without the exclusive lock): "+extra, body)
	}
	if strings.HasPrefix(main, "panic") && !strings.Contains(main, " ; ") { // the worker died
		c.OracleFail(id, scope("crash"), "the process running the case died: "+main, body)
		return
	}
	results := strings.Split(main, " ; ")
	if len(results) == 0 {
		return
	}
	for k, r := range results {
		if strings.HasPrefix(r, "frame ") {
			c.OracleFail(id, "H5:frame", fmt.Sprintf("op %d: Load rewrote the selection it was given (%s): the same selection reused on another dataset no longer addresses the selected region", k, r), body)
			return
		}
	}
	dump := results[len(results)-1]
	results = results[:len(results)-1]
	o := &h5Oracle{c: c, id: id, body: body, scope: scope, known: map[string]*h5Claim{}}
	t := newTokenReader(body)
	t.next()
	rs := append([]string{}, results...)
	o.walk(t, &rs)
	// what the property predicts must also be what the file holds in the end
	d := newTokenReader(dump)
	if d.next() != "D" {
		return
	}
	final := map[string]h5Val{}
	if d.toks[d.pos] != "nofile" && d.toks[d.pos] != "unreadable" {
		n := d.int()
		for i := 0; i < n; i++ {
			kind, p := d.next(), d.next()
			if kind == "S" {
				if d.pos < len(d.toks) && d.toks[d.pos] == "unreadable" {
					d.next()
					continue
				}
				shape := d.ints()
				m := d.int()
				vals := make([]int64, m)
				for j := range vals {
					fmt.Sscan(d.next(), &vals[j])
				}
				final[p] = h5Val{shape, vals}
			}
		}
	}
	paths := make([]string, 0, len(o.known))
	for p := range o.known {
		paths = append(paths, p)
	}
	sort.Strings(paths)
	for _, p := range paths {
		k := o.known[p]
		c.Stats.OracleEvals++
		f, ok := final[p]
		if narrow {
			continue // the dump lists 4-byte file elements for int/uint; the Load-based checks above cover them
		}
		if !ok || !sameInts(f.shape, k.v.shape) || !sameI64(f.vals, k.v.vals) {
			o.fail(strings.Fields(k.why)[0], fmt.Sprintf("at the end the file holds %s = shape %v values %v; expected shape %v values %v (%s, op %d)", p, f.shape, f.vals, k.v.shape, k.v.vals, k.why, k.from))
		}
	}
}

// ---------------------------------------------------------------------------------------------------------------
// H5: generator

type h5Gen struct {
	r      *Rng
	ops    []string
	arrs   [][]int          // shapes of the source arrays
	ds     map[string][]int // datasets the generator believes to exist (normalised path → shape)
	nextV  int
	hasSel bool
	hasW   bool
	z      *Rng     // second stream, used only by zeroOps: the programs without a zero-extent source are drawn as if it did not exist
	zkeys  []string // what zeroOps drew (counted in the family stats)
}

var h5Paths = []string{"a", "b", "g/a", "g/b", "g/h/c", "/a", "/g/a", "x/y/z"}
var h5OddPaths = []string{"g", "g/h", "a/x", "g/a/y", "g/h/", "/", "nope", "g/nope", "//a"}

func (g *h5Gen) add(op string) { g.ops = append(g.ops, op) }

func (g *h5Gen) freshVals(n int) []int {
	out := make([]int, n)
	for i := range out {
		g.nextV = g.nextV%97 + 1
		out[i] = g.nextV
	}
	return out
}

// addArr adds a source array of one of the layouts: contiguous root, contiguous sub-block, stepped, column, nested.
func (g *h5Gen) addArr(rank int, want []int) []int {
	r := g.r
	layout := r.Intn(5)
	if want != nil && !validShape(want) {
		want, rank = nil, len(want) // no extent 0 here (those sources come from zeroOps): some other shape of that rank
	}
	if want != nil && layout != 0 {
		// a view with exactly the wanted shape: embed it in a larger root
		root := make([]int, len(want))
		loc := make([]int, len(want))
		step := make([]int, len(want))
		for d := range want {
			step[d] = r.Range(1, 2)
			loc[d] = r.Intn(2)
			root[d] = loc[d] + (want[d]-1)*step[d] + 1 + r.Intn(2)
		}
		var st []int
		if r.Chance(0.8) {
			st = step
		} else {
			for d := range root {
				root[d] = loc[d] + want[d] + r.Intn(2)
			}
		}
		g.add(fmt.Sprintf("arr %s %s 1 %s %s %s", Is(g.freshVals(prod(root))), Is(root), Is(loc), Is(want), optIs(st)))
		g.arrs = append(g.arrs, want)
		return want
	}
	if want != nil {
		g.add(fmt.Sprintf("arr %s %s 0", Is(g.freshVals(prod(want))), Is(want)))
		g.arrs = append(g.arrs, want)
		return want
	}
	root := make([]int, rank)
	for d := range root {
		root[d] = r.Range(1, 5)
	}
	vals := g.freshVals(prod(root))
	shape := root
	chain := ""
	n := 0
	nsl := 0
	switch layout {
	case 1, 2:
		nsl = 1
	case 3:
		nsl = 2
	}
	if layout == 4 && rank >= 2 { // column view: one index of the last dimension
		loc := make([]int, rank)
		nd := append([]int{}, root...)
		loc[rank-1] = r.Intn(root[rank-1])
		nd[rank-1] = 1
		chain += fmt.Sprintf(" %s %s 0", Is(loc), Is(nd))
		shape = nd
		n++
	}
	for i := 0; i < nsl; i++ {
		loc := make([]int, rank)
		nd := make([]int, rank)
		step := make([]int, rank)
		for d := range shape {
			step[d] = r.Range(1, 3)
			loc[d] = r.Intn(shape[d])
			maxN := (shape[d]-1-loc[d])/step[d] + 1
			nd[d] = r.Range(1, maxN)
		}
		var st []int
		if r.Chance(0.75) {
			st = step
		} else {
			for d := range shape {
				nd[d] = r.Range(1, shape[d]-loc[d])
			}
		}
		chain += fmt.Sprintf(" %s %s %s", Is(loc), Is(nd), optIs(st))
		shape = nd
		n++
	}
	g.add(fmt.Sprintf("arr %s %s %d%s", Is(vals), Is(root), n, chain))
	g.arrs = append(g.arrs, shape)
	return shape
}

// zeroOps adds a source array with an extent 0 — a fresh root without elements (what data.NewArray(dims) gives; ow-sim makes
// NewArray3DFloat64(0,0,0) for models without inputs) or a zero-wide slice of a non-empty root — and uses it against a dataset
// of the same rank: WriteSlice (no element selected: nothing changes, returns nil), then Write (a fresh root panics at
// data.Get(NewIndex(0)) = Impl[0] and the program halts there; a zero-wide slice reads Impl[Start], which usually exists, and goes
// on to the shape check / creates an empty dataset). Every draw comes from g.z.
func (g *h5Gen) zeroOps() {
	z := g.z
	key := func(k string) { g.zkeys = append(g.zkeys, "zero_extent:"+k) }
	// the dataset: an existing one, or a new one at a free path
	keys := make([]string, 0, len(g.ds))
	for k := range g.ds {
		keys = append(keys, k)
	}
	sort.Strings(keys)
	var free []string
	for _, q := range h5Paths {
		if _, ok := g.ds[normPath(q)]; !ok && g.creatable(q) {
			free = append(free, q)
		}
	}
	p, isNew := "", false
	var shape []int
	if len(keys) > 0 && (len(free) == 0 || z.Chance(0.7)) {
		p = keys[z.Intn(len(keys))]
		shape = g.ds[p]
	} else {
		p, isNew = free[z.Intn(len(free))], true
		shape = make([]int, z.Range(1, 3))
		for d := range shape {
			shape[d] = z.Range(1, 5)
		}
	}
	// the shape of the source: a block of the dataset with one extent 0 (sometimes two, sometimes all)
	rank := len(shape)
	if !isNew && z.Chance(0.05) {
		rank = rank%3 + 1 // data of another rank than the dataset
		key("rank-mismatch")
	}
	blk := make([]int, rank)
	for d := range blk {
		ext := 3
		if d < len(shape) && shape[d] >= 1 {
			ext = shape[d]
		}
		blk[d] = z.Range(1, ext)
	}
	zd := z.Intn(rank)
	blk[zd] = 0
	switch {
	case z.Chance(0.1):
		for d := range blk {
			blk[d] = 0
		}
		key("all-extents-0")
	case rank >= 2 && z.Chance(0.15):
		blk[(zd+1+z.Intn(rank-1))%rank] = 0
		key("two-extents-0")
	}
	key(fmt.Sprintf("rank%d", rank))
	if isNew {
		shape = append([]int{}, shape...)
		if z.Chance(0.3) { // ow-sim's pattern: Create([count, 0, 0]) then WriteSlice(NewArray3D(0,0,0), [i, 0, 0])
			for d := range blk {
				if blk[d] == 0 {
					shape[d] = 0
				}
			}
			key("dataset-extent-0")
		}
		g.add(fmt.Sprintf("create %s %s", p, Is(shape)))
		g.ds[normPath(p)] = shape
	}
	// where the block goes
	loc := make([]int, len(shape))
	for d := range loc {
		b := 0
		if d < len(blk) {
			b = blk[d]
		}
		loc[d] = z.Intn(shape[d] - b + 1) // Intn(n <= 0) = 0
	}
	switch {
	case z.Chance(0.08):
		loc[z.Intn(len(loc))] += shape[0] + 1 // an empty block outside the dataset
		key("loc-outside")
	case z.Chance(0.04):
		loc = append(loc, 0) // wrong rank
		key("loc-rank")
	case z.Chance(0.03):
		loc[z.Intn(len(loc))] = -1
		key("loc-negative")
	}
	// the source array
	writeReturns := false // does Write get past data.Get(NewIndex(0))?
	if z.Bool() {
		g.add(fmt.Sprintf("arr 0 %s 0", Is(blk)))
		key("root")
	} else {
		root := make([]int, rank)
		l := make([]int, rank)
		step := make([]int, rank)
		stepped := z.Chance(0.6)
		for d := range blk {
			step[d] = 1
			if stepped {
				step[d] = z.Range(1, 3)
			}
			if blk[d] == 0 {
				root[d] = z.Range(1, 4)
				l[d] = z.Intn(root[d])
				if z.Chance(0.15) {
					l[d] = root[d] // zero-wide at one past the end
					key("slice-past-end")
				}
			} else {
				l[d] = z.Intn(2)
				root[d] = l[d] + (blk[d]-1)*step[d] + 1 + z.Intn(2)
			}
		}
		var st []int
		if stepped {
			st = step
			key("slice-stepped")
		}
		start, stride := 0, 1
		for d := rank - 1; d >= 0; d-- {
			start += l[d] * stride
			stride *= root[d]
		}
		writeReturns = start < prod(root)
		g.add(fmt.Sprintf("arr %s %s 1 %s %s %s", Is(g.freshVals(prod(root))), Is(root), Is(l), Is(blk), optIs(st)))
		key("slice")
	}
	g.arrs = append(g.arrs, blk)
	zi := len(g.arrs) - 1
	g.add(fmt.Sprintf("load %s 0", p))
	g.add(fmt.Sprintf("wslice %s %d %s", p, zi, Is(loc)))
	g.add(fmt.Sprintf("load %s 0", p))
	key("wslice")
	switch x := z.Intn(100); {
	case x < 40: // Write over the dataset: panic, or the shape check
		g.add(fmt.Sprintf("write %s %d", p, zi))
		g.add(fmt.Sprintf("load %s 0", p))
		key("write-existing")
	case x < 70 && len(free) > 1: // Write to a new path: panic, or an empty dataset is created
		q := free[z.Intn(len(free))]
		if normPath(q) != normPath(p) && g.creatable(q) {
			g.add(fmt.Sprintf("write %s %d", q, zi))
			g.add(fmt.Sprintf("load %s 0", q))
			if writeReturns {
				g.ds[normPath(q)] = blk
			}
			key("write-new")
		}
	}
	g.hasW = true
}

func (g *h5Gen) randSel(shape []int, valid bool) [][]int {
	r := g.r
	sel := make([][]int, len(shape))
	any := false
	for d, ext := range shape {
		if r.Chance(0.3) {
			continue
		}
		any = true
		start := r.Intn(ext + 1)
		if r.Chance(0.1) {
			start = ext + r.Intn(3)
		}
		stop := r.Range(0, ext+3)
		if r.Chance(0.5) {
			stop = r.Range(start, ext+2)
		}
		sel[d] = []int{start, stop, r.Range(1, 3)}
	}
	if !any {
		sel[0] = []int{0, shape[0], 1}
	}
	if !valid {
		switch r.Intn(5) {
		case 0:
			sel = append(sel, nil)
		case 1:
			if len(sel) > 1 {
				sel = sel[:len(sel)-1]
				sel[0] = []int{0, 2, 1}
			} else {
				sel = append(sel, []int{0, 1, 1})
			}
		case 2:
			sel[r.Intn(len(sel))] = []int{1, 2}
		case 3:
			sel[r.Intn(len(sel))] = []int{0, 3, 0}
		case 4:
			sel[r.Intn(len(sel))] = []int{-r.Range(1, 2), 3, 1}
		}
	}
	return sel
}

func (g *h5Gen) somePath() string {
	if g.r.Chance(0.12) {
		return h5OddPaths[g.r.Intn(len(h5OddPaths))]
	}
	return h5Paths[g.r.Intn(len(h5Paths))]
}

func (g *h5Gen) existing() (string, []int, bool) {
	if len(g.ds) == 0 {
		return "", nil, false
	}
	keys := make([]string, 0, len(g.ds))
	for k := range g.ds {
		keys = append(keys, k)
	}
	sort.Strings(keys)
	k := keys[g.r.Intn(len(keys))]
	p := k
	if g.r.Chance(0.2) {
		p = "/" + k
	}
	return p, g.ds[k], true
}

// ok: would a dataset at path p be creatable given what exists (no dataset on the way, not a group)?
func (g *h5Gen) creatable(p string) bool {
	n := normPath(p)
	if n == "" || strings.HasSuffix(p, "/") {
		return false
	}
	parts := strings.Split(n, "/")
	for i := 1; i < len(parts); i++ {
		if _, isDs := g.ds[strings.Join(parts[:i], "/")]; isDs {
			return false
		}
	}
	for k := range g.ds {
		if strings.HasPrefix(k, n+"/") {
			return false
		}
	}
	return true
}

func (g *h5Gen) randomOp() {
	r := g.r
	switch x := r.Intn(100); {
	case x < 14: // write a new or existing dataset
		p := g.somePath()
		n := normPath(p)
		var shape []int
		if cur, ok := g.ds[n]; ok && r.Chance(0.8) {
			shape = g.addArr(len(cur), cur)
		} else {
			shape = g.addArr(r.Range(1, 3), nil)
		}
		g.add(fmt.Sprintf("write %s %d", p, len(g.arrs)-1))
		if _, ok := g.ds[n]; !ok && g.creatable(p) {
			g.ds[n] = shape
		}
		g.hasW = true
		g.add(fmt.Sprintf("load %s 0", p))
	case x < 24: // create
		p := g.somePath()
		n := normPath(p)
		var shape []int
		if cur, ok := g.ds[n]; ok {
			shape = append([]int{}, cur...)
			if r.Chance(0.5) {
				if r.Bool() {
					shape[r.Intn(len(shape))] += r.Range(1, 2)
				} else {
					shape = append(shape, 2)
				}
			}
			g.add(fmt.Sprintf("load %s 0", p))
		} else {
			shape = make([]int, r.Range(1, 3))
			for d := range shape {
				shape[d] = r.Range(1, 5)
			}
			if r.Chance(0.05) {
				shape[r.Intn(len(shape))] = 0
			}
		}
		g.add(fmt.Sprintf("create %s %s", p, Is(shape)))
		if _, ok := g.ds[n]; !ok && g.creatable(p) {
			g.ds[n] = shape
		}
		g.add(fmt.Sprintf("load %s 0", p))
	case x < 44: // write a block
		p, shape, ok := g.existing()
		if !ok {
			g.randomOpFallback()
			return
		}
		blk := make([]int, len(shape))
		loc := make([]int, len(shape))
		for d := range shape {
			if shape[d] == 0 {
				g.randomOpFallback()
				return
			}
			blk[d] = r.Range(1, shape[d])
			loc[d] = r.Intn(shape[d] - blk[d] + 1)
		}
		switch {
		case r.Chance(0.08):
			loc[r.Intn(len(loc))] += shape[0] + 1 // block outside the dataset
		case r.Chance(0.04):
			loc = append(loc, 0) // wrong rank
		case r.Chance(0.03):
			loc[r.Intn(len(loc))] = -1
		}
		if r.Chance(0.04) {
			blk = append(blk, 1) // data of another rank than the dataset
		}
		g.addArr(len(blk), blk)
		g.add(fmt.Sprintf("load %s 0", p))
		g.add(fmt.Sprintf("wslice %s %d %s", p, len(g.arrs)-1, Is(loc)))
		if r.Chance(0.3) {
			// history class (writeSlices_last_block_wins / stored_object_persists): 1-3 MORE blocks written to the same dataset
			// with NO Load in between — blocks inside the dataset, overlapping the earlier ones or not — sometimes with a Write /
			// Create on another path in between; the one Load at the end must show, element by element, the last block covering it
			for extra := r.Range(1, 3); extra > 0; extra-- {
				if r.Chance(0.35) {
					q := h5Paths[r.Intn(len(h5Paths))]
					if normPath(q) != normPath(p) && normPath(q) != "" {
						if _, exists := g.ds[normPath(q)]; !exists && g.creatable(q) && r.Bool() {
							sh := []int{r.Range(1, 4), r.Range(1, 4)}
							g.add(fmt.Sprintf("create %s %s", q, Is(sh)))
							g.ds[normPath(q)] = sh
						} else {
							var qs []int
							if cur, ok := g.ds[normPath(q)]; ok {
								qs = g.addArr(len(cur), cur)
							} else {
								qs = g.addArr(r.Range(1, 3), nil)
							}
							g.add(fmt.Sprintf("write %s %d", q, len(g.arrs)-1))
							if _, ok := g.ds[normPath(q)]; !ok && g.creatable(q) {
								g.ds[normPath(q)] = qs
							}
						}
					}
				}
				b2 := make([]int, len(shape))
				l2 := make([]int, len(shape))
				for d := range shape {
					b2[d] = r.Range(1, shape[d])
					l2[d] = r.Intn(shape[d] - b2[d] + 1)
				}
				g.addArr(len(b2), b2)
				g.add(fmt.Sprintf("wslice %s %d %s", p, len(g.arrs)-1, Is(l2)))
			}
		}
		g.add(fmt.Sprintf("load %s 0", p))
		g.hasW = true
	case x < 74: // load with a selection
		p, shape, ok := g.existing()
		if !ok {
			g.randomOpFallback()
			return
		}
		if r.Chance(0.5) {
			g.add(fmt.Sprintf("load %s 0", p))
		}
		g.add(fmt.Sprintf("load %s %s", p, fmtSel(g.randSel(shape, !r.Chance(0.08)))))
		g.hasSel = true
	case x < 80:
		g.add("exists " + g.somePath())
	case x < 84:
		g.add("shape " + g.somePath())
	case x < 90:
		g.add([]string{"datasets ", "groups "}[r.Intn(2)] + []string{"/", "g", "g/h", "a", "nope", "x/y"}[r.Intn(6)])
	case x < 94:
		p := g.somePath()
		if r.Chance(0.5) {
			g.add(fmt.Sprintf("load %s 0", p))
		} else {
			g.add(fmt.Sprintf("load %s 1 1 1 3 0 2 1", p))
		}
	default: // wslice / load on something that may not exist
		p := g.somePath()
		g.addArr(1, []int{2})
		g.add(fmt.Sprintf("wslice %s %d 1 0", p, len(g.arrs)-1))
	}
}

func (g *h5Gen) randomOpFallback() {
	p := h5Paths[g.r.Intn(len(h5Paths))]
	shape := g.addArr(g.r.Range(1, 3), nil)
	g.add(fmt.Sprintf("write %s %d", p, len(g.arrs)-1))
	if _, ok := g.ds[normPath(p)]; !ok && g.creatable(p) {
		g.ds[normPath(p)] = shape
	}
	g.hasW = true
}

func (g *h5Gen) body(elt string) string {
	return fmt.Sprintf("%s %d %s", elt, len(g.ops), strings.Join(g.ops, " "))
}

// concurrent section: k goroutines, each with its own (already created) dataset
func (g *h5Gen) addPar(k int) {
	r := g.r
	type own struct {
		path  string
		shape []int
	}
	owns := make([]own, k)
	for i := range owns {
		shape := make([]int, r.Range(1, 3))
		for d := range shape {
			shape[d] = r.Range(2, 5)
		}
		owns[i] = own{fmt.Sprintf("par/d%d", i), shape}
		if i%2 == 1 {
			owns[i].path = fmt.Sprintf("p%d", i)
		}
		g.add(fmt.Sprintf("create %s %s", owns[i].path, Is(shape)))
		g.ds[owns[i].path] = shape
	}
	// source arrays are made before the goroutines start (the engine's array table is not synchronised)
	type planned struct{ ops []string }
	plans := make([]planned, k)
	for i, o := range owns {
		m := r.Range(3, 7)
		for j := 0; j < m; j++ {
			switch r.Intn(4) {
			case 0:
				g.addArr(len(o.shape), o.shape)
				plans[i].ops = append(plans[i].ops, fmt.Sprintf("write %s %d", o.path, len(g.arrs)-1), fmt.Sprintf("load %s 0", o.path))
			case 1:
				blk := make([]int, len(o.shape))
				loc := make([]int, len(o.shape))
				for d := range blk {
					blk[d] = r.Range(1, o.shape[d])
					loc[d] = r.Intn(o.shape[d] - blk[d] + 1)
				}
				g.addArr(len(blk), blk)
				plans[i].ops = append(plans[i].ops, fmt.Sprintf("load %s 0", o.path), fmt.Sprintf("wslice %s %d %s", o.path, len(g.arrs)-1, Is(loc)), fmt.Sprintf("load %s 0", o.path))
			case 2:
				plans[i].ops = append(plans[i].ops, fmt.Sprintf("load %s 0", o.path), fmt.Sprintf("load %s %s", o.path, fmtSel(g.randSel(o.shape, true))))
			case 3:
				plans[i].ops = append(plans[i].ops, "exists "+o.path, "shape "+o.path)
			}
		}
	}
	var b strings.Builder
	fmt.Fprintf(&b, "par %d", k)
	for _, p := range plans {
		fmt.Fprintf(&b, " %d %s", len(p.ops), strings.Join(p.ops, " "))
	}
	g.add(b.String())
	g.hasW, g.hasSel = true, true
}

func genH5(c *Ctx) {
	c.Stats.Rule = "random programs of Create / Write / WriteSlice / Load(selection) / Exists / Shape / GetDatasets / GetGroups on a fresh file, per element type (8), source arrays of 5 layouts (root, sub-block, stepped, nested, column), selections with nil dimensions, stop/start beyond the extent, steps 1–3, malformed selections and paths; about 6% of the programs (zero_extent_source) add a source array with an extent 0 (fresh root without elements, or a zero-wide slice of a non-empty root, rank 1-3) used in WriteSlice and Write against a dataset of that rank; thorough adds concurrent programs; non-trivial = at least one write and one selection load; distinct by program text"
	N := 1600
	if c.Tier == "thorough" {
		N = 24000
	}
	// fixed corpus first: the expected defects and the edge cases named in the property
	corpus := []string{
		"float64 4 arr 5 1 2 3 4 5 1 5 0 write a 0 load a 0 load a 1 1 1 3 0 5 2",
		"int32 4 arr 6 1 2 3 4 5 6 2 2 3 0 write g/a 0 load g/a 0 load g/a 1 2 0 1 3 0 9 2",
		"int 3 arr 4 1 2 3 4 1 4 0 write a 0 load a 0",
		"uint 3 arr 4 1 2 3 4 1 4 0 write a 0 load a 0",
		"float32 5 create a 2 3 3 arr 2 7 8 2 2 1 0 load a 0 wslice a 0 2 1 2 load a 0",
		"int64 6 create a 1 4 load a 0 create a 1 4 load a 0 create a 1 5 load a 0",
		"uint32 3 arr 1 5 1 1 0 wslice a 0 1 0 exists a",
		"uint64 3 exists / exists a load a 0",
		"float64 3 arr 2 1 2 1 2 0 write g/h/ 0 groups g",
		"float64 5 arr 4 1 2 3 4 2 2 2 0 write a 0 write a/x 0 load a 0 wslice a 0 2 5 5",
		// sources with a zero extent (write_empty_panics / writeSlice_empty_noop of OW/Props/C08Seq.lean)
		"float64 6 create a 3 2 0 0 arr 0 3 0 0 0 0 load a 0 wslice a 0 3 1 0 0 load a 0 write a 0",                           // ow-sim: Create([n,0,0]), WriteSlice(NewArray3D(0,0,0), [i,0,0]); Write panics
		"float64 7 create a 3 2 2 3 load a 0 arr 0 3 2 0 3 0 wslice a 0 3 0 1 0 load a 0 write a 0 load a 0",                  // 2x0x3 root into a 2x2x3 dataset
		"int32 6 arr 6 1 2 3 4 5 6 2 2 3 1 2 0 1 2 2 0 0 write a 0 load a 0 write a 0 load a 0 wslice a 0 2 0 0",              // zero-wide slice of a non-empty root: Get(0) exists, Write makes an empty dataset
		"float32 6 arr 3 1 2 3 1 3 0 write a 0 load a 0 arr 4 1 2 3 4 1 4 1 1 2 1 0 1 1 2 wslice a 1 1 1 load a 0",            // zero-wide STEPPED slice: Unroll() = Impl[2:1] panics inside WriteSlice
		"int64 7 arr 3 1 2 3 1 3 0 write a 0 load a 0 arr 3 4 5 6 1 3 1 1 3 1 0 0 wslice a 1 1 3 load a 0 write a 1 load a 0", // zero-wide slice at one past the end: WriteSlice no-op, Write panics at Impl[3]
	}
	for _, b := range corpus {
		c.Do(b, true)
		c.Stats.Count("corpus")
	}
	for i := 0; i < N; i++ {
		elt := ndTypes[i%len(ndTypes)]
		g := &h5Gen{r: c.R.Fork(), ds: map[string][]int{}}
		g.z = NewRng(g.r.s ^ 0x5a45524f45585400)
		nops := g.r.Range(3, 9)
		zeroAt := -1
		if g.z.Chance(0.06) {
			zeroAt = g.z.Intn(nops + 1)
		}
		for j := 0; j <= nops; j++ {
			if j == zeroAt {
				g.zeroOps()
				c.Stats.Count("zero_extent_source")
				for _, k := range g.zkeys {
					c.Stats.Count(k)
				}
			}
			if j < nops {
				g.randomOp()
			}
		}
		if c.Tier == "thorough" && i%6 == 0 {
			g.addPar(g.r.Range(2, 5))
			c.Stats.Count("par")
			for j := 0; j < 2; j++ {
				g.randomOp()
			}
		}
		c.Stats.Count("elt:" + elt)
		c.Stats.CountN("ops", len(g.ops))
		c.Do(g.body(elt), g.hasSel && g.hasW)
	}
}
