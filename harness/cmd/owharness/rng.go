package main

import "math"

// Rng is splitmix64: every random choice of a run derives from one state, so a seed replays exactly.
type Rng struct{ s uint64 }

func NewRng(seed uint64) *Rng { return &Rng{seed} }

func (r *Rng) U64() uint64 {
	r.s += 0x9e3779b97f4a7c15
	z := r.s
	z = (z ^ (z >> 30)) * 0xbf58476d1ce4e5b9
	z = (z ^ (z >> 27)) * 0x94d049bb133111eb
	return z ^ (z >> 31)
}

// Intn returns a value in [0,n).
func (r *Rng) Intn(n int) int {
	if n <= 0 {
		return 0
	}
	return int(r.U64() % uint64(n))
}

// Range returns an int in [lo,hi].
func (r *Rng) Range(lo, hi int) int { return lo + r.Intn(hi-lo+1) }

// F01 returns a float in [0,1).
func (r *Rng) F01() float64 { return float64(r.U64()>>11) / (1 << 53) }

func (r *Rng) Uniform(lo, hi float64) float64 { return lo + (hi-lo)*r.F01() }

func (r *Rng) Bool() bool { return r.U64()&1 == 1 }

func (r *Rng) Chance(p float64) bool { return r.F01() < p }

// LogUniform in [lo,hi], lo>0.
func (r *Rng) LogUniform(lo, hi float64) float64 {
	return math.Exp(r.Uniform(math.Log(lo), math.Log(hi)))
}

func (r *Rng) Pick(n int) int { return r.Intn(n) }

func (r *Rng) Fork() *Rng { return NewRng(r.U64()) }
