package main

// Generators for the ND family: exhaustive small-scope slice chains + random op sequences through several live
// views of one storage, + a malformed stream (Go back-end only: a malformed op on C memory is undefined behaviour).

import (
	"fmt"
	"strings"
)

func init() {
	register(&Family{Name: "ND", Gen: genND, Exec: execND, Oracle: oracleND, InProc: true})
}

type progBuilder struct {
	r    *Rng
	ref  *refState
	ops  []string
	elt  string
	tag  string
	next int // next fresh element value
	wrap int // values wrap after this one (0: 90)
	// wide: (int / uint programs) values WRITTEN by set/apply/… are sometimes outside the 32-bit range: the C back-end of these two
	// instantiations holds C.int / C.uint (32 bit), the Go back-end 64 bit (finding c-int-width). Root contents stay small: a C
	// root is the caller's buffer of C ints, which cannot hold a wide value in the first place.
	wide   bool
	inRoot bool
	nWide  int
}

func newProg(r *Rng, tag, elt string) *progBuilder {
	p := &progBuilder{r: r, ref: &refState{defined: true}, elt: elt, tag: tag, next: 1}
	if elt == "int" || elt == "uint" {
		p.wide = r.Chance(0.5)
	}
	return p
}

func (p *progBuilder) add(op string) {
	p.ops = append(p.ops, op)
	if p.ref.defined {
		p.ref.step(&tokenReader{toks: strings.Fields(op)}, false)
	} else {
		// keep view numbering aligned even when the reference stopped
		name := strings.Fields(op)[0]
		switch name {
		case "new", "gslice", "cwrap", "slice", "reshape", "rfast", "must":
			p.ref.views = append(p.ref.views, nil)
		}
	}
}

func (p *progBuilder) body() string {
	return fmt.Sprintf("%s %s %d %s", p.tag, p.elt, len(p.ops), strings.Join(p.ops, " "))
}

func (p *progBuilder) liveViews() []int {
	var out []int
	for i, v := range p.ref.views {
		if v != nil {
			out = append(out, i)
		}
	}
	return out
}

func (p *progBuilder) freshVals(n int) []int {
	out := make([]int, n)
	for i := range out {
		out[i] = p.next
		if p.wide && !p.inRoot && p.r.Chance(0.25) {
			// outside the 32-bit range, distinct low words: 2^40+k, (int only) -2^35-k, 2^31+k (fits uint32, not int32), 2^32+k
			switch p.r.Intn(4) {
			case 0:
				out[i] = 1<<40 + p.next
			case 1:
				if p.elt == "int" {
					out[i] = -(1 << 35) - p.next
				} else {
					out[i] = 1<<32 + p.next
				}
			case 2:
				out[i] = 1<<31 + p.next
			default:
				out[i] = 1<<32 + p.next
			}
			p.nWide++
		}
		p.next++
		w := p.wrap
		if w == 0 {
			w = 90
		}
		if p.next > w {
			p.next = 1
		}
	}
	return out
}

func (p *progBuilder) randShape(maxRank, maxExt int) []int {
	rank := p.r.Range(1, maxRank)
	sh := make([]int, rank)
	for i := range sh {
		sh[i] = p.r.Range(1, maxExt)
	}
	return sh
}

func (p *progBuilder) addRoot(isC bool, shape []int) {
	n := prod(shape)
	p.inRoot = true
	defer func() { p.inRoot = false }()
	switch {
	case isC:
		p.add(fmt.Sprintf("cwrap %s %s", Is(p.freshVals(n)), Is(shape)))
	case p.r.Chance(0.3):
		p.add(fmt.Sprintf("new %s", Is(shape)))
	default:
		p.add(fmt.Sprintf("gslice %s %s", Is(p.freshVals(n)), Is(shape)))
	}
}

// addLongAxisRoots: the LONG-AXIS class. Fast paths keyed on a size threshold (row-wise copy for rows of 8/16/32+ elements,
// chunked loops) only show on long rows. One axis (mostly the last) is long, the others stay small; a second root of the same
// rank that fits into the first one (same long axis, mostly) gives applySlice / copyFrom sources with long rows.
func (p *progBuilder) addLongAxisRoots(c1, c2 bool) {
	r := p.r
	L := []int{8, 9, 15, 16, 17, 20, 32, 33, 64}[r.Intn(9)]
	rank := r.Range(1, 3)
	sh := make([]int, rank)
	for d := range sh {
		sh[d] = r.Range(1, 4)
	}
	long := rank - 1
	if r.Chance(0.2) {
		long = r.Intn(rank)
	}
	sh[long] = L
	p.wrap = 9000 // distinct values over the whole storage (exact in every element type)
	p.addRoot(c1, sh)
	if r.Chance(0.8) {
		sh2 := make([]int, rank)
		for d := range sh2 {
			sh2[d] = r.Range(1, sh[d])
		}
		if r.Chance(0.7) {
			sh2[long] = L
		}
		p.addRoot(c2, sh2)
	}
}

// randSlice draws an in-bounds (loc, dims, step) for a view of the given shape.
func (p *progBuilder) randSlice(shape []int, maxStep int) (loc, dims, step []int) {
	n := len(shape)
	loc, dims, step = make([]int, n), make([]int, n), make([]int, n)
	allOne := true
	for i := 0; i < n; i++ {
		step[i] = 1
		if p.r.Chance(0.4) {
			step[i] = p.r.Range(1, maxStep)
		}
		loc[i] = p.r.Intn(shape[i])
		maxd := (shape[i]-1-loc[i])/step[i] + 1
		dims[i] = p.r.Range(1, maxd)
		if p.r.Chance(0.3) {
			loc[i], dims[i], step[i] = 0, shape[i], 1 // whole dimension
		}
		if step[i] != 1 {
			allOne = false
		}
	}
	if allOne && p.r.Chance(0.5) {
		step = nil
	}
	return
}

func optIs(step []int) string {
	if step == nil {
		return "0"
	}
	return "1 " + Is(step)
}

func (p *progBuilder) randIdx(shape []int) []int {
	idx := make([]int, len(shape))
	for i := range idx {
		idx[i] = p.r.Intn(shape[i])
	}
	return idx
}

func factorizations(n int, maxRank int) [][]int {
	var out [][]int
	var rec func(rem int, cur []int)
	rec = func(rem int, cur []int) {
		if len(cur) > 0 && rem == 1 {
			out = append(out, append([]int{}, cur...))
		}
		if len(cur) == maxRank {
			return
		}
		for d := 1; d <= rem; d++ {
			if rem%d == 0 && !(d == 1 && rem == 1 && len(cur) > 0 && len(cur) >= 2) {
				rec(rem/d, append(cur, d))
			}
		}
	}
	rec(n, nil)
	return out
}

// addRandomOp appends one op that is valid w.r.t. the reference (mostly) on the live views.
func (p *progBuilder) addRandomOp(allowArrayOps bool) {
	live := p.liveViews()
	if len(live) == 0 {
		p.addRoot(false, p.randShape(3, 4))
		return
	}
	vi := live[p.r.Intn(len(live))]
	v := p.ref.views[vi]
	sameShape := func() (int, bool) {
		var c []int
		for _, j := range live {
			w := p.ref.views[j]
			if j != vi && sameInts(w.shape, v.shape) && !overlaps(w, v) {
				c = append(c, j)
			}
		}
		if len(c) == 0 {
			return 0, false
		}
		return c[p.r.Intn(len(c))], true
	}
	switch k := p.r.Intn(20); {
	case k < 4: // slice
		loc, dims, step := p.randSlice(v.shape, 3)
		p.add(fmt.Sprintf("slice %d %s %s %s", vi, Is(loc), Is(dims), optIs(step)))
		p.add(fmt.Sprintf("unroll %d", len(p.ref.views)-1))
	case k < 6:
		p.add(fmt.Sprintf("get %d %s", vi, Is(p.randIdx(v.shape))))
	case k < 8:
		p.add(fmt.Sprintf("set %d %s %d", vi, Is(p.randIdx(v.shape)), p.freshVals(1)[0]))
	case k < 10: // apply along a dim
		loc := p.randIdx(v.shape)
		dim := p.r.Intn(len(v.shape))
		step := p.r.Range(1, 2)
		maxn := (v.shape[dim]-1-loc[dim])/step + 1
		n := p.r.Range(1, maxn)
		p.add(fmt.Sprintf("apply %d %s %d %d %s", vi, Is(loc), dim, step, Is(p.freshVals(n))))
	case k < 12: // applySlice from another view that fits
		var cands []int
		for _, j := range live {
			w := p.ref.views[j]
			if len(w.shape) == len(v.shape) && (w.root != v.root || p.r.Chance(0.1)) {
				fits := true
				for d := range w.shape {
					if w.shape[d] > v.shape[d] {
						fits = false
					}
				}
				if fits {
					cands = append(cands, j)
				}
			}
		}
		if len(cands) == 0 {
			p.add(fmt.Sprintf("contig %d", vi))
			return
		}
		sj := cands[p.r.Intn(len(cands))]
		w := p.ref.views[sj]
		n := len(v.shape)
		loc, step := make([]int, n), make([]int, n)
		for d := 0; d < n; d++ {
			step[d] = 1
			if w.shape[d] > 1 && p.r.Chance(0.3) {
				maxs := (v.shape[d] - 1) / (w.shape[d] - 1)
				step[d] = p.r.Range(1, maxs)
			}
			loc[d] = p.r.Intn(v.shape[d] - (w.shape[d]-1)*step[d])
		}
		var st []int = step
		if p.r.Chance(0.3) {
			allOne := true
			for _, s := range step {
				if s != 1 {
					allOne = false
				}
			}
			if allOne {
				st = nil
			}
		}
		p.add(fmt.Sprintf("aslice %d %s %s %d", vi, Is(loc), optIs(st), sj))
	case k < 13: // copyFrom a same-shape view
		if sj, ok := sameShape(); ok {
			p.add(fmt.Sprintf("copy %d %d", vi, sj))
		} else {
			p.add(fmt.Sprintf("unroll %d", vi))
		}
	case k < 14:
		p.add(fmt.Sprintf("unroll %d", vi))
	case k < 16: // reshape
		fs := factorizations(len(v.pos), 3)
		sh := fs[p.r.Intn(len(fs))]
		op := []string{"reshape", "reshape", "rfast", "must"}[p.r.Intn(4)]
		if op == "must" && p.r.Chance(0.0) {
			op = "reshape"
		}
		if p.r.Chance(0.1) && op != "must" { // wrong size
			sh = append([]int{}, sh...)
			sh[0]++
		}
		p.add(fmt.Sprintf("%s %d %s", op, vi, Is(sh)))
		if nv := p.ref.views[len(p.ref.views)-1]; nv != nil {
			p.add(fmt.Sprintf("unroll %d", len(p.ref.views)-1))
		}
	case k < 17:
		p.add(fmt.Sprintf("contig %d", vi))
	case k < 18:
		switch len(v.shape) {
		case 1:
			i := p.r.Intn(v.shape[0])
			switch p.r.Intn(3) {
			case 0:
				p.add(fmt.Sprintf("get1 %d %d", vi, i))
			case 1:
				p.add(fmt.Sprintf("set1 %d %d %d", vi, i, p.freshVals(1)[0]))
			default:
				step := p.r.Range(1, 2)
				n := p.r.Range(1, (v.shape[0]-1-i)/step+1)
				p.add(fmt.Sprintf("apply1 %d %d %d %s", vi, i, step, Is(p.freshVals(n))))
			}
		case 2:
			idx := p.randIdx(v.shape)
			if p.r.Bool() {
				p.add(fmt.Sprintf("get2 %d %d %d", vi, idx[0], idx[1]))
			} else {
				p.add(fmt.Sprintf("set2 %d %d %d %d", vi, idx[0], idx[1], p.freshVals(1)[0]))
			}
		case 3:
			idx := p.randIdx(v.shape)
			if p.r.Bool() {
				p.add(fmt.Sprintf("get3 %d %d %d %d", vi, idx[0], idx[1], idx[2]))
			} else {
				p.add(fmt.Sprintf("set3 %d %d %d %d %d", vi, idx[0], idx[1], idx[2], p.freshVals(1)[0]))
			}
		default:
			p.add(fmt.Sprintf("shape %d", vi))
		}
	case k < 19:
		if p.r.Bool() {
			p.add(fmt.Sprintf("max %d", vi))
		} else {
			p.add(fmt.Sprintf("min %d", vi))
		}
	default:
		if sj, ok := sameShape(); ok && allowArrayOps {
			if p.r.Bool() {
				p.add(fmt.Sprintf("scale %d %d %d", vi, sj, p.r.Range(0, 3))) // 0 and 1 included: no shortcut may skip the store
			} else {
				p.add(fmt.Sprintf("addto %d %d", vi, sj))
			}
		} else {
			p.add(fmt.Sprintf("len %d %d", vi, p.r.Intn(len(v.shape))))
		}
	}
}

// malformedOp appends an op outside the reference's domain (error branches of the code).
func (p *progBuilder) malformedOp() {
	live := p.liveViews()
	if len(live) == 0 {
		p.add("new 0")
		return
	}
	vi := live[p.r.Intn(len(live))]
	v := p.ref.views[vi]
	n := len(v.shape)
	switch p.r.Intn(12) {
	case 0: // out-of-bounds get
		idx := p.randIdx(v.shape)
		idx[p.r.Intn(n)] += v.shape[0] + p.r.Range(0, 30)
		p.add(fmt.Sprintf("get %d %s", vi, Is(idx)))
	case 1: // negative index
		idx := p.randIdx(v.shape)
		idx[p.r.Intn(n)] = -p.r.Range(1, 40)
		p.add(fmt.Sprintf("set %d %s 5", vi, Is(idx)))
	case 2: // loc longer than rank
		idx := append(p.randIdx(v.shape), 0)
		p.add(fmt.Sprintf("get %d %s", vi, Is(idx)))
	case 3: // loc shorter than rank
		p.add(fmt.Sprintf("get %d %s", vi, Is(p.randIdx(v.shape)[:n-1])))
	case 4: // slice with dims beyond the parent
		loc, dims, step := p.randSlice(v.shape, 2)
		dims[p.r.Intn(n)] += p.r.Range(1, 3)
		p.add(fmt.Sprintf("slice %d %s %s %s", vi, Is(loc), Is(dims), optIs(step)))
		p.add(fmt.Sprintf("contig %d", len(p.ref.views)-1))
		p.add(fmt.Sprintf("unroll %d", len(p.ref.views)-1))
	case 5: // slice with zero / negative step, zero dims
		loc, dims, _ := p.randSlice(v.shape, 1)
		step := make([]int, n)
		for i := range step {
			step[i] = p.r.Range(-1, 1)
		}
		if p.r.Bool() {
			dims[p.r.Intn(n)] = 0
		}
		p.add(fmt.Sprintf("slice %d %s %s 1 %s", vi, Is(loc), Is(dims), Is(step)))
		p.add(fmt.Sprintf("contig %d", len(p.ref.views)-1))
		p.add(fmt.Sprintf("unroll %d", len(p.ref.views)-1))
	case 6: // slice with rank-lowering dims (as the generated wrappers do for table parameters)
		loc := p.randIdx(v.shape)
		dims := []int{p.r.Range(1, v.shape[0]-loc[0])}
		p.add(fmt.Sprintf("slice %d %s %s 0", vi, Is(loc), Is(dims)))
		nv := len(p.ref.views) - 1
		p.add(fmt.Sprintf("contig %d", nv))
		p.add(fmt.Sprintf("get %d 1 0", nv))
		p.add(fmt.Sprintf("get1 %d 0", nv))
		p.add(fmt.Sprintf("unroll %d", nv))
	case 7: // apply beyond the end / bad dim
		loc := p.randIdx(v.shape)
		dim := p.r.Range(-1, n)
		p.add(fmt.Sprintf("apply %d %s %d %d %s", vi, Is(loc), dim, p.r.Range(0, 3), Is(p.freshVals(p.r.Range(0, v.shape[0]+2)))))
	case 8: // reshape to empty shape / zero
		switch p.r.Intn(3) {
		case 0:
			p.add(fmt.Sprintf("reshape %d 0", vi))
		case 1:
			p.add(fmt.Sprintf("reshape %d 2 0 %d", vi, len(v.pos)))
		default:
			p.add(fmt.Sprintf("must %d 1 %d", vi, len(v.pos)+1))
		}
	case 9: // aslice with a source that does not fit
		sj := live[p.r.Intn(len(live))]
		loc := p.randIdx(v.shape)
		p.add(fmt.Sprintf("aslice %d %s 0 %d", vi, Is(loc), sj))
	case 10: // get1/set1 on multi-dim views, len on bad axis
		switch p.r.Intn(3) {
		case 0:
			p.add(fmt.Sprintf("get1 %d %d", vi, p.r.Range(0, 3)))
		case 1:
			p.add(fmt.Sprintf("set1 %d %d 9", vi, p.r.Range(0, 3)))
		default:
			p.add(fmt.Sprintf("len %d %d", vi, p.r.Range(-1, n+1)))
		}
	default: // overlapping copy (the two copy paths genuinely differ here: only model = code is checked)
		loc, dims, step := p.randSlice(v.shape, 1)
		_ = step
		p.add(fmt.Sprintf("slice %d %s %s 0", vi, Is(loc), Is(dims)))
		a := len(p.ref.views) - 1
		loc2 := append([]int{}, loc...)
		if loc2[n-1] > 0 {
			loc2[n-1]--
		}
		p.add(fmt.Sprintf("slice %d %s %s 0", vi, Is(loc2), Is(dims)))
		b := len(p.ref.views) - 1
		if p.r.Bool() || p.elt == "int" || p.elt == "uint" {
			p.add(fmt.Sprintf("copy %d %d", a, b))
		} else {
			p.add(fmt.Sprintf("addto %d %d", b, a))
		}
	}
}

func genND(c *Ctx) {
	c.Stats.Rule = "programs of array ops on one or two root storages through several live views: (a) exhaustive slice chains " +
		"(every root shape of rank 1–3 with extents ≤ E, every in-bounds (loc,dims,step≤S), depth ≤ D; each new view is unrolled and probed), " +
		"(b) random sequences of slice/get/set/apply/applySlice/copyFrom/unroll/reshape/contiguous/get1…/max/min/scale/addto valid w.r.t. the reference semantics, " +
		"(c) malformed stream on the Go back-end; non-trivial = the program creates at least one derived view and performs a write or a bulk op; distinct by program text"
	types := ndTypes // all 8 element-type instantiations, both back-ends, in every tier
	if t := c.Arg("types", ""); t != "" && t != "all" {
		types = strings.Split(t, ",")
	}
	nontrivial := func(p *progBuilder) bool {
		derived, write := false, false
		for _, o := range p.ops {
			switch strings.Fields(o)[0] {
			case "slice", "reshape", "rfast", "must":
				derived = true
			case "set", "apply", "aslice", "copy", "set1", "apply1", "set2", "set3", "scale", "addto", "unroll":
				write = true
			}
		}
		return derived && write
	}
	emit := func(p *progBuilder) {
		c.Do(p.body(), nontrivial(p))
		c.Stats.Count("backend:" + p.tag)
		c.Stats.Count("eltype:" + p.elt)
		if p.nWide > 0 {
			c.Stats.Count("programs_writing_values_outside_32_bits:" + p.elt + ":" + p.tag)
		}
		c.Stats.Count(fmt.Sprintf("ops:%s", bucket(len(p.ops))))
		if !p.ref.defined {
			c.Stats.Count("programs_leaving_reference_domain")
		}
	}

	// (a) exhaustive two-level slice chains on small roots
	E, S := 3, 2
	if c.Tier == "thorough" {
		E, S = 4, 3
	}
	c.Stats.Exhaustive = false
	for _, isC := range []bool{false, true} {
		tag := "g"
		if isC {
			tag = "c"
		}
		for rank := 1; rank <= 3; rank++ {
			shapes := allShapes(rank, E)
			for _, sh := range shapes {
				triples := allSlices(sh, S)
				// one program per root shape and chunk of first-level slices; second level sampled per first-level slice
				for ci := 0; ci < len(triples); ci += 8 {
					p := newProg(c.R, tag, types[c.R.Intn(len(types))])
					p.addRoot(isC, sh)
					for _, tr := range triples[ci:minI(ci+8, len(triples))] {
						p.add(fmt.Sprintf("slice 0 %s %s %s", Is(tr[0]), Is(tr[1]), optIs(tr[2])))
						a := len(p.ref.views) - 1
						p.add(fmt.Sprintf("contig %d", a))
						p.add(fmt.Sprintf("unroll %d", a))
						// nested slice of the slice (depth 2), all of them when small, sampled otherwise
						inner := allSlices(tr[1], S)
						take := 3
						if c.Tier == "thorough" {
							take = 8
						}
						for k := 0; k < take && len(inner) > 0; k++ {
							it := inner[c.R.Intn(len(inner))]
							p.add(fmt.Sprintf("slice %d %s %s %s", a, Is(it[0]), Is(it[1]), optIs(it[2])))
							b := len(p.ref.views) - 1
							p.add(fmt.Sprintf("contig %d", b))
							p.add(fmt.Sprintf("unroll %d", b))
							if c.R.Chance(0.3) { // depth 3 + a write through the deepest view
								in3 := allSlices(it[1], S)
								i3 := in3[c.R.Intn(len(in3))]
								p.add(fmt.Sprintf("slice %d %s %s %s", b, Is(i3[0]), Is(i3[1]), optIs(i3[2])))
								d := len(p.ref.views) - 1
								p.add(fmt.Sprintf("set %d %s 99", d, Is(make([]int, len(sh)))))
								p.add(fmt.Sprintf("unroll %d", d))
							}
						}
					}
					emit(p)
					c.Stats.Count("exhaustive_chain_programs")
				}
			}
		}
	}

	// (b) random programs
	N := parseI(c.Arg("n", "1500"))
	if c.Tier == "thorough" {
		N *= 10
	}
	for i := 0; i < N; i++ {
		elt := types[c.R.Intn(len(types))]
		mode := c.R.Intn(10)
		tag := "g"
		if mode >= 6 {
			tag = "c"
		}
		if mode == 9 {
			tag = "m" // mixed: C root + Go root in one program
		}
		p := newProg(c.R, tag, elt)
		arrayOps := elt != "int" && elt != "uint"
		maxExt := 4
		if c.R.Chance(0.2) {
			maxExt = 6
		}
		maxRank := 3
		if c.R.Chance(0.1) {
			maxRank = 4
		}
		nops := c.R.Range(3, 30)
		if c.R.Chance(0.15) {
			p.addLongAxisRoots(tag != "g", tag == "c")
			nops = c.R.Range(3, 14)
			c.Stats.Count("long_axis_programs")
		} else {
			p.addRoot(tag != "g", p.randShape(maxRank, maxExt))
			if c.R.Chance(0.5) {
				p.addRoot(tag == "c", p.randShape(3, 4))
			}
		}
		for k := 0; k < nops; k++ {
			p.addRandomOp(arrayOps)
		}
		emit(p)
	}

	// (d) the whole-array helpers (Scale = ApplyFunc1, AddTo) on EVERY combination of destination / source back-end and
	// destination / source contiguity ("all source/destination contiguity combinations of the two-array operations"): each helper has
	// one path per combination, and a path that computes into an unrolled copy must store it back
	for _, elt := range []string{"float64", "int32", "float32", "uint64"} {
		for _, tag := range []string{"g", "c", "m"} {
			for _, destFirst := range []bool{true, false} {
				for mask := 0; mask < 4; mask++ {
					dc, sc := mask&1 != 0, mask&2 != 0
					for _, op := range []string{"scale", "addto"} {
						p := newProg(c.R, tag, elt)
						p.wrap = 9000
						shapeOf := func(contig bool) []int {
							if contig {
								return []int{4, 6}
							}
							return []int{4, 12}
						}
						stepOf := func(contig bool) string {
							if contig {
								return "0"
							}
							return "1 " + Is([]int{1, 2})
						}
						first, second := dc, sc
						if !destFirst {
							first, second = sc, dc
						}
						p.addRoot(tag != "g", shapeOf(first))
						p.addRoot(tag == "c", shapeOf(second))
						p.add(fmt.Sprintf("slice 0 %s %s %s", Is([]int{1, 0}), Is([]int{2, 6}), stepOf(first)))
						p.add(fmt.Sprintf("slice 1 %s %s %s", Is([]int{1, 0}), Is([]int{2, 6}), stepOf(second)))
						dv, sv := 2, 3
						if !destFirst {
							dv, sv = 3, 2
						}
						if op == "scale" {
							p.add(fmt.Sprintf("scale %d %d 3", dv, sv))
						} else {
							p.add(fmt.Sprintf("addto %d %d", dv, sv))
						}
						p.add(fmt.Sprintf("unroll %d", dv))
						p.add(fmt.Sprintf("contig %d", dv))
						emit(p)
						c.Stats.Count("array_op_matrix_programs")
					}
				}
			}
		}
	}

	// (c) malformed stream, Go back-end only
	M := N / 4
	for i := 0; i < M; i++ {
		p := newProg(c.R, "g", types[c.R.Intn(len(types))])
		ao := p.elt != "int" && p.elt != "uint"
		p.addRoot(false, p.randShape(3, 4))
		for k := 0; k < c.R.Range(0, 6); k++ {
			p.addRandomOp(ao)
		}
		p.malformedOp()
		for k := 0; k < c.R.Range(0, 3); k++ {
			p.addRandomOp(ao)
		}
		emit(p)
		c.Stats.Count("malformed_programs")
	}
}

func minI(a, b int) int {
	if a < b {
		return a
	}
	return b
}

func allShapes(rank, E int) [][]int {
	var out [][]int
	var rec func(cur []int)
	rec = func(cur []int) {
		if len(cur) == rank {
			out = append(out, append([]int{}, cur...))
			return
		}
		for d := 1; d <= E; d++ {
			rec(append(cur, d))
		}
	}
	rec(nil)
	return out
}

// allSlices enumerates every in-bounds (loc, dims, step) with steps ≤ S (step nil added for the all-ones case).
func allSlices(shape []int, S int) [][3][]int {
	n := len(shape)
	var out [][3][]int
	var rec func(d int, loc, dims, step []int)
	rec = func(d int, loc, dims, step []int) {
		if d == n {
			out = append(out, [3][]int{append([]int{}, loc...), append([]int{}, dims...), append([]int{}, step...)})
			allOne := true
			for _, s := range step {
				if s != 1 {
					allOne = false
				}
			}
			if allOne {
				out = append(out, [3][]int{append([]int{}, loc...), append([]int{}, dims...), nil})
			}
			return
		}
		for l := 0; l < shape[d]; l++ {
			for s := 1; s <= S; s++ {
				for k := 1; l+(k-1)*s < shape[d]; k++ {
					if k == 1 && s > 1 {
						continue // step irrelevant for a single element
					}
					rec(d+1, append(loc, l), append(dims, k), append(step, s))
				}
			}
		}
	}
	rec(0, nil, nil, nil)
	return out
}
