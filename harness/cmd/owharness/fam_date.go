package main

import (
	"fmt"
	"strings"
	"time"
)

// DATE family (C19): the real DateGenerator wrapper+kernel run through the catalogue.
// ops:  DATE id d m y n          impl: id ok n (d m y doy)*n   |  id panic <class>
func init() {
	register(&Family{Name: "DATE", Gen: genDate, Exec: execDate, Oracle: oracleDate})
}

func execDate(body string) string {
	t := newTokenReader(body)
	d, m, y, n := t.int(), t.int(), t.int(), t.int()
	rc := &RunCase{Model: "DateGenerator", Cells: 1,
		Params: [][]float64{{float64(d)}, {float64(m)}, {float64(y)}},
		Inputs: [][][]float64{{make([]float64, n)}}}
	res := RunOn(nil, rc)
	var b strings.Builder
	fmt.Fprintf(&b, "ok %d", n)
	o := res.Outputs[0]
	for t := 0; t < n; t++ {
		fmt.Fprintf(&b, " %d %d %d %d", int64(o[0][t]), int64(o[1][t]), int64(o[2][t]), int64(o[3][t]))
	}
	return b.String()
}

// oracle: Go's time package as an independent proleptic Gregorian calendar
func oracleDate(c *Ctx, id int, body, impl string) {
	t := newTokenReader(body)
	d, m, y, n := t.int(), t.int(), t.int(), t.int()
	if y < 1 || y > 9000 || m < 1 || m > 12 || d < 1 || d > time.Date(y, time.Month(m)+1, 0, 0, 0, 0, 0, time.UTC).Day() {
		return // not a valid start date: the property says nothing
	}
	c.Stats.OracleEvals++
	toks := strings.Fields(impl)
	if len(toks) < 2 || toks[0] != "ok" {
		c.OracleFail(id, "DateGenerator", "valid start date but the run did not complete: "+impl, body)
		return
	}
	toks = toks[2:]
	t0 := time.Date(y, time.Month(m), d, 0, 0, 0, 0, time.UTC)
	for k := 0; k < n; k++ {
		tt := t0.AddDate(0, 0, k)
		exp := fmt.Sprintf("%d %d %d %d", tt.Day(), int(tt.Month()), tt.Year(), tt.YearDay())
		got := strings.Join(toks[4*k:4*k+4], " ")
		if exp != got {
			c.OracleFail(id, "DateGenerator", fmt.Sprintf("step %d: calendar says %s, generator emitted %s", k, exp, got), body)
			return
		}
	}
}

func genDate(c *Ctx) {
	c.Stats.Rule = "start dates × run lengths through sim.Catalog[DateGenerator]; non-trivial = run crosses at least one month end; distinct by (d,m,y,n); plus a malformed stream (month 0/13, day 0/32)"
	emit := func(d, m, y, n int) {
		c.Do(fmt.Sprintf("%d %d %d %d", d, m, y, n), d+n > 28)
		if d+n > 28 {
			c.Stats.Count("crosses_month_end")
		}
		if m == 12 && d+n > 31 {
			c.Stats.Count("crosses_year_end")
		}
		if m == 2 {
			c.Stats.Count("starts_in_feb")
		}
	}
	dim := func(m, y int) int {
		return time.Date(y, time.Month(m)+1, 0, 0, 0, 0, 0, time.UTC).Day()
	}
	// corpus of edge cases first
	for _, e := range [][4]int{{28, 2, 1900, 3}, {28, 2, 2000, 3}, {31, 12, 1999, 2}, {29, 2, 2004, 2}, {1, 1, 1, 400}, {28, 2, 2100, 2}, {30, 4, 2023, 2}, {31, 12, 2400, 367}} {
		emit(e[0], e[1], e[2], e[3])
	}
	// "for any number of steps": two VERY long runs (more than a full 400-year cycle; more than 2^63 ns / 86400e9 ns = 106 751 days, the
	// point at which a day count turned into a time.Duration wraps) — a counter, accumulator or unit conversion that is only wrong
	// after many steps shows nowhere else
	emit(1, 1, 1800, 110000)
	emit(17, 8, 1, 150000)
	c.Stats.Count("very_long_runs")
	c.Stats.Count("very_long_runs")
	// malformed stream: the code panics (month index) or free-runs; model must agree
	for _, e := range [][4]int{{1, 13, 2000, 2}, {1, 0, 2000, 2}, {0, 1, 2000, 3}, {32, 1, 2001, 3}, {31, 12, 2000, 0}, {5, 14, 1999, 1}, {40, 12, 1999, 2}} {
		emit(e[0], e[1], e[2], e[3])
		c.Stats.Count("malformed")
	}
	if c.Tier == "thorough" {
		// every day of a full 400-year cycle as a start date
		c.Stats.Exhaustive = true
		for y := 2000; y < 2400; y++ {
			for m := 1; m <= 12; m++ {
				for d := 1; d <= dim(m, y); d++ {
					n := 2
					if d >= 27 {
						n = 40
					}
					if c.R.Chance(0.002) {
						n = c.R.Range(300, 800)
					}
					emit(d, m, y, n)
				}
			}
		}
	}
	N := 4000
	if c.Tier == "thorough" {
		N = 20000
	}
	for i := 0; i < N; i++ {
		var y int
		switch c.R.Intn(4) {
		case 0:
			y = []int{1600, 1700, 1800, 1900, 2000, 2100, 2400, 4, 100, 400, 1999, 2399}[c.R.Intn(12)]
		case 1:
			y = c.R.Range(1, 9000)
		default:
			y = c.R.Range(1580, 2420)
		}
		m := c.R.Range(1, 12)
		if c.R.Chance(0.3) {
			m = []int{2, 12, 1}[c.R.Intn(3)]
		}
		d := c.R.Range(1, dim(m, y))
		if c.R.Chance(0.4) {
			d = dim(m, y) - c.R.Intn(2)
		}
		n := c.R.Range(1, 70)
		if c.R.Chance(0.05) {
			n = c.R.Range(300, 800)
		}
		emit(d, m, y, n)
	}
}
