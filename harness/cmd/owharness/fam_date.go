package main

import (
	"fmt"
	"strings"
	"time"
)

// DATE family (C19): the real DateGenerator wrapper+kernel run through the catalogue.
// ops:  DATE id d m y n          impl: id ok n (d m y doy)*n   |  id panic
func init() { register("DATE", genDate) }

func runDate(d, m, y, n int) string {
	rc := &RunCase{Model: "DateGenerator", Cells: 1,
		Params: [][]float64{{float64(d)}, {float64(m)}, {float64(y)}},
		Inputs: [][][]float64{{make([]float64, n)}}}
	res := RunOn(nil, rc)
	var b strings.Builder
	fmt.Fprintf(&b, "ok %d", n)
	o := res.Outputs[0]
	for t := 0; t < n; t++ {
		fmt.Fprintf(&b, " %d %d %d %d", int64(o[0][t]), int64(o[1][t]), int64(o[2][t]), int64(o[3][t]))
	}
	return b.String()
}

func genDate(c *Ctx) {
	c.Stats.Rule = "start dates × run lengths through sim.Catalog[DateGenerator]; non-trivial = run crosses at least one month end; distinct by (d,m,y,n)"
	emit := func(d, m, y, n int) {
		out := runDate(d, m, y, n)
		// oracle: Go's time package as an independent proleptic Gregorian calendar
		ok := true
		if y >= 1 && y <= 9000 {
			t0 := time.Date(y, time.Month(m), d, 0, 0, 0, 0, time.UTC)
			toks := strings.Fields(out)[2:]
			for k := 0; k < n; k++ {
				tt := t0.AddDate(0, 0, k)
				exp := fmt.Sprintf("%d %d %d %d", tt.Day(), int(tt.Month()), tt.Year(), tt.YearDay())
				got := strings.Join(toks[4*k:4*k+4], " ")
				if exp != got {
					ok = false
					id := c.Emit(fmt.Sprintf("%d %d %d %d", d, m, y, n), out, true)
					c.OracleFail(id, "DateGenerator", fmt.Sprintf("step %d: expected %s got %s", k, exp, got), fmt.Sprintf("%d %d %d %d", d, m, y, n))
					break
				}
			}
			c.Stats.OracleEvals++
		}
		if ok {
			crosses := d+n > 28
			c.Emit(fmt.Sprintf("%d %d %d %d", d, m, y, n), out, crosses)
		}
		if d+n > 28 {
			c.Stats.Count("crosses_month_end")
		}
		if m == 12 && d+n > 31 {
			c.Stats.Count("crosses_year_end")
		}
		if m == 2 {
			c.Stats.Count("starts_in_feb")
		}
	}
	if c.Replay != nil {
		for _, l := range c.Replay {
			t := newTokenReader(l)
			t.next(); t.next()
			emit(t.int(), t.int(), t.int(), t.int())
		}
		return
	}
	dim := func(m, y int) int {
		return time.Date(y, time.Month(m)+1, 0, 0, 0, 0, 0, time.UTC).Day()
	}
	// corpus of edge cases first
	for _, e := range [][4]int{{28, 2, 1900, 3}, {28, 2, 2000, 3}, {31, 12, 1999, 2}, {29, 2, 2004, 2}, {1, 1, 1, 400}, {28, 2, 2100, 2}, {30, 4, 2023, 2}, {31, 12, 2400, 367}} {
		emit(e[0], e[1], e[2], e[3])
	}
	if c.Tier == "thorough" {
		// every day of a full 400-year cycle as a start date
		c.Stats.Exhaustive = true
		for y := 2000; y < 2400; y++ {
			for m := 1; m <= 12; m++ {
				for d := 1; d <= dim(m, y); d++ {
					n := 2
					if d >= 27 {
						n = 40
					}
					if c.R.Chance(0.002) {
						n = c.R.Range(300, 800)
					}
					emit(d, m, y, n)
				}
			}
		}
	}
	N := 4000
	if c.Tier == "thorough" {
		N = 20000
	}
	for i := 0; i < N; i++ {
		var y int
		switch c.R.Intn(4) {
		case 0:
			y = []int{1600, 1700, 1800, 1900, 2000, 2100, 2400, 4, 100, 400, 1999, 2399}[c.R.Intn(12)]
		case 1:
			y = c.R.Range(1, 9000)
		default:
			y = c.R.Range(1580, 2420)
		}
		m := c.R.Range(1, 12)
		if c.R.Chance(0.3) {
			m = []int{2, 12, 1}[c.R.Intn(3)]
		}
		d := c.R.Range(1, dim(m, y))
		if c.R.Chance(0.4) {
			d = dim(m, y) - c.R.Intn(2)
		}
		n := c.R.Range(1, 70)
		if c.R.Chance(0.05) {
			n = c.R.Range(300, 800)
		}
		emit(d, m, y, n)
	}
}
