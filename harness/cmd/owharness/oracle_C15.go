package main

import (
	"fmt"
	"math"
)

// Oracle of property C15 — "GR4J computes the published GR4J equations": the implementation's runoff series and
// final stores are compared with an independent implementation of the daily GR4J of Perrin, Michel & Andréassian
// (2003), written from the paper in its *convolution* form (the unit hydrographs are explicit sums over the history
// of Pr, not shifted state vectors), so that it shares neither code nor structure with models/rr/gr4j.go nor with
// the Lean kernel model.
//
// Conventions: S-curves SH1/SH2 as piecewise functions of real t with exponent 5/2, ordinates UH(j) = SH(j) − SH(j−1);
// an initial unit-hydrograph store is the vector of deliveries already committed for days 0,1,… of the run;
// the argument of tanh is capped at 13 as in the reference implementations (tanh 13 = 1 − 1.0e-11).
//
// Tolerance 1e-9·scale (scale = max(1 mm, largest |input|, |output|, |store|)): both sides are float64 evaluations of
// the same real function with different association and different libm-free formulae (≤ a few hundred ulp after
// a 600-step recurrence that is contractive in S and R); a wrong ordinate, split, exponent or branch changes the
// result by ≥ 1e-4 relative.

func refSH1(x4, t float64) float64 {
	switch {
	case t <= 0:
		return 0
	case t < x4:
		return math.Pow(t/x4, 2.5)
	}
	return 1
}

func refSH2(x4, t float64) float64 {
	switch {
	case t <= 0:
		return 0
	case t <= x4:
		return 0.5 * math.Pow(t/x4, 2.5)
	case t < 2*x4:
		return 1 - 0.5*math.Pow(2-t/x4, 2.5)
	}
	return 1
}

type gr4jRef struct {
	q            []float64
	S, R         float64
	pend1, pend9 []float64
}

func gr4jReference(x1, x2, x3, x4 float64, rain, pet []float64, S, R float64, pend1, pend9 []float64) *gr4jRef {
	T := len(rain)
	uh1 := func(j int) float64 { return refSH1(x4, float64(j)) - refSH1(x4, float64(j-1)) }
	uh2 := func(j int) float64 { return refSH2(x4, float64(j)) - refSH2(x4, float64(j-1)) }
	th := func(w float64) float64 { return math.Tanh(math.Min(w, 13)) }
	pr := make([]float64, T)
	// water delivered by a unit hydrograph on day d (d may lie beyond the run: the pending deliveries)
	deliver := func(uh func(int) float64, frac float64, pend []float64, d int) float64 {
		v := 0.0
		if d < len(pend) {
			v = pend[d]
		}
		for k := 1; d-k+1 >= 0; k++ {
			if d-k+1 < T {
				if u := uh(k); u != 0 {
					v += u * frac * pr[d-k+1]
				}
			}
			if float64(k) > 2*x4+1 {
				break
			}
		}
		return v
	}
	out := &gr4jRef{q: make([]float64, T)}
	for t := 0; t < T; t++ {
		P, E := rain[t], pet[t]
		var Pn, En float64
		if P >= E {
			Pn = P - E
		} else {
			En = E - P
		}
		s := S / x1
		tp, te := th(Pn/x1), th(En/x1)
		Ps := x1 * (1 - s*s) * tp / (1 + s*tp)
		Es := S * (2 - s) * te / (1 + (1-s)*te)
		S = S - Es + Ps
		a := 4.0 / 9.0 * S / x1
		Perc := S * (1 - math.Pow(1+a*a*a*a, -0.25))
		S -= Perc
		pr[t] = Perc + (Pn - Ps)
		Q9 := deliver(uh1, 0.9, pend9, t)
		Q1 := deliver(uh2, 0.1, pend1, t)
		F := x2 * math.Pow(R/x3, 3.5)
		R = math.Max(0, R+Q9+F)
		b := R / x3
		Qr := R * (1 - math.Pow(1+b*b*b*b, -0.25))
		R -= Qr
		Qd := math.Max(0, Q1+F)
		out.q[t] = Qr + Qd
	}
	out.S, out.R = S, R
	out.pend1 = make([]float64, len(pend1))
	out.pend9 = make([]float64, len(pend9))
	for j := range out.pend1 {
		out.pend1[j] = deliver(uh2, 0.1, pend1, T+j)
	}
	for j := range out.pend9 {
		out.pend9[j] = deliver(uh1, 0.9, pend9, T+j)
	}
	return out
}

const c15Tol = 1e-9

func init() {
	regOracle("C15", "GR4J", func(c *Ctx, id int, k *KCall, r *KResult, body string) {
		if r.Status != "ok" || len(r.S) < 4 {
			return
		}
		x1, x2, x3, x4 := k.P[0], k.P[1], k.P[2], k.P[3]
		n1, n2 := int(r.S[2]), int(r.S[3])
		s0 := k.S
		if k.Init {
			s0 = make([]float64, 4+n1+n2)
		}
		if len(s0) != 4+n1+n2 || len(r.S) != 4+n1+n2 {
			return
		}
		ref := gr4jReference(x1, x2, x3, x4, k.In[0], k.In[1], s0[0], s0[1], s0[4:4+n2], s0[4+n2:])
		scale := math.Max(1, math.Max(maxAbs(k.In...), math.Max(maxAbs(r.Out...), math.Max(maxAbs(r.S[:2]), maxAbs(r.S[4:])))))
		if n1 != ceilInt(x4) || n2 != ceilInt(2*x4) {
			c.OracleFail(id, "GR4J:uh-length", fmt.Sprintf("x4 = %v: unit hydrograph lengths (%d,%d), published ⌈x4⌉ = %d, ⌈2·x4⌉ = %d", x4, n1, n2, ceilInt(x4), ceilInt(2*x4)), body)
			return
		}
		for t, q := range r.Out[0] {
			if !(math.Abs(q-ref.q[t]) <= c15Tol*scale) {
				c.OracleFail(id, "GR4J:runoff", fmt.Sprintf("runoff[%d] = %.17g, published equations give %.17g (x1..x4 = %v %v %v %v)", t, q, ref.q[t], x1, x2, x3, x4), body)
				return
			}
		}
		cmp := func(name string, got, want float64) bool {
			if !(math.Abs(got-want) <= c15Tol*scale) {
				c.OracleFail(id, "GR4J:stores", fmt.Sprintf("final %s = %.17g, published equations give %.17g (x1..x4 = %v %v %v %v)", name, got, want, x1, x2, x3, x4), body)
				return false
			}
			return true
		}
		if !cmp("S", r.S[0], ref.S) || !cmp("R", r.S[1], ref.R) {
			return
		}
		for j := 0; j < n2; j++ {
			if !cmp(fmt.Sprintf("UH2 store[%d]", j), r.S[4+j], ref.pend1[j]) {
				return
			}
		}
		for j := 0; j < n1; j++ {
			if !cmp(fmt.Sprintf("UH1 store[%d]", j), r.S[4+n2+j], ref.pend9[j]) {
				return
			}
		}
	})
}

func ceilInt(x float64) int { return int(math.Ceil(x)) }
