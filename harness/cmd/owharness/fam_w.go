package main

// W family (C04, C05): one vectorised Run of N cells through the real generated wrapper.
//   body: Model backend spec nRows nSets params… nBlocks nI T inputs… init N nS states… outCells nO outT outputs…
//   impl: ok outCells nO outT outputs… N nS states… || frame=<ok|…> cells=<ok|…>   |  panic <class>
// The second part is evaluated inside the worker on the real code: (frame) inputs and parameters unchanged, output
// elements outside rows < N / timesteps < T unchanged; (cells) every cell's outputs and final states are bit-identical
// to running that cell ALONE with its own parameter column, state row and input block.

import (
	"fmt"
	"math"
	"runtime"
	"strings"
	"unsafe"

	"github.com/flowmatters/openwater-core/data"
	"github.com/flowmatters/openwater-core/data/cdata"
	"github.com/flowmatters/openwater-core/sim"
)

func init() {
	register(&Family{Name: "W", Gen: genW, Exec: execW, Oracle: oracleW})
}

type WCall struct {
	Model   string
	Backend string
	Spec    []int         // per parameter: -1 scalar, k = table sized by parameter k
	NSets   int
	Params  [][]float64   // [row][set]
	Inputs  [][][]float64 // [block][input][t]
	Init    bool
	N       int
	States  [][]float64   // [cell][state]
	Outputs [][][]float64 // initial contents [outCells][nO][outT]
}

func grid(b *strings.Builder, g [][]float64) {
	for _, r := range g {
		for _, v := range r {
			b.WriteByte(' ')
			b.WriteString(F(v))
		}
	}
}

func cube(b *strings.Builder, c [][][]float64) {
	for _, g := range c {
		grid(b, g)
	}
}

func (w *WCall) Body() string {
	var b strings.Builder
	fmt.Fprintf(&b, "%s %s %s %d %d", w.Model, w.Backend, Is(w.Spec), len(w.Params), w.NSets)
	grid(&b, w.Params)
	fmt.Fprintf(&b, " %d %d %d", len(w.Inputs), len(w.Inputs[0]), len(w.Inputs[0][0]))
	cube(&b, w.Inputs)
	init, nS := 0, 0
	if w.Init {
		init = 1
	} else if len(w.States) > 0 {
		nS = len(w.States[0])
	}
	fmt.Fprintf(&b, " %d %d %d", init, w.N, nS)
	if !w.Init {
		grid(&b, w.States)
	}
	fmt.Fprintf(&b, " %d %d %d", len(w.Outputs), len(w.Outputs[0]), len(w.Outputs[0][0]))
	cube(&b, w.Outputs)
	return b.String()
}

func readGrid(t *tokenReader, r, c int) [][]float64 {
	g := make([][]float64, r)
	for i := range g {
		g[i] = make([]float64, c)
		for j := range g[i] {
			g[i][j] = t.float()
		}
	}
	return g
}

func readCube(t *tokenReader, a, b, c int) [][][]float64 {
	out := make([][][]float64, a)
	for i := range out {
		out[i] = readGrid(t, b, c)
	}
	return out
}

func parseWCall(body string) *WCall {
	t := newTokenReader(body)
	w := &WCall{}
	w.Model = t.next()
	w.Backend = t.next()
	w.Spec = t.ints()
	nRows, nSets := t.int(), t.int()
	w.NSets = nSets
	w.Params = readGrid(t, nRows, nSets)
	nB, nI, T := t.int(), t.int(), t.int()
	w.Inputs = readCube(t, nB, nI, T)
	w.Init = t.int() == 1
	w.N = t.int()
	nS := t.int()
	if !w.Init {
		w.States = readGrid(t, w.N, nS)
	}
	oc, nO, oT := t.int(), t.int(), t.int()
	w.Outputs = readCube(t, oc, nO, oT)
	return w
}

// arrays of the requested back-end holding the given values
func mk2(backend string, v [][]float64, cols int) (data.ND2Float64, []float64) {
	r := len(v)
	c := cols
	if r > 0 {
		c = len(v[0])
	}
	if backend != "c" {
		if r == 0 {
			return data.NewArray2DFloat64(0, c), nil
		}
		return arr2(v), nil
	}
	buf := make([]float64, r*c+1)
	for i := range v {
		copy(buf[i*c:], v[i])
	}
	return cdata.NewFloat64CArray(unsafe.Pointer(&buf[0]), []int{r, c}).(data.ND2Float64), buf
}

func mk3(backend string, v [][][]float64) (data.ND3Float64, []float64) {
	a, b, c := len(v), len(v[0]), len(v[0][0])
	if backend != "c" {
		return arr3(v), nil
	}
	buf := make([]float64, a*b*c+1)
	for i := range v {
		for j := range v[i] {
			copy(buf[(i*b+j)*c:], v[i][j])
		}
	}
	return cdata.NewFloat64CArray(unsafe.Pointer(&buf[0]), []int{a, b, c}).(data.ND3Float64), buf
}

func sameBits2(a, b [][]float64) bool {
	if len(a) != len(b) {
		return false
	}
	for i := range a {
		if len(a[i]) != len(b[i]) {
			return false
		}
		for j := range a[i] {
			if math.Float64bits(a[i][j]) != math.Float64bits(b[i][j]) && !(math.IsNaN(a[i][j]) && math.IsNaN(b[i][j])) {
				return false
			}
		}
	}
	return true
}

func sameBits3(a, b [][][]float64) bool {
	if len(a) != len(b) {
		return false
	}
	for i := range a {
		if !sameBits2(a[i], b[i]) {
			return false
		}
	}
	return true
}

// runW runs the whole case on the real code; returns outputs, states and the model object's description
func runW(w *WCall, backend string) (outs [][][]float64, states [][]float64, inAfter [][][]float64, pAfter [][]float64) {
	m := NewModel(w.Model)
	p, pbuf := mk2(backend, w.Params, w.NSets)
	dims := m.FindDimensions(p)
	if len(dims) > 0 {
		m.InitialiseDimensions(dims)
	}
	m.ApplyParameters(p)
	in, ibuf := mk3(backend, w.Inputs)
	var st data.ND2Float64
	var sbuf []float64
	if w.Init {
		st = m.InitialiseStates(w.N)
	} else {
		st, sbuf = mk2(backend, w.States, 0)
	}
	out, obuf := mk3(backend, w.Outputs)
	m.Run(in, st, out)
	runtime.KeepAlive(pbuf)
	runtime.KeepAlive(ibuf)
	runtime.KeepAlive(sbuf)
	runtime.KeepAlive(obuf)
	return un3(out), un2(st), un3(in), un2(p)
}

// cellColumn: the parameter column of cell i as a one-set parameter array (tables cut to the cell's own length)
func cellColumn(w *WCall, i int) [][]float64 {
	nSets := w.NSets
	s := i % nSets
	// layout as the wrapper computes it
	maxv := make([]int, len(w.Spec))
	row := 0
	var col [][]float64
	vals := make([]float64, len(w.Spec))
	for k, sp := range w.Spec {
		size := 1
		if sp >= 0 {
			size = maxv[sp]
		}
		mx := math.Inf(-1)
		for r := row; r < row+size; r++ {
			for _, v := range w.Params[r] {
				if v > mx {
					mx = v
				}
			}
		}
		if size > 0 {
			maxv[k] = int(mx)
		}
		if sp < 0 {
			vals[k] = w.Params[row][s]
			col = append(col, []float64{w.Params[row][s]})
		} else {
			own := int(vals[sp])
			for r := 0; r < own; r++ {
				col = append(col, []float64{w.Params[row+r][s]})
			}
		}
		row += size
	}
	return col
}

func execW(body string) string {
	w := parseWCall(body)
	outs, states, inAfter, pAfter := runW(w, w.Backend)
	var b strings.Builder
	fmt.Fprintf(&b, "ok %d %d %d", len(outs), len(outs[0]), len(outs[0][0]))
	cube(&b, outs)
	nS := 0
	if len(states) > 0 {
		nS = len(states[0])
	}
	fmt.Fprintf(&b, " %d %d", len(states), nS)
	grid(&b, states)

	// frame
	frame := "ok"
	T := len(w.Inputs[0][0])
	if !sameBits3(inAfter, w.Inputs) {
		frame = "inputs-modified"
	} else if !sameBits2(pAfter, w.Params) {
		frame = "parameters-modified"
	} else {
	outer:
		for i := range outs {
			for o := range outs[i] {
				for t := range outs[i][o] {
					if (i >= w.N || t >= T) && math.Float64bits(outs[i][o][t]) != math.Float64bits(w.Outputs[i][o][t]) {
						frame = fmt.Sprintf("output[%d][%d][%d]-outside-run-region-modified", i, o, t)
						break outer
					}
				}
			}
		}
	}
	// cells: each cell alone
	cells := "ok"
	st0 := w.States
	if w.Init {
		// the states the N-cell run started from: the model's own initial states
		m := NewModel(w.Model)
		p, _ := mk2("g", w.Params, w.NSets)
		if d := m.FindDimensions(p); len(d) > 0 {
			m.InitialiseDimensions(d)
		}
		m.ApplyParameters(p)
		st0 = un2(m.InitialiseStates(w.N))
	}
	nO := len(outs[0])
	for i := 0; i < w.N && cells == "ok"; i++ {
		single := &WCall{Model: w.Model, Backend: "g", Spec: w.Spec, NSets: 1, Params: cellColumn(w, i),
			Inputs: [][][]float64{w.Inputs[i%len(w.Inputs)]}, N: 1, States: [][]float64{st0[i]}}
		single.Outputs = [][][]float64{make([][]float64, nO)}
		for o := range single.Outputs[0] {
			single.Outputs[0][o] = make([]float64, T)
		}
		so, ss, _, _ := runW(single, "g")
		for o := 0; o < nO; o++ {
			if !sameBits2([][]float64{so[0][o]}, [][]float64{outs[i][o][:T]}) {
				cells = fmt.Sprintf("cell-%d-output-%d-differs-from-its-single-cell-run", i, o)
			}
		}
		if !sameBits2(ss, [][]float64{states[i]}) && cells == "ok" {
			cells = fmt.Sprintf("cell-%d-final-states-differ-from-its-single-cell-run", i)
		}
	}
	fmt.Fprintf(&b, " || frame=%s cells=%s", frame, cells)
	return b.String()
}

func oracleW(c *Ctx, id int, body, impl string) {
	c.Stats.OracleEvals++
	i := strings.Index(impl, " || ")
	if i < 0 {
		if strings.HasPrefix(impl, "panic") {
			c.Stats.Count("panicked")
		}
		return
	}
	verdict := impl[i+4:]
	model := strings.Fields(body)[0]
	if !strings.Contains(verdict, "frame=ok") {
		c.OracleFail(id, "W:"+model+":frame", "Run touched memory it must not touch: "+verdict, body)
	} else if !strings.Contains(verdict, "cells=ok") {
		c.OracleFail(id, "W:"+model+":cells", "vectorised Run differs from independent single-cell runs: "+verdict, body)
	}
}

// specOf derives the table layout from the model's Description.
func specOf(model string) []int {
	d := sim.Catalog[model]().Description()
	spec := make([]int, len(d.Parameters))
	for i, p := range d.Parameters {
		spec[i] = -1
		if len(p.Dimensions) == 1 {
			for k, q := range d.Parameters {
				if q.Name == p.Dimensions[0] {
					spec[i] = k
				}
			}
		} else if len(p.Dimensions) > 1 {
			spec[i] = -2 // unsupported (no such model today)
		}
	}
	return spec
}

// buildParams lays out per-set K columns as the wrapper's parameter array.
func buildParams(spec []int, cols [][]float64) [][]float64 {
	nSets := len(cols)
	// per set: split column by parameter
	type part = [][]float64 // [param] values
	parts := make([]part, nSets)
	maxDim := make([]int, len(spec))
	for s, col := range cols {
		pos := 0
		vals := make([]float64, len(spec))
		parts[s] = make(part, len(spec))
		for k, sp := range spec {
			n := 1
			if sp >= 0 {
				n = int(vals[sp])
			}
			parts[s][k] = col[pos : pos+n]
			if sp < 0 {
				vals[k] = col[pos]
			}
			pos += n
		}
	}
	for k, sp := range spec {
		if sp >= 0 {
			for s := range cols {
				if n := len(parts[s][k]); n > maxDim[k] {
					maxDim[k] = n
				}
			}
		}
	}
	var rows [][]float64
	for k, sp := range spec {
		n := 1
		if sp >= 0 {
			n = maxDim[k]
		}
		for r := 0; r < n; r++ {
			row := make([]float64, nSets)
			for s := range cols {
				if r < len(parts[s][k]) {
					row[s] = parts[s][k][r]
				}
			}
			rows = append(rows, row)
		}
	}
	return rows
}

func genW(c *Ctx) {
	models := modelsArg(c)
	if len(models) == 0 {
		for name := range modelGens {
			models = append(models, name)
		}
		models = sortedStrings(models)
	}
	n := parseI(c.Arg("n", "12"))
	if c.Tier == "thorough" {
		n *= 10
	}
	c.Stats.Rule = "per catalogued model: N cells (1..7), parameter sets and input blocks equal to / fewer than / coprime with N, series length 1..40, " +
		"states given (heterogeneous rows padded to one width) or from InitialiseStates, output arrays of exactly the needed size or oversized and sentinel-filled, " +
		"Go- and C-backed arrays; non-trivial = N ≥ 2; distinct by protocol line"
	for _, m := range models {
		g := modelGens[m]
		if g == nil {
			c.Stats.Notes = append(c.Stats.Notes, "no generator for model "+m+" (skipped)")
			continue
		}
		spec := specOf(m)
		for i := 0; i < n; i++ {
			N := c.R.Range(1, 7)
			if c.R.Chance(0.08) {
				N = c.R.Range(15, 40) // "all cell counts": past any plausible batching width
			}
			pick := func() int {
				switch c.R.Intn(5) {
				case 0:
					return 1
				case 1:
					return N
				case 2:
					return c.R.Range(1, N)
				case 3:
					return N + c.R.Range(1, 3) // MORE sets / blocks than cells (legal: the surplus is never read; row strides are the full width)
				}
				for k := N - 1; k >= 1; k-- { // coprime with N
					if gcd(k, N) == 1 {
						return k
					}
				}
				return 1
			}
			nSets, nBlocks := pick(), pick()
			T := c.R.Range(1, 40)
			cols := make([][]float64, nSets)
			for s := range cols {
				cols[s] = g.Params(c.R)
			}
			w := &WCall{Model: m, Backend: "g", Spec: spec, N: N, NSets: nSets}
			if c.R.Chance(0.3) {
				w.Backend = "c"
			}
			w.Params = buildParams(spec, cols)
			w.Inputs = make([][][]float64, nBlocks)
			okBlocks := true
			for b := range w.Inputs {
				w.Inputs[b] = g.Inputs(c.R, T, cols[b%nSets])
				if b == 0 {
					T = len(w.Inputs[0][0]) // a generator may shorten the series (malformed stream): all blocks must agree
				}
				for tries := 0; len(w.Inputs[b][0]) != T && tries < 30; tries++ {
					w.Inputs[b] = g.Inputs(c.R, T, cols[b%nSets])
				}
				if len(w.Inputs[b][0]) != T {
					okBlocks = false
				}
			}
			if !okBlocks {
				continue
			}
			nO := len(sim.Catalog[m]().Description().Outputs)
			if g.States == nil || c.R.Chance(0.4) {
				w.Init = true
				// InitialiseStates(n) sizes the state array from cell 0 (known finding KF-C05-*-InitialiseStates-row-width:
				// a wider later cell overlaps its neighbour's row, schedule-dependent). The statement of C04 is about Run on
				// a given states array, so with library-initialised states all cells get cell 0's width-determining parameter.
				if wp, ok := stateWidthParam[m]; ok && nSets > 1 {
					for s := 1; s < nSets; s++ {
						cols[s][wp] = cols[0][wp]
					}
					w.Params = buildParams(spec, cols)
					c.Stats.Count("init_with_equalised_state_width")
				}
			} else {
				width := 0
				w.States = make([][]float64, N)
				for k := 0; k < N; k++ {
					w.States[k] = g.States(c.R, cols[k%nSets])
					if len(w.States[k]) > width {
						width = len(w.States[k])
					}
				}
				for k := range w.States {
					for len(w.States[k]) < width {
						w.States[k] = append(w.States[k], 0)
					}
				}
			}
			if c.Family == "CABI" && !w.Init && !stateRowsFit(m, w, cols, nSets) {
				// A state row that claims more cells than the row has (GR4J's n1/n2 columns, Lag's int(timeLag)) is a caller error: the
				// Go-backed run panics or reads the next cell's row, the C-backed run reads whatever follows in the caller's memory.
				// "Same result through both entry points" (C03) presupposes a well-formed call; the malformed rows stay in families K / W.
				c.Stats.Count("skipped_malformed_state_row")
				continue
			}
			oc, oT := N, T
			sentinel := 0.0
			if c.R.Chance(0.5) {
				oc, oT = N+c.R.Range(0, 2), T+c.R.Range(0, 3)
				sentinel = -12345.5
			}
			w.Outputs = make([][][]float64, oc)
			for a := range w.Outputs {
				w.Outputs[a] = make([][]float64, nO)
				for o := range w.Outputs[a] {
					w.Outputs[a][o] = make([]float64, oT)
					for t := range w.Outputs[a][o] {
						if a >= N || t >= T {
							w.Outputs[a][o][t] = sentinel
						}
					}
				}
			}
			c.Do(w.Body(), N >= 2)
			c.Stats.Count("model:" + m)
			c.Stats.Count(fmt.Sprintf("N:%d", N))
			c.Stats.Count("backend:" + w.Backend)
			if nSets < N {
				c.Stats.Count("fewer_sets_than_cells")
			}
			if nBlocks < N {
				c.Stats.Count("fewer_blocks_than_cells")
			}
			if nSets > N {
				c.Stats.Count("more_sets_than_cells")
			}
			if nBlocks > N {
				c.Stats.Count("more_blocks_than_cells")
			}
			if oc > N || oT > T {
				c.Stats.Count("oversized_outputs")
			}
		}
	}
}

// stateRowsFit: every cell's state row is as wide as the kernel will read it
func stateRowsFit(model string, w *WCall, cols [][]float64, nSets int) bool {
	for k, row := range w.States {
		switch model {
		case "GR4J":
			if len(row) < 4 {
				return false
			}
			n1, n2 := int(row[2]), int(row[3])
			if n1 < 1 || n2 < 1 || 4+n1+n2 > len(row) {
				return false
			}
		case "Lag":
			if int(cols[k%nSets][0]) > len(row) {
				return false
			}
		}
	}
	return true
}

// parameter (index in the column) that determines the width of a model's state row
var stateWidthParam = map[string]int{"GR4J": 3 /* x4 */, "Lag": 0 /* timeLag */}

func gcd(a, b int) int {
	for b != 0 {
		a, b = b, a%b
	}
	return a
}

func sortedStrings(xs []string) []string {
	out := append([]string{}, xs...)
	for i := 1; i < len(out); i++ {
		for j := i; j > 0 && out[j] < out[j-1]; j-- {
			out[j], out[j-1] = out[j-1], out[j]
		}
	}
	return out
}
