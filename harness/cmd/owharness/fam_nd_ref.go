package main

// Reference semantics of the n-d arrays, written from the PROPERTY statements (C01/C02/C03), not from the code:
// a view is a table "row-major element k of the view ↦ position in its root storage".
//   slice(loc,dims,step): element i is element loc + i*step of the parent
//   reshape: row-major renumbering; aliases when the elements are adjacent in storage in row-major order
//            (contiguous), copies otherwise (C back-end: copy is Go-backed); fails iff element counts differ
//   bulk ops = visiting elements one by one in row-major order
// It is the oracle used to search for failing inputs; it knows nothing about strides or offsets.

import (
	"fmt"
	"strings"
)

type refView struct {
	root  int
	shape []int
	pos   []int
	isC   bool
}

type refState struct {
	stores  [][]int64
	views   []*refView // nil = creation failed / undefined
	defined bool       // false once an op outside the reference's domain was executed
	overlap bool       // a bulk op whose source and destination overlap in one storage was executed
	exp     []string   // expected observation per op ("" = not checked)
	// narrow != 0: the VARIANT of the reference in which C storages hold 32-bit elements (1: C.int, 2: C.uint) — not what the
	// property says; used only to classify a difference as the known finding c-int-width (see ndClassify)
	narrow int
	cStore []bool // per storage: a C buffer
}

// narrow32: int(C.int(x)) (mode 1) / uint(C.uint(x)) (mode 2) on a 64-bit platform
func narrow32(mode int, x int64) int64 {
	if mode == 2 {
		return int64(uint32(x))
	}
	return int64(int32(x))
}

func prod(xs []int) int {
	p := 1
	for _, x := range xs {
		p *= x
	}
	return p
}

func ravel(idx, shape []int) int {
	k := 0
	for i := range shape {
		k = k*shape[i] + idx[i]
	}
	return k
}

func unravel(k int, shape []int) []int {
	idx := make([]int, len(shape))
	for i := len(shape) - 1; i >= 0; i-- {
		idx[i] = k % shape[i]
		k /= shape[i]
	}
	return idx
}

func inBounds(idx, shape []int) bool {
	if len(idx) != len(shape) {
		return false
	}
	for i := range idx {
		if idx[i] < 0 || idx[i] >= shape[i] {
			return false
		}
	}
	return true
}

func validShape(shape []int) bool {
	if len(shape) == 0 {
		return false
	}
	for _, d := range shape {
		if d < 1 {
			return false
		}
	}
	return true
}

func (v *refView) contiguous() bool {
	for k := range v.pos {
		if v.pos[k] != v.pos[0]+k {
			return false
		}
	}
	return true
}

func (s *refState) newRoot(vals []int64, shape []int, isC bool) *refView {
	if isC && s.narrow != 0 {
		for i := range vals {
			vals[i] = narrow32(s.narrow, vals[i])
		}
	}
	s.stores = append(s.stores, vals)
	s.cStore = append(s.cStore, isC)
	pos := make([]int, len(vals))
	for i := range pos {
		pos[i] = i
	}
	return &refView{root: len(s.stores) - 1, shape: append([]int{}, shape...), pos: pos, isC: isC}
}

func (s *refState) vals(v *refView) []int64 {
	out := make([]int64, len(v.pos))
	for k, p := range v.pos {
		out[k] = s.stores[v.root][p]
	}
	return out
}

func fmtI64(xs []int64) string {
	var b strings.Builder
	fmt.Fprintf(&b, "%d", len(xs))
	for _, x := range xs {
		fmt.Fprintf(&b, " %d", x)
	}
	return b.String()
}

func overlaps(a, b *refView) bool {
	if a.root != b.root {
		return false
	}
	m := map[int]bool{}
	for _, p := range a.pos {
		m[p] = true
	}
	for _, p := range b.pos {
		if m[p] {
			return true
		}
	}
	return false
}

// subview: the table of slice(loc,dims,step) of v, or nil if not an in-bounds slice
func (v *refView) subview(loc, dims, step []int) *refView {
	n := len(v.shape)
	if len(loc) != n || len(dims) != n || (step != nil && len(step) != n) || !validShape(dims) {
		return nil
	}
	st := step
	if st == nil {
		st = make([]int, n)
		for i := range st {
			st[i] = 1
		}
	}
	for i := 0; i < n; i++ {
		if st[i] < 1 || loc[i] < 0 || loc[i]+(dims[i]-1)*st[i] >= v.shape[i] {
			return nil
		}
	}
	size := prod(dims)
	pos := make([]int, size)
	for k := 0; k < size; k++ {
		i := unravel(k, dims)
		p := make([]int, n)
		for d := 0; d < n; d++ {
			p[d] = loc[d] + i[d]*st[d]
		}
		pos[k] = v.pos[ravel(p, v.shape)]
	}
	return &refView{root: v.root, shape: append([]int{}, dims...), pos: pos, isC: v.isC}
}

// step executes one op of the ND grammar on the reference; appends the expected observation.
func (s *refState) step(t *tokenReader, halfTypes bool) {
	name := t.next()
	undefined := func() { s.defined = false; s.exp = append(s.exp, "") }
	unchecked := func() { s.exp = append(s.exp, "") }
	expect := func(e string) { s.exp = append(s.exp, e) }
	switch name {
	case "new":
		dims := t.ints()
		if !validShape(dims) {
			s.views = append(s.views, nil)
			undefined()
			return
		}
		s.views = append(s.views, s.newRoot(make([]int64, prod(dims)), dims, false))
		unchecked()
		return
	case "gslice", "cwrap":
		vals := t.ints()
		dims := t.ints()
		if !validShape(dims) || prod(dims) != len(vals) {
			s.views = append(s.views, nil)
			undefined()
			return
		}
		v64 := make([]int64, len(vals))
		for i, x := range vals {
			v64[i] = int64(x)
		}
		s.views = append(s.views, s.newRoot(v64, dims, name == "cwrap"))
		unchecked()
		return
	}
	vi := t.int()
	var v *refView
	if vi >= 0 && vi < len(s.views) {
		v = s.views[vi]
	}
	src := func() *refView {
		si := t.int()
		if si >= 0 && si < len(s.views) {
			return s.views[si]
		}
		return nil
	}
	write := func(dst *refView, k int, x int64) {
		if s.narrow != 0 && s.cStore[dst.root] {
			x = narrow32(s.narrow, x)
		}
		s.stores[dst.root][dst.pos[k]] = x
	}
	switch name {
	case "slice":
		loc, dims, step := t.ints(), t.ints(), optInts(t)
		if v == nil {
			s.views = append(s.views, nil)
			undefined()
			return
		}
		sub := v.subview(loc, dims, step)
		s.views = append(s.views, sub)
		if sub == nil {
			undefined()
			return
		}
		unchecked()
	case "get":
		loc := t.ints()
		if v == nil || !inBounds(loc, v.shape) {
			undefined()
			return
		}
		expect(fmt.Sprintf("ok %d", s.stores[v.root][v.pos[ravel(loc, v.shape)]]))
	case "set":
		loc, x := t.ints(), t.int()
		if v == nil || !inBounds(loc, v.shape) {
			undefined()
			return
		}
		write(v, ravel(loc, v.shape), int64(x))
		expect("ok")
	case "apply":
		loc, dim, step, vals := t.ints(), t.int(), t.int(), t.ints()
		if v == nil || !inBounds(loc, v.shape) || dim < 0 || dim >= len(v.shape) || step < 1 || len(vals) == 0 ||
			loc[dim]+(len(vals)-1)*step >= v.shape[dim] {
			undefined()
			return
		}
		for i, x := range vals {
			p := append([]int{}, loc...)
			p[dim] = loc[dim] + i*step
			write(v, ravel(p, v.shape), int64(x))
		}
		expect("ok")
	case "aslice", "copy":
		var loc, step []int
		if name == "aslice" {
			loc, step = t.ints(), optInts(t)
		}
		sv := src()
		if v == nil || sv == nil {
			undefined()
			return
		}
		if name == "copy" {
			loc = make([]int, len(v.shape))
		}
		if len(sv.shape) != len(v.shape) {
			undefined()
			return
		}
		dst := v.subview(loc, sv.shape, step)
		if dst == nil {
			undefined()
			return
		}
		if overlaps(dst, sv) {
			s.overlap = true
		}
		// "visiting its elements one by one in row-major order": each element is read when it is visited
		for k := range sv.pos {
			write(dst, k, s.stores[sv.root][sv.pos[k]])
		}
		expect("ok")
	case "unroll":
		if v == nil {
			undefined()
			return
		}
		if v.contiguous() && !v.isC {
			expect(fmt.Sprintf("ok alias %d %d %s", v.root, v.pos[0], fmtI64(s.vals(v))))
		} else {
			expect("ok fresh " + fmtI64(s.vals(v)))
		}
	case "reshape", "rfast", "must":
		shape := t.ints()
		if v == nil || !validShape(shape) {
			s.views = append(s.views, nil)
			undefined()
			return
		}
		if name == "rfast" && !v.contiguous() {
			s.views = append(s.views, nil)
			expect("err not-contiguous")
			return
		}
		if prod(shape) != len(v.pos) {
			s.views = append(s.views, nil)
			if name == "must" {
				s.defined = false // MustReshape panics: the run halts
				expect("panic size-mismatch")
				return
			}
			expect("err size-mismatch")
			return
		}
		if v.contiguous() {
			// aliases the storage (both back-ends)
			s.views = append(s.views, &refView{root: v.root, shape: append([]int{}, shape...), pos: v.pos, isC: v.isC})
		} else {
			// copy in row-major order into a new (Go-backed) storage
			s.views = append(s.views, s.newRoot(s.vals(v), shape, false))
		}
		unchecked() // the result is observed by the `unroll` that the generator emits next, and by the final dump
	case "contig":
		if v == nil {
			undefined()
			return
		}
		if v.contiguous() {
			expect("ok 1")
		} else {
			expect("ok 0")
		}
	case "get1":
		i := t.int()
		if v == nil || len(v.shape) != 1 || i < 0 || i >= v.shape[0] {
			undefined()
			return
		}
		expect(fmt.Sprintf("ok %d", s.stores[v.root][v.pos[i]]))
	case "set1":
		i, x := t.int(), t.int()
		if v == nil || len(v.shape) != 1 || i < 0 || i >= v.shape[0] {
			undefined()
			return
		}
		write(v, i, int64(x))
		expect("ok")
	case "apply1":
		i, step, vals := t.int(), t.int(), t.ints()
		if v == nil || len(v.shape) != 1 || i < 0 || step < 1 || len(vals) == 0 || i+(len(vals)-1)*step >= v.shape[0] {
			undefined()
			return
		}
		for j, x := range vals {
			write(v, i+j*step, int64(x))
		}
		expect("ok")
	case "get2", "get3":
		n := 2
		if name == "get3" {
			n = 3
		}
		idx := make([]int, n)
		for i := range idx {
			idx[i] = t.int()
		}
		if v == nil || !inBounds(idx, v.shape) {
			undefined()
			return
		}
		expect(fmt.Sprintf("ok %d", s.stores[v.root][v.pos[ravel(idx, v.shape)]]))
	case "set2", "set3":
		n := 2
		if name == "set3" {
			n = 3
		}
		idx := make([]int, n)
		for i := range idx {
			idx[i] = t.int()
		}
		x := t.int()
		if v == nil || !inBounds(idx, v.shape) {
			undefined()
			return
		}
		write(v, ravel(idx, v.shape), int64(x))
		expect("ok")
	case "max", "min":
		if v == nil {
			undefined()
			return
		}
		vs := s.vals(v)
		r := vs[0]
		for _, x := range vs {
			if (name == "max" && x > r) || (name == "min" && x < r) {
				r = x
			}
		}
		expect(fmt.Sprintf("ok %d", r))
	case "scale", "addto":
		sv := src()
		k := 0
		if name == "scale" {
			k = t.int()
		}
		if v == nil || sv == nil || len(sv.shape) != len(v.shape) || !sameInts(sv.shape, v.shape) {
			undefined()
			return
		}
		if overlaps(v, sv) {
			s.overlap = true
		}
		for i := range sv.pos {
			sx := s.stores[sv.root][sv.pos[i]]
			if name == "scale" {
				write(v, i, sx*int64(k))
			} else {
				write(v, i, s.stores[v.root][v.pos[i]]+sx)
			}
		}
		expect("ok")
	case "len":
		ax := t.int()
		if v == nil || ax < 0 || ax >= len(v.shape) {
			undefined()
			return
		}
		expect(fmt.Sprintf("ok %d", v.shape[ax]))
	case "shape":
		if v == nil {
			undefined()
			return
		}
		expect("ok " + Is(v.shape))
	default:
		undefined()
	}
}

func sameInts(a, b []int) bool {
	if len(a) != len(b) {
		return false
	}
	for i := range a {
		if a[i] != b[i] {
			return false
		}
	}
	return true
}

// refRun interprets a whole program (tokens after `tag eltype`); returns expectations and the final state.
func refRun(toks []string) *refState { return refRunMode(toks, 0) }

// refRunMode: narrow = 0 is the reference semantics of the property; 1 / 2 the 32-bit-C-element variant (see refState.narrow)
func refRunMode(toks []string, narrow int) *refState {
	t := &tokenReader{toks: toks}
	nops := t.int()
	s := &refState{defined: true, narrow: narrow}
	for i := 0; i < nops && s.defined; i++ {
		s.step(t, false)
	}
	return s
}

func (s *refState) heapDump() string {
	var b strings.Builder
	fmt.Fprintf(&b, "H %d", len(s.stores))
	for _, st := range s.stores {
		b.WriteByte(' ')
		b.WriteString(fmtI64(st))
	}
	return b.String()
}

// oracleND compares the implementation's observations with the reference semantics, op by op, as long as the
// reference defines the program; then the final contents of every storage.
func oracleND(c *Ctx, id int, body, impl string) {
	toks := strings.Fields(body)
	if len(toks) < 3 {
		return
	}
	s := refRun(toks[2:])
	parts := strings.Split(impl, " ; ")
	c.Stats.OracleEvals++
	scope := "ND"
	if s.overlap {
		scope = "ND:overlap"
		c.Stats.Count("programs_with_overlapping_bulk_op")
		if p := c.Arg("prop", ""); p == "C01" || p == "C03" {
			// C01 speaks about WHICH elements a write changes (same on every path), not about the values an
			// overlapping copy leaves there; the value question belongs to C02/C03.
			return
		}
	}
	what := ndCompare(s, parts, toks)
	if what == "" {
		return
	}
	// Is the difference the 32-bit width of the C element type of the int / uint instantiations, and nothing else? It is iff the
	// implementation agrees, op by op and in the final contents of every storage, with the variant of the reference in which
	// writes to C storages narrow to 32 bits. Any OTHER difference fails that comparison too and is reported under the plain scope.
	if mode := narrowMode(toks[1]); mode != 0 {
		if s32 := refRunMode(toks[2:], mode); ndCompare(s32, parts, toks) == "" {
			c.Stats.Count("c_int_width_differences:" + toks[1])
			c.OracleFail(id, "ND:c-int-width", "C-backed "+toks[1]+" array holds 32-bit elements: "+what, body)
			return
		}
	}
	c.OracleFail(id, scope, what, body)
}

func narrowMode(elt string) int {
	switch elt {
	case "int":
		return 1
	case "uint":
		return 2
	}
	return 0
}

// ndCompare: the first difference between the implementation's observations and the reference state s ("" = none)
func ndCompare(s *refState, parts []string, toks []string) string {
	for i, e := range s.exp {
		if i >= len(parts) {
			return fmt.Sprintf("op %d: no result (run halted early: %s)", i, parts[len(parts)-1])
		}
		got := parts[i]
		if strings.Contains(got, "CANARY-OVERWRITTEN") {
			return fmt.Sprintf("op %d wrote outside the caller's C buffer", i)
		}
		if e == "" {
			// unchecked observation; but a defined op must not panic
			if s.defined || i < len(s.exp)-1 {
				if strings.HasPrefix(got, "panic") {
					return fmt.Sprintf("op %d (%s) is within the property's domain but the code panicked: %s", i, opName(toks, i), got)
				}
			}
			continue
		}
		if got != e {
			return fmt.Sprintf("op %d (%s): property says `%s`, implementation `%s`", i, opName(toks, i), e, trunc(got, 200))
		}
	}
	if s.defined {
		last := parts[len(parts)-1]
		if last != s.heapDump() {
			return fmt.Sprintf("final storage contents differ: property says `%s`, implementation `%s`", trunc(s.heapDump(), 300), trunc(last, 300))
		}
	}
	return ""
}

func trunc(s string, n int) string {
	if len(s) > n {
		return s[:n] + "…"
	}
	return s
}

// opName finds the name of the i-th op by re-walking the token stream with the reference parser.
func opName(toks []string, i int) string {
	t := &tokenReader{toks: toks[2:]}
	nops := t.int()
	s := &refState{defined: true}
	for k := 0; k < nops; k++ {
		name := ""
		if t.pos < len(t.toks) {
			name = t.toks[t.pos]
		}
		if k == i {
			return name
		}
		s.step(t, false)
	}
	return "?"
}
