package main

// Property C17 — the JSON single-model runner (sim/single.go, io/json/json.go, cmd/ow-single).
//
// Family JSA: owjs.JsonSafeValue / owjs.JsonSafeArray on root arrays and on sliced / stepped views of the data package.
//   ops : JSA id arr <shape Is> <vals Fs> nslices (loc Is, dims Is, step optIs)* shiftDim   |   JSA id val <F>
//   impl: ok <json tokens>  |  panic <class>
//
// Family JSON: request byte strings fed to the REAL sim.RunSingleModelJSON in the worker child process.
//   ops : JSON id split x<hex of the request bytes> D <decoded request | E xmsg> C <catalogue entry | none>
//                 I <init result> K <params Fs> <inputs nIn T F…> U <direct run result>
//   impl: w <ndocs> <json tokens>… end returned | w … end panicked <class> | panic <class> (the process died)
//   The part after the hex is what the Lean model needs besides the bytes: the request as Go's own encoding/json
//   decodes it (owverif/simmirror: same type names, same decoder calls — trusted), the catalogue entry of the named
//   model, and the result of a DIRECT one-cell run through the Go API (ApplyParameters, InitialiseStates(1), Run) for
//   the parameter column / input block that the PROPERTY prescribes (named values, defaults / zeros otherwise). Exec
//   ignores that part: it only feeds the bytes to RunSingleModelJSON.
//
// json tokens: N null | f<bits> number | S<hex> string | A n v… array | O n (S<hex> v)… object, keys sorted | T / F bool.

import (
	"bytes"
	"encoding/hex"
	"encoding/json"
	"fmt"
	"io"
	"math"
	"os"
	"os/exec"
	"sort"
	"strconv"
	"strings"
	"time"

	"github.com/flowmatters/openwater-core/data"
	owjs "github.com/flowmatters/openwater-core/io/json"
	"github.com/flowmatters/openwater-core/sim"
	mirror "owverif/simmirror"
)

func init() {
	register(&Family{Name: "JSA", Gen: genJSA, Exec: execJSA, Oracle: oracleJSA})
	register(&Family{Name: "JSON", Gen: genJSON, Exec: execJSON, Oracle: oracleJSON})
}

// ---------------------------------------------------------------------------------------------
// JSON values as token streams

func hexS(s string) string { return "x" + hex.EncodeToString([]byte(s)) }

func unhexS(tok string) string {
	b, _ := hex.DecodeString(strings.TrimPrefix(tok, "x"))
	return string(b)
}

func jtokens(b *strings.Builder, v interface{}) {
	switch t := v.(type) {
	case nil:
		b.WriteString(" N")
	case float64:
		b.WriteString(" " + F(t))
	case string:
		b.WriteString(" S" + hex.EncodeToString([]byte(t)))
	case bool:
		if t {
			b.WriteString(" T")
		} else {
			b.WriteString(" F")
		}
	case []interface{}:
		fmt.Fprintf(b, " A %d", len(t))
		for _, x := range t {
			jtokens(b, x)
		}
	case map[string]interface{}:
		keys := make([]string, 0, len(t))
		for k := range t {
			keys = append(keys, k)
		}
		sort.Strings(keys)
		fmt.Fprintf(b, " O %d", len(t))
		for _, k := range keys {
			b.WriteString(" S" + hex.EncodeToString([]byte(k)))
			jtokens(b, t[k])
		}
	default:
		fmt.Fprintf(b, " ?%T", v)
	}
}

// jnode: a JSON value read back from a token stream (oracles).
type jnode struct {
	kind byte // N f S A O T F
	num  float64
	str  string
	arr  []*jnode
	keys []string
	vals []*jnode
}

func readJNode(t *tokenReader) *jnode {
	tok := t.next()
	switch {
	case tok == "N":
		return &jnode{kind: 'N'}
	case tok == "T" || tok == "F":
		return &jnode{kind: tok[0]}
	case tok == "A":
		n := t.int()
		nd := &jnode{kind: 'A'}
		for i := 0; i < n; i++ {
			nd.arr = append(nd.arr, readJNode(t))
		}
		return nd
	case tok == "O":
		n := t.int()
		nd := &jnode{kind: 'O'}
		for i := 0; i < n; i++ {
			k := t.next()
			kb, _ := hex.DecodeString(strings.TrimPrefix(k, "S"))
			nd.keys = append(nd.keys, string(kb))
			nd.vals = append(nd.vals, readJNode(t))
		}
		return nd
	case strings.HasPrefix(tok, "S"):
		sb, _ := hex.DecodeString(tok[1:])
		return &jnode{kind: 'S', str: string(sb)}
	case strings.HasPrefix(tok, "f"):
		return &jnode{kind: 'f', num: parseF(tok)}
	}
	return &jnode{kind: '?', str: tok}
}

func (n *jnode) get(key string) *jnode {
	if n == nil || n.kind != 'O' {
		return nil
	}
	for i, k := range n.keys {
		if k == key {
			return n.vals[i]
		}
	}
	return nil
}

// safeNode: what the property prescribes for one float64 — the number itself, or one of the three strings.
func safeMatches(n *jnode, x float64) bool {
	if n == nil {
		return false
	}
	switch {
	case math.IsNaN(x):
		return n.kind == 'S' && n.str == "NaN"
	case math.IsInf(x, 1):
		return n.kind == 'S' && n.str == "+Inf"
	case math.IsInf(x, -1):
		return n.kind == 'S' && n.str == "-Inf"
	}
	return n.kind == 'f' && math.Float64bits(n.num) == math.Float64bits(x)
}

// ---------------------------------------------------------------------------------------------
// JSA

func execJSA(body string) string {
	t := newTokenReader(body)
	var b strings.Builder
	switch t.next() {
	case "val":
		b.WriteString("ok")
		jtokens(&b, owjs.JsonSafeValue(t.float()))
		return b.String()
	case "arr":
		shape := t.ints()
		vals := t.floats()
		var a data.NDFloat64 = data.ArrayFromSliceFloat64(vals, shape)
		ns := t.int()
		for i := 0; i < ns; i++ {
			loc, dims := t.ints(), t.ints()
			step := optInts(t)
			a = a.Slice(loc, dims, step)
		}
		sd := t.int()
		res := owjs.JsonSafeArray(a, sd)
		b.WriteString("ok")
		jtokens(&b, interface{}(res))
		return b.String()
	}
	return "bad-op"
}

type jsaCase struct {
	shape  []int
	vals   []float64
	slices [][3][]int
	sd     int
}

func (k *jsaCase) body() string {
	var b strings.Builder
	fmt.Fprintf(&b, "arr %s %s %d", Is(k.shape), Fs(k.vals), len(k.slices))
	for _, s := range k.slices {
		fmt.Fprintf(&b, " %s %s %s", Is(s[0]), Is(s[1]), optIs(s[2]))
	}
	fmt.Fprintf(&b, " %d", k.sd)
	return b.String()
}

func parseJSA(body string) *jsaCase {
	t := newTokenReader(body)
	if t.next() != "arr" {
		return nil
	}
	k := &jsaCase{}
	k.shape = t.ints()
	k.vals = t.floats()
	ns := t.int()
	for i := 0; i < ns; i++ {
		loc, dims := t.ints(), t.ints()
		step := optInts(t)
		k.slices = append(k.slices, [3][]int{loc, dims, step})
	}
	k.sd = t.int()
	return k
}

// view of the case in the reference semantics (table element → storage position); nil outside the property's domain
func (k *jsaCase) ref() *refView {
	if !validShape(k.shape) || prod(k.shape) != len(k.vals) {
		return nil
	}
	pos := make([]int, len(k.vals))
	for i := range pos {
		pos[i] = i
	}
	v := &refView{shape: append([]int{}, k.shape...), pos: pos}
	for _, s := range k.slices {
		v = v.subview(s[0], s[1], s[2])
		if v == nil {
			return nil
		}
	}
	return v
}

// oracle: the dims-shaped nesting of the elements from shiftDim on (leading indices 0), non-finite → strings
func oracleJSA(c *Ctx, id int, body, impl string) {
	t := newTokenReader(body)
	if t.next() == "val" {
		x := t.float()
		c.Stats.OracleEvals++
		it := newTokenReader(impl)
		if it.next() != "ok" || !safeMatches(readJNode(it), x) {
			c.OracleFail(id, "JsonSafeValue", fmt.Sprintf("value %v encoded as %s", x, impl), body)
		}
		return
	}
	k := parseJSA(body)
	if k == nil {
		return
	}
	v := k.ref()
	if v == nil || k.sd < 0 || k.sd >= len(v.shape) {
		return // not a view / shift dimension the property speaks about
	}
	c.Stats.OracleEvals++
	it := newTokenReader(impl)
	if it.next() != "ok" {
		c.OracleFail(id, "JsonSafeArray", "valid view and shift dimension, but: "+impl, body)
		return
	}
	got := readJNode(it)
	idx := make([]int, len(v.shape))
	var check func(n *jnode, d int) string
	check = func(n *jnode, d int) string {
		if n.kind != 'A' || len(n.arr) != v.shape[d] {
			return fmt.Sprintf("level %d: expected an array of %d, got kind %c len %d", d, v.shape[d], n.kind, len(n.arr))
		}
		for i, ch := range n.arr {
			idx[d] = i
			if d == len(v.shape)-1 {
				x := k.vals[v.pos[ravel(idx, v.shape)]]
				if !safeMatches(ch, x) {
					return fmt.Sprintf("element %v: expected %v, got kind %c %v %q", idx, x, ch.kind, ch.num, ch.str)
				}
			} else if e := check(ch, d+1); e != "" {
				return e
			}
		}
		idx[d] = 0
		return ""
	}
	if e := check(got, k.sd); e != "" {
		c.OracleFail(id, "JsonSafeArray", e, body)
	}
}

var specialFloats = []float64{math.NaN(), math.Inf(1), math.Inf(-1), math.Copysign(0, -1), 0, 5e-324, math.MaxFloat64, -math.MaxFloat64, 0.1, -2.5e-7, 1e21, 123456789.125}

func jsaVals(r *Rng, n int, mode int) []float64 {
	out := make([]float64, n)
	for i := range out {
		switch {
		case mode == 0: // position-revealing
			out[i] = float64(i + 1)
		case mode == 1 && r.Chance(0.35), mode == 2:
			out[i] = specialFloats[r.Intn(len(specialFloats))]
		default:
			out[i] = float64(i+1) + 0.5
		}
	}
	return out
}

func genJSA(c *Ctx) {
	c.Stats.Rule = "every shape of rank 1-3 with extents 1..4 as a root array, every valid shiftDim (plus -1, rank, rank+1); " +
		"every in-bounds sliced/stepped view (steps ≤ 2) of the small shapes and a sample of the others, chains of two slices; " +
		"values = position-revealing numbers, mixed with NaN/+Inf/-Inf/-0/denormal/max; zero-extent and out-of-bounds views as the " +
		"malformed stream; non-trivial = rank ≥ 2 or a non-finite value present; distinct by the whole line"
	r := c.R
	emit := func(k *jsaCase) {
		nf := false
		for _, v := range k.vals {
			if math.IsNaN(v) || math.IsInf(v, 0) {
				nf = true
			}
		}
		c.Do(k.body(), len(k.shape) >= 2 || nf)
		c.Stats.Count(fmt.Sprintf("rank:%d", len(k.shape)))
		c.Stats.Count(fmt.Sprintf("slices:%d", len(k.slices)))
		c.Stats.Count(fmt.Sprintf("sd:%d", k.sd))
	}
	for _, x := range specialFloats {
		c.Do("val "+F(x), math.IsNaN(x) || math.IsInf(x, 0))
	}
	for i := 0; i < 40; i++ {
		c.Do("val "+F(math.Float64frombits(r.U64())), false)
	}
	thorough := c.Tier == "thorough"
	for rank := 1; rank <= 3; rank++ {
		for _, shape := range allShapes(rank, 4) {
			n := prod(shape)
			for sd := -1; sd <= rank+1; sd++ {
				emit(&jsaCase{shape: shape, vals: jsaVals(r, n, 0), sd: sd})
				if sd >= 0 && sd < rank {
					emit(&jsaCase{shape: shape, vals: jsaVals(r, n, 1), sd: sd})
				}
			}
			emit(&jsaCase{shape: shape, vals: jsaVals(r, n, 2), sd: 0})
			// views
			sl := allSlices(shape, 2)
			keep := 1.0
			if !thorough && len(sl) > 60 {
				keep = 60.0 / float64(len(sl))
			} else if thorough && len(sl) > 600 {
				keep = 600.0 / float64(len(sl))
			}
			for _, s := range sl {
				if !r.Chance(keep) {
					continue
				}
				sd := r.Intn(rank)
				emit(&jsaCase{shape: shape, vals: jsaVals(r, n, r.Intn(2)), slices: [][3][]int{s}, sd: sd})
				c.Stats.Count("view:sliced")
				// a second slice of the view
				if r.Chance(0.4) {
					sl2 := allSlices(s[1], 2)
					s2 := sl2[r.Intn(len(sl2))]
					emit(&jsaCase{shape: shape, vals: jsaVals(r, n, r.Intn(2)), slices: [][3][]int{s, s2}, sd: r.Intn(rank)})
					c.Stats.Count("view:chain2")
				}
			}
		}
	}
	// malformed: zero extents, out-of-bounds views, wrong-rank slice arguments
	for _, k := range []*jsaCase{
		{shape: []int{0}, vals: nil, sd: 0},
		{shape: []int{2, 0}, vals: nil, sd: 0},
		{shape: []int{2, 0}, vals: nil, sd: 1},
		{shape: []int{0, 3}, vals: nil, sd: 0},
		{shape: []int{2, 3}, vals: jsaVals(r, 6, 0), slices: [][3][]int{{{0, 0}, {3, 3}, nil}}, sd: 0},
		{shape: []int{2, 3}, vals: jsaVals(r, 6, 0), slices: [][3][]int{{{1, 1}, {2, 3}, {1, 2}}}, sd: 0},
		{shape: []int{2, 3}, vals: jsaVals(r, 6, 0), slices: [][3][]int{{{0, 0}, {2, -1}, nil}}, sd: 1},
		{shape: []int{2, 3}, vals: jsaVals(r, 6, 0), slices: [][3][]int{{{0}, {2}, nil}}, sd: 0},
		{shape: []int{2, 3}, vals: jsaVals(r, 6, 0), slices: [][3][]int{{{0, 0, 0}, {2, 3, 1}, nil}}, sd: 2},
		{shape: []int{4}, vals: jsaVals(r, 4, 0), slices: [][3][]int{{{-1}, {2}, nil}}, sd: 0},
		{shape: []int{2, 2}, vals: jsaVals(r, 3, 0), sd: 0},
	} {
		emit(k)
		c.Stats.Count("malformed")
	}
}

// ---------------------------------------------------------------------------------------------
// JSON: execution on the real code

// docTokens canonicalises what was written to w: the number of JSON documents and their tokens, or `raw <hex>` when
// the bytes are not a sequence of JSON values separated by whitespace.
func docTokens(out []byte) string {
	dec := json.NewDecoder(bytes.NewReader(out))
	var docs []interface{}
	for {
		var v interface{}
		err := dec.Decode(&v)
		if err == io.EOF {
			break
		}
		if err != nil {
			return "raw x" + hex.EncodeToString(out)
		}
		docs = append(docs, v)
	}
	var b strings.Builder
	fmt.Fprintf(&b, "%d", len(docs))
	for _, d := range docs {
		jtokens(&b, d)
	}
	return b.String()
}

func execJSON(body string) string {
	t := newTokenReader(body)
	first := t.next()
	if first == "DIRECT" {
		return execDirect(t)
	}
	split := first == "1"
	req, herr := hex.DecodeString(strings.TrimPrefix(t.next(), "x"))
	if herr != nil {
		return "bad-op request-not-hex"
	}
	var buf bytes.Buffer
	ending := "returned"
	func() {
		defer func() {
			if r := recover(); r != nil {
				ending = "panicked " + panicClass(fmt.Sprint(r))
			}
		}()
		sim.RunSingleModelJSON(bytes.NewReader(req), &buf, split)
	}()
	return "w " + docTokens(buf.Bytes()) + " end " + ending
}

// execDirect: DIRECT xModel <params Fs> hasInputs [nIn T F…]
//
//	→ initpanic <class> | initok | ok nOut T F… <states Fs> | runpanic <class>       (process death → "panic <class>")
//
// The direct one-cell run through the public Go API, the way RunOn (modelrun.go) does it, minus dimensions (the JSON
// request has no way to give table parameters): ApplyParameters(nParams×1), InitialiseStates(1), Run(1×nIn×T).
func execDirect(t *tokenReader) string {
	name := unhexS(t.next())
	params := t.floats()
	hasInputs := t.int() == 1
	m := NewModel(name)
	p := data.NewArray2DFloat64(len(params), 1)
	for i, v := range params {
		p.Set2(i, 0, v)
	}
	var st data.ND2Float64
	msg := ""
	func() {
		defer func() {
			if r := recover(); r != nil {
				msg = "initpanic " + panicClass(fmt.Sprint(r))
			}
		}()
		m.ApplyParameters(p)
		st = m.InitialiseStates(1)
	}()
	if msg != "" {
		return msg
	}
	if !hasInputs {
		return "initok"
	}
	nIn, T := t.int(), t.int()
	in := data.NewArray3DFloat64(1, nIn, T)
	for i := 0; i < nIn; i++ {
		for k := 0; k < T; k++ {
			in.Set3(0, i, k, t.float())
		}
	}
	nOut := len(m.Description().Outputs)
	out := data.NewArray3DFloat64(1, nOut, T)
	func() {
		defer func() {
			if r := recover(); r != nil {
				msg = "runpanic " + panicClass(fmt.Sprint(r))
			}
		}()
		m.Run(in, st, out)
	}()
	if msg != "" {
		return msg
	}
	var b strings.Builder
	fmt.Fprintf(&b, "ok %d %d", nOut, T)
	for o := 0; o < nOut; o++ {
		for k := 0; k < T; k++ {
			b.WriteString(" " + F(out.Get3(0, o, k)))
		}
	}
	W := 0
	if st != nil {
		W = st.Shape()[1]
	}
	states := make([]float64, W)
	for i := range states {
		states[i] = st.Get2(0, i)
	}
	b.WriteString(" " + Fs(states))
	return b.String()
}

// ---------------------------------------------------------------------------------------------
// JSON: what the property prescribes for a request

type jsonPlan struct {
	decodeErr string
	req       *mirror.Request
	desc      *sim.ModelDescription // nil: no name / unknown model
	ambiguous bool                  // duplicate parameter or input names in the request: "the named value" is not unique
	params    []float64             // named values, defaults otherwise
	missingP  []string              // in description order
	missingI  []string
	inputs    [][]float64 // supplied series, zero series otherwise; nil when T is undefined
	lengths   []int       // lengths of the supplied series, description order
	T         int
	mech      string // "", "JSON:no-inputs", "JSON:unequal-inputs"
}

func describe(name string) (d *sim.ModelDescription) {
	f := sim.Catalog[name]
	if f == nil {
		return nil
	}
	defer func() {
		if r := recover(); r != nil {
			d = nil
		}
	}()
	desc := f().Description()
	return &desc
}

func planRequest(raw []byte) *jsonPlan {
	pl := &jsonPlan{}
	req, err := mirror.Decode(bytes.NewReader(raw))
	if err != nil {
		pl.decodeErr = err.Error()
		return pl
	}
	pl.req = req
	if req.Name == "" {
		return pl
	}
	pl.desc = describe(req.Name)
	if pl.desc == nil {
		return pl
	}
	seen := map[string]bool{}
	for _, p := range req.Parameters {
		if seen["p:"+p.Name] {
			pl.ambiguous = true
		}
		seen["p:"+p.Name] = true
	}
	for _, p := range req.Inputs {
		if seen["i:"+p.Name] {
			pl.ambiguous = true
		}
		seen["i:"+p.Name] = true
	}
	for _, pd := range pl.desc.Parameters {
		v, found := pd.Default, false
		for _, p := range req.Parameters {
			if p.Name == pd.Name {
				v, found = p.Value, true
				break
			}
		}
		pl.params = append(pl.params, v)
		if !found {
			pl.missingP = append(pl.missingP, pd.Name)
		}
	}
	supplied := make([][]float64, len(pl.desc.Inputs))
	for i, name := range pl.desc.Inputs {
		for _, in := range req.Inputs {
			if in.Name == name {
				supplied[i] = in.Values // nil stays "not supplied"
				break
			}
		}
		if supplied[i] == nil {
			pl.missingI = append(pl.missingI, name)
		} else {
			pl.lengths = append(pl.lengths, len(supplied[i]))
		}
	}
	if len(pl.lengths) == 0 {
		pl.mech = "JSON:no-inputs"
		return pl
	}
	pl.T = pl.lengths[0]
	for _, l := range pl.lengths {
		if l != pl.T {
			pl.mech = "JSON:unequal-inputs"
			return pl
		}
	}
	pl.inputs = make([][]float64, len(supplied))
	for i := range supplied {
		if supplied[i] != nil {
			pl.inputs[i] = supplied[i]
		} else {
			pl.inputs[i] = make([]float64, pl.T)
		}
	}
	return pl
}

func (pl *jsonPlan) directBody() string {
	var b strings.Builder
	fmt.Fprintf(&b, "DIRECT %s %s", hexS(pl.req.Name), Fs(pl.params))
	if pl.inputs == nil {
		b.WriteString(" 0")
		return b.String()
	}
	fmt.Fprintf(&b, " 1 %d %d", len(pl.inputs), pl.T)
	for _, s := range pl.inputs {
		for _, v := range s {
			b.WriteString(" " + F(v))
		}
	}
	return b.String()
}

var directCache = map[string]string{}

var scopeSeen = map[string]int{}

// jsonFail records an oracle failure, at most 25 per scope in the list (all are counted in the histogram).
func jsonFail(c *Ctx, id int, scope, what, op string) {
	if scopeSeen[scope]++; scopeSeen[scope] > 25 {
		c.Stats.Count("oracle_fail:" + scope)
		c.Stats.Count("oracle_fail_not_listed:" + scope)
		return
	}
	c.OracleFail(id, scope, what, op)
}

func (c *Ctx) direct(pl *jsonPlan) string {
	key := pl.directBody()
	if r, ok := directCache[key]; ok {
		return r
	}
	r := c.Exec(key)
	if len(directCache) > 4096 {
		directCache = map[string]string{}
	}
	directCache[key] = r
	return r
}

// modelPart: the tokens after the request hex (see the header).
func (c *Ctx) modelPart(pl *jsonPlan) string {
	var b strings.Builder
	b.WriteString("D")
	if pl.decodeErr != "" {
		b.WriteString(" E " + hexS(pl.decodeErr))
	} else {
		r := pl.req
		fmt.Fprintf(&b, " R %s %d", hexS(r.Name), len(r.Inputs))
		for _, in := range r.Inputs {
			if in.Values == nil {
				fmt.Fprintf(&b, " %s N", hexS(in.Name))
			} else {
				fmt.Fprintf(&b, " %s V %s", hexS(in.Name), Fs(in.Values))
			}
		}
		fmt.Fprintf(&b, " %d", len(r.States))
		for _, s := range r.States {
			fmt.Fprintf(&b, " %s %s", hexS(s.Name), F(s.Value))
		}
		fmt.Fprintf(&b, " %d", len(r.Parameters))
		for _, p := range r.Parameters {
			fmt.Fprintf(&b, " %s %s", hexS(p.Name), F(p.Value))
		}
	}
	b.WriteString(" C")
	if pl.desc == nil {
		b.WriteString(" none I - K 0 0 0 U -")
		return b.String()
	}
	d := pl.desc
	fmt.Fprintf(&b, " desc %d", len(d.Parameters))
	for _, p := range d.Parameters {
		fmt.Fprintf(&b, " %s %s", hexS(p.Name), F(p.Default))
	}
	for _, l := range [][]string{d.Inputs, d.States, d.Outputs} {
		fmt.Fprintf(&b, " %d", len(l))
		for _, s := range l {
			b.WriteString(" " + hexS(s))
		}
	}
	dr := c.direct(pl)
	dt := newTokenReader(dr)
	ini, run := "ok", "-"
	switch dt.next() {
	case "initpanic":
		ini = "panic " + dt.next()
	case "initok":
	case "runpanic":
		run = "panic " + dt.next()
	case "panic": // the worker died
		run = "died " + dt.next()
	case "ok":
		run = dr
	}
	fmt.Fprintf(&b, " I %s K %s", ini, Fs(pl.params))
	if pl.inputs == nil {
		b.WriteString(" 0 0")
	} else {
		fmt.Fprintf(&b, " %d %d", len(pl.inputs), pl.T)
		for _, s := range pl.inputs {
			for _, v := range s {
				b.WriteString(" " + F(v))
			}
		}
	}
	b.WriteString(" U " + run)
	return b.String()
}

// ---------------------------------------------------------------------------------------------
// JSON: oracle on the implementation

type jsonOutcome struct {
	died   string // class, when the process died
	raw    bool   // output is not a sequence of JSON documents
	docs   []*jnode
	ending string // returned | panicked <class>
}

func parseOutcome(impl string) *jsonOutcome {
	t := newTokenReader(impl)
	o := &jsonOutcome{}
	switch t.next() {
	case "panic":
		o.died = t.next()
		return o
	case "w":
	default:
		o.raw = true
		return o
	}
	if t.toks[t.pos] == "raw" {
		o.raw = true
	} else {
		n := t.int()
		for i := 0; i < n; i++ {
			o.docs = append(o.docs, readJNode(t))
		}
	}
	for !t.done() {
		if t.next() == "end" {
			o.ending = strings.Join(t.toks[t.pos:], " ")
			break
		}
	}
	return o
}

// answered: exactly one valid JSON document was written and the call returned
func (o *jsonOutcome) answered() (bool, string) {
	switch {
	case o.died != "":
		return false, "the process died (" + o.died + ") and wrote nothing"
	case o.raw:
		return false, "what was written is not a sequence of JSON documents"
	case len(o.docs) != 1 && o.ending != "returned":
		return false, fmt.Sprintf("%d documents written and the call %s", len(o.docs), o.ending)
	case len(o.docs) != 1:
		return false, fmt.Sprintf("%d documents written", len(o.docs))
	case o.ending != "returned":
		return false, "one document written, then the call " + o.ending + " (ow-single exits with status 2)"
	}
	return true, ""
}

func logLines(doc *jnode) ([]string, bool) {
	l := doc.get("Log")
	if l == nil || l.kind != 'A' {
		return nil, false
	}
	var out []string
	for _, x := range l.arr {
		if x.kind != 'S' {
			return nil, false
		}
		out = append(out, x.str)
	}
	return out, true
}

// problemReport: a document with null results and at least one non-empty log line
func problemReport(doc *jnode) string {
	rr := doc.get("RunResults")
	if rr == nil || rr.get("Outputs") == nil || rr.get("Outputs").kind != 'N' || rr.get("States") == nil || rr.get("States").kind != 'N' {
		return "results are not null"
	}
	lines, ok := logLines(doc)
	if !ok {
		return "no log"
	}
	for _, l := range lines {
		if strings.TrimSpace(l) != "" {
			return ""
		}
	}
	return "the log does not describe the problem (no non-empty line)"
}

func oracleJSON(c *Ctx, id int, body, impl string) {
	t := newTokenReader(body)
	first := t.next()
	if first == "DIRECT" {
		return
	}
	split := first == "1"
	raw, herr := hex.DecodeString(strings.TrimPrefix(t.next(), "x"))
	if herr != nil {
		return
	}
	pl := planRequest(raw)
	o := parseOutcome(impl)
	c.Stats.OracleEvals++
	fail := func(scope, what string) {
		// main.go keeps recorded ops up to 200000 characters: the full line (needed by the model on replay) fits unless the
		// request itself is huge; then the short form (split + request bytes) still replays implementation and oracle
		op := body
		if len(op) > 190000 {
			op = first + " x" + hex.EncodeToString(raw)
			what += " [line too long for the replay record: short form recorded, the model side of a replay will not parse it]"
		}
		// the failure list of a run is bounded (main.go keeps 200): never let one mechanism (e.g. a known finding that
		// fires on every request naming a certain model) crowd out the others
		jsonFail(c, id, scope, what, op)
	}

	if pl.decodeErr != "" || pl.desc == nil {
		scope := "JSON:malformed"
		if pl.decodeErr == "" {
			scope = "JSON:unknown-model"
		}
		if ok, why := o.answered(); !ok {
			fail(scope, why)
		} else if e := problemReport(o.docs[0]); e != "" {
			fail(scope, e)
		}
		return
	}
	if pl.mech != "" { // no inputs at all / unequal lengths: a problem report is due
		if ok, why := o.answered(); !ok {
			fail(pl.mech, fmt.Sprintf("%s (supplied input lengths %v)", why, pl.lengths))
		} else if e := problemReport(o.docs[0]); e != "" {
			fail(pl.mech, fmt.Sprintf("supplied input lengths %v: %s", pl.lengths, e))
		}
		return
	}
	// a run is due: compare with the direct one-cell run
	dr := c.direct(pl)
	dt := newTokenReader(dr)
	if st := dt.next(); st != "ok" {
		scope := "JSON:kernel-panic"
		if len(pl.desc.Dimensions) > 0 {
			scope = "JSON:dimensions"
		}
		if ok, why := o.answered(); !ok {
			fail(scope, fmt.Sprintf("%s; the direct run of %s with the same parameters and inputs ends with %q", why, pl.req.Name, trunc(dr, 60)))
		}
		return
	}
	nOut, T := dt.int(), dt.int()
	outs := make([][]float64, nOut)
	for i := range outs {
		outs[i] = make([]float64, T)
		for k := range outs[i] {
			outs[i][k] = dt.float()
		}
	}
	states := dt.floats()
	d := pl.desc
	widthScope := "JSON:other"
	if split && len(states) != len(d.States) {
		widthScope = "JSON:split-states-width"
	}
	if ok, why := o.answered(); !ok {
		fail(widthScope, fmt.Sprintf("%s although the direct run succeeds (state row %d wide, %d state names)", why, len(states), len(d.States)))
		return
	}
	doc := o.docs[0]
	rr := doc.get("RunResults")
	if rr == nil {
		fail("JSON:other", "no RunResults")
		return
	}
	series := func(n *jnode, xs []float64) bool {
		if n == nil || n.kind != 'A' || len(n.arr) != len(xs) {
			return false
		}
		for i, x := range xs {
			if !safeMatches(n.arr[i], x) {
				return false
			}
		}
		return true
	}
	// outputs
	jo := rr.get("Outputs")
	if split {
		if jo == nil || jo.kind != 'O' || len(jo.keys) != len(uniq(d.Outputs)) {
			fail("JSON:other", "Outputs is not an object with one entry per output")
			return
		}
		for i, name := range d.Outputs {
			if !series(jo.get(name), outs[i]) {
				fail("JSON:other", fmt.Sprintf("output %s differs from the direct run", name))
				return
			}
		}
	} else {
		if jo == nil || jo.kind != 'A' || len(jo.arr) != nOut {
			fail("JSON:other", "Outputs is not an array with one row per output")
			return
		}
		for i := range outs {
			if !series(jo.arr[i], outs[i]) {
				fail("JSON:other", fmt.Sprintf("output row %d differs from the direct run", i))
				return
			}
		}
	}
	// final states: all of them
	js := rr.get("States")
	switch {
	case js != nil && js.kind == 'A':
		if !series(js, states) {
			fail("JSON:other", "States array differs from the final state row of the direct run")
			return
		}
	case js != nil && js.kind == 'O' && split:
		if len(states) != len(d.States) {
			fail("JSON:split-states-width", fmt.Sprintf("final state row has %d values, the States object names %d: the row is not reported in full", len(states), len(js.keys)))
			return
		}
		for i, name := range d.States {
			if !safeMatches(js.get(name), states[i]) {
				fail("JSON:other", fmt.Sprintf("state %s differs from the direct run", name))
				return
			}
		}
	default:
		fail("JSON:other", "States has an unexpected form")
		return
	}
	// log: one line per missing parameter / input, in description order, none for supplied ones
	if pl.ambiguous {
		c.Stats.Count("oracle:ambiguous-names-log-not-checked")
		return
	}
	lines, ok := logLines(doc)
	if !ok {
		if len(pl.missingP)+len(pl.missingI) > 0 {
			fail("JSON:log", "missing values but no log")
		}
		return
	}
	last := -1
	find := func(pred func(string) bool) []int {
		var at []int
		for i, l := range lines {
			if pred(l) {
				at = append(at, i)
			}
		}
		return at
	}
	for _, pd := range d.Parameters {
		name := pd.Name
		at := find(func(l string) bool { return strings.HasPrefix(l, name+" ") && strings.Contains(l, "default") })
		missing := contains(pl.missingP, name)
		switch {
		case missing && len(at) != 1:
			fail("JSON:log", fmt.Sprintf("parameter %s is missing from the request: %d log lines report it", name, len(at)))
			return
		case !missing && len(at) != 0:
			fail("JSON:log", fmt.Sprintf("parameter %s was supplied but the log reports a default", name))
			return
		case missing:
			if at[0] < last {
				fail("JSON:log", "log lines out of description order at parameter "+name)
				return
			}
			last = at[0]
			if !strings.Contains(lines[at[0]], fmt.Sprintf("%f", pd.Default)) {
				fail("JSON:log", fmt.Sprintf("log line for %s does not show the default %f: %q", name, pd.Default, lines[at[0]]))
				return
			}
		}
	}
	for _, name := range d.Inputs {
		at := find(func(l string) bool { return strings.Contains(l, "nput: "+name+",") })
		missing := contains(pl.missingI, name)
		switch {
		case missing && len(at) != 1:
			fail("JSON:log", fmt.Sprintf("input %s is missing from the request: %d log lines report it", name, len(at)))
			return
		case !missing && len(at) != 0:
			fail("JSON:log", fmt.Sprintf("input %s was supplied but the log reports it missing", name))
			return
		case missing:
			if at[0] < last {
				fail("JSON:log", "log lines out of description order at input "+name)
				return
			}
			last = at[0]
		}
	}
}

func uniq(xs []string) map[string]bool {
	m := map[string]bool{}
	for _, x := range xs {
		m[x] = true
	}
	return m
}

func contains(xs []string, x string) bool {
	for _, y := range xs {
		if y == x {
			return true
		}
	}
	return false
}

// ---------------------------------------------------------------------------------------------
// JSON: request generator

type reqParam struct {
	name string
	v    float64
}
type reqInput struct {
	name   string
	vals   []float64
	null   bool // "Values": null
	absent bool // no "Values" member
}

type reqSpec struct {
	name       *string // nil: no Name member
	params     []reqParam
	inputs     []reqInput
	states     []reqParam
	noParams   bool // omit the member altogether
	noInputs   bool
	noStates   bool
	lower      bool // member names in lower case (encoding/json matches case-insensitively)
	order      []int
	extraField bool
}

// nearMissName: the same letters in another case, or padded with a blank
func nearMissName(r *Rng, n string) string {
	switch r.Intn(4) {
	case 0:
		return strings.ToUpper(n)
	case 1:
		return strings.ToLower(n)
	case 2:
		return " " + n
	}
	if n == "" {
		return " "
	}
	// swap the case of the first letter
	c := n[:1]
	if strings.ToUpper(c) == c {
		return strings.ToLower(c) + n[1:]
	}
	return strings.ToUpper(c) + n[1:]
}

func jnum(v float64) string { return strconv.FormatFloat(v, 'g', -1, 64) }

func jstr(s string) string {
	b, _ := json.Marshal(s)
	return string(b)
}

func (s *reqSpec) bytes() []byte {
	key := func(k string) string {
		if s.lower {
			k = strings.ToLower(k)
		}
		return jstr(k)
	}
	var members []string
	if s.name != nil {
		members = append(members, key("Name")+":"+jstr(*s.name))
	}
	vals := func(ps []reqParam) string {
		var xs []string
		for _, p := range ps {
			xs = append(xs, "{"+key("Name")+":"+jstr(p.name)+","+key("Value")+":"+jnum(p.v)+"}")
		}
		return "[" + strings.Join(xs, ",") + "]"
	}
	if !s.noInputs {
		var xs []string
		for _, in := range s.inputs {
			m := "{" + key("Name") + ":" + jstr(in.name)
			switch {
			case in.absent:
			case in.null:
				m += "," + key("Values") + ":null"
			default:
				var vs []string
				for _, v := range in.vals {
					vs = append(vs, jnum(v))
				}
				m += "," + key("Values") + ":[" + strings.Join(vs, ",") + "]"
			}
			xs = append(xs, m+"}")
		}
		members = append(members, key("Inputs")+":["+strings.Join(xs, ",")+"]")
	}
	if !s.noStates {
		members = append(members, key("States")+":"+vals(s.states))
	}
	if !s.noParams {
		members = append(members, key("Parameters")+":"+vals(s.params))
	}
	if s.extraField {
		members = append(members, `"Comment":{"by":["owharness",1,null,true]}`)
	}
	if len(s.order) == len(members) {
		m2 := make([]string, len(members))
		for i, j := range s.order {
			m2[i] = members[j]
		}
		members = m2
	}
	return []byte("{" + strings.Join(members, ",") + "}")
}

func shuffle[T any](r *Rng, xs []T) {
	for i := len(xs) - 1; i > 0; i-- {
		j := r.Intn(i + 1)
		xs[i], xs[j] = xs[j], xs[i]
	}
}

// drawValid: parameter values and input series for a model: from the model's registered generator when there is one
// (physically valid → the kernel runs), else defaults nudged / small numbers.
func drawValid(r *Rng, name string, d *sim.ModelDescription, T int) ([]float64, [][]float64) {
	if g := modelGens[name]; g != nil && len(d.Dimensions) == 0 {
		var p []float64
		var in [][]float64
		ok := true
		func() {
			defer func() {
				if recover() != nil {
					ok = false
				}
			}()
			p = g.Params(r)
			if T > 0 {
				in = g.Inputs(r, T, p)
			} else {
				in = make([][]float64, len(d.Inputs))
				for i := range in {
					in[i] = []float64{}
				}
			}
		}()
		if ok && len(p) == len(d.Parameters) && len(in) == len(d.Inputs) {
			return p, in
		}
	}
	p := make([]float64, len(d.Parameters))
	for i, pd := range d.Parameters {
		switch r.Intn(4) {
		case 0:
			p[i] = pd.Default
		case 1:
			if pd.Range[1] > pd.Range[0] {
				p[i] = r.Uniform(pd.Range[0], pd.Range[1])
			} else {
				p[i] = r.Uniform(0, 2)
			}
		case 2:
			p[i] = float64(r.Range(1, 3))
		default:
			p[i] = Snap(r, r.Uniform(0.1, 5))
		}
	}
	in := make([][]float64, len(d.Inputs))
	for i := range in {
		in[i] = Series(r, T, []float64{1, 10, 100}[r.Intn(3)])
	}
	return p, in
}

func genJSON(c *Ctx) {
	c.Stats.Rule = "request byte strings run through the real RunSingleModelJSON in a child process, splitOutputs true and false: " +
		"per catalogued model (all of sim.Catalog) requests with all / none / a subset / a superset of the parameters and inputs in " +
		"description or shuffled order, duplicated names, lower-case member names, states given / wrong count / absent, series lengths " +
		"0..12 equal, a later series longer or shorter, Values null or absent, no inputs at all; parameter values from the model's " +
		"registered generator (valid) or defaults; plus malformed JSON (truncations of valid requests, wrong types, huge numbers, " +
		"duplicate members, empty, binary junk, several documents), unknown and empty model names; non-trivial = the request " +
		"decodes and names a catalogued model; distinct by request bytes and splitOutputs"
	r := c.R
	owsingle := c.Arg("owsingle", "")
	nBin := 0
	do := func(raw []byte, split bool, kind string) {
		pl := planRequest(raw)
		sp := "0"
		if split {
			sp = "1"
		}
		body := sp + " x" + hex.EncodeToString(raw) + " " + c.modelPart(pl)
		id, impl := c.Do(body, pl.desc != nil)
		c.Stats.Count("kind:" + kind)
		switch {
		case pl.decodeErr != "":
			c.Stats.Count("req:decode-error")
		case pl.req.Name == "":
			c.Stats.Count("req:no-name")
		case pl.desc == nil:
			c.Stats.Count("req:unknown-model")
		case pl.mech != "":
			c.Stats.Count("req:" + pl.mech)
		default:
			c.Stats.Count("req:run")
			c.Stats.Count("T:" + bucket(pl.T))
			if len(pl.missingP) > 0 {
				c.Stats.Count("req:some-defaults")
			}
			if len(pl.missingI) > 0 {
				c.Stats.Count("req:some-zero-inputs")
			}
		}
		if strings.Contains(impl, " S4e614e") || strings.Contains(impl, " S2b496e66") || strings.Contains(impl, " S2d496e66") {
			c.Stats.Count("resp:non-finite-string")
		}
		// the real ow-single binary on a sample (always splitOutputs = true)
		if owsingle != "" && split && (kind != "valid" || id%7 == 0) {
			nBin++
			runBinary(c, owsingle, id, raw, body, impl, pl)
		}
	}
	both := func(raw []byte, kind string) {
		do(raw, true, kind)
		do(raw, false, kind)
	}

	names := make([]string, 0, len(sim.Catalog))
	for k := range sim.Catalog {
		names = append(names, k)
	}
	sort.Strings(names)
	if ms := modelsArg(c); len(ms) > 0 {
		names = ms
	}
	perModel := 14
	if c.Tier == "thorough" {
		perModel = 120
	}
	if n := c.Arg("n", ""); n != "" {
		perModel = parseI(n)
	}
	var validSamples [][]byte
	for _, name := range names {
		d := describe(name)
		if d == nil {
			continue
		}
		nm := name
		// fixed shapes first: nothing at all, everything, no parameters, no inputs
		mk := func(T int, mode string) *reqSpec {
			p, in := drawValid(r, nm, d, T)
			s := &reqSpec{name: &nm}
			for i, pd := range d.Parameters {
				s.params = append(s.params, reqParam{pd.Name, p[i]})
			}
			for i, iname := range d.Inputs {
				s.inputs = append(s.inputs, reqInput{name: iname, vals: in[i]})
			}
			switch mode {
			case "bare":
				s.params, s.inputs = nil, nil
				s.noParams, s.noInputs, s.noStates = true, true, true
			case "noparams":
				s.params = nil
			case "noinputs":
				s.inputs = nil
			}
			return s
		}
		both(mk(0, "bare").bytes(), "bare")
		both(mk(3, "noinputs").bytes(), "no-inputs")
		both(mk(r.Range(1, 8), "noparams").bytes(), "defaults-only")
		full := mk(r.Range(1, 12), "full").bytes()
		both(full, "valid")
		validSamples = append(validSamples, full)
		both(mk(0, "full").bytes(), "zero-length")
		for i := 0; i < perModel; i++ {
			T := r.Range(1, 12)
			s := mk(T, "full")
			kind := "valid"
			// parameters: subset / superset / order / duplicates
			if r.Chance(0.5) {
				keep := s.params[:0]
				for _, p := range s.params {
					if r.Chance(0.6) {
						keep = append(keep, p)
					}
				}
				s.params = keep
			}
			if r.Chance(0.3) {
				s.params = append(s.params, reqParam{"notAParameter", 1.5}, reqParam{"", 2})
			}
			if r.Chance(0.1) && len(s.params) > 0 {
				p := s.params[r.Intn(len(s.params))]
				s.params = append(s.params, reqParam{p.name, p.v + 1})
				kind = "duplicate-names"
			}
			// NEAR-MISS names: a case variant or a blank-padded spelling of a catalogued name is NOT that name (the runner matches names
			// exactly): the entry is ignored and the real parameter / input falls back to its default / zero, each reported
			if r.Chance(0.15) && len(s.params) > 0 {
				k := r.Intn(len(s.params))
				s.params[k].name = nearMissName(r, s.params[k].name)
				kind = "near-miss-names"
			}
			if r.Chance(0.5) {
				shuffle(r, s.params)
			}
			if r.Chance(0.1) && len(s.inputs) > 0 {
				k := r.Intn(len(s.inputs))
				s.inputs[k].name = nearMissName(r, s.inputs[k].name)
				kind = "near-miss-names"
			}
			// inputs
			switch r.Intn(10) {
			case 0, 1: // subset
				keep := s.inputs[:0]
				for _, in := range s.inputs {
					if r.Chance(0.6) {
						keep = append(keep, in)
					}
				}
				s.inputs = keep
			case 2: // superset
				s.inputs = append(s.inputs, reqInput{name: "notAnInput", vals: make([]float64, T+3)})
			case 3: // some Values null / absent
				for i := range s.inputs {
					if r.Chance(0.4) {
						s.inputs[i].null = r.Bool()
						s.inputs[i].absent = !s.inputs[i].null
					}
				}
			case 4: // a later series longer
				if len(s.inputs) > 1 {
					i := r.Range(1, len(s.inputs)-1)
					s.inputs[i].vals = append(append([]float64{}, s.inputs[i].vals...), make([]float64, r.Range(1, 3))...)
					kind = "later-longer"
				}
			case 5: // a later series shorter
				if len(s.inputs) > 1 && T > 1 {
					i := r.Range(1, len(s.inputs)-1)
					if n := len(s.inputs[i].vals); n > 1 {
						s.inputs[i].vals = s.inputs[i].vals[:r.Range(0, n-1)]
					}
					kind = "later-shorter"
				}
			case 6: // duplicate input name, second copy of another length
				if len(s.inputs) > 0 {
					in := s.inputs[r.Intn(len(s.inputs))]
					s.inputs = append(s.inputs, reqInput{name: in.name, vals: make([]float64, T+1)})
					kind = "duplicate-names"
				}
			}
			if r.Chance(0.5) {
				shuffle(r, s.inputs)
			}
			// states
			switch r.Intn(4) {
			case 0:
				s.noStates = true
			case 1:
				for _, sn := range d.States {
					s.states = append(s.states, reqParam{sn, r.Uniform(0, 10)})
				}
			case 2:
				s.states = []reqParam{{"bogus", 1}}
			}
			s.lower = r.Chance(0.1)
			s.extraField = r.Chance(0.15)
			if r.Chance(0.3) {
				n := 1
				if !s.noInputs {
					n++
				}
				if !s.noStates {
					n++
				}
				if !s.noParams {
					n++
				}
				if s.extraField {
					n++
				}
				s.order = make([]int, n)
				for j := range s.order {
					s.order[j] = j
				}
				shuffle(r, s.order)
			}
			do(s.bytes(), r.Chance(0.6), kind)
		}
	}

	// numbers survive the round trip exactly: the identity model on awkward values
	if describe("Input") != nil {
		in := describe("Input").Inputs[0]
		for k := 0; k < 6; k++ {
			vals := []float64{5e-324, math.MaxFloat64, -math.MaxFloat64, 0.1, math.Copysign(0, -1), 1e21, 1e-7, 123456789.125, 0.30000000000000004}
			for j := 0; j < 8; j++ {
				v := math.Float64frombits(r.U64())
				if !math.IsNaN(v) && !math.IsInf(v, 0) {
					vals = append(vals, v)
				}
			}
			nm := "Input"
			both((&reqSpec{name: &nm, inputs: []reqInput{{name: in, vals: vals}}}).bytes(), "round-trip")
		}
	}
	// non-finite results: overflow to ±Inf and Inf-Inf = NaN through Sum / ApplyScalingFactor
	if d := describe("ApplyScalingFactor"); d != nil {
		nm := "ApplyScalingFactor"
		both((&reqSpec{name: &nm, params: []reqParam{{d.Parameters[0].Name, 1e300}},
			inputs: []reqInput{{name: d.Inputs[0], vals: []float64{1e300, -1e300, 0, 1}}}}).bytes(), "non-finite")
	}
	if d := describe("Sum"); d != nil && len(d.Inputs) == 2 {
		nm := "Sum"
		both((&reqSpec{name: &nm, inputs: []reqInput{{name: d.Inputs[0], vals: []float64{math.MaxFloat64, -math.MaxFloat64, 1}},
			{name: d.Inputs[1], vals: []float64{math.MaxFloat64, -math.MaxFloat64, 2}}}}).bytes(), "non-finite")
	}

	// non-finite values at EVERY position pattern: EmcDwc with EMC = DWC = 1e300 turns a timestep with quickflow 1e300 / baseflow -1e300 into
	// +Inf (quickLoad), -Inf (slowLoad) and NaN (totalLoad = Inf - Inf), and leaves the other timesteps finite. An encoder that looks
	// at the first element, at the minimum/maximum (comparisons ignore NaN) or at the last element only shows on a series whose ONLY
	// non-finite value is somewhere else.
	if d := describe("EmcDwc"); d != nil && len(d.Inputs) == 2 && len(d.Parameters) == 2 {
		nm := "EmcDwc"
		nPat := 10
		if c.Tier == "thorough" {
			nPat = 60
		}
		for k := 0; k < nPat; k++ {
			T := r.Range(1, 9)
			q, b := make([]float64, T), make([]float64, T)
			for t := range q {
				q[t], b[t] = float64(r.Range(0, 9))*1e-300, float64(r.Range(0, 9))*1e-300
			}
			var bad []int
			switch k % 5 {
			case 0:
				bad = []int{0}
			case 1:
				bad = []int{T - 1}
			case 2:
				bad = []int{r.Intn(T)}
			case 3:
				bad = []int{r.Intn(T), r.Intn(T)}
			default:
				for t := 1; t < T; t++ { // everything but the first
					bad = append(bad, t)
				}
			}
			for _, t := range bad {
				switch r.Intn(4) {
				case 0:
					q[t], b[t] = 1e300, -1e300 // Inf, -Inf, NaN
				case 1:
					q[t] = 1e300 // Inf, finite, Inf
				case 2:
					b[t] = -1e300 // finite, -Inf, -Inf
				default:
					q[t], b[t] = -1e300, 1e300 // -Inf, Inf, NaN
				}
			}
			both((&reqSpec{name: &nm, params: []reqParam{{d.Parameters[0].Name, 1e300}, {d.Parameters[1].Name, 1e300}},
				inputs: []reqInput{{name: d.Inputs[0], vals: q}, {name: d.Inputs[1], vals: b}}}).bytes(), "non-finite")
		}
	}

	// unknown / empty names
	for _, n := range []string{"", "NoSuchModel", "gr4j", "GR4J ", "Σ", "a\"b\\c\n", strings.Repeat("x", 300), " <script>&"} {
		nn := n
		both((&reqSpec{name: &nn, noStates: true}).bytes(), "unknown-model")
	}
	both((&reqSpec{noInputs: true, noStates: true, noParams: true}).bytes(), "unknown-model")

	// malformed
	malformed := [][]byte{
		nil, []byte(" "), []byte("\n\n"), []byte("{"), []byte("}"), []byte("nul"), []byte("null"), []byte("true"), []byte("12"), []byte(`"GR4J"`),
		[]byte("[1,2]"), []byte("[]"), []byte("{}"), []byte("{}{}"), []byte("{} trailing garbage"), []byte(`{"Name":"Sum"} {"Name":"GR4J"}`),
		[]byte(`{"Name":5}`), []byte(`{"Name":null}`), []byte(`{"Name":["Sum"]}`), []byte(`{"Name":"Sum","Inputs":5}`),
		[]byte(`{"Name":"Sum","Inputs":{"i1":[1,2]}}`), []byte(`{"Name":"Sum","Inputs":[{"Name":"i1","Values":["a"]}]}`),
		[]byte(`{"Name":"Sum","Inputs":[{"Name":"i1","Values":[1,null,3]},{"Name":"i2","Values":[1,2,3]}]}`),
		[]byte(`{"Name":"Sum","Inputs":[{"Name":"i1","Values":[1e999]}]}`), []byte(`{"Name":"Sum","Inputs":[{"Name":"i1","Values":[-1e999,2]}]}`),
		[]byte(`{"Name":"Sum","Inputs":[{"Name":"i1","Values":[1e-999, 123456789012345678901234567890, 0.1e1, -0]},{"Name":"i2","Values":[1,2,3,4]}]}`),
		[]byte(`{"Name":"Sum","Inputs":[{"Name":"i1","Values":[01]}]}`), []byte(`{"Name":"Sum","Inputs":[{"Name":"i1","Values":[1,]}]}`),
		[]byte(`{"Name":"Sum","Inputs":[{"Name":"i1","Values":[NaN]}]}`), []byte(`{"Name":"Sum","Inputs":[{"Name":"i1","Values":[Infinity]}]}`),
		[]byte(`{"Name":"Sum","Parameters":[null]}`), []byte(`{"Name":"Sum","Parameters":[[1]]}`), []byte(`{"Name":"Sum","Parameters":[{"Name":"a","Value":"1"}]}`),
		[]byte(`{"Name":"Sum","Parameters":[{"Name":"a","Value":true}]}`), []byte(`{"Name":"RunoffCoefficient","Parameters":[{"Name":"coeff","Value":1e999}]}`),
		[]byte(`{"Name":"Sum","States":{"a":1}}`), []byte(`{"Name":"Sum","States":null,"Inputs":null,"Parameters":null}`),
		[]byte(`{"Name":"RunoffCoefficient","Name":"Sum","Inputs":[{"Name":"i1","Values":[1]},{"Name":"i2","Values":[2]}]}`),
		[]byte(`{"Name":"Sum","Inputs":[{"Name":"i1","Values":[1,2]}],"Inputs":[{"Name":"i2","Values":[5]}]}`),
		[]byte(`{"Name":"Sum","Inputs":[{"Name":"i1","Values":[1,2]},{"Name":"i2","Values":[3,4]}],"Inputs":[{"Values":[9]}]}`),
		[]byte(`{"Name":"Sum","Inputs":[{"Name":"i1","Name":"i2","Values":[1,2],"Values":[7]}]}`),
		[]byte(`{"NAME":"Sum","inputs":[{"name":"i1","VALUES":[1,2]},{"NaMe":"i2","values":[3,4]}]}`),
		[]byte(`{"Name":"Sum",}`), []byte(`{"Name" "Sum"}`), []byte(`{'Name':'Sum'}`), []byte(`{Name:"Sum"}`), []byte("{\"Name\":\"Su\x00m\"}"),
		[]byte("{\"Name\":\"\xff\xfe\"}"), []byte(`{"Name":"\ud800"}`), []byte(`{"Name":"Sum","Inputs":[{"Name":"i1","Values":[1]}]}`),
		[]byte("\xff\xfe\x00\x01"), []byte("\xef\xbb\xbf{}"), []byte{0}, []byte(strings.Repeat("[", 20000)), []byte(strings.Repeat(`{"Name":`, 500)),
		[]byte(`{"Name":"Sum","Inputs":[` + strings.Repeat(`{"Name":"zz","Values":[]},`, 200) + `{"Name":"i1","Values":[1,2,3]}]}`),
	}
	for _, m := range malformed {
		both(m, "malformed")
	}
	// truncations and single-byte corruptions of valid requests
	nTrunc := 3
	if c.Tier == "thorough" {
		nTrunc = 12
	}
	for _, v := range validSamples {
		for k := 0; k < nTrunc; k++ {
			cut := r.Range(0, len(v)-1)
			do(v[:cut], r.Bool(), "truncated")
			w := append([]byte{}, v...)
			w[r.Intn(len(w))] = []byte{'"', '{', '}', '[', ']', ',', ':', 'e', '-', '.', 0, 0xff, ' ', '9', '\\'}[r.Intn(15)]
			do(w, r.Bool(), "corrupted")
		}
	}
	for k := 0; k < 40; k++ {
		junk := make([]byte, r.Range(1, 60))
		for i := range junk {
			junk[i] = byte(r.Intn(256))
		}
		do(junk, r.Bool(), "junk")
	}
	if owsingle != "" {
		c.Stats.Notes = append(c.Stats.Notes, fmt.Sprintf("real ow-single binary run on %d of the requests: exit status, stdout = one document, same document as the in-process call", nBin))
	} else {
		c.Stats.Notes = append(c.Stats.Notes, "ow-single binary not given (owsingle=<path>): only the in-process calls were made")
	}
}

// runBinary: the request on the stdin of the real ow-single binary; exit status 0, stdout = exactly one JSON document,
// and that document = the one the in-process call (splitOutputs = true) wrote.
func runBinary(c *Ctx, exe string, id int, raw []byte, body, impl string, pl *jsonPlan) {
	cmd := exec.Command(exe)
	cmd.Stdin = bytes.NewReader(raw)
	var out, errb bytes.Buffer
	cmd.Stdout, cmd.Stderr = &out, &limitedWriter{&strings.Builder{}, 1 << 12}
	_ = errb
	cmd.Env = append(os.Environ(), "GOTRACEBACK=single", "GOMEMLIMIT=2GiB")
	done := make(chan error, 1)
	must(cmd.Start())
	go func() { done <- cmd.Wait() }()
	var err error
	select {
	case err = <-done:
	case <-time.After(60 * time.Second):
		cmd.Process.Kill()
		err = fmt.Errorf("timeout")
	}
	c.Stats.OracleEvals++
	c.Stats.Count("ow-single:runs")
	status := 0
	if err != nil {
		status = -1
		if ee, ok := err.(*exec.ExitError); ok {
			status = ee.ExitCode()
		}
	}
	c.Stats.Count(fmt.Sprintf("ow-single:exit=%d", status))
	scope := "JSON:other"
	switch {
	case pl.decodeErr != "":
		scope = "JSON:malformed"
	case pl.desc == nil:
		scope = "JSON:unknown-model"
	case pl.mech != "":
		scope = pl.mech
	default:
		dr := c.direct(pl)
		dt := newTokenReader(dr)
		if dt.next() != "ok" {
			scope = "JSON:kernel-panic"
			if len(pl.desc.Dimensions) > 0 {
				scope = "JSON:dimensions"
			}
		} else {
			dt.int()
			T := dt.int()
			for i := 0; i < len(pl.desc.Outputs)*T; i++ {
				dt.next()
			}
			if len(dt.floats()) != len(pl.desc.States) {
				scope = "JSON:split-states-width"
			}
		}
	}
	toks := docTokens(out.Bytes())
	if len(body) > 190000 {
		body = "1 x" + hex.EncodeToString(raw)
	}
	switch {
	case status != 0:
		jsonFail(c, id, scope, fmt.Sprintf("ow-single exits with status %d; stdout holds %s", status, trunc(strings.SplitN(toks, " ", 2)[0]+" document(s)", 40)), body)
	case strings.HasPrefix(toks, "raw") || !strings.HasPrefix(toks, "1 "):
		jsonFail(c, id, scope, "ow-single: stdout is not exactly one JSON document: "+trunc(toks, 60), body)
	case "w "+toks+" end returned" != impl:
		jsonFail(c, id, "JSON:ow-single-differs", "ow-single wrote another document than RunSingleModelJSON(…, true) in process", body)
	}
}
