package main

import (
	"math"
	"strconv"
	"strings"
)

// F formats a float64 as 'f' + decimal of its IEEE-754 bit pattern (lossless between Go and Lean).
func F(x float64) string { return "f" + strconv.FormatUint(math.Float64bits(x), 10) }

func Fs(xs []float64) string {
	var b strings.Builder
	b.WriteString(strconv.Itoa(len(xs)))
	for _, x := range xs {
		b.WriteByte(' ')
		b.WriteString(F(x))
	}
	return b.String()
}

func Is(xs []int) string {
	var b strings.Builder
	b.WriteString(strconv.Itoa(len(xs)))
	for _, x := range xs {
		b.WriteByte(' ')
		b.WriteString(strconv.Itoa(x))
	}
	return b.String()
}

func I(x int) string { return strconv.Itoa(x) }

// parse helpers for replay
func parseF(tok string) float64 {
	u, _ := strconv.ParseUint(strings.TrimPrefix(tok, "f"), 10, 64)
	return math.Float64frombits(u)
}

func parseI(tok string) int {
	v, _ := strconv.Atoi(tok)
	return v
}

// tokenReader walks over the tokens of a protocol line.
type tokenReader struct {
	toks []string
	pos  int
}

func newTokenReader(line string) *tokenReader { return &tokenReader{toks: strings.Fields(line)} }
func (t *tokenReader) next() string {
	if t.pos >= len(t.toks) {
		return ""
	}
	s := t.toks[t.pos]
	t.pos++
	return s
}
func (t *tokenReader) int() int       { return parseI(t.next()) }
func (t *tokenReader) float() float64 { return parseF(t.next()) }
func (t *tokenReader) ints() []int {
	n := t.int()
	out := make([]int, n)
	for i := range out {
		out[i] = t.int()
	}
	return out
}
func (t *tokenReader) floats() []float64 {
	n := t.int()
	out := make([]float64, n)
	for i := range out {
		out[i] = t.float()
	}
	return out
}
func (t *tokenReader) done() bool { return t.pos >= len(t.toks) }
