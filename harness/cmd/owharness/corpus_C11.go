package main

// Corpus for C11: replayable cases of known finding KF-C11-StorageRouting-unconverged-small-power (the root search of
// calcOutflow does not reach massBalanceLimit within its 20 iterations when the routing power is small).
//  1. the case of the Lean theorem OW.Props.C11.root_not_converged_counterexample: bias 0, k = 1e6, m = 0.05, no
//     evaporation, no dead storage, dt = 86400, 1000 m³ in the reach, no inflow: the step reports outflow
//     0.011574074074074073 (= 1000/86400: the reach is emptied) and storage 0, although S = k·Q^m asks for 8·10⁵ m³ at that
//     outflow (solution of the step's equation: Q ≈ 1e-60, practically all water stays);
//  2. the same with m = 0.15: the returned index flow has SIndex = 1017.45 m³ > the 1000 m³ present, the outflow clamps to 0
//     and the reported storage exceeds the water balance by 17.45 m³ (water created).
func init() {
	kCorpus["C11:StorageRouting"] = []*KCall{
		{Model: "StorageRouting", P: []float64{0, 1e6, 0.05, 0, 0, 86400},
			In: [][]float64{{0}, {0}, {0}, {0}}, S: []float64{1000, 0, 0}},
		{Model: "StorageRouting", P: []float64{0, 1e6, 0.15, 0, 0, 86400},
			In: [][]float64{{0}, {0}, {0}, {0}}, S: []float64{1000, 0, 0}},
	}
}
