package main

import "math"

// Generators for rainfall-runoff models (properties C10, C15).
//
// Parameter ranges: the OW-SPEC ranges where the spec gives them (GR4J, Sacramento), otherwise the physical ranges
// of the model's documentation (Simhyd: Chiew et al. 2002; SURM: eWater Source scientific reference guide).
// Inputs: rainfall and PET in mm/day, built from segments with long dry spells and extreme storms.

// RainPet draws a rainfall series and a PET series of length T.
func RainPet(r *Rng, T int) [][]float64 {
	rain := Series(r, T, []float64{1, 10, 40, 150}[r.Intn(4)])
	pet := Series(r, T, []float64{1, 5, 12}[r.Intn(3)])
	switch r.Intn(8) {
	case 0: // no evaporative demand at all (GR4J closed balance)
		pet = make([]float64, T)
	case 1: // constant PET
		pet = ConstSeries(T, r.Uniform(0, 8))
	case 2: // long dry spell in the middle of the series
		a := r.Intn(T)
		b := a + r.Range(1, 1+T/2)
		for i := a; i < b && i < T; i++ {
			rain[i] = 0
		}
	case 3: // extreme storm on one day, dry afterwards
		a := r.Intn(T)
		rain[a] = r.Uniform(200, 2000)
		dry := r.Intn(30)
		for i := a + 1; i < T && i < a+1+dry; i++ {
			rain[i] = 0
		}
	case 4: // rain equal to PET on some days (the `>` / `≥` boundary of the net-rainfall test)
		for i := 0; i < T; i++ {
			if r.Chance(0.3) {
				pet[i] = rain[i]
			}
		}
	}
	return [][]float64{rain, pet}
}

// gr4jX4 is dense in [0.5,4] and hits every unit-hydrograph length 1..4 / 1..8, the integers and half-integers
// (where ceil jumps) and their floating-point neighbours.
func gr4jX4(r *Rng) float64 {
	switch r.Intn(6) {
	case 0:
		return []float64{0.5, 1, 1.5, 2, 2.5, 3, 3.5, 4}[r.Intn(8)]
	case 1:
		v := []float64{1, 1.5, 2, 2.5, 3, 3.5}[r.Intn(6)]
		if r.Bool() {
			return math.Nextafter(v, 10)
		}
		return math.Nextafter(v, 0)
	}
	return r.Uniform(0.5, 4)
}

func gr4jParams(r *Rng) []float64 {
	x1 := r.LogUniform(1, 1500)
	x2 := r.Uniform(-10, 5)
	switch r.Intn(5) {
	case 0:
		x2 = 0 // no groundwater exchange: the water balance closes
	case 1, 2:
		x2 = r.Uniform(-10, 0) // losing catchment: the "never creates water" budget applies
	}
	x3 := Snap(r, r.LogUniform(1, 500))
	// Numerical conditioning: with a strongly negative exchange coefficient and a tiny routing store the daily map
	// R -> R + Q9 + x2 (R/x3)^3.5 has slope 1 - 3.5 |x2|/x3 (R/x3)^2.5 < -1: the recurrence oscillates chaotically and
	// amplifies the <= 3 ulp differences between Go's math.Pow and libm to 1e-5 and more within a few hundred days.
	// Such cases are removed by the conditioning filter below (the series is shortened until the case is well
	// conditioned, so the `R < 0` clip stays covered); the corner is also run oracle-only (variant GR4J#stiff).
	return []float64{Snap(r, x1), x2, x3, gr4jX4(r)}
}

// gr4jParamsStiff: the corner excluded above (x3 in [1,6] mm, x2 in [-10,-x3/2]).
func gr4jParamsStiff(r *Rng) []float64 {
	x3 := r.Uniform(1, 6)
	return []float64{Snap(r, r.LogUniform(1, 1500)), r.Uniform(-10, -0.5*x3), x3, gr4jX4(r)}
}

func gr4jStates(r *Rng, p []float64) []float64 {
	n1 := int(math.Ceil(p[3]))
	n2 := int(math.Ceil(2 * p[3]))
	s := []float64{p[0] * r.F01(), p[2] * r.F01(), float64(n1), float64(n2)}
	if r.Chance(0.1) {
		s[0] = p[0] // production store exactly full
	}
	sc := r.LogUniform(1e-3, 50)
	for i := 0; i < n1+n2; i++ {
		v := 0.0
		if r.Chance(0.7) {
			v = sc * r.F01()
		}
		s = append(s, v)
	}
	return s
}

func init() {
	regModel(&ModelGen{Name: "RunoffCoefficient",
		Params: func(r *Rng) []float64 {
			if r.Chance(0.1) {
				return []float64{float64(r.Intn(2))}
			}
			return []float64{Snap(r, r.F01())}
		},
		Inputs: func(r *Rng, T int, p []float64) [][]float64 { return RainPet(r, T)[:1] },
	})

	gr4jGoodStates := conditionedStates("GR4J", gr4jStates)
	regModel(&ModelGen{Name: "GR4J",
		Params: gr4jParams,
		Inputs: conditionedInputs("GR4J", rainPetP),
		States: func(r *Rng, p []float64) []float64 {
			if !r.Chance(0.04) {
				return gr4jGoodStates(r, p)
			}
			// malformed state rows: a zero-length unit hydrograph (SH[n-1] panics) or a truncated row (slice panic)
			s := gr4jStates(r, p)
			n1 := int(s[2])
			n2 := int(s[3])
			switch r.Intn(3) {
			case 0:
				return append([]float64{s[0], s[1], 0, s[3]}, s[4:4+n2]...)
			case 1:
				return append([]float64{s[0], s[1], s[2], 0}, s[4+n2:4+n2+n1]...)
			}
			return s[:len(s)-1-r.Intn(n1+n2)]
		},
	})

	regModel(&ModelGen{Name: "GR4J#stiff",
		Params: gr4jParamsStiff,
		Inputs: func(r *Rng, T int, p []float64) [][]float64 { return RainPet(r, T) },
		States: gr4jStates,
	})

	// Simhyd: all coefficients are fractions, capacities in mm
	regModel(&ModelGen{Name: "Simhyd",
		Params: func(r *Rng) []float64 {
			p := []float64{
				r.F01(),                       // baseflowCoefficient
				r.Uniform(0, 5),               // imperviousThreshold
				r.LogUniform(0.1, 400),        // infiltrationCoefficient
				r.Uniform(0, 10),              // infiltrationShape
				r.F01(),                       // interflowCoefficient
				r.F01(),                       // perviousFraction
				r.Uniform(0, 5),               // rainfallInterceptionStoreCapacity
				r.F01(),                       // rechargeCoefficient
				Snap(r, r.LogUniform(1, 500)), // soilMoistureStoreCapacity
			}
			for _, i := range []int{0, 4, 5, 7} { // end points of the fractions
				if r.Chance(0.08) {
					p[i] = float64(r.Intn(2))
				}
			}
			if r.Chance(0.05) {
				p[1] = 0
			}
			if r.Chance(0.05) {
				p[6] = 0
			}
			return p
		},
		Inputs: conditionedInputs("Simhyd", rainPetP),
		States: conditionedStates("Simhyd", func(r *Rng, p []float64) []float64 {
			sms := p[8] * r.F01()
			if r.Chance(0.1) {
				sms = p[8]
			}
			gw := r.LogUniform(1e-3, 200)
			if r.Chance(0.2) {
				gw = 0
			}
			return []float64{sms, gw, (sms + gw) * p[5]}
		}),
	})

	// SURM. smax ≥ 10 mm: below that the ET term min(10·sms/smax, pet) can exceed the store (see DESIGN §6 C10).
	regModel(&ModelGen{Name: "Surm",
		Params: func(r *Rng) []float64 {
			p := []float64{
				r.F01(),                        // bfac
				r.LogUniform(0.1, 400),         // coeff
				r.F01(),                        // dseep
				r.F01(),                        // fcFrac
				r.F01(),                        // fimp
				r.F01(),                        // rfac
				Snap(r, r.LogUniform(10, 500)), // smax
				r.Uniform(0, 10),               // sq
				r.Uniform(0, 50),               // thres
			}
			for _, i := range []int{0, 2, 3, 4, 5} {
				if r.Chance(0.08) {
					p[i] = float64(r.Intn(2))
				}
			}
			if r.Chance(0.1) {
				p[6] = 10
			}
			if r.Chance(0.1) {
				p[8] = 0
			}
			return p
		},
		Inputs: conditionedInputs("Surm", rainPetP),
		States: conditionedStates("Surm", func(r *Rng, p []float64) []float64 {
			sms := p[6] * r.F01()
			if r.Chance(0.1) {
				sms = p[6]
			}
			gw := r.LogUniform(1e-3, 200)
			if r.Chance(0.2) {
				gw = 0
			}
			return []float64{sms, gw, sms + gw}
		}),
	})

	// Sacramento, wet-regime stress variant (oracle only, see sacParamsWet)
	regModel(&ModelGen{Name: "Sacramento#wet",
		Params: sacParamsWet,
		Inputs: func(r *Rng, T int, p []float64) [][]float64 {
			if i := sacRegressionIndex(p); i >= 0 {
				c := sacRegression[i]
				return [][]float64{append([]float64{}, c.rain...), append([]float64{}, c.pet...)}
			}
			if T < 12 {
				T = 12 + T
			}
			return sacWetSeries(r, T)
		},
		States: func(r *Rng, p []float64) []float64 {
			if sacRegressionIndex(p) >= 0 {
				return make([]float64, 6)
			}
			return warmState(r, "Sacramento", p, r.Range(1, 60))
		},
	})

	// Sacramento: OW-SPEC ranges, capacities at least a few mm (the code divides by lztwm, alzfpm, alzfsm, uzfwm),
	// pctim + adimp ≤ 1 (area fractions), at least one positive unit-hydrograph proportion.
	regModel(&ModelGen{Name: "Sacramento",
		Params: sacParams,
		Inputs: conditionedInputs("Sacramento", func(r *Rng, T int, p []float64) [][]float64 {
			if i := sacRegressionIndex(p); i >= 0 {
				c := sacRegression[i]
				return [][]float64{append([]float64{}, c.rain...), append([]float64{}, c.pet...)}
			}
			if p[5] <= 15 && p[2] <= 0.05 && T >= 8 && r.Chance(0.8) {
				return sacStressSeries(r, T)
			}
			// PET limited to 25 mm/day (above any observed daily value): with a demand of several hundred mm/day
			// the ADIMP evaporation term e5 goes strongly negative (reported as an observation, see checks/C10.py)
			in := RainPet(r, T)
			for i, v := range in[1] {
				if v > 25 {
					in[1][i] = 25
				}
			}
			return in
		}),
		// "initial states produced by the model itself": the final state of a warm-up run of the real model from
		// its own initial state, same parameters, another series (wet or dry spell)
		States: conditionedStates("Sacramento", func(r *Rng, p []float64) []float64 {
			if sacRegressionIndex(p) >= 0 {
				return make([]float64, 6)
			}
			return warmState(r, "Sacramento", p, r.Range(1, 60))
		}),
	})
}

// ---------------------------------------------------------------------------------------------
// Conditioning filter. Several rainfall-runoff recurrences are, in corners of their parameter space, numerically
// chaotic (GR4J: strongly negative x2 with a routing store of a few mm; SURM/SIMHYD: infiltration capacity falling
// steeply with soil moisture; Sacramento: ADIMP saturation ratio with a thin lower tension store, primary/supplemental
// percolation split with nearly full stores). There the <= 3 ulp differences between Go's math.Pow/Exp/Tanh and libm
// are amplified by many orders of magnitude within one series, so a 1e-9 comparison of implementation and model says
// nothing about either. A drawn case is therefore used for the correspondence only if the IMPLEMENTATION ITSELF is
// insensitive to a 1e-13 relative perturbation of its input series and, separately, of its continuous parameters: every output and final state moves by at most
// 1e-10 relative (+1e-13 x scale), i.e. condition number <= 1e3, which bounds the libm effect by ~1e-12. Otherwise the
// series is redrawn (5 times) and then halved in length until the case is well conditioned. The excluded regimes are
// exercised oracle-only by the `#stiff`/`#wet`/`#adimp` generator variants (family KORACLE).

func perturbSeries(in [][]float64, eps float64) [][]float64 {
	out := make([][]float64, len(in))
	for i := range in {
		out[i] = make([]float64, len(in[i]))
		for j, v := range in[i] {
			out[i][j] = v * (1 + eps)
		}
	}
	return out
}

// condParams: the parameters that are perturbed by the conditioning probe (continuous ones; GR4J's x4 is left alone
// because ceil(x4) decides the state layout).
var condParams = map[string][]int{
	"GR4J":       {0, 1, 2},
	"Simhyd":     {0, 1, 2, 3, 4, 5, 6, 7, 8},
	"Surm":       {0, 1, 2, 3, 4, 5, 6, 7, 8},
	"Sacramento": {0, 1, 2, 3, 4, 5, 6, 7, 8, 9, 10, 11, 12, 13, 14, 15, 16},
}

func wellConditioned(model string, p []float64, in [][]float64, s []float64) bool {
	a := (&KCall{Model: model, P: p, In: in, Init: s == nil, S: s}).Run()
	scale := math.Max(1, math.Max(maxAbs(a.Out...), maxAbs(a.S)))
	near := func(x, y float64) bool {
		if math.IsNaN(x) || math.IsNaN(y) || math.IsInf(x, 0) || math.IsInf(y, 0) {
			return math.IsNaN(x) == math.IsNaN(y) && (math.IsNaN(x) || x == y)
		}
		return math.Abs(x-y) <= 1e-10*math.Max(math.Abs(x), math.Abs(y))+1e-13*scale
	}
	same := func(b *KResult) bool {
		for i := range a.Out {
			for j := range a.Out[i] {
				if !near(a.Out[i][j], b.Out[i][j]) {
					return false
				}
			}
		}
		if len(a.S) != len(b.S) {
			return false
		}
		for i := range a.S {
			if !near(a.S[i], b.S[i]) {
				return false
			}
		}
		return true
	}
	// probe 1: the input series (acts on wet days)
	if !same((&KCall{Model: model, P: p, In: perturbSeries(in, 1e-13), Init: s == nil, S: s}).Run()) {
		return false
	}
	// probe 2: the continuous parameters (acts on every step, like a different libm would)
	p2 := append([]float64{}, p...)
	for _, i := range condParams[model] {
		p2[i] *= 1 + 1e-13
	}
	return same((&KCall{Model: model, P: p2, In: in, Init: s == nil, S: s}).Run())
}

func rainPetP(r *Rng, T int, p []float64) [][]float64 { return RainPet(r, T) }

// modelInitRow: the model's own InitialiseStates for one cell.
func modelInitRow(model string, p []float64) []float64 {
	m := NewModel(model)
	pp := make([][]float64, len(p))
	for i, v := range p {
		pp[i] = []float64{v}
	}
	pa := arr2(pp)
	if dims := m.FindDimensions(pa); len(dims) > 0 {
		m.InitialiseDimensions(dims)
	}
	m.ApplyParameters(pa)
	return un2(m.InitialiseStates(1))[0]
}

// lastInputs: the series drawn last by conditionedInputs (drawCall draws Inputs, then States, in one goroutine).
var lastInputs [][]float64

func conditionedInputs(model string, draw func(r *Rng, T int, p []float64) [][]float64) func(r *Rng, T int, p []float64) [][]float64 {
	return func(r *Rng, T int, p []float64) [][]float64 {
		in := draw(r, T, p)
		for try := 0; try < 5 && !wellConditioned(model, p, in, nil); try++ {
			in = draw(r, T, p)
		}
		for len(in[0]) > 1 && !wellConditioned(model, p, in, nil) {
			for i := range in {
				in[i] = in[i][:len(in[i])/2]
			}
		}
		lastInputs = in
		return in
	}
}

// conditionedStates: a drawn state row under which the case (with the inputs drawn just before) stays well
// conditioned; falls back to the model's own initial state row.
func conditionedStates(model string, draw func(r *Rng, p []float64) []float64) func(r *Rng, p []float64) []float64 {
	return func(r *Rng, p []float64) []float64 {
		for try := 0; try < 5; try++ {
			s := draw(r, p)
			if lastInputs == nil || wellConditioned(model, p, lastInputs, s) {
				return s
			}
		}
		return modelInitRow(model, p)
	}
}

// sacStressSeries: a wet spell filling the upper zone, a dry spell with high evaporative demand, then a storm.
func sacStressSeries(r *Rng, T int) [][]float64 {
	rain := make([]float64, T)
	pet := ConstSeries(T, r.Uniform(6, 20))
	wet := r.Range(2, 4)
	dry := r.Range(1, 12)
	for i := 0; i < T; i++ {
		switch ph := i % (wet + dry + 2); {
		case ph < wet:
			rain[i] = r.Uniform(60, 120)
		case ph < wet+dry:
			rain[i] = 0
		default:
			rain[i] = r.Uniform(40, 200)
		}
	}
	return [][]float64{rain, pet}
}

// sacWetSeries: long very wet spells (80-300 mm/day) separated by short dry spells, moderate PET.
func sacWetSeries(r *Rng, T int) [][]float64 {
	rain := make([]float64, T)
	pet := ConstSeries(T, r.Uniform(2, 8))
	wet := r.Range(6, 12)
	dry := r.Range(2, 4)
	for i := 0; i < T; i++ {
		if i%(wet+dry) < wet {
			rain[i] = r.Uniform(80, 300)
		}
	}
	return [][]float64{rain, pet}
}

// warmState runs the real model from its own initial state over a drawn series and returns the final state row.
func warmState(r *Rng, model string, p []float64, T int) []float64 {
	k := &KCall{Model: model, Init: true, P: p, In: RainPet(r, T)}
	return k.Run().S
}

// Minimal failing inputs of the two Sacramento defects found by this property (pre-fix code), kept as fixed cases:
// from the model's own empty initial state.
//
//	[0] fixes/sacramento-adimp-ratio.diff: imperviousRunoff = NaN on day 13/14
//	[1] fixes/sacramento-fracp-clamp.diff: 10.28 mm of water created in 13 days
var sacRegression = []struct {
	p         []float64
	rain, pet []float64
}{
	{[]float64{0.01, 0.05, 0.01, 60, 75, 5, 25, 60, 0.06, 1, 40, 0, 0, 0.01, 0.1, 0, 0.3, 0.8, 0.1, 0.05, 0.03, 0.02},
		[]float64{100, 100, 100, 0, 0, 0, 0, 0, 0, 0, 0, 0, 0, 150, 150}, ConstSeries(15, 10)},
	{[]float64{0.2, 0.01, 0.3, 50, 40, 130, 5, 400, 0.5, 2, 60, 0, 0, 0.01, 0, 0, 0.3, 0.8, 0.1, 0.05, 0.03, 0.02},
		[]float64{150, 150, 150, 150, 150, 150, 150, 150, 0, 0, 0, 0, 0}, ConstSeries(13, 4)},
}

func sacRegressionIndex(p []float64) int {
	for i, c := range sacRegression {
		same := len(p) == len(c.p)
		for j := 0; same && j < len(p); j++ {
			same = p[j] == c.p[j]
		}
		if same {
			return i
		}
	}
	return -1
}

// sacParamsWet: small, slowly draining supplemental store beside a large, faster draining primary store, generous
// percolation: the regime in which the primary share hpl*2*ratlp/(ratlp+ratls) of the free-water percolation exceeds
// one (fixes/sacramento-fracp-clamp.diff). In this regime the supplemental store (5-7 mm) receives increments of
// ~2 mm with a feedback gain of about -7 per increment: the iteration is numerically ill-conditioned (ulp differences
// between Go's math.Pow and libm grow to 1e-5 within one wet day), so these cases are used for the property oracle
// only (family KORACLE), not for the 1e-9 correspondence.
func sacParamsWet(r *Rng) []float64 {
	if r.Chance(0.1) {
		return append([]float64{}, sacRegression[1].p...)
	}
	return []float64{r.Uniform(0.1, 0.4), r.Uniform(0.002, 0.03), r.Uniform(0.2, 0.9), r.Uniform(40, 100), r.Uniform(50, 75),
		r.Uniform(100, 300), r.Uniform(5, 7), r.Uniform(250, 600), r.Uniform(0.3, 0.6), r.Uniform(1, 3), r.Uniform(50, 80),
		0, 0, r.Uniform(0, 0.2), r.Uniform(0, 0.1), r.Uniform(0, 0.25), r.Uniform(0.1, 0.6), 0.45, 0, 0.14, 0, 0.04}
}

func sacParams(r *Rng) []float64 {
	if r.Chance(0.03) {
		return append([]float64{}, sacRegression[0].p...)
	}
	frac := func() float64 {
		switch r.Intn(12) {
		case 0:
			return 0
		case 1:
			return 1
		}
		return r.F01()
	}
	pctim := r.Uniform(0, 0.3)
	adimp := r.Uniform(0, 0.4)
	if r.Chance(0.15) {
		adimp = 0
	}
	if r.Chance(0.1) {
		pctim = 0
	}
	p := []float64{
		r.LogUniform(1e-3, 1) * boolTo(r.Chance(0.95)), // lzpk
		r.LogUniform(1e-3, 1) * boolTo(r.Chance(0.95)), // lzsk
		frac(),                                  // uzk
		Snap(r, r.Uniform(5, 125)),              // uztwm
		Snap(r, r.Uniform(5, 75)),               // uzfwm
		Snap(r, r.Uniform(10, 300)),             // lztwm
		Snap(r, r.Uniform(5, 300)),              // lzfsm
		Snap(r, r.Uniform(5, 600)),              // lzfpm
		frac(),                                  // pfree
		r.Uniform(0, 3),                         // rexp
		r.Uniform(0, 80),                        // zperc
		r.F01() * boolTo(r.Chance(0.6)),         // side
		r.Uniform(0, 2) * boolTo(r.Chance(0.4)), // ssout
		pctim,
		adimp,
		r.Uniform(0, 0.3) * boolTo(r.Chance(0.6)), // sarva
		frac(),             // rserv
		r.Uniform(0.05, 1), // uh1
		r.F01() * boolTo(r.Chance(0.7)),
		r.F01() * boolTo(r.Chance(0.6)),
		r.F01() * boolTo(r.Chance(0.5)),
		r.F01() * boolTo(r.Chance(0.5)),
	}
	if r.Chance(0.12) {
		// thin lower-zone tension store under a thick upper zone, slow interflow, some ADIMP area: the regime in which
		// the additional-impervious-area saturation ratio (adimc-uztwc)/lztwm becomes strongly negative after a dry spell
		p = []float64{0.01, 0.05, r.Uniform(0.005, 0.05), r.Uniform(60, 125), r.Uniform(50, 75), r.Uniform(5, 15), 25, 60,
			0.06, 1, 40, 0, 0, 0.01, r.Uniform(0.02, 0.3), 0, 0.3, 0.8, 0.1, 0.05, 0.03, 0.02}
		if r.Chance(0.15) { // the minimal published failing input of fixes/sacramento-adimp-ratio.diff
			p[2], p[3], p[4], p[5], p[14] = 0.01, 60, 75, 5, 0.1
		}
		return p
	}
	if r.Chance(0.1) { // the documented defaults
		p = []float64{0.01, 0.05, 0.3, 50, 40, 130, 25, 60, 0.06, 1, 40, 0, 0, 0.01, 0, 0, 0.3, 0.8, 0.1, 0.05, 0.03, 0.02}
	}
	return p
}

func boolTo(b bool) float64 {
	if b {
		return 1
	}
	return 0
}
