package main

// Generators for rainfall-runoff models.

func init() {
	regModel(&ModelGen{Name: "RunoffCoefficient",
		Params: func(r *Rng) []float64 { return []float64{Snap(r, r.F01())} },
		Inputs: func(r *Rng, T int, p []float64) [][]float64 { return [][]float64{Series(r, T, 10)} },
	})
}
