package main

import (
	"fmt"
	"math"
	"sort"
	"strings"
)

// ModelGen: how to draw structured, mostly valid cases for one catalogued model.
type ModelGen struct {
	Name string
	// Params draws a parameter column (all rows of the parameter array for one cell).
	Params func(r *Rng) []float64
	// Inputs draws the input series (one per model input) of length T.
	Inputs func(r *Rng, T int, p []float64) [][]float64
	// States draws an initial state row; nil → the model's own InitialiseStates (Init=true),
	// also chosen with probability 1/2 when States is non-nil.
	States func(r *Rng, p []float64) []float64
	// MaxT bounds the series length (default 120 quick / 600 thorough).
	MaxT int
}

var modelGens = map[string]*ModelGen{}

func regModel(g *ModelGen) { modelGens[g.Name] = g }

// kOracles[property][model]: the property's own predicate on one call of the implementation.
type kOracle func(c *Ctx, id int, k *KCall, r *KResult, body string)

var kOracles = map[string]map[string]kOracle{}

// kCorpus["<property>:<model>"]: minimised past findings, run first in every K run of that property
var kCorpus = map[string][]*KCall{}

func regOracle(prop, model string, f kOracle) {
	if kOracles[prop] == nil {
		kOracles[prop] = map[string]kOracle{}
	}
	kOracles[prop][model] = f
}

func init() {
	register(&Family{Name: "K", Gen: genK, Exec: execK, Oracle: oracleK})
}

// argument `key=value` pairs after the flags: models=a,b,c prop=C12 n=300
func (c *Ctx) Arg(key, def string) string {
	for _, a := range c.Args {
		if strings.HasPrefix(a, key+"=") {
			return a[len(key)+1:]
		}
	}
	return def
}

func oracleK(c *Ctx, id int, body, impl string) {
	prop := c.Arg("prop", "")
	k := parseKCall(body)
	if strings.HasPrefix(impl, "frame ") {
		// every property decided on single Run calls presupposes that the call leaves its inputs and parameters alone
		c.Stats.OracleEvals++
		c.OracleFail(id, k.Model+":frame", "the Run call modified its own inputs or parameters: "+impl, body)
		return
	}
	f := kOracles[prop][k.Model]
	if f == nil {
		return
	}
	r := parseKResult(impl)
	c.Stats.OracleEvals++
	f(c, id, k, r, body)
}

func modelsArg(c *Ctx) []string {
	ms := strings.Split(c.Arg("models", ""), ",")
	out := []string{}
	for _, m := range ms {
		if m != "" {
			out = append(out, m)
		}
	}
	sort.Strings(out)
	return out
}

func genK(c *Ctx) {
	models := modelsArg(c)
	n := parseI(c.Arg("n", "150"))
	if c.Tier == "thorough" {
		n *= 20
	}
	c.Stats.Rule = "per model: parameter column drawn in the spec/physical range, input series built from segments (dry spell, storm, constant, ramp, spikes, zeros), initial states from the model's own InitialiseStates or drawn; one real Run call on one cell per case; non-trivial = T≥2 and some non-zero input; distinct by the full protocol line"
	for _, m := range models {
		g := modelGens[m]
		if g == nil {
			must(fmt.Errorf("no generator for model %s", m))
		}
		// corpus: fixed cases of past findings for this property and model run first
		for _, k := range kCorpus[c.Arg("prop", "")+":"+m] {
			c.Do(k.Body(), true)
			c.Stats.Count("corpus:" + m)
		}
		for i := 0; i < n; i++ {
			k := drawCall(c.R, g, c.Tier)
			c.Do(k.Body(), k.T() >= 2 && maxAbs(k.In...) > 0)
			c.Stats.Count("model:" + m)
			c.Stats.Count(fmt.Sprintf("T:%s", bucket(k.T())))
		}
	}
}

func bucket(n int) string {
	switch {
	case n <= 1:
		return "0-1"
	case n <= 4:
		return "2-4"
	case n <= 16:
		return "5-16"
	case n <= 64:
		return "17-64"
	case n <= 256:
		return "65-256"
	}
	return ">256"
}

func drawT(r *Rng, g *ModelGen, tier string) int {
	maxT := 120
	if tier == "thorough" {
		maxT = 600
	}
	if g.MaxT > 0 && g.MaxT < maxT {
		maxT = g.MaxT
	}
	switch r.Intn(6) {
	case 0:
		return r.Range(1, 3)
	case 1:
		return r.Range(4, 12)
	case 2:
		return maxT
	}
	return r.Range(1, maxT)
}

func drawCall(r *Rng, g *ModelGen, tier string) *KCall {
	k := &KCall{Model: g.Name}
	k.P = g.Params(r)
	T := drawT(r, g, tier)
	k.In = g.Inputs(r, T, k.P)
	if g.States == nil || r.Chance(0.5) {
		k.Init = true
	} else {
		k.S = g.States(r, k.P)
	}
	return k
}

// ---------------------------------------------------------------------------------------------
// series generators

// Series draws a non-negative series of length T with magnitude ~scale built from segments.
func Series(r *Rng, T int, scale float64) []float64 {
	out := make([]float64, T)
	i := 0
	for i < T {
		seg := r.Range(1, 1+T/3)
		if i+seg > T {
			seg = T - i
		}
		kind := r.Intn(7)
		base := scale * r.F01()
		for j := 0; j < seg; j++ {
			var v float64
			switch kind {
			case 0: // dry spell / zero flow
				v = 0
			case 1: // storm
				v = scale * (2 + 8*r.F01()) * math.Exp(-float64(j)/3)
			case 2: // constant
				v = base
			case 3: // ramp
				v = base * float64(j+1) / float64(seg)
			case 4: // spikes
				if r.Chance(0.2) {
					v = scale * 20 * r.F01()
				}
			case 5: // noise
				v = scale * r.F01()
			case 6: // tiny
				v = scale * 1e-6 * r.F01()
			}
			out[i+j] = v
		}
		i += seg
	}
	return out
}

// Const series
func ConstSeries(T int, v float64) []float64 {
	out := make([]float64, T)
	for i := range out {
		out[i] = v
	}
	return out
}

// Round to a few significant digits sometimes, to hit equalities/thresholds exactly.
func Snap(r *Rng, v float64) float64 {
	if r.Chance(0.3) {
		return math.Round(v*10) / 10
	}
	return v
}
