// owharness drives the REAL openwater-core code (from /repo, via the replace directive)
// on generated cases and writes protocol lines for the Lean model driver.
//
//	owharness gen <FAMILY> -seed N -tier quick|thorough -dir D [-replay file]
//
// writes D/<FAMILY>.ops (one case per line, input of the Lean driver), D/<FAMILY>.impl (canonical
// outputs of the implementation, same case ids) and D/<FAMILY>.stats.json (distribution, oracle results).
package main

import (
	"bufio"
	"encoding/json"
	"flag"
	"fmt"
	"os"
	"path/filepath"
	"sort"
	"strings"
)

// Ctx is handed to each family generator.
type Ctx struct {
	Seed    uint64
	Tier    string
	Dir     string
	Family  string
	Args    []string
	R       *Rng
	ops     *bufio.Writer
	impl    *bufio.Writer
	nextID  int
	Stats   *Stats
	Replay  []string // when non-nil: ops lines to re-run instead of generating
	opsF    *os.File
	implF   *os.File
	fam     *Family
	w       *worker
}

// Exec runs one case on the real code (worker process unless the family is InProc).
func (c *Ctx) Exec(body string) string {
	if c.fam.InProc {
		return safeExec(c.fam.Exec, body)
	}
	if c.w == nil {
		c.w = startWorker(c.Family)
	}
	out, ok := c.w.call(body)
	if !ok {
		c.Stats.Count("worker_crash")
		c.w = nil
		return out
	}
	return out
}

// Do = Exec + Emit + Oracle.
func (c *Ctx) Do(body string, nontrivial bool) (int, string) {
	impl := c.Exec(body)
	id := c.Emit(body, impl, nontrivial)
	st := strings.SplitN(impl, " ", 2)[0]
	c.Stats.Count("status:" + st)
	if c.fam.Oracle != nil {
		c.fam.Oracle(c, id, body, impl)
	}
	return id, impl
}

func (c *Ctx) closeWorker() {
	if c.w != nil {
		c.w.close()
		c.w = nil
	}
}

// OracleFailure is one case on which the property's own predicate failed on the implementation.
type OracleFailure struct {
	Case  int    `json:"case"`
	Scope string `json:"scope"` // key matched against known_findings.json
	What  string `json:"what"`
	Op    string `json:"op"`
}

type Stats struct {
	Family      string            `json:"family"`
	Seed        uint64            `json:"seed"`
	Tier        string            `json:"tier"`
	Cases       int               `json:"cases"`
	Distinct    int               `json:"distinct_nontrivial"`
	Rule        string            `json:"rule"`
	Exhaustive  bool              `json:"exhaustive"`
	Hist        map[string]int    `json:"hist"`
	Samples     []string          `json:"samples"`
	Oracle      []OracleFailure   `json:"oracle_failures"`
	OracleEvals int               `json:"oracle_evals"`
	Notes       []string          `json:"notes"`
	Extra       map[string]any    `json:"extra,omitempty"`
	seen        map[string]bool
}

func (s *Stats) Count(key string) { s.Hist[key]++ }
func (s *Stats) CountN(key string, n int) { s.Hist[key] += n }

// Emit writes one case: the ops line for the model and the implementation's canonical output.
// nontrivial says whether the case counts towards distinct_nontrivial (by the family's rule).
func (c *Ctx) Emit(opsBody string, implBody string, nontrivial bool) int {
	id := c.nextID
	c.nextID++
	fmt.Fprintf(c.ops, "%s %d %s\n", c.Family, id, opsBody)
	fmt.Fprintf(c.impl, "%d %s\n", id, implBody)
	c.Stats.Cases++
	if nontrivial && !c.Stats.seen[opsBody] {
		c.Stats.seen[opsBody] = true
		c.Stats.Distinct++
	}
	if len(c.Stats.Samples) < 5 || (id%997 == 0 && len(c.Stats.Samples) < 12) {
		s := opsBody
		if len(s) > 300 {
			s = s[:300] + "…"
		}
		o := implBody
		if len(o) > 200 {
			o = o[:200] + "…"
		}
		c.Stats.Samples = append(c.Stats.Samples, fmt.Sprintf("%s %d %s => %s", c.Family, id, s, o))
	}
	return id
}

func (c *Ctx) OracleFail(id int, scope, what, op string) {
	if len(c.Stats.Oracle) < 200 {
		if len(op) > 200000 {
			op = op[:200000] + "…"
		}
		c.Stats.Oracle = append(c.Stats.Oracle, OracleFailure{id, scope, what, fmt.Sprintf("%s %d %s", c.Family, id, op)})
	}
	c.Stats.Count("oracle_fail:" + scope)
}

func (c *Ctx) Flush() { c.ops.Flush(); c.impl.Flush() }

// A Family: Gen produces cases by calling c.Do(body, nontrivial); Exec runs ONE case on the real code and
// returns its canonical output (it runs in a worker child process unless InProc, because a panic inside a
// goroutine of the real code kills the process); Oracle evaluates the property's own predicate on the
// implementation's output of one case.
type Family struct {
	Name   string
	Gen    func(c *Ctx)
	Exec   func(body string) string
	Oracle func(c *Ctx, id int, body, impl string)
	InProc bool
}

var families = map[string]*Family{}

func register(f *Family) { families[f.Name] = f }

func main() {
	if len(os.Args) < 2 {
		usage()
	}
	switch os.Args[1] {
	case "gen":
		gen(os.Args[2:])
	case "child":
		childMain(os.Args[2:])
	case "families":
		names := []string{}
		for k := range families {
			names = append(names, k)
		}
		sort.Strings(names)
		for _, n := range names {
			fmt.Println(n)
		}
	default:
		if f, ok := tools[os.Args[1]]; ok {
			f(os.Args[2:])
			return
		}
		usage()
	}
}

var tools = map[string]func(args []string){}

func usage() {
	fmt.Fprintln(os.Stderr, "usage: owharness gen <FAMILY> -seed N -tier quick|thorough -dir D [-replay file]")
	os.Exit(2)
}

func gen(args []string) {
	if len(args) < 1 {
		usage()
	}
	fam := args[0]
	fs := flag.NewFlagSet("gen", flag.ExitOnError)
	seed := fs.Uint64("seed", 1, "seed")
	tier := fs.String("tier", "quick", "tier")
	dir := fs.String("dir", ".", "output dir")
	replay := fs.String("replay", "", "file with ops lines to re-run")
	fs.Parse(args[1:])
	f, ok := families[fam]
	if !ok {
		fmt.Fprintf(os.Stderr, "unknown family %s\n", fam)
		os.Exit(2)
	}
	os.MkdirAll(*dir, 0o755)
	opsF, err := os.Create(filepath.Join(*dir, fam+".ops"))
	must(err)
	implF, err := os.Create(filepath.Join(*dir, fam+".impl"))
	must(err)
	c := &Ctx{Seed: *seed, Tier: *tier, Dir: *dir, Family: fam, R: NewRng(*seed ^ hashStr(fam)),
		Args: fs.Args(),
		ops:  bufio.NewWriterSize(opsF, 1<<20), impl: bufio.NewWriterSize(implF, 1<<20), opsF: opsF, implF: implF,
		Stats: &Stats{Family: fam, Seed: *seed, Tier: *tier, Hist: map[string]int{}, seen: map[string]bool{}}}
	if *replay != "" {
		c.Replay = readLines(*replay)
	}
	c.fam = f
	if v := c.Arg("gomaxprocs", ""); v != "" {
		os.Setenv("GOMAXPROCS", v) // inherited by the worker processes that run the real code
	}
	if c.Replay != nil {
		for _, l := range c.Replay {
			parts := strings.SplitN(l, " ", 3)
			if len(parts) == 3 {
				c.Do(parts[2], true)
			}
		}
	} else {
		f.Gen(c)
	}
	c.closeWorker()
	c.Flush()
	opsF.Close()
	implF.Close()
	sf, err := os.Create(filepath.Join(*dir, fam+".stats.json"))
	must(err)
	enc := json.NewEncoder(sf)
	enc.SetEscapeHTML(false)
	enc.SetIndent("", " ")
	must(enc.Encode(c.Stats))
	sf.Close()
}

func must(err error) {
	if err != nil {
		fmt.Fprintln(os.Stderr, "owharness:", err)
		os.Exit(2)
	}
}

func readLines(p string) []string {
	f, err := os.Open(p)
	must(err)
	defer f.Close()
	sc := bufio.NewScanner(f)
	sc.Buffer(make([]byte, 1<<20), 1<<28)
	var out []string
	for sc.Scan() {
		if sc.Text() != "" {
			out = append(out, sc.Text())
		}
	}
	return out
}

func hashStr(s string) uint64 {
	var h uint64 = 1469598103934665603
	for i := 0; i < len(s); i++ {
		h ^= uint64(s[i])
		h *= 1099511628211
	}
	return h
}
