package main

// Generator for ClimateVariables (property C20): dry-bulb temperature in [-40,55] °C, relative humidity in (0,100] %,
// elevation in [0,10000] m. One call = one elevation and a series of (T, RH) samples; the series are arranged so that the
// oracle can compare neighbouring samples INSIDE one call (vapour pressure along an ascending temperature grid, dew point
// along an ascending humidity grid at fixed temperature).
//
// Discontinuities. The wet-bulb bisection takes two kinds of decisions on computed values: `(h − fmid) > 0` and
// `|dx| < 1e-4`. The model (Lean, C libm) and the code (Go math) agree on pow/log10/log only to a few ulp (≈1e-15
// relative), so a sample that sits within a few ulp of such a decision boundary may legitimately take the other branch,
// which changes the wet bulb by up to the last bracket width (≤ 1e-4 °C). The generator therefore REJECTS (re-draws the
// humidity of) samples that come within 1e-12 relative — a thousand times the libm disagreement — of a decision boundary,
// using the reference formulas below (a transcription used ONLY for this filter, never as an oracle), so that the 1e-9
// correspondence tolerance is sound for every emitted sample. A bisection step hits such a neighbourhood with probability
// ≈ (1e-12·|h| / slope) / bracket width, summed over the steps ≈ 3e-7 per sample; rejections are counted in the histogram.

import "math"

func climRefVP(t float64) float64 {
	ta := t + 273.16
	var z, p1, p2, p3, p4 float64
	if t > 0 {
		z = 373.16 / ta
		p1 = (z - 1) * -7.90298
		p2 = math.Log10(z) * 5.02808
		p3 = (math.Pow(10, (1-(1/z))*11.344) - 1) * -0.00000013816
		p4 = (math.Pow(10, -3.49149*(z-1)) - 1) * 0.0081328
	} else {
		z = 273.16 / ta
		p1 = -9.09718 * (z - 1)
		p2 = -3.56654 * math.Log10(z)
		p3 = 0.876793 * (1 - (1 / z))
		p4 = math.Log10(0.0060273)
	}
	return 101.325 * math.Pow(10, p1+p2+p3+p4)
}

// climNearTie: does the sample come within rel (relative) of a decision boundary of the wet-bulb bisection?
func climNearTie(t, rh, elev, rel float64) bool {
	pa := 101.3 * math.Pow((293-0.0065*elev)/293, 5.26)
	hr := func(vp float64) float64 { return 0.62198 * vp / (pa - vp) }
	enth := func(t, w float64) float64 { return 1.006*t + (1.84*t+2501)*w }
	h := rh
	if h <= 0 {
		h = 0.0001
	}
	ea := climRefVP(t) * h / 100
	if !(ea > 0) {
		return false
	}
	f := math.Log(ea / 0.6108)
	tdew := 237.3 * f / (17.27 - f)
	e := enth(t, hr(climRefVP(t))*rh/100)
	rtb := tdew
	dx := t - tdew
	for i := 0; i < 40; i++ {
		dx *= 0.5
		xmid := rtb + dx
		fmid := enth(xmid, hr(climRefVP(xmid)))
		if math.Abs(e-fmid) <= rel*math.Max(math.Abs(e), 1) {
			return true
		}
		if e-fmid > 0 {
			rtb = xmid
		}
		if math.Abs(math.Abs(dx)-0.0001) <= rel*0.0001 {
			return true
		}
		if math.Abs(dx) < 0.0001 {
			break
		}
	}
	return false
}

var climNearTieRejected int

func init() {
	regModel(&ModelGen{Name: "ClimateVariables", MaxT: 400,
		Params: func(r *Rng) []float64 {
			switch r.Intn(6) {
			case 0:
				return []float64{0}
			case 1:
				return []float64{10000}
			case 2:
				return []float64{float64(r.Range(0, 100)) * 100}
			}
			return []float64{r.Uniform(0, 10000)}
		},
		Inputs: func(r *Rng, T int, p []float64) [][]float64 {
			elev := p[0]
			dry := make([]float64, T)
			hum := make([]float64, T)
			rhPick := func() float64 {
				switch r.Intn(8) {
				case 0:
					return 100
				case 1:
					return r.LogUniform(1e-6, 1) // very dry air
				case 2:
					return float64(r.Range(1, 100))
				}
				return 100 * (1 - r.F01()) // (0,100]
			}
			lin := func(lo, hi float64, i int) float64 {
				if T == 1 {
					return lo
				}
				return lo + (hi-lo)*float64(i)/float64(T-1)
			}
			switch r.Intn(7) {
			case 0: // ascending temperature grid over the whole range, one humidity
				rh := rhPick()
				for i := range dry {
					dry[i], hum[i] = lin(-40, 55, i), rh
				}
			case 1: // dense ascending grid across the freezing point
				rh := rhPick()
				w := r.LogUniform(1e-3, 5)
				for i := range dry {
					dry[i], hum[i] = lin(-w, w, i), rh
				}
			case 2: // dense ascending grid on a random sub-range
				rh := rhPick()
				a := r.Uniform(-40, 54)
				b := math.Min(55, a+r.LogUniform(1e-2, 30))
				for i := range dry {
					dry[i], hum[i] = lin(a, b, i), rh
				}
			case 3: // fixed temperature, ascending humidity in (0,100]
				t := r.Uniform(-40, 55)
				if r.Chance(0.3) {
					t = []float64{-40, 0, 55, 31, 30}[r.Intn(5)]
				}
				for i := range dry {
					dry[i], hum[i] = t, lin(100/float64(T), 100, i)
				}
			case 4: // saturated air on a warm grid (Magnus dew point vs Goff-Gratch dry bulb)
				for i := range dry {
					dry[i], hum[i] = lin(20, 55, i), 100
				}
			case 5: // integer grid points
				for i := range dry {
					dry[i], hum[i] = float64(r.Range(-40, 55)), float64(r.Range(1, 100))
				}
			default: // random
				for i := range dry {
					dry[i], hum[i] = r.Uniform(-40, 55), rhPick()
				}
			}
			for i := range dry {
				for tries := 0; climNearTie(dry[i], hum[i], elev, 1e-12) && tries < 20; tries++ {
					climNearTieRejected++
					// nudge the humidity (keeps temperature grids intact)
					hum[i] = math.Min(100, math.Max(1e-6, hum[i]*(1-1e-6*(1+r.F01()))))
				}
			}
			return [][]float64{dry, hum}
		},
	})
}
