// owextract reads the OW-SPEC blocks of an openwater-core working tree INDEPENDENTLY of pre/ow-specgen
// (own comment scanner via go/scanner, own reader for the indented "key: value" format; no YAML library, no
// code shared with the generator) and prints, as JSON, what every spec block declares:
// model name, package, ordered inputs / states / outputs, parameters with `[min,max] text, default=x` and the
// `name[dim,...]` table syntax.
//
//	owextract <repo root>
//
// It only parses text; it never imports or compiles anything from the tree.
//
// Reading rules (the format is the project's: YAML-like, indentation by tabs and/or spaces):
//   - a spec block is a /* ... */ comment whose text starts, after optional white space, with OW-SPEC
//   - a tab counts as two columns (the project's convention; YAML itself has no tabs)
//   - blank lines and lines starting with # are skipped
//   - `key: value` or `key:`; the key ends at the first ':' that is followed by white space or end of line
//   - level 0 (smallest indentation) = model name; level 1 = section (inputs, states, parameters, outputs, ...);
//     level 2 = entries of the section, in order
//   - a value is a plain scalar (trailing ` #...` removed), a '...' scalar (” = quote) or a "..." scalar;
//     `~`, `null` and nothing are the empty string; flow collections ([..] / {..}), anchors, block scalars are
//     reported as unsupported (field "errors")
//   - parameter value: optional `[min,max]` at the start (any Go float syntax), optional `default=<float>` after a
//     comma; the rest is free text. Missing range = [0,0], missing default = 0 (what the catalogue shows then).
//     An empty bound (`[0,]`) is an open end of the range.
package main

import (
	"encoding/json"
	"fmt"
	"go/scanner"
	"go/token"
	"math"
	"os"
	"path/filepath"
	"regexp"
	"sort"
	"strconv"
	"strings"
)

type Param struct {
	Name       string   `json:"name"`
	Dims       []string `json:"dims"`
	HasRange   bool     `json:"has_range"`
	Min        string   `json:"min"` // shortest round-trip decimal of the float64
	Max        string   `json:"max"`
	MinOpen    bool     `json:"min_open"` // `[,x]`: no lower bound
	MaxOpen    bool     `json:"max_open"` // `[x,]`: no upper bound
	HasDefault bool     `json:"has_default"`
	Default    string   `json:"default"`
	MinBits    string   `json:"min_bits"` // IEEE-754 bit patterns, decimal
	MaxBits    string   `json:"max_bits"`
	DefBits    string   `json:"default_bits"`
	Text       string   `json:"text"` // free text between range and default
	Raw        string   `json:"raw"`
	Line       int      `json:"line"`
}

type Spec struct {
	File       string   `json:"file"` // relative to the root, slash separated
	Dir        string   `json:"dir"`
	Package    string   `json:"package"`
	Block      int      `json:"block"` // index of the OW-SPEC comment in the file
	Line       int      `json:"line"`
	Model      string   `json:"model"`
	Sections   []string `json:"sections"`
	Inputs     []string `json:"inputs"`
	States     []string `json:"states"`
	Outputs    []string `json:"outputs"`
	Parameters []Param  `json:"parameters"`
	Dimensions []string `json:"dimensions"` // dimension names in order of first use
	Errors     []string `json:"errors"`
}

type Out struct {
	Root  string   `json:"root"`
	Files int      `json:"go_files_scanned"`
	Specs []Spec   `json:"specs"`
	Errs  []string `json:"errors"`
}

var specStart = regexp.MustCompile(`^/\*\s*OW-SPEC`)

func main() {
	if len(os.Args) != 2 {
		fmt.Fprintln(os.Stderr, "usage: owextract <repo root>")
		os.Exit(2)
	}
	root := os.Args[1]
	out := Out{Root: root, Specs: []Spec{}, Errs: []string{}}
	var files []string
	err := filepath.Walk(root, func(p string, fi os.FileInfo, err error) error {
		if err != nil {
			return err
		}
		if fi.IsDir() {
			if fi.Name() == ".git" {
				return filepath.SkipDir
			}
			return nil
		}
		if strings.HasSuffix(p, ".go") {
			files = append(files, p)
		}
		return nil
	})
	if err != nil {
		fmt.Fprintln(os.Stderr, "owextract:", err)
		os.Exit(2)
	}
	sort.Strings(files)
	for _, p := range files {
		src, err := os.ReadFile(p)
		if err != nil {
			fmt.Fprintln(os.Stderr, "owextract:", err)
			os.Exit(2)
		}
		out.Files++
		rel, _ := filepath.Rel(root, p)
		rel = filepath.ToSlash(rel)
		specs, errs := scanFile(rel, src)
		out.Specs = append(out.Specs, specs...)
		out.Errs = append(out.Errs, errs...)
	}
	enc := json.NewEncoder(os.Stdout)
	enc.SetEscapeHTML(false)
	enc.SetIndent("", " ")
	if err := enc.Encode(out); err != nil {
		fmt.Fprintln(os.Stderr, "owextract:", err)
		os.Exit(2)
	}
}

// scanFile tokenises a Go file (comments included) and reads every OW-SPEC comment.
func scanFile(rel string, src []byte) ([]Spec, []string) {
	if !strings.Contains(string(src), "OW-SPEC") {
		return nil, nil
	}
	var errs []string
	fset := token.NewFileSet()
	f := fset.AddFile(rel, fset.Base(), len(src))
	var s scanner.Scanner
	s.Init(f, src, func(pos token.Position, msg string) {
		errs = append(errs, fmt.Sprintf("%s:%d: go scanner: %s", rel, pos.Line, msg))
	}, scanner.ScanComments)
	pkg := ""
	var specs []Spec
	block := 0
	prev := token.ILLEGAL
	for {
		pos, tok, lit := s.Scan()
		if tok == token.EOF {
			break
		}
		if prev == token.PACKAGE && tok == token.IDENT && pkg == "" {
			pkg = lit
		}
		if tok == token.COMMENT && specStart.MatchString(lit) {
			line := fset.Position(pos).Line
			body := specStart.ReplaceAllString(lit, "")
			body = strings.TrimSuffix(body, "*/")
			ms := readBlock(body, line)
			for _, m := range ms {
				m.File = rel
				m.Dir = filepath.ToSlash(filepath.Dir(rel))
				m.Block = block
				specs = append(specs, m)
			}
			if len(ms) == 0 {
				errs = append(errs, fmt.Sprintf("%s:%d: OW-SPEC block declares no model", rel, line))
			}
			block++
		}
		if tok != token.COMMENT {
			prev = tok
		}
	}
	for i := range specs {
		specs[i].Package = pkg
	}
	return specs, errs
}

type entry struct {
	indent int
	key    string
	val    string
	line   int
	err    string
}

func columns(ws string) int {
	n := 0
	for _, c := range ws {
		if c == '\t' {
			n += 2
		} else {
			n++
		}
	}
	return n
}

// splitKey finds the first ':' followed by white space or end of line, outside quotes.
func splitKey(s string) (string, string, bool) {
	for i := 0; i < len(s); i++ {
		if s[i] == ':' && (i+1 == len(s) || s[i+1] == ' ' || s[i+1] == '\t') {
			return strings.TrimSpace(s[:i]), strings.TrimSpace(s[i+1:]), true
		}
	}
	return "", "", false
}

func scalar(v string) (string, string) {
	if v == "" || v == "~" || v == "null" {
		return "", ""
	}
	switch v[0] {
	case '\'':
		// single quoted: '' is a quote; must close at the end (a trailing comment is allowed)
		var b strings.Builder
		i := 1
		for i < len(v) {
			if v[i] == '\'' {
				if i+1 < len(v) && v[i+1] == '\'' {
					b.WriteByte('\'')
					i += 2
					continue
				}
				rest := strings.TrimSpace(v[i+1:])
				if rest != "" && !strings.HasPrefix(rest, "#") {
					return b.String(), "text after closing quote: " + rest
				}
				return b.String(), ""
			}
			b.WriteByte(v[i])
			i++
		}
		return b.String(), "unterminated single-quoted value"
	case '"':
		end := -1
		for i := 1; i < len(v); i++ {
			if v[i] == '\\' {
				i++
				continue
			}
			if v[i] == '"' {
				end = i
				break
			}
		}
		if end < 0 {
			return v, "unterminated double-quoted value"
		}
		u, err := strconv.Unquote(v[:end+1])
		if err != nil {
			return v, "double-quoted value: " + err.Error()
		}
		rest := strings.TrimSpace(v[end+1:])
		if rest != "" && !strings.HasPrefix(rest, "#") {
			return u, "text after closing quote: " + rest
		}
		return u, ""
	case '[', '{', '&', '*', '!', '|', '>', '%', '@', '`':
		return v, "unsupported value syntax (starts with " + string(v[0]) + ")"
	}
	if i := strings.Index(v, " #"); i >= 0 {
		v = strings.TrimSpace(v[:i])
	}
	return v, ""
}

func readBlock(body string, firstLine int) []Spec {
	var es []entry
	for i, raw := range strings.Split(body, "\n") {
		raw = strings.TrimRight(raw, " \t\r")
		t := strings.TrimLeft(raw, " \t")
		if t == "" || strings.HasPrefix(t, "#") {
			continue
		}
		ind := columns(raw[:len(raw)-len(t)])
		k, v, ok := splitKey(t)
		if !ok {
			// continuation of a plain scalar (e.g. the text under `tags:`): kept only for diagnostics
			es = append(es, entry{indent: ind, key: "", val: t, line: firstLine + i})
			continue
		}
		val, e := scalar(v)
		if len(k) >= 2 && (k[0] == '\'' || k[0] == '"') && k[len(k)-1] == k[0] {
			k = k[1 : len(k)-1]
		}
		es = append(es, entry{indent: ind, key: k, val: val, line: firstLine + i, err: e})
	}
	if len(es) == 0 {
		return nil
	}
	top := es[0].indent
	for _, e := range es {
		if e.indent < top {
			top = e.indent
		}
	}
	var specs []Spec
	var cur *Spec
	section := ""
	secIndent := -1
	entIndent := -1
	flush := func() {
		if cur != nil {
			finish(cur)
			specs = append(specs, *cur)
			cur = nil
		}
	}
	for _, e := range es {
		switch {
		case e.indent == top:
			flush()
			cur = &Spec{Model: e.key, Line: e.line, Inputs: []string{}, States: []string{}, Outputs: []string{},
				Parameters: []Param{}, Sections: []string{}, Dimensions: []string{}, Errors: []string{}}
			if e.key == "" {
				cur.Errors = append(cur.Errors, fmt.Sprintf("line %d: top-level line is not `Name:`: %q", e.line, e.val))
			}
			if e.val != "" {
				cur.Errors = append(cur.Errors, fmt.Sprintf("line %d: model name line carries a value %q", e.line, e.val))
			}
			section, secIndent, entIndent = "", -1, -1
		case cur == nil:
			// cannot happen (first entry is at the smallest indentation or deeper than a later one)
			cur = &Spec{Model: "", Line: e.line, Errors: []string{fmt.Sprintf("line %d: entry before any model name", e.line)}}
		case secIndent < 0 || e.indent <= secIndent:
			if secIndent >= 0 && e.indent < secIndent {
				cur.Errors = append(cur.Errors, fmt.Sprintf("line %d: indentation %d between model (%d) and section (%d)", e.line, e.indent, top, secIndent))
			}
			if e.key == "" {
				cur.Errors = append(cur.Errors, fmt.Sprintf("line %d: expected a section, got %q", e.line, e.val))
				continue
			}
			secIndent = e.indent
			entIndent = -1
			section = e.key
			for _, s := range cur.Sections {
				if s == section {
					cur.Errors = append(cur.Errors, fmt.Sprintf("line %d: section %s appears twice", e.line, section))
				}
			}
			cur.Sections = append(cur.Sections, section)
			if e.val != "" && (section == "inputs" || section == "states" || section == "outputs" || section == "parameters") {
				cur.Errors = append(cur.Errors, fmt.Sprintf("line %d: section %s carries a scalar value %q", e.line, section, e.val))
			}
		default:
			// entry of the current section
			if entIndent < 0 {
				entIndent = e.indent
			}
			listed := section == "inputs" || section == "states" || section == "outputs" || section == "parameters"
			if !listed {
				continue
			}
			if e.indent != entIndent {
				cur.Errors = append(cur.Errors, fmt.Sprintf("line %d: entry of %s at indentation %d, others at %d", e.line, section, e.indent, entIndent))
			}
			if e.key == "" {
				cur.Errors = append(cur.Errors, fmt.Sprintf("line %d: entry of %s is not `name:` : %q", e.line, section, e.val))
				continue
			}
			if e.err != "" {
				cur.Errors = append(cur.Errors, fmt.Sprintf("line %d: %s.%s: %s", e.line, section, e.key, e.err))
			}
			switch section {
			case "inputs":
				cur.Inputs = append(cur.Inputs, e.key)
			case "states":
				cur.States = append(cur.States, e.key)
			case "outputs":
				cur.Outputs = append(cur.Outputs, e.key)
			case "parameters":
				p, perr := readParam(e.key, e.val, e.line)
				if perr != "" {
					cur.Errors = append(cur.Errors, fmt.Sprintf("line %d: parameter %s: %s", e.line, e.key, perr))
				}
				cur.Parameters = append(cur.Parameters, p)
			}
		}
	}
	flush()
	return specs
}

var identRe = regexp.MustCompile(`^[_a-zA-Z][_a-zA-Z0-9]*$`)

func fmtF(x float64) string { return strconv.FormatFloat(x, 'g', -1, 64) }

func bits(s string) string {
	x, _ := strconv.ParseFloat(s, 64)
	return strconv.FormatUint(math.Float64bits(x), 10)
}

// readParam: `name` or `name[d1,d2]`; value `[min,max] free text, default=x`.
func readParam(key, val string, line int) (Param, string) {
	p := Param{Name: key, Dims: []string{}, Min: "0", Max: "0", Default: "0", Raw: val, Line: line}
	var errs []string
	if i := strings.IndexByte(key, '['); i >= 0 {
		if !strings.HasSuffix(key, "]") {
			errs = append(errs, "dimension list not closed")
		} else {
			p.Name = strings.TrimSpace(key[:i])
			for _, d := range strings.Split(key[i+1:len(key)-1], ",") {
				d = strings.TrimSpace(d)
				if !identRe.MatchString(d) {
					errs = append(errs, "bad dimension name "+strconv.Quote(d))
				}
				p.Dims = append(p.Dims, d)
			}
		}
	}
	if !identRe.MatchString(p.Name) {
		errs = append(errs, "bad parameter name "+strconv.Quote(p.Name))
	}
	rest := strings.TrimSpace(val)
	if strings.HasPrefix(rest, "[") {
		j := strings.IndexByte(rest, ']')
		if j < 0 {
			errs = append(errs, "range not closed")
		} else {
			parts := strings.Split(rest[1:j], ",")
			if len(parts) != 2 {
				errs = append(errs, "range needs two numbers: "+rest[:j+1])
			} else {
				a, b := strings.TrimSpace(parts[0]), strings.TrimSpace(parts[1])
				var lo, hi float64
				var e1, e2 error
				if a == "" {
					p.MinOpen = true
				} else {
					lo, e1 = strconv.ParseFloat(a, 64)
				}
				if b == "" {
					p.MaxOpen = true
				} else {
					hi, e2 = strconv.ParseFloat(b, 64)
				}
				if e1 != nil || e2 != nil {
					errs = append(errs, "range bound is not a number: "+rest[:j+1])
					p.MinOpen, p.MaxOpen = false, false
				} else {
					p.HasRange = true
					p.Min, p.Max = fmtF(lo), fmtF(hi)
				}
			}
			rest = rest[j+1:]
		}
	}
	// default=... : last occurrence, must follow a comma (or start the text)
	if k := strings.LastIndex(rest, "default="); k >= 0 {
		before := strings.TrimRight(rest[:k], " \t")
		num := strings.TrimSpace(rest[k+len("default="):])
		if before == "" || strings.HasSuffix(before, ",") {
			d, e := strconv.ParseFloat(num, 64)
			if e != nil {
				errs = append(errs, "default is not a number: "+strconv.Quote(num))
			} else {
				p.HasDefault = true
				p.Default = fmtF(d)
			}
			rest = strings.TrimRight(strings.TrimSuffix(before, ","), " \t")
		} else {
			errs = append(errs, "default= not preceded by a comma")
		}
	}
	p.Text = strings.TrimSpace(rest)
	p.MinBits, p.MaxBits, p.DefBits = bits(p.Min), bits(p.Max), bits(p.Default)
	return p, strings.Join(errs, "; ")
}

func finish(s *Spec) {
	seen := map[string]bool{}
	for _, p := range s.Parameters {
		for _, d := range p.Dims {
			if !seen[d] {
				seen[d] = true
				s.Dimensions = append(s.Dimensions, d)
			}
		}
	}
	if !identRe.MatchString(s.Model) {
		s.Errors = append(s.Errors, "bad model name "+strconv.Quote(s.Model))
	}
	for _, sec := range []struct {
		n string
		l []string
	}{{"inputs", s.Inputs}, {"states", s.States}, {"outputs", s.Outputs}} {
		dup := map[string]bool{}
		for _, k := range sec.l {
			if dup[k] {
				s.Errors = append(s.Errors, "duplicate "+sec.n+" entry "+k)
			}
			dup[k] = true
		}
	}
	dup := map[string]bool{}
	for _, p := range s.Parameters {
		if dup[p.Name] {
			s.Errors = append(s.Errors, "duplicate parameter "+p.Name)
		}
		dup[p.Name] = true
	}
	for _, d := range s.Dimensions {
		if !dup[d] {
			s.Errors = append(s.Errors, "dimension "+d+" is not a parameter")
		}
	}
}
