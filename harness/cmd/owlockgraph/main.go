// owlockgraph extracts the lock / call graph of a Go package that talks to the HDF5 library (package io of
// openwater-core) and prints it as Lean data (OW/Gen/IoLockGraph.lean). Parsing only (go/parser, go/ast): package io
// does not type-check in a sandbox without libhdf5, so everything below is decided syntactically and, where the
// syntax does not decide, conservatively (unknown ⇒ library call, unknown ⇒ mutating, unknown receiver ⇒ every method
// of that name).
//
//	owlockgraph <dir-of-package-io> [-o file.lean] [-json]
//
// For every function and method declared in the package (files excluded by their build constraints under an empty tag
// set — e.g. the `verif` hooks — and _test.go files are skipped):
//
//	name        Recv.Method or Func
//	exported    callable from outside the package (exported name, and exported receiver type for methods); init too
//	lock        exclusive: the body starts with `lockHDF5(…)` `defer unlockHDF5(…)`; shared: `rLockHDF5(…)` `defer rUnlockHDF5(…)`
//	irregular   the function touches the package lock in any other way (calls one of the four lock functions elsewhere,
//	            or mentions the mutex variable) — except the four lock functions themselves, which are not listed
//	lib         the calls into the library: hdf5.F(…) and x.M(…) where x is (derived from) a library value; each with
//	            mutating = true|false by name and by what is known about x (see classify)
//	calls       the functions of the package it calls (by position in the list)
//
// Function literals. A literal that is invoked on the spot (`func(){…}()`, also deferred) counts for the function (or
// literal) it is written in. A literal passed DIRECTLY as an argument to a function of the package whose corresponding
// parameter is CALL-ONLY — the callee's body uses that parameter for nothing but direct calls `p(…)`, in its own body,
// outside nested literals and outside go/defer statements, so the literal runs only while the callee's body runs — is a
// node of its own ("Encl.funcN", not exported) with a call edge FROM THE CALLEE: it inherits the lock the callee holds
// (`lock…(); defer unlock…(); body()` helpers, any name) and nothing from the function it is written in. Every other
// literal (stored in a variable, passed to another package, passed where the parameter is stored or handed on, started
// with `go`) may run at any time: it is a node of its own marked exported (an entry point: no lock guaranteed).
// `go f(…)` likewise starts f from a synthetic entry point ("Encl.goN"). Deferred calls count as calls.
package main

import (
	"encoding/json"
	"flag"
	"fmt"
	"go/ast"
	"go/build/constraint"
	"go/parser"
	"go/token"
	"os"
	"path/filepath"
	"sort"
	"strings"
)

type libCall struct {
	Name     string `json:"name"`
	Mutating bool   `json:"mutating"`
}

type fn struct {
	Name      string    `json:"name"`
	Exported  bool      `json:"exported"`
	Lock      string    `json:"lock"` // none | shared | exclusive
	Irregular bool      `json:"irregular"`
	Lib       []libCall `json:"lib"`
	Calls     []string  `json:"calls"`
	File      string    `json:"file"`
	decl      *ast.FuncDecl
}

var lockPrims = map[string]string{"lockHDF5": "exclusive", "rLockHDF5": "shared", "unlockHDF5": "exclusive", "rUnlockHDF5": "shared"}
var acquire = map[string]string{"lockHDF5": "unlockHDF5", "rLockHDF5": "rUnlockHDF5"}

// what the library's constructors and accessors return (kind of the library value)
var libResultKind = map[string]string{
	"OpenFile": "File", "CreateFile": "File",
	"OpenGroup": "Group", "CreateGroup": "Group",
	"OpenDataset": "Dataset", "OpenDatasetWith": "Dataset", "CreateDataset": "Dataset", "CreateDatasetWith": "Dataset",
	"Space": "Dataspace", "CreateSimpleDataspace": "Dataspace", "CreateDataspace": "Dataspace", "Copy": "",
	"Datatype": "Datatype", "NewDataTypeFromType": "Datatype", "NewDatatypeFromValue": "Datatype", "CreateDatatype": "Datatype",
	"NewPropList": "PropList",
}

// in-memory objects of the library: no call on them can change a file
var memoryKinds = map[string]bool{"Dataspace": true, "Datatype": true, "PropList": true}

type libVal struct {
	kind     string // File | Group | Dataset | Dataspace | Datatype | PropList | "" (unknown)
	readOnly bool   // belongs to a file opened with hdf5.F_ACC_RDONLY
}

func readOnlyName(m string) bool {
	for _, p := range []string{"Open", "Read", "Num", "Object", "Simple", "Select", "Get", "Is", "Link"} {
		if strings.HasPrefix(m, p) {
			return true
		}
	}
	switch m {
	case "Space", "Datatype", "GoType", "Size", "Class", "FileName", "Name", "ID", "Equal", "Committed", "DisplayErrors", "LibVersion":
		return true
	}
	return false
}

// classify decides whether the library call `recv.method` (recv == nil: package-level function) can modify a file.
func classify(method string, recv *libVal, rdonlyFlag bool) bool {
	if recv == nil {
		switch method {
		case "OpenFile":
			return !rdonlyFlag // opening for writing marks the file
		case "CreateSimpleDataspace", "CreateDataspace", "NewDataTypeFromType", "NewDatatypeFromValue", "CreateDatatype", "NewPropList",
			"DisplayErrors", "LibVersion", "IsHDF5":
			return false
		}
		return true // CreateFile, anything unknown
	}
	if memoryKinds[recv.kind] {
		return false
	}
	if method == "Close" {
		return !recv.readOnly // closing an object of a writable file may flush it
	}
	if readOnlyName(method) {
		return false
	}
	return true // Create*, Write*, Flush, Set*, unknown
}

type pkgInfo struct {
	callOnly   map[string]map[int]bool // function full name -> positions of its call-only func parameters
	extra      []*fn                   // synthetic nodes (function literals, go statements), in creation order
	extraCalls map[string][]string     // call edges added to OTHER functions (callee -> literal it is handed)
	hdf5Name   string                  // import name of gonum.org/v1/hdf5 in the file being visited
	funcs      map[string]*fn
	methods    map[string][]string // method name -> full names
	types      map[string]bool     // package-level type names
	results    map[string]string   // function full name -> kind of the library value it returns ("-" none)
	muNames    map[string]bool     // package-level sync.(RW)Mutex variables
}

func recvTypeName(e ast.Expr) string {
	switch t := e.(type) {
	case *ast.StarExpr:
		return recvTypeName(t.X)
	case *ast.Ident:
		return t.Name
	case *ast.IndexExpr:
		return recvTypeName(t.X)
	}
	return "?"
}

// libKindOfType: the kind of library value a type expression denotes ("" if it is not one)
func libKindOfType(e ast.Expr, hdf5Name string) (string, bool) {
	switch t := e.(type) {
	case *ast.StarExpr:
		return libKindOfType(t.X, hdf5Name)
	case *ast.SelectorExpr:
		if id, ok := t.X.(*ast.Ident); ok && id.Name == hdf5Name {
			return t.Sel.Name, true
		}
	}
	return "", false
}

func fileActive(path string, src []byte) bool {
	// build constraints: evaluated with no custom tags set
	for _, line := range strings.Split(string(src), "\n") {
		l := strings.TrimSpace(line)
		if strings.HasPrefix(l, "package ") {
			break
		}
		if constraint.IsGoBuild(l) || constraint.IsPlusBuild(l) {
			x, err := constraint.Parse(l)
			if err != nil {
				continue
			}
			ok := x.Eval(func(tag string) bool {
				return tag == "linux" || tag == "amd64" || tag == "cgo" || tag == "unix" || strings.HasPrefix(tag, "go1.")
			})
			if !ok {
				return false
			}
		}
	}
	return true
}

func main() {
	out := flag.String("o", "", "write Lean to this file (default stdout)")
	asJSON := flag.Bool("json", false, "print JSON instead of Lean")
	flag.Usage = func() { fmt.Fprintln(os.Stderr, "usage: owlockgraph [-o file] [-json] <dir>") }
	flag.Parse()
	if flag.NArg() != 1 {
		flag.Usage()
		os.Exit(2)
	}
	dir := flag.Arg(0)
	names, err := filepath.Glob(filepath.Join(dir, "*.go"))
	if err != nil || len(names) == 0 {
		fmt.Fprintln(os.Stderr, "owlockgraph: no Go files in", dir)
		os.Exit(2)
	}
	sort.Strings(names)
	fset := token.NewFileSet()
	type parsed struct {
		f    *ast.File
		hdf5 string
		name string
	}
	var files []parsed
	info := &pkgInfo{callOnly: map[string]map[int]bool{}, extraCalls: map[string][]string{}, funcs: map[string]*fn{}, methods: map[string][]string{}, types: map[string]bool{}, results: map[string]string{}, muNames: map[string]bool{}}
	var order []string
	for _, n := range names {
		if strings.HasSuffix(n, "_test.go") {
			continue
		}
		src, err := os.ReadFile(n)
		if err != nil {
			fmt.Fprintln(os.Stderr, "owlockgraph:", err)
			os.Exit(2)
		}
		if !fileActive(n, src) {
			continue
		}
		f, err := parser.ParseFile(fset, n, src, 0)
		if err != nil {
			fmt.Fprintln(os.Stderr, "owlockgraph:", err)
			os.Exit(2)
		}
		hname := ""
		for _, im := range f.Imports {
			if strings.Trim(im.Path.Value, `"`) == "gonum.org/v1/hdf5" {
				hname = "hdf5"
				if im.Name != nil {
					hname = im.Name.Name
				}
			}
		}
		files = append(files, parsed{f, hname, filepath.Base(n)})
	}
	// pass 1: declarations
	for _, pf := range files {
		for _, d := range pf.f.Decls {
			switch d := d.(type) {
			case *ast.GenDecl:
				for _, s := range d.Specs {
					switch s := s.(type) {
					case *ast.TypeSpec:
						info.types[s.Name.Name] = true
					case *ast.ValueSpec:
						if s.Type != nil {
							if sel, ok := s.Type.(*ast.SelectorExpr); ok {
								if x, ok := sel.X.(*ast.Ident); ok && x.Name == "sync" && strings.HasSuffix(sel.Sel.Name, "Mutex") {
									for _, id := range s.Names {
										info.muNames[id.Name] = true
									}
								}
							}
						}
					}
				}
			case *ast.FuncDecl:
				full := d.Name.Name
				exported := ast.IsExported(d.Name.Name) || d.Name.Name == "init"
				if d.Recv != nil && len(d.Recv.List) > 0 {
					rt := recvTypeName(d.Recv.List[0].Type)
					full = rt + "." + d.Name.Name
					exported = ast.IsExported(d.Name.Name) && ast.IsExported(rt)
					info.methods[d.Name.Name] = append(info.methods[d.Name.Name], full)
				}
				if _, prim := lockPrims[full]; prim {
					continue
				}
				if _, dup := info.funcs[full]; dup {
					fmt.Fprintln(os.Stderr, "owlockgraph: duplicate function", full)
					os.Exit(2)
				}
				info.funcs[full] = &fn{Name: full, Exported: exported, Lock: "none", File: pf.name, decl: d}
				order = append(order, full)
				kind := "-"
				if d.Type.Results != nil {
					for _, r := range d.Type.Results.List {
						if k, ok := libKindOfType(r.Type, pf.hdf5); ok {
							kind = k
						}
					}
				}
				info.results[full] = kind
				info.callOnly[full] = callOnlyParams(d)
			}
		}
	}
	// pass 2: bodies
	for _, pf := range files {
		info.hdf5Name = pf.hdf5
		for _, d := range pf.f.Decls {
			if fd, ok := d.(*ast.FuncDecl); ok && fd.Body != nil {
				full := fd.Name.Name
				if fd.Recv != nil && len(fd.Recv.List) > 0 {
					full = recvTypeName(fd.Recv.List[0].Type) + "." + fd.Name.Name
				}
				if f := info.funcs[full]; f != nil {
					analyse(info, f, fd)
				}
			}
		}
	}
	for _, e := range info.extra {
		info.funcs[e.Name] = e
		order = append(order, e.Name)
	}
	for callee, lits := range info.extraCalls {
		if f := info.funcs[callee]; f != nil {
			f.Calls = append(f.Calls, lits...)
		}
	}
	for _, f := range info.funcs {
		sort.Strings(f.Calls)
		out := f.Calls[:0]
		for i, c := range f.Calls {
			if i == 0 || c != f.Calls[i-1] {
				out = append(out, c)
			}
		}
		f.Calls = out
	}
	sort.Strings(order)
	fns := make([]*fn, len(order))
	for i, n := range order {
		fns[i] = info.funcs[n]
	}
	var text string
	if *asJSON {
		b, _ := json.MarshalIndent(fns, "", " ")
		text = string(b) + "\n"
	} else {
		text = lean(fns, dir)
	}
	if *out == "" {
		fmt.Print(text)
		return
	}
	if err := os.WriteFile(*out, []byte(text), 0o644); err != nil {
		fmt.Fprintln(os.Stderr, "owlockgraph:", err)
		os.Exit(2)
	}
}

func callName(e ast.Expr) string {
	if id, ok := e.(*ast.Ident); ok {
		return id.Name
	}
	return ""
}

// analyse fills Lock, Irregular, Lib, Calls of one function.
func analyse(info *pkgInfo, f *fn, fd *ast.FuncDecl) {
	body := fd.Body.List
	skip := map[ast.Node]bool{}
	// entry pattern
	if len(body) >= 2 {
		if es, ok := body[0].(*ast.ExprStmt); ok {
			if c, ok := es.X.(*ast.CallExpr); ok {
				if rel, ok := acquire[callName(c.Fun)]; ok {
					if ds, ok := body[1].(*ast.DeferStmt); ok && callName(ds.Call.Fun) == rel {
						f.Lock = lockPrims[callName(c.Fun)]
						skip[c] = true
						skip[ds.Call] = true
					}
				}
			}
		}
	}
	// library values known in this function: name -> value
	vals := map[string]*libVal{}
	localType := map[string]string{} // identifiers of a known package-local type
	external := map[string]bool{}    // identifiers of a type of another package (not the library)
	addParam := func(fl *ast.FieldList) {
		if fl == nil {
			return
		}
		for _, p := range fl.List {
			for _, id := range p.Names {
				if k, ok := libKindOfType(p.Type, info.hdf5Name); ok {
					vals[id.Name] = &libVal{kind: k} // a library value handed in: nothing known about its file
				} else if tn := recvTypeName(p.Type); info.types[tn] {
					localType[id.Name] = tn
				} else if _, isSel := p.Type.(*ast.SelectorExpr); isSel {
					external[id.Name] = true
				}
			}
		}
	}
	addParam(fd.Recv)
	addParam(fd.Type.Params)

	seenLib := map[*fn]map[string]bool{}
	seenCall := map[*fn]map[string]bool{}
	addLib := func(cur *fn, name string, mut bool) {
		k := fmt.Sprintf("%s/%v", name, mut)
		if seenLib[cur] == nil {
			seenLib[cur] = map[string]bool{}
		}
		if !seenLib[cur][k] {
			seenLib[cur][k] = true
			cur.Lib = append(cur.Lib, libCall{name, mut})
		}
	}
	addCall := func(cur *fn, name string) {
		if seenCall[cur] == nil {
			seenCall[cur] = map[string]bool{}
		}
		if !seenCall[cur][name] {
			seenCall[cur][name] = true
			cur.Calls = append(cur.Calls, name)
		}
	}
	// parameters of the function literals written in this function (library values handed to a callback)
	ast.Inspect(fd.Body, func(n ast.Node) bool {
		if l, ok := n.(*ast.FuncLit); ok {
			addParam(l.Type.Params)
		}
		return true
	})
	nLit, nGo := 0, 0
	synthetic := func(suffix string, exported bool) *fn {
		e := &fn{Name: f.Name + "." + suffix, Exported: exported, Lock: "none", File: f.File}
		info.extra = append(info.extra, e)
		return e
	}

	// exprVal: the library value an expression yields (nil: not a library value); registers the calls it contains lazily
	var exprVal func(e ast.Expr) *libVal
	exprVal = func(e ast.Expr) *libVal {
		switch x := e.(type) {
		case *ast.ParenExpr:
			return exprVal(x.X)
		case *ast.Ident:
			return vals[x.Name]
		case *ast.UnaryExpr:
			return exprVal(x.X)
		case *ast.CallExpr:
			switch fun := x.Fun.(type) {
			case *ast.SelectorExpr:
				if id, ok := fun.X.(*ast.Ident); ok && id.Name == info.hdf5Name && info.hdf5Name != "" {
					k, known := libResultKind[fun.Sel.Name]
					if !known {
						k = ""
					}
					ro := false
					if fun.Sel.Name == "OpenFile" && len(x.Args) == 2 {
						if s, ok := x.Args[1].(*ast.SelectorExpr); ok && s.Sel.Name == "F_ACC_RDONLY" {
							ro = true
						}
					}
					return &libVal{kind: k, readOnly: ro}
				}
				if rv := exprVal(fun.X); rv != nil {
					k, known := libResultKind[fun.Sel.Name]
					if !known || (k == "" && fun.Sel.Name == "Copy") {
						k = rv.kind
						if !known {
							k = ""
						}
					}
					return &libVal{kind: k, readOnly: rv.readOnly}
				}
			case *ast.Ident:
				if k, ok := info.results[fun.Name]; ok && k != "-" {
					return &libVal{kind: k}
				}
			}
		}
		return nil
	}

	assign := func(lhs []ast.Expr, rhs []ast.Expr) {
		if len(rhs) == 1 && len(lhs) >= 1 {
			if v := exprVal(rhs[0]); v != nil {
				if id, ok := lhs[0].(*ast.Ident); ok && id.Name != "_" {
					vals[id.Name] = v
				}
				return
			}
			if cl, ok := rhs[0].(*ast.CompositeLit); ok {
				if id, ok := lhs[0].(*ast.Ident); ok {
					if tn := recvTypeName(cl.Type); info.types[tn] {
						localType[id.Name] = tn
					}
				}
			}
			return
		}
		for i := range lhs {
			if i < len(rhs) {
				if v := exprVal(rhs[i]); v != nil {
					if id, ok := lhs[i].(*ast.Ident); ok {
						vals[id.Name] = v
					}
				}
			}
		}
	}

	// first the assignments (flow-insensitive: a name that ever holds a library value is one), to a fixpoint
	for round := 0; round < 4; round++ {
		ast.Inspect(fd.Body, func(n ast.Node) bool {
			switch s := n.(type) {
			case *ast.AssignStmt:
				assign(s.Lhs, s.Rhs)
			case *ast.ValueSpec:
				if s.Type != nil {
					if k, ok := libKindOfType(s.Type, info.hdf5Name); ok {
						for _, id := range s.Names {
							if vals[id.Name] == nil {
								vals[id.Name] = &libVal{kind: k}
							}
						}
					}
				}
				lhs := make([]ast.Expr, len(s.Names))
				for i, id := range s.Names {
					lhs[i] = id
				}
				if len(s.Values) > 0 {
					assign(lhs, s.Values)
				}
			}
			return true
		})
	}

	// then the calls. `cur` is the node the statements being visited belong to: the function itself, or a literal of its own.
	// callees: the functions of the package a call expression may reach ("" receiver: every method of that name)
	callees := func(x *ast.CallExpr) []string {
		switch fun := x.Fun.(type) {
		case *ast.Ident:
			if _, ok := info.funcs[fun.Name]; ok {
				return []string{fun.Name}
			}
		case *ast.SelectorExpr:
			if id, ok := fun.X.(*ast.Ident); ok && id.Name == info.hdf5Name && info.hdf5Name != "" {
				return nil
			}
			if rv := exprVal(fun.X); rv != nil {
				return nil
			}
			cands := info.methods[fun.Sel.Name]
			if len(cands) == 0 {
				return nil
			}
			if id, ok := fun.X.(*ast.Ident); ok {
				if external[id.Name] {
					return nil
				}
				if tn, ok := localType[id.Name]; ok {
					if _, ok := info.funcs[tn+"."+fun.Sel.Name]; ok {
						return []string{tn + "." + fun.Sel.Name}
					}
					return nil
				}
				if _, isPkg := importNames(fd, id.Name); isPkg {
					return nil
				}
			}
			if cl, ok := fun.X.(*ast.CompositeLit); ok {
				if tn := recvTypeName(cl.Type); info.types[tn] {
					if _, ok := info.funcs[tn+"."+fun.Sel.Name]; ok {
						return []string{tn + "." + fun.Sel.Name}
					}
					return nil
				}
			}
			return cands // receiver of unknown type: every method of that name
		}
		return nil
	}
	var walk func(n ast.Node, cur *fn)
	escaping := func(l *ast.FuncLit) {
		nLit++
		walk(l.Body, synthetic(fmt.Sprintf("func%d", nLit), true))
	}
	var call func(x *ast.CallExpr, cur *fn)
	call = func(x *ast.CallExpr, cur *fn) {
		if skip[x] {
			for _, a := range x.Args {
				walk(a, cur)
			}
			return
		}
		// a literal invoked on the spot runs here
		if l, ok := x.Fun.(*ast.FuncLit); ok {
			walk(l.Body, cur)
			for _, a := range x.Args {
				walk(a, cur)
			}
			return
		}
		cands := callees(x)
		switch fun := x.Fun.(type) {
		case *ast.Ident:
			if _, prim := lockPrims[fun.Name]; prim {
				cur.Irregular = true
			}
		case *ast.SelectorExpr:
			if id, ok := fun.X.(*ast.Ident); ok && id.Name == info.hdf5Name && info.hdf5Name != "" {
				ro := false
				if fun.Sel.Name == "OpenFile" && len(x.Args) == 2 {
					if s, ok := x.Args[1].(*ast.SelectorExpr); ok && s.Sel.Name == "F_ACC_RDONLY" {
						ro = true
					}
				}
				addLib(cur, info.hdf5Name+"."+fun.Sel.Name, classify(fun.Sel.Name, nil, ro))
			} else if rv := exprVal(fun.X); rv != nil {
				k := rv.kind
				if k == "" {
					k = "?"
				}
				addLib(cur, k+"."+fun.Sel.Name, classify(fun.Sel.Name, rv, false))
			}
			walk(fun.X, cur)
		default:
			walk(x.Fun, cur)
		}
		for _, c := range cands {
			addCall(cur, c)
		}
		for i, a := range x.Args {
			l, ok := a.(*ast.FuncLit)
			if !ok {
				walk(a, cur)
				continue
			}
			handed := len(cands) > 0
			for _, c := range cands {
				if !info.callOnly[c][i] {
					handed = false
				}
			}
			if !handed {
				escaping(l)
				continue
			}
			// the callee(s) call the literal while their own body runs, and do nothing else with it
			nLit++
			node := synthetic(fmt.Sprintf("func%d", nLit), false)
			for _, c := range cands {
				info.extraCalls[c] = append(info.extraCalls[c], node.Name)
			}
			walk(l.Body, node)
		}
	}
	walk = func(n ast.Node, cur *fn) {
		if n == nil {
			return
		}
		ast.Inspect(n, func(n ast.Node) bool {
			switch x := n.(type) {
			case *ast.Ident:
				if info.muNames[x.Name] {
					cur.Irregular = true
				}
			case *ast.FuncLit:
				escaping(x)
				return false
			case *ast.GoStmt:
				nGo++
				call(x.Call, synthetic(fmt.Sprintf("go%d", nGo), true))
				return false
			case *ast.CallExpr:
				call(x, cur)
				return false
			}
			return true
		})
	}
	walk(fd.Body, f)
	all := []*fn{f}
	for _, e := range info.extra {
		if strings.HasPrefix(e.Name, f.Name+".") && e.File == f.File {
			all = append(all, e)
		}
	}
	for _, g := range all {
		sort.Slice(g.Lib, func(i, j int) bool {
			if g.Lib[i].Name != g.Lib[j].Name {
				return g.Lib[i].Name < g.Lib[j].Name
			}
			return !g.Lib[i].Mutating && g.Lib[j].Mutating
		})
	}
}

// callOnlyParams: positions of the parameters of func type that the body uses for nothing but direct calls `p(…)` made in the
// function's own body (not inside a nested literal, not as the call of a go or defer statement): whatever is passed there runs
// only while this function's body runs.
func callOnlyParams(fd *ast.FuncDecl) map[int]bool {
	out := map[int]bool{}
	if fd.Body == nil || fd.Type.Params == nil {
		return out
	}
	pos := 0
	objs := map[*ast.Object]int{}
	for _, p := range fd.Type.Params.List {
		_, isFunc := p.Type.(*ast.FuncType)
		if len(p.Names) == 0 {
			pos++
		}
		for _, id := range p.Names {
			if isFunc && id.Obj != nil && id.Name != "_" {
				objs[id.Obj] = pos
			}
			pos++
		}
	}
	if len(objs) == 0 {
		return out
	}
	bad := map[*ast.Object]bool{}
	okUse := map[*ast.Ident]bool{}
	var visit func(n ast.Node, inLit bool)
	visit = func(n ast.Node, inLit bool) {
		ast.Inspect(n, func(n ast.Node) bool {
			switch x := n.(type) {
			case *ast.FuncLit:
				if !inLit {
					visit(x.Body, true)
					return false
				}
			case *ast.GoStmt:
				if id, ok := x.Call.Fun.(*ast.Ident); ok && id.Obj != nil {
					if _, is := objs[id.Obj]; is {
						bad[id.Obj] = true
					}
				}
			case *ast.DeferStmt:
				if id, ok := x.Call.Fun.(*ast.Ident); ok && id.Obj != nil {
					if _, is := objs[id.Obj]; is {
						bad[id.Obj] = true
					}
				}
			case *ast.CallExpr:
				if id, ok := x.Fun.(*ast.Ident); ok && id.Obj != nil && !inLit {
					if _, is := objs[id.Obj]; is {
						okUse[id] = true
					}
				}
			case *ast.Ident:
				if x.Obj != nil {
					if _, is := objs[x.Obj]; is && !okUse[x] {
						bad[x.Obj] = true
					}
				}
			}
			return true
		})
	}
	visit(fd.Body, false)
	for o, i := range objs {
		if !bad[o] {
			out[i] = true
		}
	}
	return out
}

// importNames: is `name` an imported package name in the file of fd? (approximation: lower-case identifiers that are
// never assigned in the function and are well-known packages used by package io)
func importNames(fd *ast.FuncDecl, name string) (string, bool) {
	switch name {
	case "strings", "fmt", "os", "errors", "reflect", "bytes", "conv", "data", "slice", "m", "csv", "sync", "math", "io", "bufio", "strconv":
		return name, true
	}
	return "", false
}

func leanStr(s string) string {
	return `"` + strings.NewReplacer(`\`, `\\`, `"`, `\"`).Replace(s) + `"`
}

func lean(fns []*fn, dir string) string {
	idx := map[string]int{}
	for i, f := range fns {
		idx[f.Name] = i
	}
	var b strings.Builder
	b.WriteString("import OW.Sim.LockCheck\n")
	b.WriteString("/-! GENERATED by /verif/harness/cmd/owlockgraph from the Go sources of package io — do not edit.\n")
	b.WriteString("Regenerated on every run of ./bin/check C08 (vlib/c08.py); the committed copy makes a fresh `lake build` work.\n")
	b.WriteString("One entry per function/method of the package (the four lock functions excluded); `calls` are positions in this list. -/\n")
	b.WriteString("namespace OW.Gen\nopen OW.Sim.LockCheck\n\n")
	b.WriteString("def ioLockGraph : Graph := [\n")
	for i, f := range fns {
		lock := map[string]string{"none": ".none", "shared": ".shared", "exclusive": ".exclusive"}[f.Lock]
		var libs []string
		for _, l := range f.Lib {
			libs = append(libs, fmt.Sprintf("(%s, %v)", leanStr(l.Name), l.Mutating))
		}
		var calls []string
		var callNames []string
		for _, c := range f.Calls {
			calls = append(calls, fmt.Sprint(idx[c]))
			callNames = append(callNames, c)
		}
		sep := ","
		if i == len(fns)-1 {
			sep = ""
		}
		fmt.Fprintf(&b, "  -- %d (%s)%s\n", i, f.File, func() string {
			if len(callNames) > 0 {
				return " calls " + strings.Join(callNames, ", ")
			}
			return ""
		}())
		fmt.Fprintf(&b, "  { name := %s, exported := %v, lock := %s, irregular := %v,\n    lib := [%s],\n    calls := [%s] }%s\n",
			leanStr(f.Name), f.Exported, lock, f.Irregular, strings.Join(libs, ", "), strings.Join(calls, ", "), sep)
	}
	b.WriteString("]\n\n")
	b.WriteString("/-- the lock discipline holds on the graph above (kernel evaluation of the checker) -/\n")
	b.WriteString("theorem ioLockGraph_ok : lockCheck ioLockGraph = true := by decide +kernel\n\nend OW.Gen\n")
	return b.String()
}
