package main

import (
	"fmt"
	"go/ast"
	"go/token"
	"sort"
	"strings"
)

// an expression: the operations that can panic, bound in evaluation order, and the (panic-free) text of the value
type val struct {
	binds []string
	text  string
	t     *ty
}

func isUntypedConst(x ast.Expr) bool {
	switch x := unparen(x).(type) {
	case *ast.BasicLit:
		return x.Kind == token.INT || x.Kind == token.FLOAT
	case *ast.UnaryExpr:
		return (x.Op == token.SUB || x.Op == token.ADD) && isUntypedConst(x.X)
	}
	return false
}

func (f *fn) local(name string, e *env) (*vinfo, bool) {
	v, ok := e.vars[name]
	return v, ok
}

func (f *fn) expr(x ast.Expr, e *env, want *ty) val {
	switch x := x.(type) {
	case *ast.ParenExpr:
		return f.expr(x.X, e, want)
	case *ast.BasicLit:
		switch x.Kind {
		case token.INT:
			if !reDecimal(x.Value) {
				f.fail(x, "integer literal that is not decimal")
			}
			t := tInt
			if want != nil && (want.k == kUint || want.k == kFloat) && !want.opt {
				t = want
			}
			return val{text: x.Value, t: t}
		case token.FLOAT:
			if !reFloat(x.Value) {
				f.fail(x, "float literal form")
			}
			return val{text: x.Value, t: tFloat}
		}
		f.fail(x, "literal outside the subset")
	case *ast.Ident:
		if v, ok := f.local(x.Name, e); ok {
			return val{text: leanIdent(x.Name), t: v.t}
		}
		switch x.Name {
		case "true", "false":
			return val{text: x.Name, t: tBool}
		case "nil":
			if want == nil {
				f.fail(x, "nil without a type")
			}
			if want.opt {
				return val{text: "none", t: want}
			}
			if want.k == kErr {
				return val{text: "false", t: tErr}
			}
			if want.k == kSlice {
				return val{text: "[]", t: want}
			}
			f.fail(x, "nil for a %s", want.lean())
		}
		if text, t := f.globalTable(x); t != nil {
			return val{text: text, t: t}
		}
		if c, ok := f.p.consts[x.Name]; ok { // a package-level constant that is one literal: read as that literal
			v := f.expr(c, e, want)
			if v.t.k == kInt && strings.HasPrefix(v.text, "-") {
				v.text = "(" + v.text + ")"
			}
			return v
		}
		f.fail(x, "identifier %s is not a local variable", x.Name)
	case *ast.UnaryExpr:
		switch x.Op {
		case token.SUB:
			v := f.expr(x.X, e, want)
			if v.t.k != kInt && v.t.k != kFloat {
				f.fail(x, "negation of a %s", v.t.lean())
			}
			return val{binds: v.binds, text: "(-" + atomV(v.text) + ")", t: v.t}
		case token.ADD:
			return f.expr(x.X, e, want)
		case token.NOT:
			binds, p := f.prop(x, e)
			return val{binds: binds, text: "(decide " + p + ")", t: tBool}
		}
		f.fail(x, "unary operator %s", x.Op)
	case *ast.BinaryExpr:
		switch x.Op {
		case token.ADD, token.SUB, token.MUL, token.QUO, token.REM:
			var l, r val
			if isUntypedConst(x.X) && !isUntypedConst(x.Y) {
				r = f.expr(x.Y, e, want)
				l = f.expr(x.X, e, r.t)
			} else {
				l = f.expr(x.X, e, want)
				r = f.expr(x.Y, e, l.t)
			}
			if !l.t.same(r.t) || l.t.opt {
				f.fail(x, "operands of %s have types %s and %s", x.Op, l.t.lean(), r.t.lean())
			}
			binds := append(append([]string{}, l.binds...), r.binds...)
			switch l.t.k {
			case kInt:
				switch x.Op {
				case token.QUO, token.REM:
					op := "goDiv"
					if x.Op == token.REM {
						op = "goMod"
					}
					t := f.newTmp()
					binds = append(binds, fmt.Sprintf("let %s ← %s %s %s", t, op, atomV(l.text), atomV(r.text)))
					return val{binds: binds, text: t, t: tInt}
				}
				return val{binds: binds, text: "(" + l.text + " " + x.Op.String() + " " + r.text + ")", t: tInt}
			case kFloat:
				if x.Op == token.REM {
					f.fail(x, "%% on floats")
				}
				return val{binds: binds, text: "(" + l.text + " " + x.Op.String() + " " + r.text + ")", t: tFloat}
			}
			f.fail(x, "arithmetic on %s", l.t.lean())
		case token.EQL, token.NEQ, token.LSS, token.LEQ, token.GTR, token.GEQ, token.LAND, token.LOR:
			binds, p := f.prop(x, e)
			return val{binds: binds, text: "(decide " + p + ")", t: tBool}
		}
		f.fail(x, "binary operator %s", x.Op)
	case *ast.IndexExpr:
		xs := f.expr(x.X, e, nil)
		if !xs.t.isSliceLike() {
			f.fail(x, "index into a %s", xs.t.lean())
		}
		if xs.t.k == kND1 {
			f.fail(x, "index into an ND array")
		}
		i := f.expr(x.Index, e, tInt)
		if i.t.k != kInt {
			f.fail(x.Index, "index is not an int")
		}
		text := xs.text
		if xs.t.opt {
			text = "(" + text + ".getD [])"
		}
		t := f.newTmp()
		binds := append(append([]string{}, xs.binds...), i.binds...)
		binds = append(binds, fmt.Sprintf("let %s ← getIdx %s %s", t, atomV(text), atomV(i.text)))
		return val{binds: binds, text: t, t: xs.t.elem}
	case *ast.SliceExpr:
		if x.Max != nil || x.Slice3 || (x.Low == nil && x.High == nil) {
			f.fail(x, "slice expression other than xs[k:] / arr[:k] / arr[a:b]")
		}
		xs := f.expr(x.X, e, nil)
		if xs.t.k != kSlice {
			f.fail(x, "slice of a %s", xs.t.lean())
		}
		if x.High != nil { // arr[:k], arr[a:b] of an ARRAY (len = cap: the bound check is against the length, as in Go)
			if xs.t.arr <= 0 || xs.t.opt {
				f.fail(x, "slice expression with an upper bound on something other than an array")
			}
			hi := f.expr(x.High, e, tInt)
			if hi.t.k != kInt {
				f.fail(x.High, "slice bound is not an int")
			}
			binds := append(append([]string{}, xs.binds...), hi.binds...)
			t := f.newTmp()
			binds = append(binds, fmt.Sprintf("let %s ← sliceTo %s %s", t, atomV(xs.text), atomV(hi.text)))
			rt := &ty{k: kSlice, elem: xs.t.elem}
			if x.Low == nil {
				return val{binds: binds, text: t, t: rt}
			}
			lo := f.expr(x.Low, e, tInt)
			if lo.t.k != kInt {
				f.fail(x.Low, "slice bound is not an int")
			}
			binds = append(binds, lo.binds...)
			t2 := f.newTmp()
			binds = append(binds, fmt.Sprintf("let %s ← sliceFrom %s %s", t2, t, atomV(lo.text)))
			return val{binds: binds, text: t2, t: rt}
		}
		lo := f.expr(x.Low, e, tInt)
		if lo.t.k != kInt {
			f.fail(x.Low, "slice bound is not an int")
		}
		text := xs.text
		if xs.t.opt {
			text = "(" + text + ".getD [])"
		}
		t := f.newTmp()
		binds := append(append([]string{}, xs.binds...), lo.binds...)
		binds = append(binds, fmt.Sprintf("let %s ← sliceFrom %s %s", t, atomV(text), atomV(lo.text)))
		return val{binds: binds, text: t, t: xs.t.nonOpt()}
	case *ast.SelectorExpr:
		if id, ok := unparen(x.X).(*ast.Ident); ok {
			if v, ok := f.local(id.Name, e); ok && v.t.k == kStruct {
				ft := v.t.st.field(x.Sel.Name)
				if ft == nil {
					f.fail(x, "no field %s", x.Sel.Name)
				}
				return val{text: leanIdent(id.Name) + "." + leanIdent(x.Sel.Name), t: ft}
			}
		}
		f.fail(x, "selector outside the subset")
	case *ast.CompositeLit:
		t := f.typeOf(x.Type, f.p, f.file)
		if t == nil || t.k != kSlice {
			f.fail(x, "composite literal outside the subset")
		}
		var binds []string
		var els []string
		for _, el := range x.Elts {
			if _, kv := el.(*ast.KeyValueExpr); kv {
				f.fail(x, "keyed composite literal")
			}
			v := f.expr(el, e, t.elem)
			binds = append(binds, v.binds...)
			els = append(els, f.coerce(el, v.text, v.t, t.elem))
		}
		return val{binds: binds, text: "[" + strings.Join(els, ", ") + "]", t: t}
	case *ast.CallExpr:
		return f.call(x, e, want)
	}
	f.fail(x, "expression outside the subset (%T)", x)
	return val{}
}

func reDecimal(s string) bool {
	if s == "0" {
		return true
	}
	if s == "" || s[0] == '0' {
		return false
	}
	for _, c := range s {
		if c < '0' || c > '9' {
			return false
		}
	}
	return true
}

// digits '.' digits [exponent]  — the spellings Lean's scientific literals share with Go
func reFloat(s string) bool {
	i := 0
	digits := func() int {
		n := 0
		for i < len(s) && s[i] >= '0' && s[i] <= '9' {
			i++
			n++
		}
		return n
	}
	if digits() == 0 || i >= len(s) || s[i] != '.' {
		return false
	}
	i++
	if digits() == 0 {
		return false
	}
	if i == len(s) {
		return true
	}
	if s[i] != 'e' && s[i] != 'E' {
		return false
	}
	i++
	if i < len(s) && (s[i] == '+' || s[i] == '-') {
		i++
	}
	return digits() > 0 && i == len(s)
}

// a condition as a decidable proposition
func (f *fn) prop(x ast.Expr, e *env) ([]string, string) {
	switch x := x.(type) {
	case *ast.ParenExpr:
		return f.prop(x.X, e)
	case *ast.Ident:
		if _, ok := f.local(x.Name, e); !ok {
			switch x.Name {
			case "true":
				return nil, "True"
			case "false":
				return nil, "False"
			}
		}
	case *ast.UnaryExpr:
		if x.Op == token.NOT {
			b, p := f.prop(x.X, e)
			return b, "(¬ " + p + ")"
		}
	case *ast.BinaryExpr:
		switch x.Op {
		case token.LAND, token.LOR:
			lb, lp := f.prop(x.X, e)
			rb, rp := f.prop(x.Y, e)
			if len(rb) > 0 {
				f.fail(x.Y, "right operand of %s can panic", x.Op)
			}
			op := "∧"
			if x.Op == token.LOR {
				op = "∨"
			}
			return lb, "(" + lp + " " + op + " " + rp + ")"
		case token.EQL, token.NEQ, token.LSS, token.LEQ, token.GTR, token.GEQ:
			// comparison with nil
			if isIdent(x.X, "nil") || isIdent(x.Y, "nil") {
				if x.Op != token.EQL && x.Op != token.NEQ {
					f.fail(x, "ordering comparison with nil")
				}
				other := x.X
				if isIdent(x.X, "nil") {
					other = x.Y
				}
				v := f.expr(other, e, nil)
				var p string
				switch {
				case v.t.opt:
					p = "(" + v.text + ".isNone = true)"
				case v.t.k == kErr:
					p = "(" + v.text + " = false)"
				default:
					f.fail(x, "comparison of a %s with nil", v.t.lean())
				}
				if x.Op == token.NEQ {
					p = "(¬ " + p + ")"
				}
				return v.binds, p
			}
			var l, r val
			if isUntypedConst(x.X) && !isUntypedConst(x.Y) {
				r = f.expr(x.Y, e, nil)
				l = f.expr(x.X, e, r.t)
			} else {
				l = f.expr(x.X, e, nil)
				r = f.expr(x.Y, e, l.t)
			}
			if !l.t.same(r.t) || l.t.opt {
				f.fail(x, "comparison of %s with %s", l.t.lean(), r.t.lean())
			}
			binds := append(append([]string{}, l.binds...), r.binds...)
			sym := map[token.Token]string{token.EQL: "=", token.NEQ: "≠", token.LSS: "<", token.LEQ: "≤", token.GTR: ">", token.GEQ: "≥"}[x.Op]
			switch l.t.k {
			case kInt, kUint:
				return binds, "(" + l.text + " " + sym + " " + r.text + ")"
			case kFloat:
				switch x.Op {
				case token.EQL:
					return binds, "(Num.feq " + atomV(l.text) + " " + atomV(r.text) + " = true)"
				case token.NEQ:
					return binds, "(Num.feq " + atomV(l.text) + " " + atomV(r.text) + " = false)"
				}
				return binds, "(" + l.text + " " + sym + " " + r.text + ")"
			case kBool:
				if x.Op == token.EQL || x.Op == token.NEQ {
					return binds, "(" + l.text + " " + sym + " " + r.text + ")"
				}
			}
			f.fail(x, "comparison of %s values", l.t.lean())
		}
	}
	v := f.expr(x, e, tBool)
	if v.t.k != kBool {
		f.fail(x, "condition is not a bool")
	}
	return v.binds, "(" + v.text + " = true)"
}

// ---------------------------------------------------------------------------------------------
// calls

// a call of a function of the module: the callee, the argument texts (receiver first), the binds of the arguments
func (f *fn) resolveCall(c *ast.CallExpr, e *env) (*fn, []string, []string, bool) {
	var callee *fn
	var recv ast.Expr
	switch fun := c.Fun.(type) {
	case *ast.Ident:
		if _, ok := f.local(fun.Name, e); ok {
			return nil, nil, nil, false
		}
		if _, ok := f.p.funcs[fun.Name]; !ok {
			return nil, nil, nil, false
		}
		callee = f.w.ensure(f.p.dir, "", fun.Name)
	case *ast.SelectorExpr:
		id, ok := unparen(fun.X).(*ast.Ident)
		if !ok {
			return nil, nil, nil, false
		}
		if v, ok := f.local(id.Name, e); ok {
			if v.t.k != kStruct {
				return nil, nil, nil, false
			}
			dir := ""
			for d, p := range f.w.pkgs {
				if p.structs[v.t.st.name] == v.t.st {
					dir = d
				}
			}
			callee = f.w.ensure(dir, v.t.st.name, fun.Sel.Name)
			recv = fun.X
		} else {
			path, ok := imports(f.file)[id.Name]
			if !ok || !strings.HasPrefix(path, f.w.module+"/") {
				return nil, nil, nil, false
			}
			callee = f.w.ensure(strings.TrimPrefix(path, f.w.module+"/"), "", fun.Sel.Name)
		}
	default:
		return nil, nil, nil, false
	}
	if callee.busy {
		f.fail(c, "recursion through %s", callee.goName)
	}
	if callee.status != "ok" {
		f.fail(c, "calls %s, which is not translated (%s: %s)", callee.goName, callee.status, callee.reason)
	}
	if c.Ellipsis.IsValid() {
		f.fail(c, "variadic call")
	}
	seen := false
	for _, k := range f.calls {
		seen = seen || k == callee
	}
	if !seen {
		f.calls = append(f.calls, callee)
	}
	for _, s := range callee.structs {
		f.useStruct(s)
	}
	actual := c.Args
	if recv != nil {
		actual = append([]ast.Expr{recv}, c.Args...)
	}
	if len(actual) != len(callee.params) {
		f.fail(c, "argument count of %s", callee.goName)
	}
	var args, binds []string
	for i, a := range actual {
		v := f.expr(a, e, callee.params[i].t)
		binds = append(binds, v.binds...)
		args = append(args, f.coerce(a, v.text, v.t, callee.params[i].t))
	}
	return callee, args, binds, true
}

func (f *fn) call(c *ast.CallExpr, e *env, want *ty) val {
	shadowed := func(name string) bool { _, ok := f.local(name, e); return ok }
	if id, ok := c.Fun.(*ast.Ident); ok && !shadowed(id.Name) {
		if _, userDefined := f.p.funcs[id.Name]; !userDefined {
			switch id.Name {
			case "len":
				if len(c.Args) != 1 {
					f.fail(c, "len")
				}
				v := f.expr(c.Args[0], e, nil)
				if !v.t.isSliceLike() {
					f.fail(c, "len of a %s", v.t.lean())
				}
				text := v.text
				if v.t.opt {
					text = "(" + text + ".getD [])"
				}
				return val{binds: v.binds, text: "(" + text + ".length : Int)", t: tInt}
			case "make":
				if len(c.Args) < 2 || len(c.Args) > 3 {
					f.fail(c, "make")
				}
				t := f.typeOf(c.Args[0], f.p, f.file)
				if t == nil || t.k != kSlice || t.elem.zero() == "" {
					f.fail(c, "make of something that is not a slice of the subset")
				}
				n := f.expr(c.Args[1], e, tInt)
				if n.t.k != kInt {
					f.fail(c, "make with a length that is not an int")
				}
				binds := n.binds
				if len(c.Args) == 3 { // the capacity is evaluated (it may panic) but has no other effect in the subset
					cp := f.expr(c.Args[2], e, tInt)
					if cp.t.k != kInt {
						f.fail(c, "make with a capacity that is not an int")
					}
					binds = append(binds, cp.binds...)
					if !sameExpr(c.Args[1], c.Args[2]) && !f.selfAppendsOnly() {
						// spare capacity shows only when two slices built by append from one share storage
						f.fail(c, "make with a capacity different from the length in a function that appends to another variable's slice")
					}
				}
				tmp := f.newTmp()
				binds = append(binds, fmt.Sprintf("let %s ← goMake %s (%s : %s)", tmp, atomV(n.text), t.elem.zero(), t.elem.lean()))
				return val{binds: binds, text: tmp, t: t}
			case "append":
				if len(c.Args) < 1 || c.Ellipsis.IsValid() {
					f.fail(c, "append")
				}
				xs := f.expr(c.Args[0], e, want)
				if xs.t.k != kSlice || xs.t.opt {
					f.fail(c, "append to a %s", xs.t.lean())
				}
				if id, ok := unparen(c.Args[0]).(*ast.Ident); ok && f.idxWritten[id.Name] {
					f.fail(c, "append to a slice that is written by index (aliasing)")
				}
				binds := xs.binds
				var els []string
				for _, a := range c.Args[1:] {
					v := f.expr(a, e, xs.t.elem)
					binds = append(binds, v.binds...)
					els = append(els, f.coerce(a, v.text, v.t, xs.t.elem))
				}
				return val{binds: binds, text: "(" + xs.text + " ++ [" + strings.Join(els, ", ") + "])", t: xs.t}
			case "int", "uint":
				if len(c.Args) != 1 {
					f.fail(c, "conversion")
				}
				target := tInt
				if id.Name == "uint" {
					target = tUint
				}
				if isUntypedConst(c.Args[0]) {
					return f.expr(c.Args[0], e, target)
				}
				v := f.expr(c.Args[0], e, nil)
				switch {
				case v.t.k == target.k:
					return v
				case v.t.k == kInt && target.k == kUint:
					return val{binds: v.binds, text: "(toUint " + atomV(v.text) + ")", t: tUint}
				case v.t.k == kUint && target.k == kInt:
					f.note("int(x) of a uint x is x (values below 2^63)")
					return val{binds: v.binds, text: "(Int.ofNat " + atomV(v.text) + ")", t: tInt}
				}
				f.fail(c, "conversion of a %s to %s", v.t.lean(), id.Name)
			case "panic":
				f.fail(c, "panic in an expression")
			}
		}
		if v, ok := f.local(id.Name, e); ok || false {
			_ = v
		}
	}
	// a callback
	if id, ok := c.Fun.(*ast.Ident); ok {
		if v, ok := f.local(id.Name, e); ok {
			if v.t.k != kFunc {
				f.fail(c, "call of %s, which is not a function", id.Name)
			}
			if v.t.opt {
				f.fail(c, "call of %s, which may be nil here", id.Name)
			}
			if len(c.Args) != 1 {
				f.fail(c, "argument count")
			}
			a := f.expr(c.Args[0], e, tFloat)
			if a.t.k != kFloat {
				f.fail(c, "argument type")
			}
			return val{binds: a.binds, text: "(" + leanIdent(id.Name) + " " + atomV(a.text) + ")", t: tFloat}
		}
	}
	if sel, ok := c.Fun.(*ast.SelectorExpr); ok {
		if id, ok := unparen(sel.X).(*ast.Ident); ok {
			if v, ok := f.local(id.Name, e); ok {
				if v.t.k == kND1 && !v.t.opt {
					switch sel.Sel.Name {
					case "Len1":
						if len(c.Args) == 0 {
							return val{text: "(" + leanIdent(id.Name) + ".length : Int)", t: tInt}
						}
					case "Get":
						if len(c.Args) == 1 {
							a := f.expr(c.Args[0], e, nil)
							if a.t.k == kSlice && a.t.elem.k == kInt && !a.t.opt {
								t := f.newTmp()
								return val{binds: append(a.binds, fmt.Sprintf("let %s ← nd1Get %s %s", t, leanIdent(id.Name), atomV(a.text))), text: t, t: tFloat}
							}
						}
					case "Get1":
						if len(c.Args) == 1 {
							a := f.expr(c.Args[0], e, tInt)
							if a.t.k == kInt {
								t := f.newTmp()
								return val{binds: append(a.binds, fmt.Sprintf("let %s ← getIdx %s %s", t, leanIdent(id.Name), atomV(a.text))), text: t, t: tFloat}
							}
						}
					}
					f.fail(c, "method %s of an ND array", sel.Sel.Name)
				}
			} else {
				switch imports(f.file)[id.Name] {
				case "math":
					if sel.Sel.Name == "Abs" && len(c.Args) == 1 {
						a := f.expr(c.Args[0], e, tFloat)
						if a.t.k == kFloat {
							return val{binds: a.binds, text: "(Num.abs " + atomV(a.text) + ")", t: tFloat}
						}
					}
					f.fail(c, "math.%s", sel.Sel.Name)
				case "errors", "fmt":
					if (sel.Sel.Name == "New" || sel.Sel.Name == "Errorf") && want != nil && want.k == kErr {
						f.note("the value of an error is not modelled (err != nil only); the arguments of " + id.Name + "." + sel.Sel.Name + " are not evaluated")
						return val{text: "true", t: tErr}
					}
				}
			}
		}
	}
	callee, args, binds, ok := f.resolveCall(c, e)
	if !ok {
		f.fail(c, "call outside the subset")
	}
	if len(callee.mut) > 0 {
		f.fail(c, "%s updates an argument in place: only supported as a statement", callee.goName)
	}
	if len(callee.results) == 0 {
		f.fail(c, "%s has no result", callee.goName)
	}
	t := f.newTmp()
	binds = append(binds, fmt.Sprintf("let %s ← %s%s", t, callee.leanName, joinArgs(args)))
	return val{binds: binds, text: t, t: callee.ret}
}

func (f *fn) note(s string) {
	for _, a := range f.assumptions {
		if a == s {
			return
		}
	}
	f.assumptions = append(f.assumptions, s)
}

func sameExpr(a, b ast.Expr) bool {
	return fmt.Sprintf("%#v", stripPos(a)) == fmt.Sprintf("%#v", stripPos(b))
}

// a position-free rendering of a (small) expression
func stripPos(e ast.Expr) string {
	switch e := e.(type) {
	case *ast.Ident:
		return e.Name
	case *ast.BasicLit:
		return e.Value
	case *ast.ParenExpr:
		return "(" + stripPos(e.X) + ")"
	case *ast.CallExpr:
		s := stripPos(e.Fun) + "("
		for _, a := range e.Args {
			s += stripPos(a) + ","
		}
		return s + ")"
	case *ast.BinaryExpr:
		return stripPos(e.X) + e.Op.String() + stripPos(e.Y)
	case *ast.SelectorExpr:
		return stripPos(e.X) + "." + e.Sel.Name
	}
	return fmt.Sprintf("?%p", e)
}

// a package-level `var T = [...]int{literals}` (or `[]int{…}`) that no function of the package assigns to: its value
func (f *fn) globalTable(id *ast.Ident) (string, *ty) {
	vs, ok := f.p.vars[id.Name]
	if !ok {
		return "", nil
	}
	cl, ok := vs.Values[0].(*ast.CompositeLit)
	if !ok || cl.Type == nil {
		return "", nil
	}
	t := f.typeOf(cl.Type, f.p, f.p.vfile[id.Name])
	if t == nil || t.k != kSlice || t.elem.k != kInt {
		return "", nil
	}
	var els []string
	for _, el := range cl.Elts {
		l, ok := el.(*ast.BasicLit)
		if !ok || l.Kind != token.INT || !reDecimal(l.Value) {
			return "", nil
		}
		els = append(els, l.Value)
	}
	// the table must be constant: no assignment to it (or to one of its elements) anywhere in the package
	names := make([]string, 0, len(f.p.files))
	for n := range f.p.files {
		names = append(names, n)
	}
	sort.Strings(names)
	for _, fnm := range names {
		var bad ast.Node
		ast.Inspect(f.p.files[fnm], func(n ast.Node) bool {
			check := func(l ast.Expr) {
				for {
					switch x := unparen(l).(type) {
					case *ast.IndexExpr:
						l = x.X
						continue
					case *ast.SliceExpr:
						l = x.X
						continue
					case *ast.Ident:
						if x.Name == id.Name && bad == nil {
							bad = n
						}
					}
					return
				}
			}
			switch n := n.(type) {
			case *ast.AssignStmt:
				for _, l := range n.Lhs {
					check(l)
				}
			case *ast.IncDecStmt:
				check(n.X)
			case *ast.UnaryExpr:
				if n.Op == token.AND {
					check(n.X)
				}
			case *ast.RangeStmt:
				if n.Key != nil {
					check(n.Key)
				}
				if n.Value != nil {
					check(n.Value)
				}
			}
			return true
		})
		if bad != nil {
			pos := f.w.fset.Position(bad.Pos())
			f.fail(id, "package variable %s is assigned (or its address taken) at %s/%s:%d, so it is not the constant table of its declaration;",
				id.Name, f.p.dir, baseName(pos.Filename), pos.Line)
		}
	}
	f.note("package variable " + id.Name + " is read as the constant table of its declaration (no code of the package assigns to it; other packages are not scanned)")
	return "[" + strings.Join(els, ", ") + "]", t
}
