package main

import (
	"fmt"
	"go/ast"
	"go/token"
	"strconv"
	"strings"
)

type kind int

const (
	kInt kind = iota
	kUint
	kBool
	kFloat
	kErr
	kSlice
	kStruct
	kFunc // func(float64) float64
	kND1  // data.ND1Float64
	kTuple
)

type ty struct {
	k     kind
	elem  *ty
	opt   bool // may be nil in Go and is represented as Option
	st    *structInfo
	parts []*ty // kTuple
	arr   int   // > 0: a Go array `[arr]T` (a list of exactly that many elements; its zero value holds arr zero elements)
}

var (
	tInt   = &ty{k: kInt}
	tUint  = &ty{k: kUint}
	tBool  = &ty{k: kBool}
	tFloat = &ty{k: kFloat}
	tErr   = &ty{k: kErr}
)

func (t *ty) base() string {
	switch t.k {
	case kInt:
		return "Int"
	case kUint:
		return "Nat"
	case kBool, kErr:
		return "Bool"
	case kFloat:
		return "α"
	case kSlice:
		return "List " + atom(t.elem.lean())
	case kStruct:
		return t.st.leanName
	case kFunc:
		return "α → α"
	case kND1:
		return "List α"
	case kTuple:
		var ps []string
		for _, p := range t.parts {
			ps = append(ps, atomProd(p.lean()))
		}
		if len(ps) == 0 {
			return "Unit"
		}
		return strings.Join(ps, " × ")
	}
	return "?"
}

func (t *ty) lean() string {
	if t.opt {
		return "Option " + atom(t.base())
	}
	return t.base()
}

func (t *ty) usesFloat() bool {
	switch t.k {
	case kFloat, kFunc, kND1:
		return true
	case kSlice:
		return t.elem.usesFloat()
	case kStruct:
		return t.st.float
	case kTuple:
		for _, p := range t.parts {
			if p.usesFloat() {
				return true
			}
		}
	}
	return false
}

func (t *ty) nonOpt() *ty {
	c := *t
	c.opt = false
	return &c
}

func (t *ty) isSliceLike() bool { return t.k == kSlice || t.k == kND1 }

func (t *ty) same(u *ty) bool {
	if t.k != u.k || t.opt != u.opt {
		return false
	}
	switch t.k {
	case kSlice:
		return t.elem.same(u.elem)
	case kStruct:
		return t.st == u.st
	case kTuple:
		if len(t.parts) != len(u.parts) {
			return false
		}
		for i := range t.parts {
			if !t.parts[i].same(u.parts[i]) {
				return false
			}
		}
	}
	return true
}

// the Go zero value
func (t *ty) zero() string {
	if t.opt {
		return "none"
	}
	switch t.k {
	case kInt, kUint:
		return "0"
	case kBool, kErr:
		return "false"
	case kFloat:
		return "Num.zero"
	case kSlice, kND1:
		if t.arr > 0 && t.elem != nil && t.elem.zero() != "" {
			return fmt.Sprintf("(List.replicate %d (%s : %s))", t.arr, t.elem.zero(), t.elem.lean())
		}
		return "[]"
	}
	return ""
}

// parenthesise a type that is not a single token
func atom(s string) string {
	if strings.ContainsAny(s, " ") && !(strings.HasPrefix(s, "(") && strings.HasSuffix(s, ")")) {
		return "(" + s + ")"
	}
	return s
}

// a component of a product type: function arrows and products need parentheses, applications do not
func atomProd(s string) string {
	if strings.Contains(s, "→") || strings.Contains(s, "×") {
		return "(" + s + ")"
	}
	return s
}

type field struct {
	name string
	t    *ty
}

type structInfo struct {
	name, leanName string
	fields         []field
	text           string
	float          bool
}

func (s *structInfo) field(name string) *ty {
	for _, f := range s.fields {
		if f.name == name {
			return f.t
		}
	}
	return nil
}

var leanKeywords = map[string]bool{"end": true, "from": true, "at": true, "fun": true, "open": true, "in": true, "then": true, "do": true,
	"let": true, "have": true, "show": true, "by": true, "match": true, "with": true, "where": true, "def": true, "theorem": true,
	"instance": true, "class": true, "structure": true, "namespace": true, "section": true, "variable": true, "universe": true,
	"import": true, "mut": true, "Type": true, "Prop": true, "Sort": true, "if": true, "else": true, "for": true, "return": true,
	"mutual": true, "inductive": true, "abbrev": true, "example": true, "axiom": true, "opaque": true, "private": true,
	"protected": true, "deriving": true, "macro": true, "syntax": true, "notation": true, "infix": true, "prefix": true,
	"postfix": true, "using": true, "calc": true, "nomatch": true, "nofun": true, "try": true, "catch": true, "finally": true,
	"unless": true, "break": true, "continue": true, "exact": true, "pure": true, "some": true, "none": true, "this": true,
	"α": true, "R": true, "Ctl": true}

func leanIdent(s string) string {
	if leanKeywords[s] || strings.HasPrefix(s, "_") || strings.HasPrefix(s, "go_") {
		return "go_" + s
	}
	return s
}

func (f *fn) fail(n ast.Node, format string, a ...interface{}) {
	pos := ""
	if n != nil {
		p := f.w.fset.Position(n.Pos())
		pos = fmt.Sprintf(" at %s:%d", f.relFile, p.Line)
	}
	panic(unsupported{fmt.Sprintf(format, a...) + pos})
}

// the type a Go type expression denotes in this subset (nil: outside the subset)
func (f *fn) typeOf(t ast.Expr, p *pkg, file *ast.File) *ty {
	switch t := t.(type) {
	case *ast.Ident:
		switch t.Name {
		case "int":
			return tInt
		case "uint":
			return tUint
		case "bool":
			return tBool
		case "float64":
			return tFloat
		case "error":
			return tErr
		}
		if ts, ok := p.types[t.Name]; ok {
			if st, ok := ts.Type.(*ast.StructType); ok {
				si := f.structOf(p, t.Name, st)
				if si == nil {
					return nil
				}
				return &ty{k: kStruct, st: si}
			}
		}
	case *ast.StarExpr:
		r := f.typeOf(t.X, p, file)
		if r != nil && r.k == kStruct {
			return r
		}
	case *ast.ArrayType: // an array `[n]T` / `[...]T` is indexed like a slice (only read in this subset)
		el := f.typeOf(t.Elt, p, file)
		if el == nil || el.k == kFunc || el.k == kStruct || el.k == kND1 {
			return nil
		}
		if el.k == kSlice {
			c := *el
			c.opt = true // inner slices may be nil
			el = &c
		}
		n := 0
		if bl, ok := t.Len.(*ast.BasicLit); ok && bl.Kind == token.INT {
			if v, err := strconv.Atoi(bl.Value); err == nil && v > 0 && v <= 64 {
				n = v
			}
		}
		return &ty{k: kSlice, elem: el, arr: n}
	case *ast.SelectorExpr:
		if x, ok := t.X.(*ast.Ident); ok {
			if imports(file)[x.Name] == f.w.module+"/data" && t.Sel.Name == "ND1Float64" {
				return &ty{k: kND1, elem: tFloat}
			}
		}
	case *ast.FuncType:
		if t.Params != nil && t.Results != nil && len(t.Params.List) == 1 && len(t.Results.List) == 1 &&
			len(t.Params.List[0].Names) <= 1 && len(t.Results.List[0].Names) <= 1 {
			a := f.typeOf(t.Params.List[0].Type, p, file)
			r := f.typeOf(t.Results.List[0].Type, p, file)
			if a != nil && r != nil && a.k == kFloat && r.k == kFloat {
				return &ty{k: kFunc}
			}
		}
	}
	return nil
}

func (f *fn) structOf(p *pkg, name string, st *ast.StructType) *structInfo {
	if si, ok := p.structs[name]; ok {
		f.useStruct(si)
		return si
	}
	si := &structInfo{name: name, leanName: p.name + "." + name}
	for _, fl := range st.Fields.List {
		if len(fl.Names) == 0 {
			return nil // embedded field
		}
		t := f.typeOf(fl.Type, p, p.tfile[name])
		if t == nil || t.k == kStruct || t.k == kFunc {
			return nil
		}
		for _, n := range fl.Names {
			si.fields = append(si.fields, field{n.Name, t})
			if t.usesFloat() {
				si.float = true
			}
		}
	}
	if si.float {
		return nil // structures with float fields are not needed by the functions of the table
	}
	var b strings.Builder
	pos := f.w.fset.Position(p.types[name].Pos())
	fmt.Fprintf(&b, "/-- %s/%s:%d  type %s struct -/\nstructure %s where\n", p.dir, baseName(pos.Filename), pos.Line, name, si.leanName)
	for _, fl := range si.fields {
		fmt.Fprintf(&b, "  %s : %s\n", leanIdent(fl.name), fl.t.lean())
	}
	b.WriteString("  deriving Repr, DecidableEq\n")
	si.text = b.String()
	p.structs[name] = si
	f.useStruct(si)
	return si
}

func (f *fn) useStruct(si *structInfo) {
	for _, s := range f.structs {
		if s == si {
			return
		}
	}
	f.structs = append(f.structs, si)
}

func baseName(s string) string { return s[strings.LastIndex(s, "/")+1:] }
