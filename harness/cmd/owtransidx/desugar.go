package main

import (
	"fmt"
	"go/ast"
	"go/token"
)

// ---- syntactic normalisation of the parsed source, applied once to every file as it is loaded (before any analysis), so
// that equal programs written with different statement forms reach the translator as the SAME statements:
//
//	if init; cond { A } else { B }          ↦  { init; if cond { A } else { B } }
//	switch init; { case a, b: A; case c: B; default: C }
//	                                        ↦  { init; if a || b { A } else if c { B } else { C } }     (default may stand anywhere)
//	switch init; tag { case u, v: A; default: C }
//	                                        ↦  { init; if tag == u || tag == v { A } else { C } }       (tag: an identifier, a selector or a
//	                                           literal; any other tag is first bound to a fresh local `switchTagN`)
//
// A switch that contains `fallthrough`, or a `break` that binds to it, is left as it is (the translators refuse it). All of these
// rewritings are Go's own definition of the statement (spec: "If statements", "Expression switches"): cases are tried top to bottom,
// the first true one is taken, the tag is evaluated once.

type desugarer struct{ n int }

func desugarFile(f *ast.File) {
	d := &desugarer{}
	for _, decl := range f.Decls {
		if fd, ok := decl.(*ast.FuncDecl); ok && fd.Body != nil {
			d.block(fd.Body)
		}
	}
}

func (d *desugarer) block(b *ast.BlockStmt) {
	if b == nil {
		return
	}
	for i, s := range b.List {
		b.List[i] = d.stmt(s)
	}
}

// function literals inside expressions
func (d *desugarer) exprs(n ast.Node) {
	if n == nil {
		return
	}
	ast.Inspect(n, func(x ast.Node) bool {
		if lit, ok := x.(*ast.FuncLit); ok {
			d.block(lit.Body)
			return false
		}
		return true
	})
}

func (d *desugarer) stmt(s ast.Stmt) ast.Stmt {
	switch s := s.(type) {
	case *ast.BlockStmt:
		d.block(s)
	case *ast.LabeledStmt:
		s.Stmt = d.stmt(s.Stmt)
	case *ast.ForStmt:
		d.exprs(s.Cond)
		d.block(s.Body)
	case *ast.RangeStmt:
		d.exprs(s.X)
		d.block(s.Body)
	case *ast.IfStmt:
		d.exprs(s.Cond)
		d.block(s.Body)
		if s.Else != nil {
			s.Else = d.stmt(s.Else)
		}
		if s.Init != nil {
			init := d.stmt(s.Init)
			s.Init = nil
			return &ast.BlockStmt{Lbrace: s.If, List: []ast.Stmt{init, s}, Rbrace: s.End()}
		}
	case *ast.SwitchStmt:
		for _, c := range s.Body.List {
			cc := c.(*ast.CaseClause)
			for i, st := range cc.Body {
				cc.Body[i] = d.stmt(st)
			}
			for _, e := range cc.List {
				d.exprs(e)
			}
		}
		d.exprs(s.Tag)
		if r := d.switchStmt(s); r != nil {
			return r
		}
	case *ast.TypeSwitchStmt:
		for _, c := range s.Body.List {
			cc := c.(*ast.CaseClause)
			for i, st := range cc.Body {
				cc.Body[i] = d.stmt(st)
			}
		}
	case *ast.SelectStmt:
		for _, c := range s.Body.List {
			cc := c.(*ast.CommClause)
			for i, st := range cc.Body {
				cc.Body[i] = d.stmt(st)
			}
		}
	default:
		d.exprs(s)
	}
	return s
}

// a `break` that binds to this switch, or a `fallthrough`
func switchEscapes(s *ast.SwitchStmt) bool {
	found := false
	var walk func(n ast.Node)
	walk = func(n ast.Node) {
		ast.Inspect(n, func(x ast.Node) bool {
			switch b := x.(type) {
			case *ast.BranchStmt:
				if b.Tok == token.FALLTHROUGH || (b.Tok == token.BREAK && b.Label == nil) {
					found = true
				}
				if b.Label != nil { // a labelled branch may target this statement: not analysed
					found = true
				}
			case *ast.ForStmt, *ast.RangeStmt, *ast.SwitchStmt, *ast.TypeSwitchStmt, *ast.SelectStmt:
				if x != ast.Node(s) {
					// an unlabelled break inside binds to that statement; fallthrough / labels are still looked for
					ast.Inspect(x, func(y ast.Node) bool {
						if b, ok := y.(*ast.BranchStmt); ok && b.Label != nil {
							found = true
						}
						if _, ok := y.(*ast.FuncLit); ok {
							return false
						}
						return true
					})
					return false
				}
			case *ast.FuncLit:
				return false
			}
			return !found
		})
	}
	walk(s)
	return found
}

func (d *desugarer) switchStmt(s *ast.SwitchStmt) ast.Stmt {
	if switchEscapes(s) {
		return nil
	}
	var pre []ast.Stmt
	if s.Init != nil {
		pre = append(pre, d.stmt(s.Init))
	}
	tag := s.Tag
	if tag != nil {
		switch unparenExpr(tag).(type) {
		case *ast.Ident, *ast.BasicLit, *ast.SelectorExpr:
		default: // evaluated once
			d.n++
			id := &ast.Ident{NamePos: tag.Pos(), Name: fmt.Sprintf("switchTag%d", d.n)}
			pre = append(pre, &ast.AssignStmt{Lhs: []ast.Expr{id}, TokPos: tag.Pos(), Tok: token.DEFINE, Rhs: []ast.Expr{tag}})
			tag = &ast.Ident{NamePos: tag.Pos(), Name: id.Name}
		}
	}
	var def *ast.CaseClause
	var cases []*ast.CaseClause
	for _, c := range s.Body.List {
		cc := c.(*ast.CaseClause)
		if cc.List == nil {
			def = cc
			continue
		}
		cases = append(cases, cc)
	}
	var chain ast.Stmt // built from the last case backwards
	if def != nil {
		chain = &ast.BlockStmt{Lbrace: def.Colon, List: def.Body, Rbrace: def.End()}
	}
	for i := len(cases) - 1; i >= 0; i-- {
		cc := cases[i]
		var cond ast.Expr
		for _, e := range cc.List {
			c := e
			if tag != nil {
				c = &ast.BinaryExpr{X: tag, OpPos: e.Pos(), Op: token.EQL, Y: e}
			}
			if cond == nil {
				cond = c
			} else {
				cond = &ast.BinaryExpr{X: cond, OpPos: e.Pos(), Op: token.LOR, Y: c}
			}
		}
		chain = &ast.IfStmt{If: cc.Case, Cond: cond, Body: &ast.BlockStmt{Lbrace: cc.Colon, List: cc.Body, Rbrace: cc.End()}, Else: chain}
	}
	if chain == nil {
		chain = &ast.EmptyStmt{Semicolon: s.Switch}
	}
	if len(pre) == 0 {
		if _, isIf := chain.(*ast.IfStmt); isIf {
			return chain
		}
	}
	return &ast.BlockStmt{Lbrace: s.Switch, List: append(pre, chain), Rbrace: s.End()}
}

func unparenExpr(e ast.Expr) ast.Expr {
	for {
		p, ok := e.(*ast.ParenExpr)
		if !ok {
			return e
		}
		e = p.X
	}
}
